#!/bin/bash
# Build the static checker offline from files on disk.
set -e
cd "$(dirname "$0")/checker"
export GOFLAGS=-mod=mod GOPROXY=off GOSUMDB=off GOTOOLCHAIN=local GOWORK=off
mkdir -p ../bin
go build -o ../bin/verifcheck .
