#!/bin/bash
# Build the static checker offline from files on disk.
set -e
cd "$(dirname "$0")/checker"
export GOFLAGS=-mod=mod GOPROXY=off GOSUMDB=off GOTOOLCHAIN=local GOWORK=off
mkdir -p ../bin
go build -o ../bin/verifcheck .
# Prime the Go build cache for the way the checker loads /repo (export data built with -trimpath, so that the cache is
# shared between /repo and the scratch copies of the thorough tier). Best effort: a failure here does not fail the set-up,
# the first check then pays for it. Evidence of this run goes to a scratch directory that is removed again.
warm=$(mktemp -d /var/tmp/verif-warm-XXXXXX)
timeout 420 ../bin/verifcheck -p C35 -tier quick -verif "$warm" >/dev/null 2>&1 || true
rm -rf "$warm"
