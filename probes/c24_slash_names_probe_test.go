package etcdv3

import (
	"context"
	"testing"

	"github.com/projecteru2/core/types"
	"github.com/projecteru2/core/utils"
)

// application "shop/web" with entrypoint "api" and application "shop" with entrypoint "web/api" are different
// applications; both names pass request validation. Counting deployments of one must not see the other's workloads.
func TestProbeD21SlashInNames(t *testing.T) {
	m := NewMercury(t)
	ctx := context.Background()
	opts := &types.DeployOptions{Name: "shop/web", Podname: "p", Image: "i", Count: 1, Entrypoint: &types.Entrypoint{Name: "api"}}
	if err := opts.Validate(); err != nil {
		t.Skipf("names with a slash are rejected by validation: %v", err)
	}
	w := &types.Workload{ID: "1234567812345678123456781234567812345678123456781234567812345678", Nodename: "n1", Podname: "p",
		Name: utils.MakeWorkloadName("shop/web", "api", "abcdef")}
	if err := m.AddWorkload(ctx, w, nil); err != nil {
		t.Fatal(err)
	}
	got, err := m.GetDeployStatus(ctx, "shop", "web/api")
	if err != nil {
		t.Fatal(err)
	}
	if len(got) != 0 {
		t.Fatalf("application shop / entrypoint web/api has no workload, but its deploy status is %v", got)
	}
}
