package strategy
import ("context";"testing")
func TestProbeD1(t *testing.T) {
	infos := []Info{{Nodename:"A",Capacity:1,Usage:0.1},{Nodename:"B",Capacity:2,Usage:0.9}}
	r, err := DrainedPlan(context.Background(), infos, 1, 3, 0)
	t.Logf("%v %v", r, err)
	if r["A"] != 1 { t.Fatalf("smaller node A skipped: %v", r) }
}
