package simple

// Probe for C35 (kept under /verif/probes; copy into auth/simple of a scratch copy to run):
// a client and a server configured with the same mixed-case username over a real gRPC connection.

import (
	"context"
	"net"
	"testing"
	"time"

	"google.golang.org/grpc"
	"google.golang.org/grpc/credentials/insecure"
	"google.golang.org/grpc/health"
	healthpb "google.golang.org/grpc/health/grpc_health_v1"
)

func probeC35(t *testing.T, user, pass string) error {
	lis, err := net.Listen("tcp", "127.0.0.1:0")
	if err != nil {
		t.Skip(err)
	}
	a := NewBasicAuth(user, pass)
	s := grpc.NewServer(grpc.UnaryInterceptor(a.UnaryInterceptor), grpc.StreamInterceptor(a.StreamInterceptor))
	healthpb.RegisterHealthServer(s, health.NewServer())
	go s.Serve(lis) //nolint
	defer s.Stop()
	conn, err := grpc.Dial(lis.Addr().String(), grpc.WithTransportCredentials(insecure.NewCredentials()), grpc.WithPerRPCCredentials(NewBasicCredential(user, pass)))
	if err != nil {
		t.Fatal(err)
	}
	defer conn.Close()
	ctx, cancel := context.WithTimeout(context.Background(), 5*time.Second)
	defer cancel()
	_, err = healthpb.NewHealthClient(conn).Check(ctx, &healthpb.HealthCheckRequest{})
	return err
}

func TestProbeC35SameCredentials(t *testing.T) {
	for _, u := range []string{"admin", "Admin", "ADMIN-1", "a.b_c"} {
		if err := probeC35(t, u, "Pa:ss w0rd"); err != nil {
			t.Errorf("username %q: client with the server's own credentials rejected: %v", u, err)
		}
	}
}
