package docker

import (
	"context"
	"testing"

	dockertypes "github.com/docker/docker/api/types"
	dockercontainer "github.com/docker/docker/api/types/container"
	dockerapi "github.com/docker/docker/client"
	"github.com/stretchr/testify/assert"

	resourcetypes "github.com/projecteru2/core/resource/types"
	coretypes "github.com/projecteru2/core/types"
)

type probeClient struct {
	dockerapi.APIClient
	updated *dockercontainer.UpdateConfig
}

func (c *probeClient) DaemonHost() string { return "tcp://127.0.0.1:2376" }
func (c *probeClient) Info(context.Context) (dockertypes.Info, error) {
	return dockertypes.Info{ID: "n", NCPU: 4}, nil
}
func (c *probeClient) ContainerUpdate(_ context.Context, _ string, u dockercontainer.UpdateConfig) (dockercontainer.ContainerUpdateOKBody, error) {
	c.updated = &u
	return dockercontainer.ContainerUpdateOKBody{}, nil
}

// C31: re-allocating an UNBOUND workload (cpumem CalculateRealloc: engine params {cpu: limit, memory, remap: false},
// no cpu_map) must leave it with a CPU quota equal to its limit.
func TestProbeC31UpdateOfUnboundWorkloadKeepsQuota(t *testing.T) {
	client := &probeClient{}
	cfg := coretypes.Config{}
	cfg.Scheduler.ShareBase = 100
	e := &Engine{client: client, config: cfg}
	params := resourcetypes.Resources{"cpumem": resourcetypes.RawParams{"cpu": 0.5, "memory": int64(1) << 30, "remap": false}}
	assert.NoError(t, e.VirtualizationUpdateResource(context.Background(), "id", params))
	if assert.NotNil(t, client.updated) {
		assert.EqualValues(t, 50000, client.updated.Resources.CPUQuota, "an unbound workload with CPU limit 0.5 must get quota 0.5 x period; it got %d (−1 = unlimited)", client.updated.Resources.CPUQuota)
	}
}

// C31: a bound workload whose CPU limit is 0 (cpu-bind with cpu-request 1, cpu-limit 0 passes validation; the engine
// parameter "cpu" is the limit) must stay pinned to its cores when its resources are updated.
func TestProbeC31UpdateOfBoundWorkloadWithZeroLimitStaysPinned(t *testing.T) {
	client := &probeClient{}
	cfg := coretypes.Config{}
	cfg.Scheduler.ShareBase = 100
	e := &Engine{client: client, config: cfg}
	params := resourcetypes.Resources{"cpumem": resourcetypes.RawParams{"cpu": 0.0, "cpu_map": map[string]any{"2": int64(100)}, "numa_node": "1", "memory": int64(1) << 30, "remap": false}}
	assert.NoError(t, e.VirtualizationUpdateResource(context.Background(), "id", params))
	if assert.NotNil(t, client.updated) {
		assert.Equal(t, "2", client.updated.Resources.CpusetCpus, "the workload is bound to core 2; after the update its cpuset is %q", client.updated.Resources.CpusetCpus)
		assert.Equal(t, "1", client.updated.Resources.CpusetMems)
	}
}
