package docker

import (
	"context"
	"testing"

	dockertypes "github.com/docker/docker/api/types"
	dockercontainer "github.com/docker/docker/api/types/container"
	dockerapi "github.com/docker/docker/client"
	"github.com/stretchr/testify/assert"

	resourcetypes "github.com/projecteru2/core/resource/types"
	coretypes "github.com/projecteru2/core/types"
)

type probeClient struct {
	dockerapi.APIClient
	updated *dockercontainer.UpdateConfig
}

func (c *probeClient) DaemonHost() string { return "tcp://127.0.0.1:2376" }
func (c *probeClient) Info(context.Context) (dockertypes.Info, error) {
	return dockertypes.Info{ID: "n", NCPU: 4}, nil
}
func (c *probeClient) ContainerUpdate(_ context.Context, _ string, u dockercontainer.UpdateConfig) (dockercontainer.ContainerUpdateOKBody, error) {
	c.updated = &u
	return dockercontainer.ContainerUpdateOKBody{}, nil
}

// C31: re-allocating an UNBOUND workload (cpumem CalculateRealloc: engine params {cpu: limit, memory, remap: false},
// no cpu_map) must leave it with a CPU quota equal to its limit.
func TestProbeC31UpdateOfUnboundWorkloadKeepsQuota(t *testing.T) {
	client := &probeClient{}
	cfg := coretypes.Config{}
	cfg.Scheduler.ShareBase = 100
	e := &Engine{client: client, config: cfg}
	params := resourcetypes.Resources{"cpumem": resourcetypes.RawParams{"cpu": 0.5, "memory": int64(1) << 30, "remap": false}}
	assert.NoError(t, e.VirtualizationUpdateResource(context.Background(), "id", params))
	if assert.NotNil(t, client.updated) {
		assert.EqualValues(t, 50000, client.updated.Resources.CPUQuota, "an unbound workload with CPU limit 0.5 must get quota 0.5 x period; it got %d (−1 = unlimited)", client.updated.Resources.CPUQuota)
	}
}
