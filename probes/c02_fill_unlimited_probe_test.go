package strategy

import (
	"context"
	"math"
	"testing"

	"github.com/stretchr/testify/assert"
)

// C02: a request without memory request and without CPU binding gives every node the capacity math.MaxInt
// (cpumem doGetNodeDeployCapacity); FILL on a node that already runs one instance must top it up.
func TestProbeC02FillUnlimitedCapacity(t *testing.T) {
	infos := []Info{{Nodename: "n1", Capacity: math.MaxInt, Count: 1}, {Nodename: "n2", Capacity: math.MaxInt, Count: 0}}
	r, err := FillPlan(context.Background(), infos, 3, math.MaxInt, 0)
	assert.NoError(t, err, "both nodes can take any number of instances")
	assert.Equal(t, map[string]int{"n1": 2, "n2": 3}, r)
}
