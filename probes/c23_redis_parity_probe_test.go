package redis

import "context"

// D18: removing a pod that does not exist (etcd: ErrPodNotFound)
func (s *RediaronTestSuite) TestProbeD18RemoveMissingPod() {
	s.Error(s.rediaron.RemovePod(context.Background(), "no-such-pod"), "removing a pod that does not exist must fail as it does on etcd")
}

// D20: a multi-key create that fails because one key exists must leave the store unchanged
func (s *RediaronTestSuite) TestProbeD20FailedCreateWritesNothing() {
	ctx := context.Background()
	s.NoError(s.rediaron.BatchCreate(ctx, map[string]string{"/probe/a": "1"}))
	s.Error(s.rediaron.BatchCreate(ctx, map[string]string{"/probe/a": "2", "/probe/b": "3"}))
	_, err := s.rediaron.GetOne(ctx, "/probe/b")
	s.Error(err, "the create failed, yet /probe/b was written")
}

// D19: adding a workload against a processing marker that does not exist (etcd: ErrKeyNotExists, nothing written)
func (s *RediaronTestSuite) TestProbeD19CreateAndDecrWithoutMarker() {
	ctx := context.Background()
	err := s.rediaron.BatchCreateAndDecr(ctx, map[string]string{"/probe/w": "x"}, "/probe/marker")
	s.Error(err, "the marker does not exist: etcd refuses, redis must too")
	_, e2 := s.rediaron.GetOne(ctx, "/probe/w")
	s.Error(e2, "nothing may be written when the marker is missing")
	_, e3 := s.rediaron.GetOne(ctx, "/probe/marker")
	s.Error(e3, "a missing marker must not spring into existence at -1")
}
