package cobalt

import (
	"context"
	"testing"

	"github.com/stretchr/testify/assert"
	"github.com/stretchr/testify/mock"

	"github.com/projecteru2/core/resource/plugins"
	pluginmocks "github.com/projecteru2/core/resource/plugins/mocks"
	plugintypes "github.com/projecteru2/core/resource/plugins/types"
	resourcetypes "github.com/projecteru2/core/resource/types"
	"github.com/projecteru2/core/types"
)

// C11: calcium.SetNode changes the capacity (cond), then updates the node record (then); when the record update fails its
// rollback restores the capacity to the `before` value that SetNodeResourceCapacity returned. That value must therefore
// be returned when the change SUCCEEDED.
func TestProbeC11SetNodeResourceCapacityReturnsBefore(t *testing.T) {
	p := &pluginmocks.Plugin{}
	p.On("Name").Return("cpumem")
	p.On("SetNodeResourceCapacity", mock.Anything, mock.Anything, mock.Anything, mock.Anything, mock.Anything, mock.Anything).Return(
		&plugintypes.SetNodeResourceCapacityResponse{Before: resourcetypes.RawParams{"memory": 100}, After: resourcetypes.RawParams{"memory": 200}}, nil)
	m := Manager{config: types.Config{}, plugins: []plugins.Plugin{p}}
	before, after, err := m.SetNodeResourceCapacity(context.Background(), "n1", nil, resourcetypes.Resources{"cpumem": {"memory": 200}}, false, plugins.Incr)
	assert.NoError(t, err)
	assert.Equal(t, resourcetypes.RawParams{"memory": 100}, before["cpumem"], "the capacity before the change is not handed back: SetNode's rollback (capacity := before) restores nothing when the node record cannot be updated")
	assert.Equal(t, resourcetypes.RawParams{"memory": 200}, after["cpumem"])
}
