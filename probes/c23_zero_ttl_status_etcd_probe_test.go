package etcdv3

import (
	"context"
	"testing"

	"github.com/projecteru2/core/types"
	"github.com/stretchr/testify/assert"
)

// C23: a status with TTL 0 for a workload that does not exist — redis refuses it (ErrInvaildCount), etcd must too
func TestProbeC23ZeroTTLStatusOfMissingWorkload(t *testing.T) {
	m := NewMercury(t)
	err := m.SetWorkloadStatus(context.Background(), &types.StatusMeta{ID: "nope", Appname: "a", Entrypoint: "e", Nodename: "n1"}, 0)
	assert.Error(t, err, "etcd accepts a TTL-0 status for a workload that does not exist; redis answers ErrInvaildCount")
}
