package schedule

import (
	"testing"

	"github.com/projecteru2/core/resource/plugins/cpumem/types"
)

// keep-bind realloc with no cpu change on a two-socket node: the origin core is on numa node "1"; the first plan
// (the one CalculateRealloc takes) must be the origin core on its numa node, for every map iteration order.
func TestProbeD28ReallocKeepsCoresOnNUMANode(t *testing.T) {
	for i := 0; i < 200; i++ {
		info := &types.NodeResourceInfo{
			Capacity: &types.NodeResource{
				CPU: 4, CPUMap: types.CPUMap{"0": 100, "1": 100, "2": 100, "3": 100}, Memory: 4 << 30,
				NUMA:       types.NUMA{"0": "0", "1": "0", "2": "1", "3": "1"},
				NUMAMemory: types.NUMAMemory{"0": 2 << 30, "1": 2 << 30},
			},
			// the origin workload's resources ({2:100}, 1G on numa 1) were already returned to the pool by CalculateRealloc
			Usage: &types.NodeResource{CPUMap: types.CPUMap{"0": 0, "1": 0, "2": 0, "3": 0}, NUMAMemory: types.NUMAMemory{"0": 0, "1": 0}},
		}
		req := &types.WorkloadResourceRequest{CPUBind: true, CPURequest: 1, CPULimit: 1, MemRequest: 1 << 30, MemLimit: 1 << 30}
		plans := GetCPUPlans(info, types.CPUMap{"2": 100}, 100, -1, req)
		if len(plans) == 0 {
			t.Fatal("no plan")
		}
		if plans[0].NUMANode != "1" || plans[0].CPUMap["2"] != 100 || len(plans[0].CPUMap) != 1 {
			t.Fatalf("round %d: first plan is %+v on numa %q, want core 2 on numa 1", i, plans[0].CPUMap, plans[0].NUMANode)
		}
	}
}
