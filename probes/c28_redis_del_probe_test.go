package redis

import (
	"context"
	"path/filepath"
	"time"

	"github.com/projecteru2/core/types"
)

// a node status that is deleted (agent deregisters: SetNodeStatus with a negative ttl issues DEL, redis publishes "del")
// must be reported as not alive, exactly like an expiry.
func (s *RediaronTestSuite) TestProbeD25DeletedStatusIsNotAlive() {
	node := &types.Node{NodeMeta: types.NodeMeta{Name: "probe-node", Endpoint: "ep", Podname: "testpod"}}
	ctx, cancel := context.WithCancel(context.Background())
	ch := s.rediaron.NodeStatusStream(ctx)
	go func() {
		time.Sleep(300 * time.Millisecond)
		s.NoError(s.rediaron.SetNodeStatus(context.Background(), node, 10))
		triggerMockedKeyspaceNotification(s.rediaron.cli, filepath.Join(nodeStatusPrefix, node.Name), actionSet)
		time.Sleep(300 * time.Millisecond)
		s.NoError(s.rediaron.SetNodeStatus(context.Background(), node, -1))
		triggerMockedKeyspaceNotification(s.rediaron.cli, filepath.Join(nodeStatusPrefix, node.Name), actionDel)
		time.Sleep(300 * time.Millisecond)
		cancel()
	}()
	var got []*types.NodeStatus
	for m := range ch {
		got = append(got, m)
	}
	s.Require().Len(got, 2)
	s.True(got[0].Alive)
	s.False(got[1].Alive, "status key deleted: the node must be reported as not alive")
}
