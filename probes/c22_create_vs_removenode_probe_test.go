package calcium

import (
	"context"
	"sync"
	"testing"
	"time"

	enginefactory "github.com/projecteru2/core/engine/factory"
	enginemocks "github.com/projecteru2/core/engine/mocks"
	enginetypes "github.com/projecteru2/core/engine/types"
	"github.com/projecteru2/core/lock"
	lockmocks "github.com/projecteru2/core/lock/mocks"
	resourcemocks "github.com/projecteru2/core/resource/mocks"
	plugintypes "github.com/projecteru2/core/resource/plugins/types"
	resourcetypes "github.com/projecteru2/core/resource/types"
	storemocks "github.com/projecteru2/core/store/mocks"
	"github.com/projecteru2/core/strategy"
	"github.com/projecteru2/core/types"

	"github.com/stretchr/testify/assert"
	"github.com/stretchr/testify/mock"
)

// a real mutual-exclusion lock per key, so that the probe shows an absence of locking and not a mock that always succeeds
type probeLock struct{ ch chan struct{} }

func (l *probeLock) Lock(ctx context.Context) (context.Context, error) {
	select {
	case l.ch <- struct{}{}:
		return ctx, nil
	case <-time.After(5 * time.Second):
		return ctx, context.DeadlineExceeded
	}
}
func (l *probeLock) TryLock(ctx context.Context) (context.Context, error) { return l.Lock(ctx) }
func (l *probeLock) Unlock(context.Context) error                          { <-l.ch; return nil }

var _ lock.DistributedLock = (*probeLock)(nil)
var _ = lockmocks.DistributedLock{}

// C22 / D16: RemoveNode's emptiness test and the recording of a new workload share no lock.
// History: CreateWorkload allocates on n1 (pod lock), releases the lock, the engine is creating the container;
// RemoveNode(n1) takes the pod lock, finds no recorded workload, removes the node; the create then records its workload on n1.
func TestProbeC22WorkloadRecordedOnRemovedNode(t *testing.T) {
	c := NewTestCluster()
	ctx := context.Background()
	enginefactory.InitEngineCache(ctx, c.config, nil)
	engine := &enginemocks.API{}
	node1 := &types.Node{NodeMeta: types.NodeMeta{Name: "n1", Podname: "p1"}, Engine: engine}
	store := c.store.(*storemocks.Store)
	rmgr := c.rmgr.(*resourcemocks.Manager)

	var mu sync.Mutex
	locks := map[string]*probeLock{}
	store.On("CreateLock", mock.Anything, mock.Anything).Return(func(key string, _ time.Duration) lock.DistributedLock {
		mu.Lock()
		defer mu.Unlock()
		if locks[key] == nil {
			locks[key] = &probeLock{ch: make(chan struct{}, 1)}
		}
		return locks[key]
	}, nil)

	var order []string
	note := func(s string) { mu.Lock(); order = append(order, s); mu.Unlock() }

	store.On("CreateProcessing", mock.Anything, mock.Anything, mock.Anything).Return(nil)
	store.On("DeleteProcessing", mock.Anything, mock.Anything, mock.Anything).Return(nil)
	store.On("GetNodesByPod", mock.Anything, mock.Anything).Return([]*types.Node{node1}, nil)
	store.On("GetNodes", mock.Anything, mock.Anything).Return([]*types.Node{node1}, nil)
	store.On("GetNode", mock.Anything, mock.Anything).Return(node1, nil)
	store.On("GetDeployStatus", mock.Anything, mock.Anything, mock.Anything).Return(map[string]int{}, nil)
	store.On("ListNodeWorkloads", mock.Anything, mock.Anything, mock.Anything).Return([]*types.Workload{}, nil)
	store.On("SetNodeStatus", mock.Anything, mock.Anything, mock.Anything).Return(nil)
	store.On("RemoveNode", mock.Anything, mock.Anything).Run(func(mock.Arguments) { note("store.RemoveNode(n1)") }).Return(nil)
	store.On("AddWorkload", mock.Anything, mock.Anything, mock.Anything).Run(func(a mock.Arguments) {
		note("store.AddWorkload(on " + a.Get(1).(*types.Workload).Nodename + ")")
	}).Return(nil)
	store.On("UpdateWorkload", mock.Anything, mock.Anything).Return(nil)
	store.On("RemoveWorkload", mock.Anything, mock.Anything).Return(nil)

	rmgr.On("GetNodesDeployCapacity", mock.Anything, mock.Anything, mock.Anything).Return(
		map[string]*plugintypes.NodeDeployCapacity{"n1": {Capacity: 10, Usage: 0.5, Rate: 0.05, Weight: 100}}, 10, nil)
	rmgr.On("Alloc", mock.Anything, mock.Anything, mock.Anything, mock.Anything).Return(
		[]resourcetypes.Resources{{}}, []resourcetypes.Resources{{}}, nil)
	rmgr.On("RollbackAlloc", mock.Anything, mock.Anything, mock.Anything).Return(nil)
	rmgr.On("RemoveNode", mock.Anything, mock.Anything).Return(nil)
	rmgr.On("GetNodeMetricsDescription", mock.Anything).Return(nil, nil)
	rmgr.On("GetNodeResourceInfo", mock.Anything, mock.Anything, mock.Anything, mock.Anything).Return(nil, nil, types.ErrMockError)
	rmgr.On("Remap", mock.Anything, mock.Anything, mock.Anything).Return(map[string]resourcetypes.Resources{}, nil)

	engine.On("ImageLocalDigests", mock.Anything, mock.Anything).Return([]string{""}, nil)
	engine.On("ImageRemoteDigest", mock.Anything, mock.Anything).Return("", nil)
	var removeErr error
	removed := false
	engine.On("VirtualizationCreate", mock.Anything, mock.Anything).Run(func(mock.Arguments) {
		// the engine is busy creating the container; meanwhile an operator removes the node
		removeErr = c.RemoveNode(context.Background(), "n1")
		removed = true
	}).Return(&enginetypes.VirtualizationCreated{ID: "c1"}, nil)
	engine.On("VirtualizationStart", mock.Anything, mock.Anything).Return(nil)
	engine.On("VirtualizationInspect", mock.Anything, mock.Anything).Return(&enginetypes.VirtualizationInfo{}, nil)
	engine.On("VirtualizationRemove", mock.Anything, mock.Anything, mock.Anything, mock.Anything).Return(nil)

	opts := &types.DeployOptions{
		Name: "zc:name", Count: 1, DeployStrategy: strategy.Auto, Podname: "p1", Resources: resourcetypes.Resources{},
		Image: "zc:test", Entrypoint: &types.Entrypoint{Name: "good-entrypoint"}, NodeFilter: &types.NodeFilter{},
	}
	ch, err := c.CreateWorkload(ctx, opts)
	assert.NoError(t, err)
	var created []*types.CreateWorkloadMessage
	for m := range ch {
		created = append(created, m)
	}
	if !assert.True(t, removed) || !assert.Len(t, created, 1) {
		return
	}
	t.Logf("RemoveNode(n1) while the container was being created: err=%v; create: err=%v; store calls in order: %v", removeErr, created[0].Error, order)
	bothSucceeded := removeErr == nil && created[0].Error == nil
	assert.False(t, bothSucceeded, "the node was removed as empty and the workload was recorded on it afterwards: %v", order)
}
