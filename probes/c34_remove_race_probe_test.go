package calcium

import (
	"context"
	"testing"

	enginemocks "github.com/projecteru2/core/engine/mocks"
	lockmocks "github.com/projecteru2/core/lock/mocks"
	resourcemocks "github.com/projecteru2/core/resource/mocks"
	resourcetypes "github.com/projecteru2/core/resource/types"
	storemocks "github.com/projecteru2/core/store/mocks"
	"github.com/projecteru2/core/types"
	"github.com/stretchr/testify/mock"
)

// removing workloads that live on several nodes: one goroutine per node (run with -race)
func TestProbeD30RemoveOnSeveralNodes(t *testing.T) {
	c := NewTestCluster()
	ctx := context.Background()
	lock := &lockmocks.DistributedLock{}
	lock.On("Lock", mock.Anything).Return(ctx, nil)
	lock.On("Unlock", mock.Anything).Return(nil)
	store := c.store.(*storemocks.Store)
	rmgr := c.rmgr.(*resourcemocks.Manager)
	rmgr.On("SetNodeResourceUsage", mock.Anything, mock.Anything, mock.Anything, mock.Anything, mock.Anything, mock.Anything, mock.Anything).Return(resourcetypes.Resources{}, resourcetypes.Resources{}, nil)
	engine := &enginemocks.API{}
	engine.On("VirtualizationRemove", mock.Anything, mock.Anything, mock.Anything, mock.Anything).Return(nil)
	var ws []*types.Workload
	var ids []string
	for _, n := range []string{"n1", "n2", "n3", "n4"} {
		for _, k := range []string{"a", "b", "c"} {
			w := &types.Workload{ID: n + k, Name: "app_web_" + n + k, Nodename: n, Engine: engine}
			ws = append(ws, w)
			ids = append(ids, w.ID)
		}
	}
	store.On("GetWorkloads", mock.Anything, mock.Anything).Return(ws, nil)
	store.On("GetWorkload", mock.Anything, mock.Anything).Return(func(_ context.Context, id string) (*types.Workload, error) {
		for _, w := range ws {
			if w.ID == id {
				return w, nil
			}
		}
		return nil, types.ErrMockError
	})
	store.On("GetNode", mock.Anything, mock.Anything).Return(func(_ context.Context, name string) (*types.Node, error) {
		return &types.Node{NodeMeta: types.NodeMeta{Name: name, Podname: "p"}}, nil
	})
	store.On("CreateLock", mock.Anything, mock.Anything).Return(lock, nil)
	store.On("RemoveWorkload", mock.Anything, mock.Anything).Return(nil)
	store.On("ListNodeWorkloads", mock.Anything, mock.Anything, mock.Anything).Return(nil, types.ErrMockError)
	ch, err := c.RemoveWorkload(ctx, ids, true)
	if err != nil {
		t.Fatal(err)
	}
	for range ch {
	}
}
