package helium

import (
	"context"
	"testing"
	"time"

	storemocks "github.com/projecteru2/core/store/mocks"
	"github.com/projecteru2/core/types"
	"github.com/stretchr/testify/mock"
)

// the watch stream ends (store connection lost / context of the service cancelled): a subscriber that unsubscribes
// afterwards must still return and have its channel closed.
func TestProbeD24UnsubscribeAfterWatchEnded(t *testing.T) {
	chAddr := make(chan []string)
	store := &storemocks.Store{}
	store.On("ServiceStatusStream", mock.Anything).Return(chAddr, nil)
	service := New(context.TODO(), types.GRPCConfig{ServiceDiscoveryPushInterval: time.Second}, store)
	id, ch := service.Subscribe(context.Background())
	close(chAddr) // the dispatch goroutine returns
	time.Sleep(200 * time.Millisecond)
	done := make(chan struct{})
	go func() { service.Unsubscribe(id); close(done) }()
	select {
	case <-done:
	case <-time.After(3 * time.Second):
		t.Fatal("Unsubscribe did not return after the watch stream had ended")
	}
	select {
	case _, ok := <-ch:
		if ok {
			t.Fatal("subscriber channel delivered instead of being closed")
		}
	case <-time.After(time.Second):
		t.Fatal("subscriber channel was not closed")
	}
}

// the watch cannot be started at all
func TestProbeD24UnsubscribeWhenWatchFailedToStart(t *testing.T) {
	store := &storemocks.Store{}
	store.On("ServiceStatusStream", mock.Anything).Return(nil, types.ErrMockError)
	service := New(context.TODO(), types.GRPCConfig{ServiceDiscoveryPushInterval: time.Second}, store)
	id, _ := service.Subscribe(context.Background())
	done := make(chan struct{})
	go func() { service.Unsubscribe(id); close(done) }()
	select {
	case <-done:
	case <-time.After(3 * time.Second):
		t.Fatal("Unsubscribe did not return although the dispatch loop never started")
	}
}
