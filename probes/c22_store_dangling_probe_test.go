package etcdv3

import (
	"context"
	"testing"

	"github.com/projecteru2/core/types"

	"github.com/stretchr/testify/assert"
)

// C22 / D17: store.AddNode checks the pod and then creates the node in two separate requests; RemovePod of a pod
// without nodes takes no lock in calcium (there is no node to lock) and calcium.AddNode takes none at all.
// History: AddNode reads the pod; RemovePod finds no node and deletes the pod; AddNode writes the node.
func TestProbeC22PodRemovedUnderAddNode(t *testing.T) {
	m := NewMercury(t)
	ctx := context.Background()
	_, err := m.AddPod(ctx, "p", "")
	assert.NoError(t, err)
	// store.AddNode, first request
	_, err = m.GetPod(ctx, "p")
	assert.NoError(t, err)
	// the concurrent RemovePod, whole
	assert.NoError(t, m.RemovePod(ctx, "p"))
	// store.AddNode, second request
	_, err = m.doAddNode(ctx, "n1", "mock://fake", "p", "", "", "", nil, false)
	assert.NoError(t, err)
	ns, err := m.GetNodesByPod(ctx, &types.NodeFilter{Podname: "p", All: true})
	assert.NoError(t, err)
	assert.Len(t, ns, 1)
	_, err = m.GetPod(ctx, "p")
	assert.NoError(t, err, "the pod was removed although node n1 is recorded in it")
}

// C22 / D16 at the store: a workload recorded on a node that was removed makes every listing that includes it fail
func TestProbeC22DanglingWorkloadBreaksListing(t *testing.T) {
	m := NewMercury(t)
	ctx := context.Background()
	_, err := m.AddPod(ctx, "p", "")
	assert.NoError(t, err)
	node, err := m.AddNode(ctx, &types.AddNodeOptions{Nodename: "n1", Endpoint: "mock://fake", Podname: "p"})
	assert.NoError(t, err)
	_, err = m.AddNode(ctx, &types.AddNodeOptions{Nodename: "n2", Endpoint: "mock://fake", Podname: "p"})
	assert.NoError(t, err)
	assert.NoError(t, m.AddWorkload(ctx, &types.Workload{ID: "w2", Name: "app_entry_bbbbbb", Nodename: "n2", Podname: "p"}, nil))
	// RemoveNode(n1) ran while the create on n1 was between allocation and recording
	assert.NoError(t, m.RemoveNode(ctx, node))
	assert.NoError(t, m.AddWorkload(ctx, &types.Workload{ID: "w1", Name: "app_entry_aaaaaa", Nodename: "n1", Podname: "p"}, nil))
	ws, err := m.ListWorkloads(ctx, "app", "entry", "", 0, nil)
	assert.NoError(t, err, "listing the application's workloads fails because w1 refers to a node that does not exist")
	assert.Len(t, ws, 2)
}
