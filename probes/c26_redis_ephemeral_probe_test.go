package redis

import (
	"context"
	"time"
)

// registrant A pauses longer than its ttl (virtual time), registrant B takes the key over:
// A must be notified (its expiry channel closes) and must not refresh or delete B's registration.
func (s *RediaronTestSuite) TestProbeD23LapseThenTakeover() {
	ctx := context.Background()
	path := "/probe-ident"
	heartbeat := 3 * time.Second
	expiryA, stopA, err := s.rediaron.StartEphemeral(ctx, path, heartbeat)
	s.Require().NoError(err)
	s.rediserver.FastForward(4 * time.Second) // A's key expires before A's next refresh
	expiryB, stopB, err := s.rediaron.StartEphemeral(ctx, path, heartbeat)
	s.Require().NoError(err, "B must be able to register once A's registration lapsed")
	defer stopB()
	time.Sleep(1500 * time.Millisecond) // A refreshes at least once (every heartbeat/3)
	lapsedNotified := false
	select {
	case <-expiryA:
		lapsedNotified = true
	default:
	}
	s.True(lapsedNotified, "A's registration lapsed and B holds the key, but A was not notified: two registrants believe they hold it")
	stopA()
	time.Sleep(200 * time.Millisecond)
	_, err = s.rediaron.GetOne(ctx, path)
	s.NoError(err, "A's deregistration deleted B's registration")
	select {
	case <-expiryB:
		s.Fail("B was told it lapsed")
	default:
	}
}
