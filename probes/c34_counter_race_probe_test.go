package rpc

import (
	"context"
	"sync"
	"testing"
)

// two RPCs starting and finishing at the same time (run with -race)
func TestProbeD32TaskCounter(t *testing.T) {
	v := &Vibranium{}
	var wg sync.WaitGroup
	for i := 0; i < 8; i++ {
		wg.Add(1)
		go func() {
			defer wg.Done()
			for j := 0; j < 100; j++ {
				v.newTask(context.Background(), "probe", false).done()
			}
		}()
	}
	wg.Wait()
	if v.TaskNum != 0 {
		t.Fatalf("TaskNum = %d after all tasks finished", v.TaskNum)
	}
}
