package cobalt

import (
	"context"
	"math"
	"testing"

	"github.com/projecteru2/core/resource/plugins"
	pluginmocks "github.com/projecteru2/core/resource/plugins/mocks"
	plugintypes "github.com/projecteru2/core/resource/plugins/types"
	"github.com/projecteru2/core/types"
	"github.com/stretchr/testify/mock"
)

func probePlugin(name string, capacities map[string]*plugintypes.NodeDeployCapacity) plugins.Plugin {
	p := &pluginmocks.Plugin{}
	p.On("Name").Return(name)
	p.On("GetNodesDeployCapacity", mock.Anything, mock.Anything, mock.Anything).Return(
		func(context.Context, []string, plugintypes.WorkloadResourceRequest) (*plugintypes.GetNodesDeployCapacityResponse, error) {
			m := map[string]*plugintypes.NodeDeployCapacity{}
			for n, c := range capacities {
				cc := *c
				m[n] = &cc
			}
			return &plugintypes.GetNodesDeployCapacityResponse{NodeDeployCapacityMap: m}, nil
		})
	return p
}

// one node with unlimited capacity (memory request 0 answered by every plugin with MaxInt) and one with a finite
// capacity (bounded by a second plugin): the total must saturate at MaxInt whatever the iteration order.
func TestProbeD4SaturatingTotal(t *testing.T) {
	m, _ := New(types.Config{})
	m.AddPlugins(
		probePlugin("cpumem", map[string]*plugintypes.NodeDeployCapacity{
			"n1": {Capacity: math.MaxInt, Weight: 1}, "n2": {Capacity: math.MaxInt, Weight: 1}}),
		probePlugin("other", map[string]*plugintypes.NodeDeployCapacity{
			"n1": {Capacity: math.MaxInt, Weight: 1}, "n2": {Capacity: 5, Weight: 1}}),
	)
	for i := 0; i < 200; i++ {
		_, total, err := m.GetNodesDeployCapacity(context.Background(), []string{"n1", "n2"}, nil)
		if err != nil {
			t.Fatal(err)
		}
		if total != math.MaxInt {
			t.Fatalf("round %d: total = %d, want MaxInt (saturating sum of {MaxInt, 5})", i, total)
		}
	}
}
