package cpumem

import (
	"context"
	"testing"

	enginetypes "github.com/projecteru2/core/engine/types"
	"github.com/projecteru2/core/resource/plugins/cpumem/types"
	plugintypes "github.com/projecteru2/core/resource/plugins/types"
	"github.com/stretchr/testify/assert"
	"github.com/stretchr/testify/require"
)

// C33: a workload that was placed ACROSS numa nodes (cores 1 and 2 of {0,1 | 2,3}, because cores 0 and 3 were taken when
// it was deployed) is re-allocated with keep-cpu-bind and no change after its neighbours have left. It must stay on 1 and 2.
func TestProbeC33CrossNUMAWorkloadKeepsItsCores(t *testing.T) {
	ctx := context.Background()
	cm := initCPUMEM(ctx, t)
	node := "probe-numa"
	_, err := cm.AddNode(ctx, node, plugintypes.NodeResourceRequest{
		"cpu": 4, "share": 100, "memory": "4000",
		"numa-cpu": []string{"0,1", "2,3"}, "numa-memory": []string{"2000", "2000"},
	}, &enginetypes.Info{NCPU: 4, MemTotal: 4000})
	require.NoError(t, err)
	t.Cleanup(func() { cm.RemoveNode(ctx, node) })

	use := func(w plugintypes.WorkloadResource, incr bool) {
		_, err := cm.SetNodeResourceUsage(ctx, node, nil, nil, []plugintypes.WorkloadResource{w}, true, incr)
		require.NoError(t, err)
	}
	// neighbours on cores 0 and 3
	a := plugintypes.WorkloadResource{"cpu_request": 1.0, "cpu_limit": 1.0, "cpu_map": map[string]int{"0": 100}, "numa_node": "0", "memory_request": int64(100), "memory_limit": int64(100), "numa_memory": map[string]int64{"0": 100}}
	b := plugintypes.WorkloadResource{"cpu_request": 1.0, "cpu_limit": 1.0, "cpu_map": map[string]int{"3": 100}, "numa_node": "1", "memory_request": int64(100), "memory_limit": int64(100), "numa_memory": map[string]int64{"1": 100}}
	use(a, true)
	use(b, true)
	// W asks for two cores: only 1 and 2 are free, one in each numa node
	r, err := cm.CalculateDeploy(ctx, node, 1, plugintypes.WorkloadResourceRequest{"cpu-bind": true, "cpu-request": 2.0, "cpu-limit": 2.0, "memory-request": int64(100), "memory-limit": int64(100)})
	require.NoError(t, err)
	require.Len(t, r.WorkloadsResource, 1)
	w := r.WorkloadsResource[0]
	use(w, true)
	wr := &types.WorkloadResource{}
	require.NoError(t, wr.Parse(w))
	require.Equal(t, types.CPUMap{"1": 100, "2": 100}, wr.CPUMap)
	require.Equal(t, "", wr.NUMANode)
	// the neighbours leave
	use(a, false)
	use(b, false)
	// no-change re-allocation
	rr, err := cm.CalculateRealloc(ctx, node, w, plugintypes.WorkloadResourceRequest{"keep-cpu-bind": true})
	require.NoError(t, err)
	nr := &types.WorkloadResource{}
	require.NoError(t, nr.Parse(rr.WorkloadResource))
	assert.Equal(t, wr.CPUMap, nr.CPUMap, "re-allocating without change moved the workload")
	assert.Equal(t, wr.NUMANode, nr.NUMANode)
}
