package calcium
import ("context";"testing"
	storemocks "github.com/projecteru2/core/store/mocks"
	"github.com/projecteru2/core/types"
	"github.com/stretchr/testify/mock")
func TestProbeD14(t *testing.T) {
	c := NewTestCluster()
	store := c.store.(*storemocks.Store)
	for _, n := range []string{"a","b"} {
		store.On("GetNode", mock.Anything, n).Return(&types.Node{NodeMeta: types.NodeMeta{Name: n}}, nil)
	}
	ns, err := c.filterNodes(context.Background(), &types.NodeFilter{Includes: []string{"a","a","b"}})
	if err != nil { t.Fatal(err) }
	names := []string{}
	for _, n := range ns { names = append(names, n.Name) }
	t.Logf("%v", names)
	if len(names) != 2 || names[0] != "a" || names[1] != "b" { t.Fatalf("want [a b], got %v", names) }
	ns, _ = c.filterNodes(context.Background(), &types.NodeFilter{Includes: []string{"b","a"}})
	if ns[0].Name != "a" { t.Fatalf("not sorted: %v", ns[0].Name) }
}
