package redis

import (
	"context"

	"github.com/projecteru2/core/types"
)

func (s *RediaronTestSuite) TestProbeC23ZeroTTLStatusOfMissingWorkload() {
	err := s.rediaron.SetWorkloadStatus(context.Background(), &types.StatusMeta{ID: "nope", Appname: "a", Entrypoint: "e", Nodename: "n1"}, 0)
	s.ErrorIs(err, types.ErrInvaildCount)
}
