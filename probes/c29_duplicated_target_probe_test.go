package calcium

import (
	"bytes"
	"context"
	"io"
	"sync"
	"testing"

	enginemocks "github.com/projecteru2/core/engine/mocks"
	lockmocks "github.com/projecteru2/core/lock/mocks"
	storemocks "github.com/projecteru2/core/store/mocks"
	"github.com/projecteru2/core/types"
	"github.com/stretchr/testify/assert"
	"github.com/stretchr/testify/mock"
)

// C29: the target list may name a workload twice (the property quantifies over duplicated targets); the file written
// to that workload must still be byte-identical to the input.
func TestProbeC29DuplicatedTargetGetsTheFileOnce(t *testing.T) {
	c := NewTestCluster()
	ctx := context.Background()
	store := &storemocks.Store{}
	c.store = store
	lock := &lockmocks.DistributedLock{}
	lock.On("Lock", mock.Anything).Return(context.TODO(), nil)
	lock.On("Unlock", mock.Anything).Return(nil)
	store.On("CreateLock", mock.Anything, mock.Anything).Return(lock, nil)
	engine := &enginemocks.API{}
	store.On("GetWorkloads", mock.Anything, mock.Anything).Return([]*types.Workload{{ID: "cid", Engine: engine}}, nil)
	var mu sync.Mutex
	var got []byte
	engine.On("VirtualizationCopyChunkTo", mock.Anything, mock.Anything, mock.Anything, mock.Anything, mock.Anything, mock.Anything, mock.Anything, mock.Anything).
		Run(func(a mock.Arguments) {
			b, _ := io.ReadAll(a.Get(4).(io.Reader))
			mu.Lock()
			got = append(got, b...)
			mu.Unlock()
		}).Return(nil)

	input := bytes.Repeat([]byte("0123456789"), 500) // 5000 bytes in 3 chunks of 2048
	optsChan := make(chan *types.SendLargeFileOptions)
	ch := c.SendLargeFile(ctx, optsChan)
	go func() {
		for off := 0; off < len(input); off += 2048 {
			end := off + 2048
			if end > len(input) {
				end = len(input)
			}
			optsChan <- &types.SendLargeFileOptions{IDs: []string{"cid", "cid"}, Size: int64(len(input)), Dst: "/tmp/f", Chunk: input[off:end]}
		}
		close(optsChan)
	}()
	n := 0
	for r := range ch {
		n++
		assert.NoError(t, r.Error)
	}
	assert.Equal(t, 1, n, "one result per target and file")
	mu.Lock()
	defer mu.Unlock()
	assert.Equal(t, len(input), len(got), "the workload named twice receives %d bytes for a file of %d", len(got), len(input))
	assert.True(t, bytes.Equal(input, got), "content differs from the input")
}
