package calcium

// Probe for C29 (kept under /verif/probes; copy into cluster/calcium of a scratch worktree to run):
// sending a multi-chunk file to a target whose lookup fails must still finish.

import (
	"context"
	"testing"
	"time"

	lockmocks "github.com/projecteru2/core/lock/mocks"
	storemocks "github.com/projecteru2/core/store/mocks"
	"github.com/projecteru2/core/types"
	"github.com/stretchr/testify/mock"
)

func TestProbeC29MissingTargetManyChunks(t *testing.T) {
	c := NewTestCluster()
	ctx := context.Background()
	store := &storemocks.Store{}
	c.store = store
	lock := &lockmocks.DistributedLock{}
	lock.On("Lock", mock.Anything).Return(context.TODO(), nil)
	lock.On("Unlock", mock.Anything).Return(nil)
	store.On("CreateLock", mock.Anything, mock.Anything).Return(lock, nil)
	store.On("GetWorkloads", mock.Anything, mock.Anything).Return(nil, types.ErrMockError)
	optsChan := make(chan *types.SendLargeFileOptions)
	ch := c.SendLargeFile(ctx, optsChan)
	go func() {
		for i := 0; i < 40; i++ {
			optsChan <- &types.SendLargeFileOptions{IDs: []string{"missing"}, Size: 40, Dst: "/tmp/f", Chunk: []byte{byte(i)}}
		}
		close(optsChan)
	}()
	done := make(chan int)
	go func() {
		n := 0
		for range ch {
			n++
		}
		done <- n
	}()
	select {
	case n := <-done:
		if n != 1 {
			t.Fatalf("want exactly 1 result for the missing target, got %d", n)
		}
	case <-time.After(5 * time.Second):
		t.Fatal("SendLargeFile to a missing target with 40 chunks did not finish within 5s")
	}
}
