package schedule

import (
	"testing"
	"time"

	"github.com/projecteru2/core/resource/plugins/cpumem/types"
)

func probeInfo(capacity, usage types.CPUMap, memCap, memUsed int64) *types.NodeResourceInfo {
	return &types.NodeResourceInfo{
		Capacity: &types.NodeResource{CPU: float64(len(capacity)), CPUMap: capacity, Memory: memCap},
		Usage:    &types.NodeResource{CPUMap: usage, Memory: memUsed},
	}
}

func runWithDeadline(t *testing.T, name string, f func()) {
	done := make(chan any, 1)
	go func() {
		defer func() { done <- recover() }()
		f()
	}()
	select {
	case p := <-done:
		if p != nil {
			t.Fatalf("%s: panic: %v", name, p)
		}
	case <-time.After(500 * time.Millisecond):
		t.Fatalf("%s: did not return within 500ms", name)
	}
}

// D3a: a positive bound request smaller than half a piece rounds to zero pieces
func TestProbeD3aTinyRequest(t *testing.T) {
	runWithDeadline(t, "request 0.004 on one idle core", func() {
		info := probeInfo(types.CPUMap{"0": 100}, types.CPUMap{"0": 0}, 1<<30, 0)
		GetCPUPlans(info, nil, 100, -1, &types.WorkloadResourceRequest{CPUBind: true, CPURequest: 0.004})
	})
}

// D3b: three cores already carry fragments, max-share allows two
func TestProbeD3bMoreFragmentCoresThanMaxShare(t *testing.T) {
	runWithDeadline(t, "max share 2, three fragmented cores", func() {
		info := probeInfo(types.CPUMap{"0": 100, "1": 100, "2": 100, "3": 100}, types.CPUMap{"0": 10, "1": 10, "2": 10, "3": 0}, 1<<30, 0)
		GetCPUPlans(info, nil, 100, 2, &types.WorkloadResourceRequest{CPUBind: true, CPURequest: 0.5})
	})
}

// D3c: memory usage above capacity (accepted by Validate, which only bounds per-core and numa usage)
func TestProbeD3cNegativeAvailableMemory(t *testing.T) {
	runWithDeadline(t, "memory 100 capacity, 400 used", func() {
		info := probeInfo(types.CPUMap{"0": 100, "1": 100}, types.CPUMap{"0": 0, "1": 0}, 100, 400)
		GetCPUPlans(info, nil, 100, -1, &types.WorkloadResourceRequest{CPUBind: true, CPURequest: 1, MemRequest: 100})
	})
}
