#!/usr/bin/env python3
"""Rewrite the seeded-changes table in DESIGN.md (between the SEEDS-BEGIN/SEEDS-END markers) from seeded/*/meta.json."""
import json, glob, os, re
rows = []
for f in sorted(glob.glob('/verif/seeded/*/meta.json')):
    d = json.load(open(f))
    notes = ''
    nf = os.path.join(os.path.dirname(f), 'notes.md')
    patch = open(os.path.join(os.path.dirname(f), 'patch.diff')).read()
    files = sorted(set(re.findall(r'^\+\+\+ b/(\S+)', patch, re.M)))
    rc = d.get('recheck', {})
    first = 'yes' if d.get('detected_by_checks_at_confirmation') and d.get('first_try_detected', True) else 'no'
    rows.append('| %s | %s | %s | %s | %s |' % (d['seed'], ', '.join(files), first, ('yes: ' + ' '.join(rc.get('rules', []))) if rc.get('detected') else ('NO' if rc else '?'), ' '.join(x for x in rc.get('by_property', []) if x != d['breaks_property'][0])))
table = '| seed | files changed | caught when first tried | caught now (rules) | also flagged by |\n|---|---|---|---|---|\n' + '\n'.join(rows)
p = '/verif/DESIGN.md'
s = open(p).read()
s = re.sub(r'(<!-- SEEDS-BEGIN -->\n).*?(<!-- SEEDS-END -->)', lambda m: m.group(1) + table + '\n' + m.group(2), s, flags=re.S)
open(p, 'w').write(s)
print(len(rows), 'seeds')
