#!/usr/bin/env python3
"""Confirm a seeded change delivered by a sub-agent and try the checks on it.
usage: seed_confirm.py <seed dir (patch.diff, demo files, demo_path.txt)> <seed name e.g. C09-a> <prop ids, comma> [--keep]
Steps, all in a scratch worktree of /repo HEAD under /var/tmp (removed afterwards):
 1 patch applies, tree builds;  2 pinned baseline tests pass with the change;  3 demo fails with the change;
 4 demo passes without it;  5 the named checks are run on the patched tree (detected = any VIOLATION line).
Writes /verif/seeded/<name>/{patch.diff, demo files, notes.md, meta.json} when 1-4 hold (or always with --keep)."""
import json, os, re, subprocess, sys, shutil, glob
sd, name, props = sys.argv[1].rstrip('/'), sys.argv[2], sys.argv[3]
keep = '--keep' in sys.argv
env = dict(os.environ, GOFLAGS='-mod=mod', GOPROXY='off', GOSUMDB='off', GOTOOLCHAIN='local')
wt = f'/var/tmp/sc_{name}'
ev = f'/var/tmp/scev_{name}'
res = {'seed': name, 'properties': props.split(','), 'repo_head': subprocess.check_output(['git', '-C', '/repo', 'rev-parse', '--short', 'HEAD'], text=True).strip()}
def sh(cmd, cwd=wt, timeout=3000):
    p = subprocess.run(cmd, shell=True, cwd=cwd, env=env, capture_output=True, text=True, timeout=timeout)
    return p.returncode, (p.stdout + p.stderr)
subprocess.run(f'git -C /repo worktree remove --force {wt}', shell=True, capture_output=True)
subprocess.run(f'git -C /repo worktree add -q --detach {wt} HEAD', shell=True, check=True)
try:
    dp = open(f'{sd}/demo_path.txt').read()
    cmds = [l.strip().strip('`') for l in dp.splitlines() if re.search(r'\bgo (test|run)\b', l) and 'go test ./...' not in l]
    cmds = [re.sub(r'^.*?(go (?:test|run)\b)', r'\1', c) for c in cmds if not c.startswith('export')]
    cmds = [re.sub(r'\s+2>&1.*$', '', c) for c in cmds]
    if not cmds: raise SystemExit('no demo command in demo_path.txt')
    pkgdirs = re.findall(r'\./([\w\-/\.]+?)/?(?:\s|$)', ' '.join(cmds))
    places = []
    for f in sorted(glob.glob(f'{sd}/*.go')):
        base = os.path.basename(f)
        cands = [t for t in re.findall(r'[\w\./\-]+/' + re.escape(base), dp) if not t.startswith(('SEED', '/tmp', './SEED'))]
        if cands:
            places.append((base, cands[0].lstrip('./')))
        elif pkgdirs:
            places.append((base, pkgdirs[0] + '/' + base))
    cmd = ' && '.join(dict.fromkeys(cmds))
    res.update(demo_places=places, demo_cmd=cmd)
    rc, out = sh(f'git apply {sd}/patch.diff')
    res['applies'] = rc == 0
    if rc: raise SystemExit('patch does not apply: ' + out)
    rc, out = sh('go build ./... && go vet ./... 2>&1 | tail -5; go build ./...')
    res['builds'] = rc == 0
    res['build_out'] = out[-400:]
    # the checks, on the patched tree without the demo
    os.makedirs(ev, exist_ok=True); shutil.copy('/verif/known_findings.json', ev)
    r = subprocess.run(['/verif/bin/verifcheck', '-repo', wt, '-verif', ev, '-p', props], capture_output=True, text=True)
    lines = [l for l in (r.stdout + r.stderr).splitlines() if l.startswith(('VIOLATION rule', 'UNDECIDED rule', 'VIOLATION property'))]
    res['detected'] = any(l.startswith('VIOLATION property=') for l in lines)
    if r.returncode not in (0, 1): res['check_error'] = (r.stdout + r.stderr)[-300:]
    res['check_reports'] = [l[:400] for l in lines if not l.startswith('VIOLATION property')]
    rc, out = sh(f'python3 /verif/tools/run_baseline.py {wt}', timeout=3600)
    res['suite_passes_with_change'] = rc == 0
    res['suite_out'] = out[-600:]
    for src, dst in places:
        os.makedirs(os.path.dirname(f'{wt}/{dst}') or wt, exist_ok=True)
        shutil.copy(f'{sd}/{os.path.basename(src)}', f'{wt}/{dst}')
    rc, out = sh(cmd)
    res['demo_fails_with_change'] = rc != 0 and 'build failed' not in out and 'setup failed' not in out
    res['demo_with_out'] = out[-900:]
    sh(f'git apply -R {sd}/patch.diff')
    rc, out = sh(cmd)
    res['demo_passes_without_change'] = rc == 0
    res['demo_without_out'] = out[-400:]
    res['confirmed'] = all(res.get(k) for k in ('applies', 'builds', 'suite_passes_with_change', 'demo_fails_with_change', 'demo_passes_without_change'))
finally:
    subprocess.run(f'git -C /repo worktree remove --force {wt}', shell=True, capture_output=True)
    shutil.rmtree(ev, ignore_errors=True)
    print(name, 'CONFIRMED' if res.get('confirmed') else 'NOT CONFIRMED', 'DETECTED' if res.get('detected') else 'MISSED', {k: v for k, v in res.items() if isinstance(v, bool)})
    for l in res.get('check_reports', [])[:6]: print('   ', l[:300])
    if res.get('confirmed') or keep:
        out = f'/verif/seeded/{name}'
        os.makedirs(out, exist_ok=True)
        for f in os.listdir(sd):
            if os.path.isfile(f'{sd}/{f}'): shutil.copy(f'{sd}/{f}', out)
        notes = open(f'{sd}/notes.md').read() if os.path.exists(f'{sd}/notes.md') else ''
        meta = {'seed': name, 'breaks_property': [name.split('-')[0]], 'also_checked': [x for x in res['properties'] if x != name.split('-')[0]], 'needs_to_manifest': 'see notes.md', 'repo_head': res['repo_head'],
                'ran': {'build': 'go build ./... in a scratch worktree with the patch', 'suite': 'tools/run_baseline.py (pinned 242 tests by name) with the patch: ' + ('pass' if res.get('suite_passes_with_change') else 'FAIL'),
                        'demo_cmd': res.get('demo_cmd'), 'demo_with_change': 'fails' if res.get('demo_fails_with_change') else 'does not fail',
                        'demo_without_change': 'passes' if res.get('demo_passes_without_change') else 'does not pass'},
                'confirmed': bool(res.get('confirmed')), 'detected_by_checks_at_confirmation': bool(res.get('detected')), 'check_reports': res.get('check_reports', [])}
        json.dump(meta, open(f'{out}/meta.json', 'w'), indent=1)
    else:
        json.dump(res, open(f'/var/tmp/sc_{name}.fail.json', 'w'), indent=1)
