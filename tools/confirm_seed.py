#!/usr/bin/env python3
"""Confirm a seeded change: (1) applies to the pinned commit and builds, (2) the stable baseline tests still pass with it,
(3) the demonstration fails with it, (4) the demonstration passes without it.
usage: confirm_seed.py <seed dir> <A|B> -> writes <seed dir>/<X>.confirm.json"""
import json, os, re, subprocess, sys, shutil
sd, X = sys.argv[1].rstrip('/'), sys.argv[2]
PIN = '0c78676'
env = dict(os.environ, GOFLAGS='-mod=mod', GOPROXY='off', GOSUMDB='off', GOTOOLCHAIN='local')
wt = f'/var/tmp/confirm_{os.path.basename(sd)}_{X}'
res = {'seed': f'{os.path.basename(sd)}/{X}', 'pinned': PIN}
def sh(cmd, cwd=wt, timeout=1500):
    p = subprocess.run(cmd, shell=True, cwd=cwd, env=env, capture_output=True, text=True, timeout=timeout)
    return p.returncode, (p.stdout + p.stderr)
subprocess.run(f'git -C /repo worktree remove --force {wt}', shell=True, capture_output=True)
subprocess.run(f'git -C /repo worktree add -q --detach {wt} {PIN}', shell=True, check=True)
try:
    md = open(f'{sd}/{X}.md').read() if os.path.exists(f'{sd}/{X}.md') else ''
    demo = open(f'{sd}/{X}_demo_test.go').read()
    m = re.search(r"go test[^\n]*?-run\s+'?\"?([^'\"\s]+)'?\"?\s+(\./[\w/\.\-]+)", md)
    pkgname = re.search(r'^package (\w+)', demo, re.M).group(1)
    if m:
        rx, d = m.group(1), m.group(2).strip('./').rstrip('/')
    else:
        m2 = re.search(r"go test[^\n]*?(\./[\w/\.\-]+)[^\n]*?-run\s+'?\"?([^'\"\s]+)", md)
        if m2: d, rx = m2.group(1).strip('./').rstrip('/'), m2.group(2)
        else: raise SystemExit(f'cannot find demo command in {X}.md')
    res.update(demo_dir=d, demo_run=rx)
    rc, out = sh(f'git apply {sd}/{X}.patch')
    res['applies'] = rc == 0
    if rc: raise SystemExit('patch does not apply: ' + out)
    rc, out = sh('go build ./... && go test -vet=off -count=1 -run "^$" ./... 2>&1 | grep -v "no test files" | grep -v "^ok" | head')
    res['builds'] = rc == 0 and 'FAIL' not in out and 'cannot' not in out
    res['build_out'] = out[-500:]
    rc, out = sh(f'python3 /verif/tools/run_baseline.py {wt}', timeout=3000)
    res['suite_passes_with_change'] = rc == 0
    res['suite_out'] = out[-1500:]
    dst = f'{wt}/{d}/zz_seed_demo_test.go'
    shutil.copy(f'{sd}/{X}_demo_test.go', dst)
    cmd = f"go test -vet=off -count=1 -run '{rx}' ./{d}/"
    rc, out = sh(cmd)
    res['demo_cmd'] = cmd
    res['demo_fails_with_change'] = rc != 0 and ('--- FAIL' in out or 'panic' in out or 'FAIL' in out) and 'build failed' not in out
    res['demo_with_out'] = out[-1200:]
    rc, out = sh(f'git apply -R {sd}/{X}.patch')
    rc, out = sh(cmd)
    res['demo_passes_without_change'] = rc == 0
    res['demo_without_out'] = out[-600:]
    res['confirmed'] = all(res.get(k) for k in ('applies', 'builds', 'suite_passes_with_change', 'demo_fails_with_change', 'demo_passes_without_change'))
finally:
    subprocess.run(f'git -C /repo worktree remove --force {wt}', shell=True, capture_output=True)
    json.dump(res, open(f'{sd}/{X}.confirm.json', 'w'), indent=1)
    print(res.get('seed'), 'confirmed' if res.get('confirmed') else 'NOT CONFIRMED', {k: v for k, v in res.items() if isinstance(v, bool)})
