#!/bin/bash
# usage: try_seed.sh <patch> <property-ids> — applies the patch to a scratch worktree of /repo HEAD and runs the checks there.
set -u
patch=$(readlink -f "$1"); props=$2
d=/var/tmp/seedtry.$$; ev=/var/tmp/seedev.$$
git -C /repo worktree add -q --detach $d HEAD || exit 2
mkdir -p $ev; cp /verif/known_findings.json $ev/
if ! git -C $d apply "$patch" 2>/dev/null; then
  if ! git -C $d apply --3way "$patch" 2>/dev/null; then
    if ! (cd $d && patch -p1 --fuzz=3 -s < "$patch"); then echo "PATCH DOES NOT APPLY"; git -C /repo worktree remove --force $d; rm -rf $ev; exit 3; fi
  fi
fi
${VERIFCHECK:-/verif/bin/verifcheck} -repo $d -verif $ev -p "$props" 2>&1 | grep -v "^loaded" | cut -c1-400
rc=${PIPESTATUS[0]}
git -C /repo worktree remove --force $d; rm -rf $ev
exit $rc
