#!/bin/bash
# usage: seed_confirm_all.sh <file with lines "seeddir name props"> ; runs 2 at a time, skips names already in /verif/seeded
run_one() { set -- $1; [ -f /verif/seeded/$2/meta.json ] && return; python3 /verif/tools/seed_confirm.py $1 $2 $3; }
export -f run_one
grep -v '^#' "$1" | xargs -P 2 -I{} bash -c 'run_one "{}"'
