#!/bin/bash
# usage: try_neutral.sh <patch> [property-ids, default all] — applies a behaviour-preserving patch to a scratch worktree of /repo
# HEAD and runs the checks there; any VIOLATION / UNDECIDED line is a false alarm of the checker.
set -u
patch=$(readlink -f "$1"); props=${2:-C01,C02,C03,C04,C05,C06,C07,C08,C09,C10,C11,C12,C13,C14,C15,C16,C17,C18,C19,C20,C21,C22,C23,C24,C25,C26,C27,C28,C29,C30,C31,C32,C33,C34,C35,C36}
d=/var/tmp/neutry.$$; ev=/var/tmp/neuev.$$
git -C /repo worktree add -q --detach $d HEAD || exit 2
mkdir -p $ev; cp /verif/known_findings.json $ev/
if ! git -C $d apply "$patch" 2>/dev/null; then echo "PATCH DOES NOT APPLY"; git -C /repo worktree remove --force $d; rm -rf $ev; exit 3; fi
out=$(${VERIFCHECK:-/verif/bin/verifcheck} -repo $d -verif $ev -p "$props" 2>&1); rc=$?
echo "$out" | grep -E "^(VIOLATION|UNDECIDED|panic)" | cut -c1-500
git -C /repo worktree remove --force $d; rm -rf $ev
exit $rc
