#!/bin/bash
# confirm every seed under /tmp/seedout that has no .confirm.json yet
for d in /tmp/seedout/C*; do for X in A B; do
  [ -f $d/$X.patch ] && [ -f $d/${X}_demo_test.go ] && [ ! -f $d/$X.confirm.json ] && python3 /verif/tools/confirm_seed.py $d $X 2>&1 | tail -1
done; done
