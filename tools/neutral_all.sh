#!/bin/bash
# usage: neutral_all.sh [parallelism] — runs every check on every kept behaviour-preserving change; prints the alarms (none expected)
cd /verif
ls -d neutral/*/ | xargs -P ${1:-3} -I{} bash -c 'n=$(basename {}); out=$(tools/try_neutral.sh {}patch.diff 2>&1); if [ -n "$out" ]; then echo "== $n"; echo "$out"; fi'
echo "neutral_all: done ($(ls -d neutral/*/ | wc -l) changes)"
