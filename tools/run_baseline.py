#!/usr/bin/env python3
"""Run exactly the stable_pass tests of BASELINE.json (per package, by name) in a repo dir and report failures.
usage: run_baseline.py [repo_dir] [pkg_substring]"""
import json, subprocess, sys, os, collections
repo = sys.argv[1] if len(sys.argv) > 1 else '/repo'
filt = sys.argv[2] if len(sys.argv) > 2 else ''
base = json.load(open('/root/.vp/BASELINE.json'))
by = collections.defaultdict(list)
for t in base['stable_pass']:
    pkg, name = t.split('::')
    by[pkg].append(name)
env = dict(os.environ, GOFLAGS='-mod=mod', GOPROXY='off', GOSUMDB='off', GOTOOLCHAIN='local')
bad = []
for pkg, names in sorted(by.items()):
    if filt and filt not in pkg: continue
    tops = sorted({n.split('/')[0] for n in names})
    rx = '^(' + '|'.join(tops) + ')$'
    rel = './' + pkg.replace('github.com/projecteru2/core', '').lstrip('/')
    out = subprocess.run(['go', 'test', '-vet=off', '-count=1', '-json', '-run', rx, rel], cwd=repo, env=env, capture_output=True, text=True)
    res = {}
    for line in out.stdout.splitlines():
        try: e = json.loads(line)
        except Exception: continue
        if e.get('Test') and e.get('Action') in ('pass', 'fail', 'skip'):
            res[e['Test']] = e['Action']
    for n in names:
        if res.get(n) != 'pass':
            bad.append((pkg, n, res.get(n)))
    print(f"{pkg}: {sum(1 for n in names if res.get(n)=='pass')}/{len(names)}", flush=True)
for b in bad: print('NOT PASS', *b)
sys.exit(1 if bad else 0)
