#!/usr/bin/env python3
"""Run exactly the stable_pass tests of BASELINE.json (per package, by name) in a repo dir and report failures.
usage: run_baseline.py [repo_dir] [pkg_substring]"""
import json, subprocess, sys, os, collections
repo = sys.argv[1] if len(sys.argv) > 1 else '/repo'
filt = sys.argv[2] if len(sys.argv) > 2 else ''
base = json.load(open('/root/.vp/BASELINE.json'))
by = collections.defaultdict(list)
for t in base['stable_pass']:
    pkg, name = t.split('::')
    by[pkg].append(name)
env = dict(os.environ, GOFLAGS='-mod=mod', GOPROXY='off', GOSUMDB='off', GOTOOLCHAIN='local')
bad = []
from concurrent.futures import ThreadPoolExecutor
def run_pkg(item):
    pkg, names = item
    out_lines = []
    if filt and filt not in pkg: return []
    tops = sorted({n.split('/')[0] for n in names})
    rx = '^(' + '|'.join(tops) + ')$'
    rel = './' + pkg.replace('github.com/projecteru2/core', '').lstrip('/')
    out = subprocess.run(['go', 'test', '-vet=off', '-count=1', '-json', '-run', rx, rel], cwd=repo, env=env, capture_output=True, text=True)
    res = {}
    for line in out.stdout.splitlines():
        try: e = json.loads(line)
        except Exception: continue
        if e.get('Test') and e.get('Action') in ('pass', 'fail', 'skip'):
            res[e['Test']] = e['Action']
    b = [(pkg, n, res.get(n)) for n in names if res.get(n) != 'pass']
    if b and not os.environ.get('NO_RETRY'):
        # one retry: embedded-etcd/redis tests are flaky under load
        out = subprocess.run(['go', 'test', '-vet=off', '-count=1', '-json', '-run', rx, rel], cwd=repo, env=env, capture_output=True, text=True)
        for line in out.stdout.splitlines():
            try: e = json.loads(line)
            except Exception: continue
            if e.get('Test') and e.get('Action') == 'pass':
                res[e['Test']] = 'pass'
        b = [(pkg, n, res.get(n)) for n in names if res.get(n) != 'pass']
    print(f"{pkg}: {sum(1 for n in names if res.get(n)=='pass')}/{len(names)}", flush=True)
    return b
with ThreadPoolExecutor(int(os.environ.get('JOBS', '6'))) as ex:
    for b in ex.map(run_pkg, sorted(by.items())):
        bad.extend(b)
for b in bad: print('NOT PASS', *b)
sys.exit(1 if bad else 0)
