#!/usr/bin/env python3
"""usage: try_edit.py <props> <file> <old> <new> [<file> <old> <new> ...]
Apply literal replacements to a scratch worktree of /repo HEAD, check that it still builds (go build + go vet of the
touched packages), run the named checks there, remove the worktree.  Exit code = checker's (1 = fired)."""
import os, subprocess, sys, shutil
props = sys.argv[1]; edits = sys.argv[2:]
d = f'/var/tmp/edittry.{os.getpid()}'; ev = f'/var/tmp/editev.{os.getpid()}'
env = dict(os.environ, GOFLAGS='-mod=mod', GOPROXY='off', GOSUMDB='off', GOTOOLCHAIN='local')
subprocess.check_call(['git', '-C', '/repo', 'worktree', 'add', '-q', '--detach', d, 'HEAD'])
rc = 2
try:
    os.makedirs(ev); shutil.copy('/verif/known_findings.json', ev)
    pk = set()
    for i in range(0, len(edits), 3):
        f, old, new = edits[i:i+3]
        s = open(os.path.join(d, f)).read()
        if s.count(old) != 1:
            print(f'EDIT DOES NOT APPLY ({s.count(old)} matches): {f}: {old[:60]!r}'); sys.exit(3)
        open(os.path.join(d, f), 'w').write(s.replace(old, new)); pk.add('./' + os.path.dirname(f))
    b = subprocess.run(['go', 'build'] + sorted(pk), cwd=d, env=env, capture_output=True, text=True)
    if b.returncode != 0:
        print('MUTANT DOES NOT BUILD\n' + b.stderr[-1500:]); sys.exit(4)
    r = subprocess.run(['/verif/bin/verifcheck', '-repo', d, '-verif', ev, '-p', props], capture_output=True, text=True)
    print('\n'.join(l[:330] for l in (r.stdout + r.stderr).splitlines() if not l.startswith('loaded')))
    rc = r.returncode
finally:
    subprocess.call(['git', '-C', '/repo', 'worktree', 'remove', '--force', d]); shutil.rmtree(ev, ignore_errors=True)
sys.exit(rc)
