#!/usr/bin/env python3
"""Re-verify kept seeds against the current /repo HEAD (a later fix: commit may mask a seed's demonstration).
usage: seed_reverify.py <seed name>...   (or --stale: every seed whose patched files were touched by a later /repo commit)
For each: scratch worktree under /var/tmp, patch applies, builds, pinned baseline passes with it, demo fails with it, demo passes
without it, the seed's checks report it.  Updates meta.json ("reverified_head", "reverified") and prints one line per seed."""
import json, os, re, subprocess, sys, shutil, glob
from concurrent.futures import ThreadPoolExecutor
env = dict(os.environ, GOFLAGS='-mod=mod', GOPROXY='off', GOSUMDB='off', GOTOOLCHAIN='local')
HEAD = subprocess.check_output(['git', '-C', '/repo', 'rev-parse', '--short', 'HEAD'], text=True).strip()

def stale():
    log = subprocess.run(['git', '-C', '/repo', 'log', '--format=%H', '--reverse'], capture_output=True, text=True).stdout.split()
    files = {h: set(subprocess.run(['git', '-C', '/repo', 'show', '--name-only', '--format=', h], capture_output=True, text=True).stdout.split()) for h in log}
    out = []
    for f in sorted(glob.glob('/verif/seeded/*/meta.json')):
        m = json.load(open(f))
        head = m.get('reverified_head') or m.get('repo_head') or ''
        full = [h for h in log if h.startswith(head[:7])] if head else []
        if not full:
            out.append(m['seed']); continue
        pf = set(re.findall(r'^\+\+\+ b/(\S+)', open(os.path.dirname(f) + '/patch.diff').read(), re.M))
        if any(files[h] & pf for h in log[log.index(full[0]) + 1:]):
            out.append(m['seed'])
    return out

def one(name):
    sd = f'/verif/seeded/{name}'
    meta = json.load(open(f'{sd}/meta.json'))
    wt, ev = f'/var/tmp/rv_{name}', f'/var/tmp/rvev_{name}'
    res = {}
    def sh(cmd, timeout=3600):
        p = subprocess.run(cmd, shell=True, cwd=wt, env=env, capture_output=True, text=True, timeout=timeout)
        return p.returncode, p.stdout + p.stderr
    subprocess.run(f'git -C /repo worktree remove --force {wt}', shell=True, capture_output=True)
    subprocess.run(f'git -C /repo worktree add -q --detach {wt} HEAD', shell=True, check=True)
    try:
        rc, out = sh(f'git apply {sd}/patch.diff')
        res['applies'] = rc == 0
        if rc: return name, res
        rc, out = sh('go build ./...')
        res['builds'] = rc == 0
        if rc: return name, res
        props = ','.join(meta['breaks_property'] + meta.get('also_checked', []))
        os.makedirs(ev, exist_ok=True); shutil.copy('/verif/known_findings.json', ev)
        r = subprocess.run(['/verif/bin/verifcheck', '-repo', wt, '-verif', ev, '-p', props], capture_output=True, text=True)
        res['detected_primary'] = any(l.startswith(f'VIOLATION property={meta["breaks_property"][0]} ') for l in (r.stdout + r.stderr).splitlines())
        rc, out = sh(f'python3 /verif/tools/run_baseline.py {wt}')
        res['suite'] = rc == 0
        cmd = meta['ran']['demo_cmd']
        dp = open(f'{sd}/demo_path.txt').read()
        pkgdirs = re.findall(r'\./([\w\-/\.]+?)/?(?:\s|$)', cmd)
        for f in sorted(glob.glob(f'{sd}/*.go')):
            base = os.path.basename(f)
            cands = [t for t in re.findall(r'[\w\./\-]+/' + re.escape(base), dp) if not t.startswith(('SEED', '/tmp', './SEED'))]
            dst = cands[0].lstrip('./') if cands else pkgdirs[0] + '/' + base
            os.makedirs(os.path.dirname(f'{wt}/{dst}') or wt, exist_ok=True)
            shutil.copy(f, f'{wt}/{dst}')
        rc, out = sh(cmd)
        res['demo_fails_with'] = rc != 0 and 'build failed' not in out and 'setup failed' not in out
        res['with_out'] = out[-500:]
        sh(f'git apply -R {sd}/patch.diff')
        rc, out = sh(cmd)
        res['demo_passes_without'] = rc == 0
        res['without_out'] = out[-300:]
    finally:
        subprocess.run(f'git -C /repo worktree remove --force {wt}', shell=True, capture_output=True)
        shutil.rmtree(ev, ignore_errors=True)
    ok = all(res.get(k) for k in ('applies', 'builds', 'suite', 'demo_fails_with', 'demo_passes_without'))
    if ok:
        meta['reverified_head'] = HEAD
        json.dump(meta, open(f'{sd}/meta.json', 'w'), indent=1)
    res['ok'] = ok
    return name, res

names = stale() if '--stale' in sys.argv else [a for a in sys.argv[1:] if not a.startswith('-')]
print(len(names), 'seeds to re-verify at', HEAD, flush=True)
with ThreadPoolExecutor(4) as ex:
    for name, res in ex.map(one, names):
        flags = {k: v for k, v in res.items() if isinstance(v, bool)}
        print(name, 'OK' if res.get('ok') else 'NOT-OK', flags, flush=True)
        if not res.get('ok'):
            print('   with:', res.get('with_out', '')[-300:].replace('\n', ' | '))
            print('   without:', res.get('without_out', '')[-200:].replace('\n', ' | '))
