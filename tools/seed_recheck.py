#!/usr/bin/env python3
"""Re-run the checks on every kept seed (/verif/seeded/<name>/patch.diff applied to a scratch worktree of /repo HEAD) and
record in meta.json which rules fire now. Prints a table. usage: seed_recheck.py [name ...]"""
import json, os, subprocess, sys, shutil, glob
names = sys.argv[1:] or sorted(os.path.basename(os.path.dirname(f)) for f in glob.glob('/verif/seeded/*/meta.json'))
registered = subprocess.check_output(['/verif/bin/verifcheck', '-list'], text=True).split()
rows = []
for name in names:
    d = f'/verif/seeded/{name}'
    meta = json.load(open(f'{d}/meta.json'))
    props = [p for p in meta['breaks_property'] + meta.get('also_checked', []) if p in registered]
    wt, ev = f'/var/tmp/rc_{name}', f'/var/tmp/rcev_{name}'
    subprocess.run(f'git -C /repo worktree remove --force {wt}', shell=True, capture_output=True)
    subprocess.run(f'git -C /repo worktree add -q --detach {wt} HEAD', shell=True, check=True)
    try:
        a = subprocess.run(['git', '-C', wt, 'apply', f'{d}/patch.diff'], capture_output=True, text=True)
        if a.returncode != 0:
            a = subprocess.run(f'cd {wt} && patch -p1 --fuzz=3 -s < {d}/patch.diff', shell=True, capture_output=True, text=True)
        if a.returncode != 0:
            meta['recheck'] = {'applies': False}
            rows.append((name, ','.join(props), 'PATCH NO LONGER APPLIES', ''))
            continue
        os.makedirs(ev, exist_ok=True); shutil.copy('/verif/known_findings.json', ev)
        r = subprocess.run(['/verif/bin/verifcheck', '-repo', wt, '-verif', ev, '-p', ','.join(props)], capture_output=True, text=True)
        out = (r.stdout + r.stderr).splitlines()
        rules = sorted({l.split('rule=')[1].split(' ')[0] for l in out if l.startswith(('VIOLATION rule=', 'UNDECIDED rule='))})
        viol = [l for l in out if l.startswith('VIOLATION property=')]
        which = sorted({l.split('property=')[1].split(' ')[0] for l in viol})
        meta['recheck'] = {'applies': True, 'repo_head': subprocess.check_output(['git', '-C', '/repo', 'rev-parse', '--short', 'HEAD'], text=True).strip(),
                           'detected': meta['breaks_property'][0] in which, 'detected_by_related': bool(viol), 'by_property': which, 'rules': rules,
                           'reports': [l[:300] for l in out if l.startswith(('VIOLATION rule=', 'UNDECIDED rule='))][:4]}
        rows.append((name, ','.join(props), 'DETECTED' if meta['breaks_property'][0] in which else ('RELATED-ONLY' if viol else 'MISSED'), ' '.join(which) + ' / ' + ' '.join(rules)))
    finally:
        subprocess.run(f'git -C /repo worktree remove --force {wt}', shell=True, capture_output=True)
        shutil.rmtree(ev, ignore_errors=True)
        json.dump(meta, open(f'{d}/meta.json', 'w'), indent=1)
for row in rows: print('%-8s %-14s %-10s %s' % row)
