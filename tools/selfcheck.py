#!/usr/bin/env python3
"""Exercise /verif the way it is used: for every check of MANIFEST.json remove the evidence file, run the
quick (or thorough) command from /verif, and require exit 0, no VIOLATION line, and a rewritten evidence file
that validates against /root/.vp/EVIDENCE.schema.json with the claimed level.  Also validates MANIFEST.json.
usage: selfcheck.py [quick|thorough] [ID ...]      (needs jsonschema: run with python3-vt)"""
import json, os, subprocess, sys, time
import jsonschema

V = os.path.dirname(os.path.dirname(os.path.abspath(__file__)))
tier = sys.argv[1] if len(sys.argv) > 1 else 'quick'
only = set(sys.argv[2:])
man = json.load(open(os.path.join(V, 'MANIFEST.json')))
jsonschema.validate(man, json.load(open('/root/.vp/MANIFEST.schema.json')))
eschema = json.load(open('/root/.vp/EVIDENCE.schema.json'))
env = dict(os.environ, CARGO_NET_OFFLINE='true', GOPROXY='off', PIP_NO_INDEX='1', VERIF_SEED='1', VERIF_TIER=tier)
props = {json.loads(l)['id'] for l in open(os.path.join(V, 'properties.jsonl')) if l.strip()}
claimed = {c['property_id'] for c in man['checks']}
na = {n['property_id'] for n in man.get('not_applicable', [])}
bad = []
if claimed & na:
    bad.append(f'claimed and not_applicable: {sorted(claimed & na)}')
if (claimed | na) - props:
    bad.append(f'unknown ids: {sorted((claimed | na) - props)}')
if props - claimed - na:
    bad.append(f'properties neither claimed nor not_applicable: {sorted(props - claimed - na)}')
for c in man['checks']:
    pid = c['property_id']
    if only and pid not in only:
        continue
    ev = os.path.join(V, c['evidence_file'])
    if os.path.exists(ev):
        os.remove(ev)
    t0 = time.time()
    r = subprocess.run(c[tier + '_cmd'], shell=True, cwd=V, env=env, capture_output=True, text=True)
    out = r.stdout + r.stderr
    msg = []
    if r.returncode != 0:
        msg.append(f'exit {r.returncode}')
    if 'VIOLATION' in out:
        msg.append('VIOLATION line')
    if not os.path.exists(ev):
        msg.append('evidence not rewritten')
    else:
        e = json.load(open(ev))
        errs = sorted(jsonschema.Draft202012Validator(eschema).iter_errors(e), key=lambda x: list(x.path))
        msg += [f'evidence invalid: {list(x.path)}: {x.message[:120]}' for x in errs]
        if e.get('property_id') != pid:
            msg.append('evidence property_id mismatch')
        if e.get('tier') != tier:
            msg.append('evidence tier mismatch')
        if e.get('level') != c['level_claimed']['category']:
            msg.append(f"evidence level {e.get('level')} != claimed {c['level_claimed']['category']}")
        if e.get('seed') != 1:
            msg.append('evidence seed mismatch')
    kf = out.count('KNOWN-FINDING:')
    print(f"{pid}: {'OK' if not msg else 'BAD ' + '; '.join(msg)}  ({time.time() - t0:.1f}s, {kf} known findings)", flush=True)
    if msg:
        bad.append(pid)
        print(out[-3000:])
print('selfcheck:', 'all quiet' if not bad else f'PROBLEMS {bad}')
sys.exit(1 if bad else 0)
