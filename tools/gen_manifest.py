#!/usr/bin/env python3
"""Regenerate /verif/MANIFEST.json from tools/claims.json (claimed properties) and tools/na.json (reasons for the rest)."""
import json, os
here = os.path.dirname(os.path.abspath(__file__))
root = os.path.dirname(here)
props = [json.loads(l) for l in open(os.path.join(root, 'properties.jsonl'))]
claims = json.load(open(os.path.join(here, 'claims.json')))
na = json.load(open(os.path.join(here, 'na.json')))
checks, not_app = [], []
for p in props:
    i = p['id']
    if i in claims:
        c = claims[i]
        checks.append({
            "property_id": i,
            "quick_cmd": f"bin/verifcheck -p {i} -tier quick",
            "thorough_cmd": f"bin/verifcheck -p {i} -tier thorough",
            "evidence_file": f"evidence/{i}.json",
            "replay_cmd_template": "bin/verifcheck -replayfile {path}",
            "engine": "verifcheck",
            "level_claimed": {"category": "other", "text": c['text'], "design_ref": c.get('design_ref', 'DESIGN.md §4')},
            "level_note": c['note'],
            "technique": c['technique'],
        })
    else:
        not_app.append({"property_id": i, "reason": na.get(i, "not claimed: the static rule designed for this property (DESIGN.md §4) has not been built, so no verdict is given; this is 'not built in the time available', not 'static analysis cannot apply' — see DESIGN.md §9")})
m = {
 "version": 1,
 "setup_cmd": "bash ./setup.sh",
 "hooks": {"guard": "verif", "enable": "no hooks: the checker reads /repo's source through go/packages; nothing in /repo is instrumented and no build tag is needed",
           "baseline_off_cmd": "cd /repo && GOFLAGS=-mod=mod GOPROXY=off GOSUMDB=off go test -vet=off -count=1 ./...",
           "source_commits": [], "add_only": True},
 "engines": [{"name": "verifcheck", "path": "checker/", "serves_properties": sorted(claims.keys()),
              "kind_free_text": "repository-specific static analyser (go/packages + go/types + go/cfg + go/ssa, x/tools v0.29.0): rule engines E1-E12 of DESIGN.md; no code under test is executed"}],
 "checks": checks,
 "not_applicable": not_app,
 "notes": "Static analysis only (DESIGN.md). Every claimed check is level 'other': it decides named structural necessary conditions of the property from the type-checked source and says what it does not decide. known_findings.json lists genuine defects (known) and repaired ones (fixed).",
}
json.dump(m, open(os.path.join(root, 'MANIFEST.json'), 'w'), indent=1)
print(len(checks), "claimed;", len(not_app), "not claimed")
