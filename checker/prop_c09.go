package main

// C09 (E11 maporder): the fold of plugin answers into deploy capacity is order-independent in its unit structure.

import (
	"fmt"
	"go/ast"
	"go/token"
	"go/types"
	"strings"
)

func init() { register("C09", checkC09) }

func checkC09(p *Prog, r *Result, tier string) {
	r.Technique = "unit/shape rules on the fold over the plugin answers (a Go map, so the order is arbitrary): who-returns rule on the merge function, per-field term analysis of every merged entry literal, divisor rule in the caller"
	r.Explanation = "The caller folds the answers with acc = merge(acc, answer) starting from nil and then divides Rate and Usage of every entry by its Weight (FOLD, DIV). For the quotient to be the weight-averaged value independent of the answer order, every entry the merge function returns must carry weight-scaled sums: " +
		"UN1 the merge function never returns one of its parameters as it is (an unscaled first answer) — every returned map is built locally; UN2 in every entry literal it builds, Rate and Usage are sums whose terms are either a field of the accumulator entry (already scaled) or `x.F * x.Weight` of one answer entry, Weight is the sum of the Weight fields of all its sources, Capacity is the minimum over (or the only one of) its sources; UN3 a node is kept only when the other operand has it too (lookup with ok-check); UN4 the branch that copies a single answer is guarded by `acc == nil` (nothing merged yet), never by emptiness; UN5 every entry stored into the result is such a literal, never an entry of an operand; FOLD2 every call of the merge function passes (accumulator, answer) in that order; RM the remap parameters of one workload are kept per plugin (an entry is created only when absent, each answer stored under its plugin's name), so the result does not depend on which plugin answers last."
	r.NotCovered = "floating-point non-associativity of the sums; a plugin answering with weight 0; plugins that fail (the call helper's policy)"
	r.Assumptions = []string{"the accumulator is only ever produced by the merge function itself (checked by FOLD)", "A5 no NaN/Inf in usage/rate"}
	r.min("FOLD", 1)
	r.min("DIV", 2)
	r.min("UN1", 1)
	r.min("UN2", 2)
	r.min("UN3", 1)
	r.min("UN4", 1)
	r.min("FOLD2", 1)
	G := p.Fn("resource/cobalt.Manager.GetNodesDeployCapacity")
	M := p.Fn("resource/cobalt.Manager.mergeCapacity")
	if G == nil || M == nil {
		r.undecided("anchor", "resource/cobalt GetNodesDeployCapacity / mergeCapacity", "", "not found")
		return
	}
	// ---- FOLD: for _, info := range <map> { acc = m.mergeCapacity(acc, info.X) } with acc declared without a value
	var accObj types.Object
	foldOK := false
	var foldAt ast.Node
	G.inspectBody(func(n ast.Node) bool {
		rs, ok := n.(*ast.RangeStmt)
		if !ok {
			return true
		}
		if _, isMap := G.typeOf(rs.X).Underlying().(*types.Map); !isMap {
			return true
		}
		for _, st := range rs.Body.List {
			as, ok := st.(*ast.AssignStmt)
			if !ok || len(as.Lhs) != 1 || len(as.Rhs) != 1 || as.Tok != token.ASSIGN {
				continue
			}
			c, ok := unparen(as.Rhs[0]).(*ast.CallExpr)
			if !ok || G.Callee(c) != M.Obj || len(c.Args) != 2 {
				continue
			}
			lhs := G.objOf(as.Lhs[0])
			if lhs != nil && G.objOf(c.Args[0]) == lhs && rs.Value != nil && G.usesObj(c.Args[1], G.objOf(rs.Value)) {
				accObj, foldOK, foldAt = lhs, true, rs
			}
		}
		return true
	})
	if foldOK {
		// accumulator has no other assignment
		n := 0
		G.inspectBody(func(x ast.Node) bool {
			if as, ok := x.(*ast.AssignStmt); ok {
				for _, l := range as.Lhs {
					if id, ok := l.(*ast.Ident); ok && G.objOf(id) == accObj {
						n++
					}
				}
			}
			if vs, ok := x.(*ast.ValueSpec); ok {
				for i, id := range vs.Names {
					if G.objOf(id) == accObj && i < len(vs.Values) {
						n++
					}
				}
			}
			return true
		})
		foldOK = n == 1
	}
	r.check(foldOK, "FOLD", G.Name+" / answers are folded with acc = merge(acc, answer) from a nil accumulator", p.pos(foldAt), "range over the answer map; the accumulator is assigned only by the merge call", "fold shape not found or the accumulator is also assigned elsewhere: entries may reach the division without having been scaled")
	// ---- DIV: after the fold, Rate and Usage of each entry are divided by the same entry's Weight
	// (in the function itself, or in a helper of the package that is handed the folded map)
	divFns := []*FuncNode{G}
	for _, c := range G.callsDeep(func(f *types.Func) bool { return f.Pkg() == G.Pkg.Types }) {
		if H := p.ByObj[G.Callee(c)]; H != nil && H.Body != nil && H != G && H != M && accObj != nil {
			for _, a := range c.Args {
				if G.objOf(a) == accObj {
					divFns = append(divFns, H)
				}
			}
		}
	}
	for _, f := range []string{"Rate", "Usage"} {
		ok := false
		var at ast.Node
		for _, D := range divFns {
			D := D
			D.inspectBody(func(n ast.Node) bool {
				as, isA := n.(*ast.AssignStmt)
				if !isA || as.Tok != token.QUO_ASSIGN || len(as.Lhs) != 1 {
					return true
				}
				l, ok1 := unparen(as.Lhs[0]).(*ast.SelectorExpr)
				rr, ok2 := unparen(as.Rhs[0]).(*ast.SelectorExpr)
				if ok1 && ok2 && l.Sel.Name == f && rr.Sel.Name == "Weight" && D.objOf(l.X) != nil && D.objOf(l.X) == D.objOf(rr.X) {
					ok, at = true, as
				}
				return true
			})
		}
		r.check(ok, "DIV", fmt.Sprintf("%s / %s is divided by the entry's own weight sum", G.Name, f), p.pos(at), "info."+f+" /= info.Weight", f+" of the merged entry is not divided by that entry's Weight: the reported value is not the weighted average")
	}
	// ---- UN1: merge never returns a parameter
	{
		var bad []string
		nret := 0
		M.inspectBody(func(n ast.Node) bool {
			if rt, ok := n.(*ast.ReturnStmt); ok && len(rt.Results) == 1 {
				nret++
				if o := M.objOf(rt.Results[0]); o != nil && M.paramIndex(o) >= 0 {
					bad = append(bad, "return "+exprStr(rt.Results[0])+" at "+p.pos(rt))
				}
			}
			return true
		})
		r.check(len(bad) == 0 && nret > 0, "UN1", M.Name+" / never returns an operand unscaled", p.pos(M.Decl), fmt.Sprintf("%d return(s), each of a locally built map", nret),
			strings.Join(bad, "; ")+": the first answer reaches `/= Weight` without having been multiplied by its weight, so usage and rate come out divided by the weight, and with several plugins the result depends on which answer the map yields first")
	}
	// ---- UN5: every entry stored into the result is a freshly built literal (judged by UN2), never an entry taken over
	// from an operand — an entry copied from the accumulator has not been given this answer's weighted share
	{
		nst, bad := 0, ""
		ast.Inspect(M.Body, func(n ast.Node) bool {
			as, ok := n.(*ast.AssignStmt)
			if !ok || len(as.Lhs) != 1 || len(as.Rhs) != 1 {
				return true
			}
			ix, ok := unparen(as.Lhs[0]).(*ast.IndexExpr)
			if !ok {
				return true
			}
			t := M.typeOf(ix.X)
			if t == nil || !strings.Contains(t.String(), "NodeDeployCapacity") {
				return true
			}
			nst++
			rhs := unparen(as.Rhs[0])
			if u, ok := rhs.(*ast.UnaryExpr); ok && u.Op == token.AND {
				rhs = unparen(u.X)
			}
			if _, isLit := rhs.(*ast.CompositeLit); !isLit {
				bad = "`" + exprStr(as.Lhs[0]) + " = " + exprStr(as.Rhs[0]) + "` at " + p.pos(as)
			}
			return true
		})
		r.min("UN5", 1)
		r.check(nst > 0 && bad == "", "UN5", M.Name+" / every entry stored is a freshly built literal", p.pos(M.Decl), fmt.Sprintf("%d store(s), each of a literal", nst),
			bad+" stores an entry taken from an operand: the answer being merged contributes neither its weighted usage and rate nor its weight to that node, so the averaged values depend on the order in which the plugins answer")
	}
	// ---- UN2 / UN3: entry literals
	accP, ansP := M.paramObj(0), M.paramObj(1)
	nlit := 0
	var litInfos []mergeLit
	ast.Inspect(M.Body, func(n ast.Node) bool {
		lit, ok := n.(*ast.CompositeLit)
		if !ok {
			return true
		}
		t := M.typeOf(lit)
		if t == nil || !strings.HasSuffix(t.String(), "NodeDeployCapacity") {
			return true
		}
		if _, isStruct := t.Underlying().(*types.Struct); !isStruct {
			return true
		}
		nlit++
		// sources: range/lookup variables bound to entries of the accumulator or of the answer at this literal
		srcFull, conds, condsOK := mergeSources(M, lit, accP, ansP)
		litInfos = append(litInfos, mergeLit{lit, srcFull, conds, condsOK})
		srcKind := map[types.Object]string{}
		for o, k := range srcFull {
			srcKind[o] = k.kind
		}
		key := fmt.Sprintf("%s / entry literal #%d carries weight-scaled sums", M.Name, nlit)
		fields := map[string]ast.Expr{}
		for _, el := range lit.Elts {
			if kv, ok := el.(*ast.KeyValueExpr); ok {
				if id, ok := kv.Key.(*ast.Ident); ok {
					fields[id.Name] = kv.Value
				}
			}
		}
		var terms func(e ast.Expr) []ast.Expr
		terms = func(e ast.Expr) []ast.Expr {
			if be, ok := unparen(e).(*ast.BinaryExpr); ok && be.Op == token.ADD {
				return append(terms(be.X), terms(be.Y)...)
			}
			return []ast.Expr{unparen(e)}
		}
		selOf := func(e ast.Expr) (types.Object, string) {
			if sel, ok := unparen(e).(*ast.SelectorExpr); ok {
				return M.objOf(sel.X), sel.Sel.Name
			}
			return nil, ""
		}
		why := ""
		for _, f := range []string{"Rate", "Usage"} {
			e, ok := fields[f]
			if !ok {
				why = f + " not set"
				break
			}
			seen := map[types.Object]bool{}
			for _, t := range terms(e) {
				if o, name := selOf(t); o != nil && srcKind[o] == "acc" && name == f {
					seen[o] = true
					continue
				}
				if be, ok := t.(*ast.BinaryExpr); ok && be.Op == token.MUL {
					o1, n1 := selOf(be.X)
					o2, n2 := selOf(be.Y)
					if o1 != nil && o1 == o2 && srcKind[o1] == "ans" && ((n1 == f && n2 == "Weight") || (n1 == "Weight" && n2 == f)) {
						seen[o1] = true
						continue
					}
				}
				why = fmt.Sprintf("%s has the term `%s`, which is neither the accumulator's %s nor answer.%s * answer.Weight", f, exprStr(t), f, f)
			}
			if why == "" && len(seen) != len(srcKind) {
				why = fmt.Sprintf("%s does not take a term from each of the %d sources", f, len(srcKind))
			}
		}
		if why == "" {
			seen := map[types.Object]bool{}
			for _, t := range terms(fields["Weight"]) {
				if o, name := selOf(t); o != nil && srcKind[o] != "" && name == "Weight" {
					seen[o] = true
				} else {
					why = "Weight has the term `" + exprStr(t) + "`"
				}
			}
			if why == "" && len(seen) != len(srcKind) {
				why = "Weight is not the sum of the weights of all sources"
			}
		}
		if why == "" {
			e := fields["Capacity"]
			switch len(srcKind) {
			case 1:
				if o, name := selOf(e); o == nil || srcKind[o] == "" || name != "Capacity" {
					why = "Capacity is `" + exprStr(e) + "`, not the source's capacity"
				}
			default:
				c, ok := unparen(e).(*ast.CallExpr)
				if f := (*types.Func)(nil); ok {
					f = M.Callee(c)
					if f == nil || !strings.HasSuffix(objName(f), "utils.Min") || len(c.Args) != len(srcKind) {
						ok = false
					} else {
						for _, a := range c.Args {
							if o, name := selOf(a); o == nil || srcKind[o] == "" || name != "Capacity" {
								ok = false
							}
						}
					}
				}
				if !ok {
					why = "Capacity is `" + exprStr(e) + "`, not the minimum over all sources"
				}
			}
		}
		if len(srcKind) == 0 {
			why = "no accumulator/answer entry is in scope at the literal"
		}
		r.check(why == "", "UN2", key, p.pos(lit), fmt.Sprintf("%d source(s): Rate/Usage = acc + answer*weight, Weight = sum, Capacity = min", len(srcKind)), why+": after the division the value is not the weight-averaged plugin value, or depends on the answer order")
		return true
	})
	if nlit == 0 {
		r.undecided("UN2", M.Name+" / entry literals", p.pos(M.Decl), "no NodeDeployCapacity literal found")
	}
	// ---- UN4: the one-source path (first answer) is taken exactly when the accumulator is nil — "nothing merged yet" —
	// never when it is merely empty: an empty accumulator is a genuine empty intersection and must stay empty
	{
		n4 := 0
		for _, li := range litInfos {
			// an entry built from the answer alone
			nAns, nAcc := 0, 0
			for _, k := range li.src {
				if k.kind == "ans" {
					nAns++
				} else {
					nAcc++
				}
			}
			if nAns != 1 || nAcc != 0 {
				continue
			}
			n4++
			good, seen := false, []string{}
			for _, c := range li.conds {
				be, ok := unparen(c.Expr).(*ast.BinaryExpr)
				if ok && (be.Op == token.EQL || be.Op == token.NEQ) && ((M.objOf(be.X) == accP && isNilIdent(be.Y)) || (M.objOf(be.Y) == accP && isNilIdent(be.X))) {
					if (be.Op == token.EQL) == c.Pos {
						good = true
					}
				}
				if M.usesObj(c.Expr, accP) {
					pre := ""
					if !c.Pos {
						pre = "not "
					}
					seen = append(seen, pre+"`"+exprStr(c.Expr)+"`")
				}
			}
			r.check(good && li.condsOK, "UN4", fmt.Sprintf("%s / first-answer path #%d is taken only for a nil accumulator", M.Name, n4), p.pos(li.lit), "reached only when `acc == nil`",
				"the path that copies one answer is reached under "+strings.Join(seen, " and ")+", not exactly when `acc == nil`: an accumulator that is empty because two plugins offered disjoint node sets (or one offered none) is mistaken for 'nothing merged yet' and the next answer's nodes are offered although an earlier plugin did not offer them; the outcome then depends on the answer order")
		}
		if n4 == 0 {
			r.undecided("UN4", M.Name+" / first-answer path", p.pos(M.Decl), "no branch that copies a single answer found: the fold from a nil accumulator cannot start")
		}
	}
	// ---- FOLD2: every call of the merge function passes the accumulator first and one answer second
	{
		nc := 0
		for _, fn := range p.sortedFuncs("resource/cobalt") {
			for _, c := range fn.calls(func(f *types.Func) bool { return f == M.Obj }) {
				nc++
				good := fn == G && len(c.Args) == 2 && accObj != nil && G.objOf(c.Args[0]) == accObj && !G.usesObj(c.Args[1], accObj)
				r.check(good, "FOLD2", fmt.Sprintf("%s / merge call #%d passes (accumulator, answer)", fn.Name, nc), p.pos(c), "merge(acc, answer)",
					"merge is asymmetric in its operands (the first is already weight-scaled, the second is raw): a call with the operands in another order adds a raw answer unscaled and scales the accumulator again")
			}
		}
	}
	// UN3: the two-operand path keeps a node only under an ok-checked lookup in the other operand: every entry built while
	// walking one operand also has a source found — present — in the other, under the same node name
	{
		ok, n3 := true, 0
		for _, li := range litInfos {
			var ranged, looked []mergeSrc
			for _, k := range li.src {
				if k.lookup {
					looked = append(looked, k)
				} else {
					ranged = append(ranged, k)
				}
			}
			hasAcc := false
			for _, k := range li.src {
				if k.kind == "acc" {
					hasAcc = true
				}
			}
			if !hasAcc {
				continue
			}
			n3++
			good := len(ranged) == 1 && len(looked) == 1 && ranged[0].kind != looked[0].kind && looked[0].key != nil && looked[0].key == ranged[0].key && li.condsOK
			if !good {
				ok = false
			}
		}
		r.check(ok && n3 > 0, "UN3", M.Name+" / a node is offered only if every plugin offers it", p.pos(M.Decl), "entries are stored only under `other, ok := answer[node]` with ok true", "a node missing from one plugin's answer can still be offered")
	}
	// RM: the other aggregation over the plugins that is keyed by workload (remap parameters): the plugins' answers for one
	// workload are kept side by side under each plugin's name, never one replacing the other (shared with C32)
	if MR := p.Fn("resource/cobalt.Manager.Remap"); MR == nil {
		r.undecided("RM", "resource/cobalt.Manager.Remap", "", "not found")
	} else {
		r.min("RM", 1)
		checkRemapMerge(p, r, MR, "RM")
	}
}

// mergeSrc is one operand entry in scope at an entry literal of the merge function.
type mergeSrc struct {
	kind   string       // acc | ans
	lookup bool         // bound by an ok-checked map lookup (else: the value of an enclosing range)
	key    types.Object // the range key / the lookup index variable
}

type mergeLit struct {
	lit     *ast.CompositeLit
	src     map[types.Object]mergeSrc
	conds   []condLit
	condsOK bool
}

// mergeSources: the accumulator/answer entries in scope at lit — values of the enclosing range loops over an operand, and
// variables bound by `v, ok := operand[k]` (as an if's init or as a statement) when lit is reached only with ok true —
// together with the structured path condition of lit.
func mergeSources(M *FuncNode, lit *ast.CompositeLit, accP, ansP types.Object) (map[types.Object]mergeSrc, []condLit, bool) {
	src := map[types.Object]mergeSrc{}
	kindOf := func(o types.Object) string {
		switch o {
		case accP:
			return "acc"
		case ansP:
			return "ans"
		}
		return ""
	}
	conds, ok := pathConds(M.Body, lit)
	// conditions that hold at lit, by the object of a plain (possibly negated) identifier
	holds := map[types.Object]bool{}
	for _, c := range conds {
		e, pos := unparen(c.Expr), c.Pos
		for {
			u, isNot := e.(*ast.UnaryExpr)
			if !isNot || u.Op != token.NOT {
				break
			}
			e, pos = unparen(u.X), !pos
		}
		if o := M.objOf(e); o != nil && pos {
			holds[o] = true
		}
	}
	ast.Inspect(M.Body, func(x ast.Node) bool {
		switch s := x.(type) {
		case *ast.RangeStmt:
			if s.Body.Pos() <= lit.Pos() && lit.End() <= s.Body.End() && s.Value != nil {
				if k := kindOf(M.objOf(s.X)); k != "" {
					var key types.Object
					if s.Key != nil {
						key = M.objOf(s.Key)
					}
					src[M.objOf(s.Value)] = mergeSrc{k, false, key}
				}
			}
		case *ast.AssignStmt:
			if len(s.Lhs) == 2 && len(s.Rhs) == 1 && s.Pos() < lit.Pos() {
				if ix, isIx := unparen(s.Rhs[0]).(*ast.IndexExpr); isIx {
					if k := kindOf(M.objOf(ix.X)); k != "" && holds[M.objOf(s.Lhs[1])] {
						src[M.objOf(s.Lhs[0])] = mergeSrc{k, true, M.objOf(ix.Index)}
					}
				}
			}
		}
		return true
	})
	return src, conds, ok
}
