package main

// C35: RPC authentication accepts exactly matching credentials.

import (
	"fmt"
	"go/ast"
	"go/token"
	"go/types"
	"strings"
)

func init() { register("C35", checkC35) }

func isMDType(t types.Type) bool {
	if t == nil {
		return false
	}
	return strings.HasSuffix(strings.TrimPrefix(t.String(), "*"), "google.golang.org/grpc/metadata.MD")
}

func checkC35(p *Prog, r *Result, tier string) {
	r.Technique = "who-indexes rule on gRPC metadata values, comparison/return shape of doAuth, dominance of the handler call by the auth call in both interceptors (go/cfg), installation-pair rule at the server and per-RPC credential rule at the clients"
	r.Explanation = "AU1 every lookup in an incoming metadata.MD with a non-constant key goes through MD.Get (which lower-cases the key exactly as the transport lower-cases the credential keys a client sends); a raw index with the configured username misses for every username containing an upper-case letter; " +
		"AU2 doAuth returns nil only as its last statement, every earlier branch returns an error, the value compared is element 0 of the looked-up values of the configured username and it is compared for (in)equality with the configured password; " +
		"AU3 in both interceptors the handler call is dominated by a doAuth call whose error is returned; AU4 wherever the server installs one interceptor of the auth object it installs the other, and every client adds the per-RPC credential built by auth.NewCredential from the same config fields as auth.NewAuth; AU5 the credential sends exactly {username: password}."
	r.NotCovered = "the transport (HTTP/2 header rules, TLS); usernames that are not valid header names; timing side channels of the comparison"
	r.Assumptions = []string{"A4 grpc-go lower-cases per-RPC credential keys on the client and metadata.MD.Get lower-cases its key (checked in the module cache)"}
	r.min("AU1", 1)
	r.min("AU2", 1)
	r.min("AU3", 2)
	r.min("AU4", 3)
	r.min("AU5", 1)

	// ---- AU1: lookups in metadata.MD across the module (non-test, non-mock)
	for _, fn := range p.sortedFuncs() {
		if fn.Body == nil {
			continue
		}
		fn := fn
		k := 0
		fn.inspectBody(func(n ast.Node) bool {
			switch x := n.(type) {
			case *ast.IndexExpr:
				if isMDType(fn.typeOf(x.X)) {
					if _, isConst := fn.constString(x.Index); !isConst {
						// a write `md[k] = v` is not a lookup
						k++
						r.bad("AU1", fmt.Sprintf("%s / metadata lookup #%d with key %s", fn.Name, k, exprStr(x.Index)), p.pos(x),
							"raw index into metadata.MD with a non-constant key: incoming keys are lower-case, so a configured name with an upper-case letter is never found and identical credentials are rejected")
					}
				}
			case *ast.CallExpr:
				if f := fn.Callee(x); f != nil && fullObjName(f) == "google.golang.org/grpc/metadata.MD.Get" {
					k++
					r.ok("AU1", fmt.Sprintf("%s / metadata lookup #%d with key %s", fn.Name, k, exprStr(x.Args[0])), p.pos(x), "MD.Get normalizes the key")
				}
			}
			return true
		})
	}

	// ---- AU2: doAuth
	A := p.Fn("auth/simple.(*BasicAuth).doAuth")
	akey := "auth/simple.(*BasicAuth).doAuth / accepts iff element 0 of the configured username's values equals the configured password"
	if A == nil {
		r.undecided("AU2", akey, "", "not found")
	} else {
		rv := recvObj(A)
		why := ""
		body := A.Body.List
		// last statement is the only `return nil`
		nNil := 0
		A.inspectBody(func(n ast.Node) bool {
			if rt, ok := n.(*ast.ReturnStmt); ok && len(rt.Results) == 1 && isNilIdent(rt.Results[0]) {
				nNil++
			}
			return true
		})
		if last, ok := body[len(body)-1].(*ast.ReturnStmt); !ok || len(last.Results) != 1 || !isNilIdent(last.Results[0]) || nNil != 1 {
			why = fmt.Sprintf("`return nil` must be the last statement and the only one (found %d)", nNil)
		}
		// every top-level if ends with a return of a non-nil value and has no else
		for _, st := range body[:len(body)-1] {
			if is, ok := st.(*ast.IfStmt); ok {
				lastS := is.Body.List[len(is.Body.List)-1]
				rt, isRet := lastS.(*ast.ReturnStmt)
				if !isRet || len(rt.Results) != 1 || isNilIdent(rt.Results[0]) || is.Else != nil {
					why = "a branch before the final return does not return an error: " + p.pos(is)
				}
			}
		}
		// the lookup: v := <md>.Get(recv.username) with md from metadata.FromIncomingContext(ctx)
		var vals types.Object
		A.inspectBody(func(n ast.Node) bool {
			as, ok := n.(*ast.AssignStmt)
			if !ok || len(as.Rhs) != 1 {
				return true
			}
			switch x := unparen(as.Rhs[0]).(type) {
			case *ast.CallExpr:
				if f := A.Callee(x); f != nil && fullObjName(f) == "google.golang.org/grpc/metadata.MD.Get" && len(x.Args) == 1 {
					if sel, ok := unparen(x.Args[0]).(*ast.SelectorExpr); ok && A.objOf(sel.X) == rv && sel.Sel.Name == "username" {
						vals = A.objOf(as.Lhs[0])
					}
				}
			case *ast.IndexExpr:
				if isMDType(A.typeOf(x.X)) {
					if sel, ok := unparen(x.Index).(*ast.SelectorExpr); ok && A.objOf(sel.X) == rv && sel.Sel.Name == "username" {
						vals = A.objOf(as.Lhs[0]) // raw index: reported by AU1, the rest of the shape is still checked
					}
				}
			}
			return true
		})
		cmp, guard := false, false
		if vals == nil {
			why = "no lookup of the configured username in the incoming metadata found"
		} else {
			A.inspectBody(func(n ast.Node) bool {
				is, ok := n.(*ast.IfStmt)
				if !ok {
					return true
				}
				// only the condition itself or a disjunct of a top-level `||` chain counts: under `&&` the error
				// return would need a second condition to hold
				var disj []ast.Expr
				var split func(e ast.Expr)
				split = func(e ast.Expr) {
					if be, ok := unparen(e).(*ast.BinaryExpr); ok && be.Op == token.LOR {
						split(be.X)
						split(be.Y)
						return
					}
					disj = append(disj, unparen(e))
				}
				split(is.Cond)
				for _, y := range disj {
					be, ok := y.(*ast.BinaryExpr)
					if !ok {
						continue
					}
					if be.Op == token.NEQ {
						for _, pr := range [][2]ast.Expr{{be.X, be.Y}, {be.Y, be.X}} {
							ix, ok1 := unparen(pr[0]).(*ast.IndexExpr)
							sel, ok2 := unparen(pr[1]).(*ast.SelectorExpr)
							if ok1 && ok2 && A.objOf(ix.X) == vals && A.objOf(sel.X) == rv && sel.Sel.Name == "password" {
								if v, isC := A.constInt(ix.Index); isC && v == 0 {
									cmp = true
								}
							}
						}
					}
					// emptiness guard: len(vals) < 1 / == 0
					if be.Op == token.LSS || be.Op == token.EQL {
						if c, ok := unparen(be.X).(*ast.CallExpr); ok && isBuiltinCall(A, c, "len") && A.objOf(c.Args[0]) == vals {
							if v, isC := A.constInt(be.Y); isC && ((be.Op == token.LSS && v == 1) || (be.Op == token.EQL && v == 0)) {
								guard = true
							}
						}
					}
				}
				return true
			})
			if !cmp {
				why = "no branch `values[0] != <configured password>` that returns an error"
			} else if !guard {
				why = "no emptiness guard on the looked-up values before element 0 is read"
			}
		}
		r.check(why == "", "AU2", akey, p.pos(A.Decl), "error returns on: no metadata, empty lookup, values[0] != password; single final return nil", why+": a request is accepted without the configured password, or a matching one is rejected")
	}

	// ---- AU3: interceptors
	for _, nm := range []string{"auth/simple.(*BasicAuth).StreamInterceptor", "auth/simple.(*BasicAuth).UnaryInterceptor"} {
		F := p.Fn(nm)
		key := nm + " / handler runs only after doAuth succeeded"
		if F == nil || A == nil {
			r.undecided("AU3", key, "", "not found")
			continue
		}
		// handler: the parameter of func type that is called
		var hcall *ast.CallExpr
		var guardIf *ast.IfStmt
		F.inspectBody(func(n ast.Node) bool {
			switch x := n.(type) {
			case *ast.CallExpr:
				if id, ok := unparen(x.Fun).(*ast.Ident); ok {
					if o := F.objOf(id); o != nil && F.paramIndex(o) >= 0 {
						hcall = x
					}
				}
			case *ast.IfStmt:
				if as, ok := x.Init.(*ast.AssignStmt); ok && len(as.Rhs) == 1 {
					if c, ok := unparen(as.Rhs[0]).(*ast.CallExpr); ok && F.Callee(c) == A.Obj {
						errObj := F.objOf(as.Lhs[0])
						if be, ok := unparen(x.Cond).(*ast.BinaryExpr); ok && be.Op == token.NEQ && F.objOf(be.X) == errObj && isNilIdent(be.Y) {
							if rt, ok := x.Body.List[len(x.Body.List)-1].(*ast.ReturnStmt); ok && len(rt.Results) > 0 && F.objOf(rt.Results[len(rt.Results)-1]) == errObj {
								guardIf = x
							}
						}
					}
				}
			}
			return true
		})
		ok := hcall != nil && guardIf != nil && F.dominates(F.find(guardIf.Init), F.find(hcall))
		r.check(ok, "AU3", key, p.pos(F.Decl), "`if err := b.doAuth(ctx); err != nil { return ..., err }` dominates the handler call", "the handler can run without a successful doAuth (call missing, error ignored, or not on every path)")
	}

	// ---- AU4: installation pairs and clients
	nInstall := 0
	for _, fn := range p.sortedFuncs() {
		if fn.Body == nil || fn.Parent != nil {
			continue
		}
		var stream, unary []types.Object
		var creds []*ast.CallExpr
		ast.Inspect(fn.Body, func(n ast.Node) bool {
			c, ok := n.(*ast.CallExpr)
			if !ok || len(c.Args) != 1 {
				return true
			}
			f := fn.Pkg.TypesInfo.Uses[calleeIdent(c)]
			fo, _ := f.(*types.Func)
			if fo == nil {
				return true
			}
			switch fullObjName(fo) {
			case "google.golang.org/grpc.StreamInterceptor", "google.golang.org/grpc.UnaryInterceptor":
				if sel, ok := unparen(c.Args[0]).(*ast.SelectorExpr); ok {
					if base := fn.Pkg.TypesInfo.ObjectOf(rootIdent(sel.X)); base != nil && strings.HasSuffix(base.Type().String(), "core/auth.Auth") {
						if strings.HasSuffix(fullObjName(fo), "StreamInterceptor") && sel.Sel.Name == "StreamInterceptor" {
							stream = append(stream, base)
						} else if strings.HasSuffix(fullObjName(fo), "UnaryInterceptor") && sel.Sel.Name == "UnaryInterceptor" {
							unary = append(unary, base)
						} else {
							stream, unary = append(stream, nil), append(unary, base) // crossed: force a mismatch
						}
					}
				}
			case "google.golang.org/grpc.WithPerRPCCredentials":
				creds = append(creds, c)
			}
			return true
		})
		if len(stream)+len(unary) > 0 {
			nInstall++
			ok := len(stream) == 1 && len(unary) == 1 && stream[0] == unary[0] && stream[0] != nil
			r.check(ok, "AU4", fn.Name+" / stream and unary interceptors of the same auth object are installed together", p.pos(fn.Decl), "one StreamInterceptor and one UnaryInterceptor of the same object", fmt.Sprintf("stream installs: %d, unary installs: %d (or of different objects): one kind of call is served without authentication", len(stream), len(unary)))
		}
		for i, c := range creds {
			ok := false
			if ic, isC := unparen(c.Args[0]).(*ast.CallExpr); isC {
				if f := fn.Callee(ic); f != nil && objName(f) == "auth.NewCredential" {
					ok = true
				}
			}
			r.check(ok, "AU4", fmt.Sprintf("%s / per-RPC credential #%d is auth.NewCredential(config)", fn.Name, i+1), p.pos(c), "auth.NewCredential", "the client does not send the credential built from its auth config")
		}
	}
	if nInstall == 0 {
		r.undecided("AU4", "server installation of the auth interceptors", "", "no grpc.StreamInterceptor/UnaryInterceptor installation of an auth.Auth found")
	}
	// NewAuth and NewCredential read the same config fields in the same order
	{
		argsOf := func(nm string) string {
			F := p.Fn(nm)
			if F == nil {
				return "?" + nm
			}
			out := ""
			F.inspectBody(func(n ast.Node) bool {
				if rt, ok := n.(*ast.ReturnStmt); ok && len(rt.Results) == 1 {
					if c, ok := unparen(rt.Results[0]).(*ast.CallExpr); ok {
						var parts []string
						for _, a := range c.Args {
							if sel, ok := unparen(a).(*ast.SelectorExpr); ok && F.paramIndex(F.objOf(sel.X)) == 0 {
								parts = append(parts, sel.Sel.Name)
							} else {
								parts = append(parts, "?"+exprStr(a))
							}
						}
						out = strings.Join(parts, ",")
					}
				}
				return true
			})
			return out
		}
		a, c := argsOf("auth.NewAuth"), argsOf("auth.NewCredential")
		r.check(a == "Username,Password" && a == c, "AU4", "auth.NewAuth and auth.NewCredential / same config fields in the same order", "", "both (Username, Password)", fmt.Sprintf("server side is built from (%s), client side from (%s): identical configuration does not yield matching credentials", a, c))
	}

	// ---- AU5: the credential sends exactly {username: password}
	G := p.Fn("auth/simple.BasicCredential.GetRequestMetadata")
	gkey := "auth/simple.BasicCredential.GetRequestMetadata / sends exactly {username: password}"
	if G == nil {
		r.undecided("AU5", gkey, "", "not found")
		return
	}
	rv := recvObj(G)
	ok := false
	G.inspectBody(func(n ast.Node) bool {
		if rt, isR := n.(*ast.ReturnStmt); isR && len(rt.Results) == 2 && isNilIdent(rt.Results[1]) {
			if lit, isL := unparen(rt.Results[0]).(*ast.CompositeLit); isL && len(lit.Elts) == 1 {
				if kv, isKV := lit.Elts[0].(*ast.KeyValueExpr); isKV {
					ks, ok1 := unparen(kv.Key).(*ast.SelectorExpr)
					vs, ok2 := unparen(kv.Value).(*ast.SelectorExpr)
					if ok1 && ok2 && G.objOf(ks.X) == rv && G.objOf(vs.X) == rv && ks.Sel.Name == "username" && vs.Sel.Name == "password" {
						ok = true
					}
				}
			}
		}
		return true
	})
	r.check(ok, "AU5", gkey, p.pos(G.Decl), "map literal {c.username: c.password}, nil error", "the credential does not send the configured username with the configured password")
}

func calleeIdent(c *ast.CallExpr) *ast.Ident {
	switch f := unparen(c.Fun).(type) {
	case *ast.Ident:
		return f
	case *ast.SelectorExpr:
		return f.Sel
	}
	return nil
}

func rootIdent(e ast.Expr) *ast.Ident {
	for {
		switch x := unparen(e).(type) {
		case *ast.Ident:
			return x
		case *ast.SelectorExpr:
			e = x.X
		default:
			return nil
		}
	}
}
