package main

// C03: strategies place instances according to their documented balancing rule (E5 cmpeval + use rules).

import (
	"fmt"
	"go/ast"
	"go/token"
	"go/types"
	"sort"
	"strings"
)

func init() { register("C03", checkC03) }

// documented orders, from the property's anchors (one line each)
var c03Expected = map[string][]keyDir{
	"strategy.infoHeap.Less":                  {{"Count", true}, {"Capacity", false}},  // AUTO: fewest instances first, then most capacity
	"strategy.infoHeapForGlobalStrategy.Less": {{"Usage+Rate", true}},                  // GLOBAL: lowest usage after one more instance first
	"strategy.DrainedPlan sort#1":             {{"Capacity", true}, {"Usage", false}},  // DRAINED: smallest capacity first, then highest usage
	"strategy.AveragePlan sort#1":             {{"Capacity", false}},                   // EACH: most capacity first
	"strategy.FillPlan sort#1":                {{"Count", false}, {"Capacity", false}}, // FILL: most instances first, then most capacity
}

// placement model of the heap-based plans: what placing one instance on the popped node does to it
var c03Updates = map[string][]string{
	"strategy.CommunismPlan": {"Count+1", "Capacity-1"},
	"strategy.GlobalPlan":    {"Usage+Rate", "Capacity-1"},
}

func isSortSlice(f *types.Func) bool {
	n := fullObjName(f)
	return n == "sort.Slice" || n == "sort.SliceStable"
}

func checkC03(p *Prog, r *Result, tier string) {
	r.Technique = "abstract evaluation of every ordering function of package strategy over all 3^n key orderings and 13^n weak-order triples (strict-weak-order laws, lexicographic signature vs. the documented order), plus go/cfg rules on how the order is consumed (search predicate agreement, front-to-back consumption, heap discipline, placement update of the popped node)"
	r.Explanation = "P4 the per-node instance count handed to the strategies (GetDeployStatus) is the deployed count plus the in-progress count for every node of either map, read in that order; SWO every comparator handed to sort.Slice and every heap Less in package strategy compares its two operands only through relational operators on the same key of both, and as a boolean function of the key orderings it is irreflexive, asymmetric, transitive and has transitive incomparability (evaluated exhaustively, no concrete values); " +
		"SIG its lexicographic signature equals the documented one (AUTO Count↑ Capacity↓; GLOBAL Usage+Rate↑; DRAINED Capacity↑ Usage↓; EACH Capacity↓; FILL Count↓ Capacity↓); " +
		"SRCH a sort.Search over a sorted slice tests the first sort key with a direction that is monotone along that order and searches the whole slice; " +
		"USE a sorted slice is consumed front to back (range over it or a prefix, or an index loop from 0 upwards); " +
		"HP heap.Init dominates every heap.Pop and no direct Push/Pop method call bypasses container/heap once the heap is initialised; " +
		"UPD between heap.Pop and heap.Push the popped node is charged for the placement exactly as the model says (AUTO: Count+1, Capacity-1; GLOBAL: Usage+=Rate, Capacity-1) and the plan entry of that node is incremented. " +
		"KEYW the ordering keys (Usage, Rate, Capacity, Count of strategy.Info) are written nowhere in package strategy except by the placement updates of UPD: the comparators see the values the caller supplied; DISP the strategy names map to the documented plan functions and Deploy hands its candidate slice unchanged to the selected plan; SRC the candidate list is assembled field by field from the capacity answer and the deploy status of the same node. " +
		"This decides that the order each strategy consults is the documented order and that it is consulted consistently; it does not compute placements."
	r.NotCovered = "the numeric balancing relation of the final plan (C01/C02 are not applicable); NaN keys; sort stability among equal keys"
	r.Assumptions = []string{"A5 no NaN in Usage/Rate", "sort.Slice, sort.Search and container/heap behave as documented"}
	r.min("SWO", 5)
	r.min("SIG", 5)
	r.min("SRCH", 1)
	r.min("USE", 3)
	r.min("HP", 2)
	r.min("UPD", 2)
	r.min("KEYW", 1)
	r.min("DISP", 2)
	r.min("SRC", 1)
	c03KeysAndDispatch(p, r)

	// ---- controls: the evaluator must reject a non-asymmetric comparator and accept its repaired form
	bad := parseCmp(`func(i, j int) bool { if s[i].A < s[j].A { return true }; return s[i].B > s[j].B }`).analyse()
	good := parseCmp(`func(i, j int) bool { if s[i].A != s[j].A { return s[i].A < s[j].A }; return s[i].B > s[j].B }`).analyse()
	r.control("SWO/bad (if a<b return true; return c>d)", len(bad.Problems) > 0, true)
	r.control("SWO/good (lexicographic)", len(good.Problems) > 0 || good.Err != "" || sigString(good.Signature) != "A↑, B↓", false)
	le := parseCmp(`func(i, j int) bool { return s[i].A <= s[j].A }`).analyse()
	r.control("SWO/bad (<=)", len(le.Problems) > 0, true)

	funcs := p.sortedFuncs("strategy")
	seen := map[string]bool{}
	sigOf := map[string][]keyDir{} // site -> signature
	type sortSite struct {
		fn    *FuncNode
		call  *ast.CallExpr
		slice types.Object
		key   string
	}
	var sorts []sortSite

	var mkInline func(fn *FuncNode) func(call *ast.CallExpr) (*cmpFunc, [2]int, bool)
	mkInline = func(fn *FuncNode) func(call *ast.CallExpr) (*cmpFunc, [2]int, bool) {
		return func(call *ast.CallExpr) (*cmpFunc, [2]int, bool) {
			f := fn.Callee(call)
			if f == nil || p.ByObj[f] == nil || len(call.Args) != 2 {
				return nil, [2]int{}, false
			}
			callee := p.ByObj[f]
			var names []string
			for _, fl := range fn.Type.Params.List {
				for _, id := range fl.Names {
					names = append(names, id.Name)
				}
			}
			a0, ok0 := unparen(call.Args[0]).(*ast.Ident)
			a1, ok1 := unparen(call.Args[1]).(*ast.Ident)
			if !ok0 || !ok1 || len(names) != 2 {
				return nil, [2]int{}, false
			}
			perm := [2]int{0, 1}
			switch {
			case a0.Name == names[0] && a1.Name == names[1]:
			case a0.Name == names[1] && a1.Name == names[0]:
				perm = [2]int{1, 0}
			default:
				return nil, [2]int{}, false
			}
			return newCmpFunc(callee.Type, callee.Body, mkInline(callee)), perm, true
		}
	}

	evalSite := func(site string, fn *FuncNode, typ *ast.FuncType, body *ast.BlockStmt, at ast.Node) {
		seen[site] = true
		c := newCmpFunc(typ, body, mkInline(fn))
		v := c.analyse()
		if v.Err != "" {
			r.undecided("SWO", site, p.pos(at), "comparator shape not interpretable: "+v.Err)
			return
		}
		detail := fmt.Sprintf("keys %v; %d pair orderings, %d weak-order triples evaluated", v.Keys, v.Pairs, v.Tri)
		if len(v.Problems) > 0 {
			r.bad("SWO", site, p.pos(at), "not a strict weak order: "+strings.Join(v.Problems, "; ")+" — sort.Slice/heap give an arbitrary order for such inputs, so the strategy does not follow its documented rule")
		} else {
			r.ok("SWO", site, p.pos(at), detail)
		}
		want, has := c03Expected[site]
		if !has {
			r.undecided("SIG", site, p.pos(at), "ordering function without a documented order in the checker's table (new comparator in package strategy): signature "+sigString(v.Signature))
			return
		}
		sigOf[site] = v.Signature
		if v.Signature == nil {
			r.bad("SIG", site, p.pos(at), "the comparator is not a lexicographic order of its keys; documented: "+sigString(want))
		} else if sigString(v.Signature) != sigString(want) {
			r.bad("SIG", site, p.pos(at), fmt.Sprintf("order is %s, documented order is %s", sigString(v.Signature), sigString(want)))
		} else {
			r.ok("SIG", site, p.pos(at), "order "+sigString(v.Signature))
		}
	}

	for _, fn := range funcs {
		if fn.Lit != nil {
			continue
		}
		// heap/sort Less methods
		if fn.Decl != nil && fn.Decl.Recv != nil && fn.Decl.Name.Name == "Less" {
			evalSite(fn.Name, fn, fn.Type, fn.Body, fn.Decl)
		}
		// sort.Slice literals anywhere in the function (including nested literals)
		k := 0
		ast.Inspect(fn.Body, func(n ast.Node) bool {
			call, ok := n.(*ast.CallExpr)
			if !ok {
				return true
			}
			f := typeutilCallee(fn, call)
			if f == nil {
				return true
			}
			full := fullObjName(f)
			if strings.HasPrefix(full, "slices.Sort") || full == "sort.Sort" || full == "sort.Stable" {
				k++
				r.undecided("SWO", fmt.Sprintf("%s sort#%d", fn.Name, k), p.pos(call), "ordering through "+full+": this form is not interpreted by the comparator evaluator")
				return true
			}
			if !isSortSlice(f) || len(call.Args) != 2 {
				return true
			}
			k++
			site := fmt.Sprintf("%s sort#%d", fn.Name, k)
			lit, ok := unparen(call.Args[1]).(*ast.FuncLit)
			if !ok {
				if cn, ok2 := p.resolveFuncArg(fn, call.Args[1]); ok2 && cn != nil {
					evalSite(site, cn, cn.Type, cn.Body, call)
				} else {
					r.undecided("SWO", site, p.pos(call), "comparator argument is not a function literal or a resolvable function")
				}
			} else {
				evalSite(site, fn, lit.Type, lit.Body, call)
			}
			sorts = append(sorts, sortSite{fn, call, fn.objOf(call.Args[0]), site})
			return true
		})
	}
	for site := range c03Expected {
		if !seen[site] {
			r.undecided("SIG", site, "", "documented ordering site not found in package strategy (renamed or removed)")
		}
	}

	// ---- SRCH and USE per sort site
	for _, s := range sorts {
		fn := s.fn
		if s.slice == nil {
			r.undecided("USE", s.key, p.pos(s.call), "sorted operand is not a plain variable")
			continue
		}
		sortRef := fn.find(s.call)
		// SRCH
		ks := 0
		fn.inspectBody(func(n ast.Node) bool {
			call, ok := n.(*ast.CallExpr)
			if !ok {
				return true
			}
			f := fn.Callee(call)
			if f == nil || fullObjName(f) != "sort.Search" || len(call.Args) != 2 {
				return true
			}
			lit, ok := unparen(call.Args[1]).(*ast.FuncLit)
			if !ok || !fn.usesObj(lit, s.slice) {
				return true
			}
			ks++
			key := fmt.Sprintf("%s / search#%d", s.key, ks)
			why := c03SearchAgrees(fn, call, lit, s.slice, sigOf[s.key])
			if why == "" && !fn.dominates(sortRef, fn.find(call)) {
				why = "the sort does not dominate the search"
			}
			r.check(why == "", "SRCH", key, p.pos(call), "predicate is monotone along "+sigString(sigOf[s.key])+" and spans the slice", "binary search disagrees with the sort: "+why)
			return true
		})
		// USE
		why, nuse := c03ConsumedFrontToBack(fn, s.call, s.slice)
		if nuse == 0 {
			r.undecided("USE", s.key, p.pos(s.call), "the sorted slice is never consumed after the sort")
		} else {
			r.check(why == "", "USE", s.key, p.pos(s.call), fmt.Sprintf("%d uses after the sort, all front-to-back", nuse), why)
		}
	}

	// ---- HP / UPD: heap-based plans
	isHeapFn := func(name string) func(*types.Func) bool {
		return func(f *types.Func) bool { return fullObjName(f) == "container/heap."+name }
	}
	for _, fn := range funcs {
		if fn.Lit != nil {
			continue
		}
		pops := fn.calls(isHeapFn("Pop"))
		if len(pops) == 0 {
			continue
		}
		inits := fn.calls(isHeapFn("Init"))
		// a constructor of the package that hands back an initialised heap (heap.Init dominates each of its returns and no
		// direct Push/Pop follows it there) initialises as well
		for _, c := range fn.calls(func(f *types.Func) bool { return f.Pkg() == fn.Pkg.Types }) {
			H := p.ByObj[fn.Callee(c)]
			if H == nil || H.Body == nil || H == fn || H.Lit != nil {
				continue
			}
			hin := H.calls(isHeapFn("Init"))
			if len(hin) == 0 {
				continue
			}
			good := true
			inspectNoLit(H.Body, func(n ast.Node) bool {
				switch y := n.(type) {
				case *ast.ReturnStmt:
					dom := false
					for _, ic := range hin {
						if H.dominates(H.find(ic), H.find(y)) {
							dom = true
						}
					}
					if !dom {
						good = false
					}
				case *ast.CallExpr:
					if sel, ok := unparen(y.Fun).(*ast.SelectorExpr); ok && (sel.Sel.Name == "Push" || sel.Sel.Name == "Pop") {
						if f := H.Callee(y); f != nil && f.Pkg() != nil && relPath(f.Pkg().Path()) == "strategy" {
							cr := H.find(y)
							for _, ic := range hin {
								if _, ok := H.reach(H.find(ic), true, func(x nodeRef) bool { return x == cr }, nil, false); ok {
									good = false
								}
							}
						}
					}
				}
				return true
			})
			if good {
				inits = append(inits, c)
			}
		}
		why := ""
		for _, pc := range pops {
			dom := false
			for _, ic := range inits {
				if fn.dominates(fn.find(ic), fn.find(pc)) {
					dom = true
				}
			}
			if !dom {
				why = "heap.Pop at " + p.pos(pc) + " is not dominated by heap.Init"
			}
		}
		// direct Push/Pop method calls on a heap implementation reachable after heap.Init
		fn.inspectBody(func(n ast.Node) bool {
			call, ok := n.(*ast.CallExpr)
			if !ok {
				return true
			}
			sel, ok := unparen(call.Fun).(*ast.SelectorExpr)
			if !ok || (sel.Sel.Name != "Push" && sel.Sel.Name != "Pop") {
				return true
			}
			f := fn.Callee(call)
			if f == nil || f.Pkg() == nil || relPath(f.Pkg().Path()) != "strategy" {
				return true
			}
			cr := fn.find(call)
			for _, ic := range inits {
				if _, ok := fn.reach(fn.find(ic), true, func(x nodeRef) bool { return x == cr }, nil, false); ok {
					why = "direct " + sel.Sel.Name + " method call at " + p.pos(call) + " after heap.Init bypasses container/heap: the heap invariant is lost and Pop no longer yields the minimum"
				}
			}
			return true
		})
		r.check(why == "", "HP", fn.Name, p.pos(fn.Decl), fmt.Sprintf("%d heap.Pop dominated by heap.Init, no direct Push/Pop afterwards", len(pops)), why)

		// UPD
		want, has := c03Updates[fn.Name]
		if !has {
			r.undecided("UPD", fn.Name, p.pos(fn.Decl), "heap-based plan without a placement model in the checker's table")
			continue
		}
		r.check2(c03PlacementUpdate(p, fn, pops, want), "UPD", fn.Name, p.pos(fn.Decl), "popped node charged "+strings.Join(want, ", ")+" before it is pushed back; plan entry incremented")
	}
	for name := range c03Updates {
		if p.Fn(name) == nil {
			r.undecided("UPD", name, "", "heap-based plan not found")
		}
	}
	names := []string{}
	for k, v := range c03Expected {
		names = append(names, k+": "+sigString(v))
	}
	sort.Strings(names)
	r.Tables["documented_orders"] = names
	r.Analysed["ordering_functions"] = len(seen)
	// P4 (shared with C13): the instance count the strategies balance on is deployed + in-progress for every node that
	// appears in either source, in both backends
	checkP4(p, r)
}

// check2 records ok when why is empty, a violation with why otherwise.
func (r *Result) check2(why string, rule, construct, pos, okDetail string) {
	if why == "" {
		r.ok(rule, construct, pos, okDetail)
	} else {
		r.bad(rule, construct, pos, why)
	}
}

func typeutilCallee(fn *FuncNode, call *ast.CallExpr) *types.Func { return fn.Callee(call) }

// c03SearchAgrees: predicate `S[i].K op c` against the signature of the sort on S.
func c03SearchAgrees(fn *FuncNode, call *ast.CallExpr, lit *ast.FuncLit, slice types.Object, sig []keyDir) string {
	if len(sig) == 0 {
		return "the sort order could not be determined"
	}
	// length argument: len(S) or a single-definition local bound to len(S)
	lenOK := false
	isLenS := func(e ast.Expr) bool {
		c, ok := unparen(e).(*ast.CallExpr)
		if !ok || len(c.Args) != 1 {
			return false
		}
		id, ok := c.Fun.(*ast.Ident)
		return ok && id.Name == "len" && fn.objOf(c.Args[0]) == slice
	}
	if isLenS(call.Args[0]) {
		lenOK = true
	} else if o := fn.objOf(call.Args[0]); o != nil {
		ndef := 0
		fn.inspectBody(func(n ast.Node) bool {
			if as, ok := n.(*ast.AssignStmt); ok {
				for i, l := range as.Lhs {
					if fn.objOf(l) == o {
						ndef++
						if len(as.Rhs) == len(as.Lhs) && isLenS(as.Rhs[i]) {
							lenOK = true
						}
					}
				}
			}
			return true
		})
		if ndef != 1 {
			lenOK = false
		}
	}
	if !lenOK {
		return "the search range is not the length of the sorted slice"
	}
	if len(lit.Type.Params.List) != 1 || len(lit.Type.Params.List[0].Names) != 1 || len(lit.Body.List) != 1 {
		return "predicate is not a single-parameter, single-return literal"
	}
	ix := lit.Type.Params.List[0].Names[0].Name
	ret, ok := lit.Body.List[0].(*ast.ReturnStmt)
	if !ok || len(ret.Results) != 1 {
		return "predicate is not a single return"
	}
	be, ok := unparen(ret.Results[0]).(*ast.BinaryExpr)
	if !ok {
		return "predicate is not a comparison"
	}
	c := &cmpFunc{pi: ix, pj: "\x00", subst: map[string]ast.Expr{}}
	l, li, _ := c.normKey(be.X)
	rr, ri, _ := c.normKey(be.Y)
	op := be.Op
	key := l
	switch {
	case li && !ri:
	case ri && !li:
		key = rr
		switch op { // mirror
		case token.LSS:
			op = token.GTR
		case token.GTR:
			op = token.LSS
		case token.LEQ:
			op = token.GEQ
		case token.GEQ:
			op = token.LEQ
		}
	default:
		return "predicate does not compare a key of the element with a bound"
	}
	if shortKey(key) != sig[0].Key {
		return fmt.Sprintf("predicate tests %s but the slice is sorted by %s first", shortKey(key), sig[0].Key)
	}
	switch op {
	case token.LSS, token.LEQ: // true for small keys: they must come last => descending
		if sig[0].Asc {
			return "predicate is true for small " + sig[0].Key + " but the slice is sorted ascending: sort.Search needs false…true"
		}
	case token.GTR, token.GEQ:
		if !sig[0].Asc {
			return "predicate is true for large " + sig[0].Key + " but the slice is sorted descending: sort.Search needs false…true"
		}
	default:
		return "predicate uses ==/!=, which is not monotone"
	}
	return ""
}

// c03ConsumedFrontToBack classifies every use of the sorted slice after the sort call.
func c03ConsumedFrontToBack(fn *FuncNode, sortCall *ast.CallExpr, slice types.Object) (string, int) {
	why := ""
	n := 0
	var stack []ast.Node
	ast.Inspect(fn.Body, func(x ast.Node) bool {
		if x == nil {
			stack = stack[:len(stack)-1]
			return false
		}
		stack = append(stack, x)
		if _, ok := x.(*ast.FuncLit); ok {
			stack = stack[:len(stack)-1]
			return false // comparator, search predicate
		}
		id, ok := x.(*ast.Ident)
		if !ok || fn.objOf(id) != slice || id.Pos() < sortCall.End() {
			return true
		}
		n++
		// walk up
		parent := func(k int) ast.Node {
			if len(stack)-1-k >= 0 {
				return stack[len(stack)-1-k]
			}
			return nil
		}
		p1 := parent(1)
		switch pp := p1.(type) {
		case *ast.RangeStmt:
			if pp.X == ast.Expr(id) {
				return true
			}
		case *ast.SliceExpr:
			if pp.Low == nil {
				if rs, ok := parent(2).(*ast.RangeStmt); ok && rs.X == ast.Expr(pp) {
					return true
				}
			}
		case *ast.CallExpr:
			if f, ok := pp.Fun.(*ast.Ident); ok && f.Name == "len" {
				return true
			}
		case *ast.IndexExpr:
			// index must be the variable of an enclosing `for v := 0; ...; v++`
			if iv := fn.objOf(pp.Index); iv != nil {
				for k := 2; parent(k) != nil; k++ {
					// … or the key of an enclosing `for v := range slice` over the same slice
					if rs, ok := parent(k).(*ast.RangeStmt); ok && rs.Key != nil && fn.objOf(rs.Key) == iv && fn.objOf(rs.X) == slice {
						return true
					}
					if fs, ok := parent(k).(*ast.ForStmt); ok {
						if as, ok := fs.Init.(*ast.AssignStmt); ok && len(as.Lhs) == 1 && fn.objOf(as.Lhs[0]) == iv {
							if v, isC := fn.constInt(as.Rhs[0]); isC && v == 0 {
								if inc, ok := fs.Post.(*ast.IncDecStmt); ok && inc.Tok == token.INC && fn.objOf(inc.X) == iv {
									return true
								}
							}
						}
					}
				}
			}
		}
		if why == "" {
			why = fmt.Sprintf("sorted slice used other than front to back: %s", exprStr(p1.(ast.Expr)))
		}
		return true
	})
	return why, n
}

// c03PlacementUpdate checks the popped node's update between heap.Pop and heap.Push.
func c03PlacementUpdate(p *Prog, fn *FuncNode, pops []*ast.CallExpr, want []string) string {
	// v := heap.Pop(h).(T)
	var v types.Object
	var popRef nodeRef
	fn.inspectBody(func(n ast.Node) bool {
		as, ok := n.(*ast.AssignStmt)
		if !ok || len(as.Lhs) != 1 || len(as.Rhs) != 1 {
			return true
		}
		var e ast.Expr = unparen(as.Rhs[0])
		if ta, ok := e.(*ast.TypeAssertExpr); ok {
			e = unparen(ta.X)
		}
		if c, ok := e.(*ast.CallExpr); ok {
			for _, pc := range pops {
				if c == pc {
					v = fn.objOf(as.Lhs[0])
					popRef = fn.find(as)
				}
			}
		}
		return true
	})
	if v == nil {
		return "the popped node is not bound to a variable"
	}
	// heap.Push(h, v)
	var pushes []*ast.CallExpr
	for _, c := range fn.calls(func(f *types.Func) bool { return fullObjName(f) == "container/heap.Push" }) {
		if len(c.Args) == 2 && fn.objOf(c.Args[1]) == v {
			pushes = append(pushes, c)
		}
	}
	if len(pushes) == 0 {
		return "the popped node is never pushed back with heap.Push"
	}
	// collect updates of v.F
	type upd struct {
		desc string
		ref  nodeRef
	}
	var upds []upd
	fieldOfV := func(e ast.Expr) string {
		sel, ok := unparen(e).(*ast.SelectorExpr)
		if ok && fn.objOf(sel.X) == v {
			return sel.Sel.Name
		}
		return ""
	}
	planInc := false
	fn.inspectBody(func(n ast.Node) bool {
		switch s := n.(type) {
		case *ast.IncDecStmt:
			if f := fieldOfV(s.X); f != "" {
				d := "+1"
				if s.Tok == token.DEC {
					d = "-1"
				}
				upds = append(upds, upd{f + d, fn.find(s)})
			}
			if ix, ok := unparen(s.X).(*ast.IndexExpr); ok && s.Tok == token.INC && fieldOfV(ix.Index) == "Nodename" {
				if _, isMap := fn.typeOf(ix.X).Underlying().(*types.Map); isMap && fn.dominates(popRef, fn.find(s)) {
					planInc = true
				}
			}
		case *ast.AssignStmt:
			if len(s.Lhs) != 1 || len(s.Rhs) != 1 {
				return true
			}
			// plan[v.Nodename] += 1  /  plan[v.Nodename] = plan[v.Nodename] + 1
			if ix, ok := unparen(s.Lhs[0]).(*ast.IndexExpr); ok && fieldOfV(ix.Index) == "Nodename" {
				if _, isMap := fn.typeOf(ix.X).Underlying().(*types.Map); isMap && fn.dominates(popRef, fn.find(s)) {
					one := func(e ast.Expr) bool { c, ok := fn.constInt(e); return ok && c == 1 }
					same := func(e ast.Expr) bool {
						jx, ok := unparen(e).(*ast.IndexExpr)
						return ok && fn.objOf(jx.X) != nil && fn.objOf(jx.X) == fn.objOf(ix.X) && fieldOfV(jx.Index) == "Nodename"
					}
					switch s.Tok {
					case token.ADD_ASSIGN:
						planInc = planInc || one(s.Rhs[0])
					case token.ASSIGN:
						if be, ok := unparen(s.Rhs[0]).(*ast.BinaryExpr); ok && be.Op == token.ADD && ((same(be.X) && one(be.Y)) || (same(be.Y) && one(be.X))) {
							planInc = true
						}
					}
				}
				return true
			}
			f := fieldOfV(s.Lhs[0])
			if f == "" {
				return true
			}
			desc := f + "=?"
			rhs := unparen(s.Rhs[0])
			term := func(e ast.Expr) string {
				if g := fieldOfV(e); g != "" {
					return g
				}
				if c, ok := fn.constInt(e); ok {
					return fmt.Sprint(c)
				}
				return "?"
			}
			switch s.Tok {
			case token.ADD_ASSIGN:
				desc = f + "+" + term(rhs)
			case token.SUB_ASSIGN:
				desc = f + "-" + term(rhs)
			case token.ASSIGN:
				if be, ok := rhs.(*ast.BinaryExpr); ok && fieldOfV(be.X) == f && (be.Op == token.ADD || be.Op == token.SUB) {
					desc = f + be.Op.String() + term(be.Y)
				}
			}
			upds = append(upds, upd{desc, fn.find(s)})
		}
		return true
	})
	if !planInc {
		return "no `plan[node.Nodename]++` dominated by the pop: the placement is not recorded"
	}
	for _, w := range want {
		field := strings.FieldsFunc(w, func(r rune) bool { return r == '+' || r == '-' })[0]
		found := false
		for _, u := range upds {
			if !strings.HasPrefix(u.desc, field+"+") && !strings.HasPrefix(u.desc, field+"-") && !strings.HasPrefix(u.desc, field+"=") {
				continue
			}
			if u.desc != w {
				return fmt.Sprintf("popped node updated with %s, the placement model says %s", u.desc, w)
			}
			for _, pc := range pushes {
				if !fn.dominates(popRef, u.ref) || !fn.dominates(u.ref, fn.find(pc)) {
					return fmt.Sprintf("update %s does not lie between the pop and the push on every path", u.desc)
				}
			}
			found = true
		}
		if !found {
			return fmt.Sprintf("popped node is pushed back without %s: the heap keeps ordering it as if nothing had been placed on it", w)
		}
	}
	return ""
}

var c03Dispatch = map[string]string{"Auto": "CommunismPlan", "Fill": "FillPlan", "Each": "AveragePlan", "Global": "GlobalPlan", "Drained": "DrainedPlan"}

func isStrategyInfo(t types.Type) bool {
	if t == nil {
		return false
	}
	if pt, ok := t.(*types.Pointer); ok {
		t = pt.Elem()
	}
	nt, ok := t.(*types.Named)
	return ok && nt.Obj().Name() == "Info" && nt.Obj().Pkg() != nil && relPath(nt.Obj().Pkg().Path()) == "strategy"
}

func c03KeysAndDispatch(p *Prog, r *Result) {
	keyField := map[string]bool{"Usage": true, "Rate": true, "Capacity": true, "Count": true}
	// ---- KEYW
	var bad []string
	nAllowed := 0
	for _, fn := range p.sortedFuncs("strategy") {
		top := topOf(fn)
		_, isPlanWithModel := c03Updates[top.Name]
		fn.inspectBody(func(n ast.Node) bool {
			var lhs []ast.Expr
			switch s := n.(type) {
			case *ast.AssignStmt:
				lhs = s.Lhs
			case *ast.IncDecStmt:
				lhs = []ast.Expr{s.X}
			}
			for _, l := range lhs {
				sel, ok := unparen(l).(*ast.SelectorExpr)
				if !ok || !keyField[sel.Sel.Name] || !isStrategyInfo(fn.typeOf(sel.X)) {
					continue
				}
				// allowed: update of a local (the popped copy) in a heap plan with a placement model (checked by UPD)
				if _, isLocal := unparen(sel.X).(*ast.Ident); isLocal && isPlanWithModel {
					nAllowed++
					continue
				}
				bad = append(bad, fmt.Sprintf("%s written in %s at %s", exprStr(l), fn.Name, p.pos(n)))
			}
			return true
		})
	}
	r.check(len(bad) == 0, "KEYW", "strategy / ordering keys are not rewritten before they are compared", "", fmt.Sprintf("%d writes, all placement updates of popped copies", nAllowed),
		strings.Join(bad, "; ")+": the comparator then orders by values other than the node's capacity/count/usage (e.g. a clamp makes different capacities tie), so the plan does not follow the documented order")

	// ---- DISP: Plans literal
	pk := p.ByPath["strategy"]
	found := false
	if pk != nil {
		for _, f := range pk.Syntax {
			ast.Inspect(f, func(n ast.Node) bool {
				vs, ok := n.(*ast.ValueSpec)
				if !ok || len(vs.Names) != 1 || vs.Names[0].Name != "Plans" || len(vs.Values) != 1 {
					return true
				}
				lit, ok := vs.Values[0].(*ast.CompositeLit)
				if !ok {
					return true
				}
				found = true
				got := map[string]string{}
				for _, el := range lit.Elts {
					if kv, ok := el.(*ast.KeyValueExpr); ok {
						got[exprStr(kv.Key)] = exprStr(kv.Value)
					}
				}
				why := ""
				for k, v := range c03Dispatch {
					if got[k] != v {
						why = fmt.Sprintf("strategy %s is served by %q, documented plan is %s", k, got[k], v)
					}
				}
				if len(got) != len(c03Dispatch) {
					why = fmt.Sprintf("%d strategies registered, %d documented", len(got), len(c03Dispatch))
				}
				r.check2(why, "DISP", "strategy.Plans / names map to the documented plan functions", p.pos(vs), "AUTO→CommunismPlan, FILL→FillPlan, EACH→AveragePlan, GLOBAL→GlobalPlan, DRAINED→DrainedPlan")
				return false
			})
		}
	}
	if !found {
		r.undecided("DISP", "strategy.Plans", "", "dispatch table literal not found")
	}
	// Deploy passes its infos parameter to the function looked up in Plans under its strategy parameter
	if D := p.Fn("strategy.Deploy"); D == nil {
		r.undecided("DISP", "strategy.Deploy", "", "not found")
	} else {
		var infos, name types.Object
		for i := 0; ; i++ {
			o := D.paramObj(i)
			if o == nil {
				break
			}
			if sl, ok := o.Type().Underlying().(*types.Slice); ok && isStrategyInfo(sl.Elem()) {
				infos = o
			}
			if b, ok := o.Type().Underlying().(*types.Basic); ok && b.Kind() == types.String {
				name = o
			}
		}
		why := "Deploy does not call the looked-up plan with its candidate slice"
		var fv types.Object
		D.inspectBody(func(n ast.Node) bool {
			if as, ok := n.(*ast.AssignStmt); ok && len(as.Rhs) == 1 {
				if base, idx := indexBaseObj(D, as.Rhs[0]); base != nil && base.Name() == "Plans" && D.objOf(idx) == name {
					fv = D.objOf(as.Lhs[0])
				}
			}
			return true
		})
		D.inspectBody(func(n ast.Node) bool {
			if c, ok := n.(*ast.CallExpr); ok && fv != nil && D.objOf(c.Fun) == fv && len(c.Args) == 5 {
				if D.objOf(c.Args[1]) == infos {
					why = ""
				} else {
					why = "the plan is called with `" + exprStr(c.Args[1]) + "`, not with the candidates Deploy was given"
				}
			}
			return true
		})
		// infos is not reassigned / element-assigned in Deploy
		D.inspectBody(func(n ast.Node) bool {
			if as, ok := n.(*ast.AssignStmt); ok {
				for _, l := range as.Lhs {
					if D.objOf(l) == infos {
						why = "the candidate slice is reassigned in Deploy"
					}
					if base, _ := indexBaseObj(D, l); base == infos && infos != nil {
						why = "an element of the candidate slice is overwritten in Deploy"
					}
				}
			}
			return true
		})
		r.check2(why, "DISP", "strategy.Deploy / the selected plan receives the caller's candidates unchanged", p.pos(D.Decl), "Plans[strategy](ctx, strategyInfos, …)")
	}

	// ---- SRC: assembly of the candidate list
	G := p.Fn("cluster/calcium.(*Calcium).doGetDeployStrategy")
	if G == nil {
		r.undecided("SRC", "cluster/calcium.(*Calcium).doGetDeployStrategy", "", "not found")
		return
	}
	why := "no strategy.Info literal built in a range over the capacity answer"
	var at ast.Node = G.Decl
	G.inspectBody(func(n ast.Node) bool {
		rs, ok := n.(*ast.RangeStmt)
		if !ok || rs.Key == nil || rs.Value == nil {
			return true
		}
		node, info := G.objOf(rs.Key), G.objOf(rs.Value)
		inspectNoLit(rs.Body, func(x ast.Node) bool {
			lit, ok := x.(*ast.CompositeLit)
			if !ok || !isStrategyInfo(G.typeOf(lit)) {
				return true
			}
			at = lit
			why = ""
			got := map[string]ast.Expr{}
			for _, el := range lit.Elts {
				if kv, ok := el.(*ast.KeyValueExpr); ok {
					got[exprStr(kv.Key)] = kv.Value
				}
			}
			for _, f := range []string{"Usage", "Rate", "Capacity"} {
				sel, ok := unparen(got[f]).(*ast.SelectorExpr)
				if got[f] == nil || !ok || G.objOf(sel.X) != info || sel.Sel.Name != f {
					why = fmt.Sprintf("Info.%s is `%s`, not the %s of this node's capacity answer", f, exprStr(got[f]), f)
				}
			}
			if got["Nodename"] == nil || G.objOf(got["Nodename"]) != node {
				why = "Info.Nodename is not the node the capacity answer is for"
			}
			if base, idx := indexBaseObj(G, got["Count"]); got["Count"] == nil || base == nil || G.objOf(idx) != node {
				why = "Info.Count is `" + exprStr(got["Count"]) + "`, not the deploy status of this node"
			} else {
				fromStatus := false
				G.inspectBody(func(y ast.Node) bool {
					if as, ok := y.(*ast.AssignStmt); ok && len(as.Rhs) == 1 && len(as.Lhs) >= 1 && G.objOf(as.Lhs[0]) == base {
						if c, ok := unparen(as.Rhs[0]).(*ast.CallExpr); ok && G.Callee(c) != nil && objName(G.Callee(c)) == "store.Store.GetDeployStatus" {
							fromStatus = true
						}
					}
					return true
				})
				if !fromStatus {
					why = "Info.Count does not come from the store's deploy status"
				}
			}
			return true
		})
		return true
	})
	r.check2(why, "SRC", G.Name+" / candidates carry each node's own capacity answer and deploy count", p.pos(at), "Info{Nodename: node, Usage/Rate/Capacity from the node's answer, Count: deployStatus[node]}")
}
