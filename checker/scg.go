package main

// Synchronous call graph with combinators (SCG): who runs in which goroutine while which distributed lock is held.

import (
	"fmt"
	"go/ast"
	"go/types"
	"sort"
	"strings"
)

// ---- combinator table (resolved objects, frozen) ---------------------------------------------------------

// asyncCallees start their function argument in another goroutine: it holds no lock of the spawner.
var asyncCallees = map[string]string{
	"github.com/panjf2000/ants/v2.(*PoolWithFunc).Invoke": "ants pool worker",
	"utils.SentryGo":                         "go statement with sentry recover",
	"golang.org/x/sync/errgroup.(*Group).Go": "errgroup goroutine",
}

// syncCallees run their function arguments in the calling goroutine before returning.
var syncCallees = map[string]string{
	"utils.Txn":           "cond; then; rollback (deferred)",
	"utils.PCR":           "prepare; commit; rollback",
	"utils.WithTimeout":   "plain call",
	"utils.Map":           "plain call per element",
	"utils.Filter":        "plain call per element",
	"utils.Any":           "plain call per element",
	"utils.Unique":        "plain call per element",
	"utils.GenerateSlice": "plain call per element",
	"sort.Slice":          "comparator",
	"sort.SliceStable":    "comparator",
	"sort.Search":         "predicate",
	"github.com/alphadose/haxmap.(*Map).ForEach": "plain call per entry",
	"sync.(*Once).Do":                            "plain call",
	"github.com/cenkalti/backoff/v4.Retry":       "retry loop, same goroutine",
	"github.com/cenkalti/backoff/v4.RetryNotify": "retry loop, same goroutine",
	"utils.EnsureReaderClosed":                   "plain",
}

func fullObjName(f *types.Func) string {
	n := objName(f)
	if f.Pkg() != nil && !strings.HasPrefix(f.Pkg().Path(), modPath) {
		// external: use full package path
		sig, _ := f.Type().(*types.Signature)
		if sig != nil && sig.Recv() != nil {
			t := sig.Recv().Type()
			star := ""
			if pt, ok := t.(*types.Pointer); ok {
				t = pt.Elem()
				star = "*"
			}
			if nt, ok := t.(*types.Named); ok {
				if star != "" {
					return f.Pkg().Path() + ".(*" + nt.Obj().Name() + ")." + f.Name()
				}
				return f.Pkg().Path() + "." + nt.Obj().Name() + "." + f.Name()
			}
		}
		return f.Pkg().Path() + "." + f.Name()
	}
	return n
}

// ---- lock helpers ------------------------------------------------------------------------------------------

type lockHelper struct {
	fn       *FuncNode
	cbParam  int    // index of the callback parameter that runs under the lock
	class    string // lock class, "" if determined by keyParam
	keyParam int    // index of the key-generator parameter (or -1)
	base     bool   // calls doLock itself
}

type litRole struct {
	kind   string // sync | async | defer | lockcb | bound | escape
	via    string // callee name
	helper *lockHelper
	call   *ast.CallExpr
}

type SCG struct {
	p          *Prog
	doLock     *FuncNode
	classes    []string // lock classes from cluster.*Lock constants
	classOf    map[types.Object]string
	helpers    map[*FuncNode]*lockHelper
	roles      map[*FuncNode]litRole // role of each literal
	impls      map[*types.Func][]*FuncNode
	named      []*types.Named
	ctxs       map[*FuncNode]map[uint]ctxFrom
	acq        []acqEdge
	unknownHOF map[string]int
	problems   []string
	cut        map[*FuncNode]bool // functions the propagation does not enter (contexts "not through these")
}

type ctxFrom struct {
	from     *FuncNode
	fromHeld uint
	how      string
}

type acqEdge struct {
	held  uint
	class string
	fn    *FuncNode // function containing the acquiring call
	call  *ast.CallExpr
	via   string
}

func (g *SCG) bit(class string) uint {
	for i, c := range g.classes {
		if c == class {
			return 1 << uint(i)
		}
	}
	return 0
}

func (g *SCG) heldNames(h uint) []string {
	var out []string
	for i, c := range g.classes {
		if h&(1<<uint(i)) != 0 {
			out = append(out, c)
		}
	}
	return out
}

func buildSCG(p *Prog) (*SCG, error) {
	g := &SCG{p: p, classOf: map[types.Object]string{}, helpers: map[*FuncNode]*lockHelper{}, roles: map[*FuncNode]litRole{},
		impls: map[*types.Func][]*FuncNode{}, ctxs: map[*FuncNode]map[uint]ctxFrom{}, unknownHOF: map[string]int{}}
	g.doLock = p.Fn("cluster/calcium.(*Calcium).doLock")
	if g.doLock == nil {
		return nil, fmt.Errorf("anchor cluster/calcium.(*Calcium).doLock not found")
	}
	cl := p.ByPath["cluster"]
	if cl == nil {
		return nil, fmt.Errorf("package cluster not found")
	}
	for _, n := range cl.Types.Scope().Names() {
		if c, ok := cl.Types.Scope().Lookup(n).(*types.Const); ok && strings.HasSuffix(n, "Lock") {
			g.classOf[c] = strings.TrimSuffix(n, "Lock")
			g.classes = append(g.classes, strings.TrimSuffix(n, "Lock"))
		}
	}
	sort.Strings(g.classes)
	if len(g.classes) == 0 {
		return nil, fmt.Errorf("no lock class constants (cluster.*Lock) found")
	}
	// all named types of non-excluded module packages (for interface dispatch)
	for _, pk := range p.Pkgs {
		if excludedPkg(relPath(pk.PkgPath)) {
			continue
		}
		sc := pk.Types.Scope()
		for _, n := range sc.Names() {
			if tn, ok := sc.Lookup(n).(*types.TypeName); ok && !tn.IsAlias() {
				if nt, ok := tn.Type().(*types.Named); ok {
					if _, isIface := nt.Underlying().(*types.Interface); !isIface {
						g.named = append(g.named, nt)
					}
				}
			}
		}
	}
	g.findHelpers()
	g.computeRoles()
	return g, nil
}

// classOfKeyExpr resolves the lock key expression to a class, or to the index of the key-generator parameter of fn.
func (g *SCG) classOfKeyExpr(fn *FuncNode, e ast.Expr, depth int) (class string, keyParam int) {
	keyParam = -1
	e = unparen(e)
	if depth > 4 {
		return
	}
	switch x := e.(type) {
	case *ast.CallExpr:
		if f := fn.Callee(x); f != nil && objName(f) == "fmt.Sprintf" && len(x.Args) > 0 {
			if c, ok := g.classOf[fn.objOf(x.Args[0])]; ok {
				return c, -1
			}
			return
		}
		// call of a function-typed parameter: genKey(n)
		if id, ok := unparen(x.Fun).(*ast.Ident); ok {
			obj := fn.Pkg.TypesInfo.ObjectOf(id)
			owner := fn
			for owner != nil {
				if i := owner.paramIndex(obj); i >= 0 && owner == fn {
					return "", i
				}
				owner = owner.Parent
			}
			// local closure
			if n, ok := g.p.resolveFuncArg(fn, id); ok && n != nil {
				return g.classOfKeyFunc(n, depth+1)
			}
		}
	case *ast.Ident:
		obj := fn.Pkg.TypesInfo.ObjectOf(x)
		// local variable with a single defining assignment
		var rhs ast.Expr
		n := 0
		ast.Inspect(fn.Body, func(nd ast.Node) bool {
			if a, ok := nd.(*ast.AssignStmt); ok && len(a.Lhs) == len(a.Rhs) {
				for i, l := range a.Lhs {
					if id, ok := l.(*ast.Ident); ok && fn.Pkg.TypesInfo.ObjectOf(id) == obj {
						n++
						rhs = a.Rhs[i]
					}
				}
			}
			return true
		})
		if n == 1 {
			return g.classOfKeyExpr(fn, rhs, depth+1)
		}
	}
	return
}

// classOfKeyFunc: a key generator function literal whose single return is fmt.Sprintf(cluster.XLock, ...).
func (g *SCG) classOfKeyFunc(kf *FuncNode, depth int) (string, int) {
	var classes []string
	kf.inspectBody(func(n ast.Node) bool {
		if r, ok := n.(*ast.ReturnStmt); ok && len(r.Results) == 1 {
			c, _ := g.classOfKeyExpr(kf, r.Results[0], depth+1)
			classes = append(classes, c)
		}
		return true
	})
	if len(classes) == 1 && classes[0] != "" {
		return classes[0], -1
	}
	return "", -1
}

func funcTypedParams(fn *FuncNode) []int {
	var out []int
	i := 0
	for _, f := range fn.Type.Params.List {
		n := len(f.Names)
		if n == 0 {
			n = 1
		}
		for k := 0; k < n; k++ {
			if _, ok := fn.Pkg.TypesInfo.TypeOf(f.Type).Underlying().(*types.Signature); ok {
				out = append(out, i)
			}
			i++
		}
	}
	return out
}

// callsParam reports whether body of fn (deep, including nested literals) calls the parameter object.
func callsObj(fn *FuncNode, root ast.Node, obj types.Object) bool {
	found := false
	ast.Inspect(root, func(n ast.Node) bool {
		if c, ok := n.(*ast.CallExpr); ok {
			if id, ok := unparen(c.Fun).(*ast.Ident); ok && fn.Pkg.TypesInfo.ObjectOf(id) == obj {
				found = true
			}
		}
		return !found
	})
	return found
}

func (g *SCG) findHelpers() {
	p := g.p
	calcium := p.sortedFuncs("cluster/calcium")
	// base helpers
	for _, fn := range calcium {
		if fn.Decl == nil || fn == g.doLock {
			continue
		}
		cs := fn.calls(func(f *types.Func) bool { return p.ByObj[f] == g.doLock })
		if len(cs) == 0 {
			continue
		}
		h := &lockHelper{fn: fn, cbParam: -1, keyParam: -1, base: true}
		if len(cs[0].Args) >= 2 {
			h.class, h.keyParam = g.classOfKeyExpr(fn, cs[0].Args[1], 0)
		}
		for _, i := range funcTypedParams(fn) {
			if i == h.keyParam {
				continue
			}
			if callsObj(fn, fn.Body, fn.paramObj(i)) {
				h.cbParam = i
			}
		}
		g.helpers[fn] = h
	}
	// wrappers, to a fixpoint
	for changed := true; changed; {
		changed = false
		for _, fn := range calcium {
			if fn.Decl == nil || g.helpers[fn] != nil || fn == g.doLock {
				continue
			}
			fps := funcTypedParams(fn)
			if len(fps) == 0 {
				continue
			}
			for _, call := range fn.callsDeep(func(f *types.Func) bool { return g.helpers[p.ByObj[f]] != nil }) {
				// only calls in fn's own body
				H := g.helpers[p.ByObj[fn.Callee(call)]]
				if H.cbParam < 0 || H.cbParam >= len(call.Args) {
					continue
				}
				arg := unparen(call.Args[H.cbParam])
				for _, i := range fps {
					po := fn.paramObj(i)
					match := false
					if id, ok := arg.(*ast.Ident); ok && fn.Pkg.TypesInfo.ObjectOf(id) == po {
						match = true
					} else if lit, ok := arg.(*ast.FuncLit); ok && callsObj(fn, lit.Body, po) {
						match = true
					}
					if !match {
						continue
					}
					w := &lockHelper{fn: fn, cbParam: i, keyParam: -1, class: H.class}
					if H.class == "" && H.keyParam >= 0 && H.keyParam < len(call.Args) {
						ka := unparen(call.Args[H.keyParam])
						if id, ok := ka.(*ast.Ident); ok && fn.paramIndex(fn.Pkg.TypesInfo.ObjectOf(id)) >= 0 {
							w.keyParam = fn.paramIndex(fn.Pkg.TypesInfo.ObjectOf(id))
						} else if kf, ok := p.resolveFuncArg(fn, ka); ok && kf != nil {
							w.class, _ = g.classOfKeyFunc(kf, 0)
						}
					}
					g.helpers[fn] = w
					changed = true
				}
			}
		}
	}
}

// helperCall resolves a call to a lock helper: class and callback.
func (g *SCG) helperCall(fn *FuncNode, call *ast.CallExpr) (h *lockHelper, class string, cb *FuncNode, cbIsParam bool, ok bool) {
	f := fn.Callee(call)
	if f == nil {
		return
	}
	h = g.helpers[g.p.ByObj[f]]
	if h == nil {
		return
	}
	ok = true
	class = h.class
	if class == "" && h.keyParam >= 0 && h.keyParam < len(call.Args) {
		if kf, r := g.p.resolveFuncArg(fn, call.Args[h.keyParam]); r && kf != nil {
			class, _ = g.classOfKeyFunc(kf, 0)
		}
	}
	if h.cbParam >= 0 && h.cbParam < len(call.Args) {
		a := unparen(call.Args[h.cbParam])
		if id, isId := a.(*ast.Ident); isId {
			owner := fn
			for owner != nil {
				if owner.paramIndex(fn.Pkg.TypesInfo.ObjectOf(id)) >= 0 {
					cbIsParam = true
				}
				owner = owner.Parent
			}
		}
		if !cbIsParam {
			cb, _ = g.p.resolveFuncArg(fn, a)
		}
	}
	return
}

// computeRoles classifies every function literal by how it is used.
func (g *SCG) computeRoles() {
	for _, fn := range g.p.sortedFuncs() {
		if fn.Body == nil {
			continue
		}
		g.rolesIn(fn)
	}
}

func (g *SCG) rolesIn(fn *FuncNode) {
	// walk fn's own body with a parent stack
	var stack []ast.Node
	var visit func(n ast.Node) bool
	visit = func(n ast.Node) bool {
		if n == nil {
			stack = stack[:len(stack)-1]
			return false
		}
		if lit, ok := n.(*ast.FuncLit); ok {
			child := g.p.ByLit[lit]
			if child != nil {
				g.roles[child] = g.roleOf(fn, lit, stack)
			}
			return false // do not descend (and no push/pop for this node)
		}
		stack = append(stack, n)
		return true
	}
	ast.Inspect(fn.Body, visit)
}

// roleOfCallArg: the role a function value gets when passed as an argument of call (or being the result of an
// immediately-invoked literal passed there).
func (g *SCG) roleAsArg(fn *FuncNode, call *ast.CallExpr, argExpr ast.Expr) litRole {
	f := fn.Callee(call)
	if f == nil {
		// dynamic callee (function value): treat as synchronous plain call
		g.unknownHOF["dynamic:"+exprStr(call.Fun)]++
		return litRole{kind: "sync", via: "dynamic " + exprStr(call.Fun), call: call}
	}
	name := fullObjName(f)
	if _, ok := asyncCallees[name]; ok {
		return litRole{kind: "async", via: name, call: call}
	}
	if h := g.helpers[g.p.ByObj[f]]; h != nil {
		for i, a := range call.Args {
			if unparen(a) == argExpr || a == argExpr {
				if i == h.cbParam {
					return litRole{kind: "lockcb", via: name, helper: h, call: call}
				}
			}
		}
		return litRole{kind: "sync", via: name, call: call}
	}
	if _, ok := syncCallees[name]; ok {
		return litRole{kind: "sync", via: name, call: call}
	}
	g.unknownHOF[name]++
	return litRole{kind: "sync", via: "unlisted " + name, call: call}
}

func (g *SCG) roleOf(fn *FuncNode, lit *ast.FuncLit, stack []ast.Node) litRole {
	// find the closest non-paren parent
	i := len(stack) - 1
	var self ast.Expr = lit
	for i >= 0 {
		if pe, ok := stack[i].(*ast.ParenExpr); ok {
			self = pe
			i--
			continue
		}
		break
	}
	if i < 0 {
		return litRole{kind: "escape", via: "?"}
	}
	switch par := stack[i].(type) {
	case *ast.CallExpr:
		if unparen(par.Fun) == ast.Expr(lit) {
			// immediately invoked; is the call itself the operand of go/defer or an argument of a combinator?
			if i-1 >= 0 {
				switch pp := stack[i-1].(type) {
				case *ast.GoStmt:
					return litRole{kind: "async", via: "go", call: par}
				case *ast.DeferStmt:
					return litRole{kind: "defer", via: "defer", call: par}
				case *ast.CallExpr:
					_ = pp
				}
			}
			return litRole{kind: "sync", via: "immediate call", call: par}
		}
		// argument
		return g.roleAsArg(fn, par, self)
	case *ast.GoStmt, *ast.DeferStmt:
		return litRole{kind: "escape", via: "go/defer operand"}
	case *ast.AssignStmt, *ast.ValueSpec:
		// a literal bound to a local that is then handed, once, to a call (`cb := func(…){…}; helper(…, cb)`) plays the
		// role it would have played written in place
		var v types.Object
		switch st := par.(type) {
		case *ast.AssignStmt:
			for k, rhs := range st.Rhs {
				if unparen(rhs) == ast.Expr(lit) && len(st.Lhs) == len(st.Rhs) {
					v = fn.objOf(st.Lhs[k])
				}
			}
		case *ast.ValueSpec:
			for k, rhs := range st.Values {
				if unparen(rhs) == ast.Expr(lit) && k < len(st.Names) {
					v = fn.Pkg.TypesInfo.ObjectOf(st.Names[k])
				}
			}
		}
		if v != nil {
			var argCall *ast.CallExpr
			var argExpr ast.Expr
			uses, writes := 0, 0
			ast.Inspect(fn.Body, func(n ast.Node) bool {
				switch x := n.(type) {
				case *ast.AssignStmt:
					for _, l := range x.Lhs {
						if id, ok := l.(*ast.Ident); ok && fn.Pkg.TypesInfo.ObjectOf(id) == v {
							writes++
						}
					}
				case *ast.CallExpr:
					for _, a := range x.Args {
						if id, ok := unparen(a).(*ast.Ident); ok && fn.Pkg.TypesInfo.Uses[id] == v {
							argCall, argExpr = x, a
						}
					}
				case *ast.Ident:
					if fn.Pkg.TypesInfo.Uses[x] == v {
						uses++
					}
				}
				return true
			})
			if uses == 1 && writes <= 1 && argCall != nil {
				return g.roleAsArg(fn, argCall, argExpr)
			}
		}
		return litRole{kind: "bound", via: "local variable"}
	case *ast.ReturnStmt:
		// returned from an immediately-invoked literal whose call is an argument: take that role
		if fn.Lit != nil {
			if r, ok := g.roles[fn]; ok && r.via == "immediate call" && r.call != nil {
				// find what the call is an argument of, in fn.Parent
				if outer := g.argContext(fn.Parent, r.call); outer != nil {
					return g.roleAsArg(fn.Parent, outer, r.call)
				}
			}
		}
		return litRole{kind: "escape", via: "returned"}
	}
	return litRole{kind: "escape", via: fmt.Sprintf("%T", stack[i])}
}

// argContext finds the call expression in fn's own body that has `inner` as one of its arguments.
func (g *SCG) argContext(fn *FuncNode, inner *ast.CallExpr) *ast.CallExpr {
	if fn == nil {
		return nil
	}
	var out *ast.CallExpr
	ast.Inspect(fn.Body, func(n ast.Node) bool {
		if c, ok := n.(*ast.CallExpr); ok {
			for _, a := range c.Args {
				if unparen(a) == ast.Expr(inner) {
					out = c
				}
			}
		}
		return out == nil
	})
	return out
}

// implementations of an interface method among module types (CHA restricted to non-excluded packages).
func (g *SCG) implsOf(m *types.Func) []*FuncNode {
	if r, ok := g.impls[m]; ok {
		return r
	}
	var out []*FuncNode
	sig, _ := m.Type().(*types.Signature)
	if sig != nil && sig.Recv() != nil {
		if iface, ok := sig.Recv().Type().Underlying().(*types.Interface); ok {
			for _, nt := range g.named {
				for _, t := range []types.Type{nt, types.NewPointer(nt)} {
					if types.Implements(t, iface) {
						ms := types.NewMethodSet(t)
						if sel := ms.Lookup(m.Pkg(), m.Name()); sel != nil {
							if f, ok := sel.Obj().(*types.Func); ok {
								if n := g.p.ByObj[f]; n != nil {
									out = append(out, n)
								}
							}
						}
						break
					}
				}
			}
		}
	}
	g.impls[m] = out
	return out
}

func isInterfaceMethod(f *types.Func) bool {
	sig, _ := f.Type().(*types.Signature)
	if sig == nil || sig.Recv() == nil {
		return false
	}
	_, ok := sig.Recv().Type().Underlying().(*types.Interface)
	return ok
}

// propagate computes, for every function, the set of held-lock contexts it may run in.
func (g *SCG) propagate() {
	type item struct {
		fn   *FuncNode
		held uint
	}
	var work []item
	push := func(fn *FuncNode, held uint, from *FuncNode, fromHeld uint, how string) {
		if fn == nil || fn.Body == nil || g.cut[fn] {
			return
		}
		m := g.ctxs[fn]
		if m == nil {
			m = map[uint]ctxFrom{}
			g.ctxs[fn] = m
		}
		if _, ok := m[held]; ok {
			return
		}
		m[held] = ctxFrom{from, fromHeld, how}
		work = append(work, item{fn, held})
	}
	// roots: declared functions without synchronous in-edges, async/escaping/bound literals.
	hasIn := map[*FuncNode]bool{}
	all := g.p.sortedFuncs()
	for _, fn := range all {
		if fn.Body == nil {
			continue
		}
		fn.inspectBody(func(n ast.Node) bool {
			if c, ok := n.(*ast.CallExpr); ok {
				if f := fn.Callee(c); f != nil {
					if t := g.p.ByObj[f]; t != nil {
						hasIn[t] = true
					} else if isInterfaceMethod(f) {
						for _, t := range g.implsOf(f) {
							hasIn[t] = true
						}
					}
				}
				// function values passed as arguments
				for _, a := range c.Args {
					if _, isLit := unparen(a).(*ast.FuncLit); isLit {
						continue
					}
					if _, isSig := fn.typeOf(a).(*types.Signature); isSig {
						if t, ok := g.p.resolveFuncArg(fn, a); ok && t != nil && t.Decl != nil {
							hasIn[t] = true
						}
					}
				}
			}
			return true
		})
	}
	for _, fn := range all {
		if fn.Body == nil {
			continue
		}
		if fn.Decl != nil && !hasIn[fn] {
			push(fn, 0, nil, 0, "root (no synchronous caller in module)")
		}
		if fn.Lit != nil {
			switch g.roles[fn].kind {
			case "async":
				push(fn, 0, nil, 0, "async root via "+g.roles[fn].via)
			case "escape":
				push(fn, 0, nil, 0, "escaping closure ("+g.roles[fn].via+")")
			}
		}
	}
	for len(work) > 0 {
		it := work[len(work)-1]
		work = work[:len(work)-1]
		fn, held := it.fn, it.held
		fn.inspectBody(func(n ast.Node) bool {
			c, ok := n.(*ast.CallExpr)
			if !ok {
				return true
			}
			f := fn.Callee(c)
			if f == nil {
				return true
			}
			if h, class, cb, cbIsParam, ok := g.helperCall(fn, c); ok {
				g.acq = append(g.acq, acqEdge{held: held, class: class, fn: fn, call: c, via: h.fn.Name})
				if class == "" {
					g.problems = append(g.problems, fmt.Sprintf("%s: lock class of call to %s not resolved", g.p.pos(c), h.fn.Name))
				}
				if cb != nil {
					push(cb, held|g.bit(class), fn, held, "callback of "+shortName(h.fn.Name))
				} else if !cbIsParam {
					g.problems = append(g.problems, fmt.Sprintf("%s: callback of %s not resolved", g.p.pos(c), h.fn.Name))
				}
				return true
			}
			if t := g.p.ByObj[f]; t != nil {
				if t != g.doLock {
					push(t, held, fn, held, "call")
				}
			} else if isInterfaceMethod(f) {
				for _, t := range g.implsOf(f) {
					push(t, held, fn, held, "interface call "+objName(f))
				}
			}
			// declared functions / method values passed as arguments
			for _, a := range c.Args {
				if _, isLit := unparen(a).(*ast.FuncLit); isLit {
					continue
				}
				if _, isSig := fn.typeOf(a).(*types.Signature); isSig {
					if t, ok := g.p.resolveFuncArg(fn, a); ok && t != nil {
						r := g.roleAsArg(fn, c, a)
						if r.kind == "async" {
							push(t, 0, nil, 0, "async root via "+r.via)
						} else if t.Decl != nil {
							push(t, held, fn, held, "function value passed to "+r.via)
						}
					}
				}
			}
			return true
		})
		for _, l := range fn.Lits {
			r := g.roles[l]
			switch r.kind {
			case "sync", "defer", "bound":
				push(l, held, fn, held, r.kind+" closure via "+r.via)
			case "lockcb":
				// pushed at the helper call above
			}
		}
	}
}

// pathTo reconstructs one call path leading to (fn, held).
func (g *SCG) pathTo(fn *FuncNode, held uint) []string {
	var out []string
	seen := 0
	for fn != nil && seen < 40 {
		c := g.ctxs[fn][held]
		out = append([]string{fmt.Sprintf("%s {%s} <- %s", fn.Name, strings.Join(g.heldNames(held), ","), c.how)}, out...)
		fn, held = c.from, c.fromHeld
		seen++
	}
	return out
}

// mustHold returns the intersection of the held sets over all contexts of fn.
func (g *SCG) mustHold(fn *FuncNode) (uint, int) {
	m := g.ctxs[fn]
	if len(m) == 0 {
		return 0, 0
	}
	var r uint = ^uint(0)
	for h := range m {
		r &= h
	}
	return r, len(m)
}
