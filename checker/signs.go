package main

// E6/N2: sign analysis over go/ssa (abstract interpretation, no execution, no solver).
// Domain: subsets of {negative, zero, positive}. Flow-sensitive through branch refinement on comparisons (per CFG edge),
// field-based for struct fields of the analysed packages (join of every stored value, zero included unless every
// allocation initialises the field), interprocedural for parameters of functions that are only ever called statically
// (join over call sites, fixpoint). Loads of a field that the function and its callees never store are treated as one
// symbol per base object, so `if req.M == 0 {…} else { x / req.M }` is understood.

import (
	"fmt"
	"go/constant"
	"go/token"
	"go/types"
	"sort"
	"strings"

	"golang.org/x/tools/go/ssa"
)

type sgn uint8

const (
	sNeg  sgn = 1
	sZero sgn = 2
	sPos  sgn = 4
	sTop  sgn = 7
	sBot  sgn = 0
)

func (s sgn) String() string {
	switch s {
	case sBot:
		return "⊥"
	case sNeg:
		return "<0"
	case sZero:
		return "=0"
	case sPos:
		return ">0"
	case sNeg | sZero:
		return "≤0"
	case sZero | sPos:
		return "≥0"
	case sNeg | sPos:
		return "≠0"
	}
	return "any"
}

func sgnOfConst(c *ssa.Const) sgn {
	if c.Value == nil {
		return sTop
	}
	switch c.Value.Kind() {
	case constant.Int, constant.Float:
		switch constant.Sign(c.Value) {
		case -1:
			return sNeg
		case 0:
			return sZero
		default:
			return sPos
		}
	}
	return sTop
}

func sgnNeg(a sgn) sgn {
	var r sgn
	if a&sNeg != 0 {
		r |= sPos
	}
	if a&sPos != 0 {
		r |= sNeg
	}
	return r | a&sZero
}

func sgnAdd(a, b sgn) sgn {
	if a == sBot || b == sBot {
		return sBot
	}
	var r sgn
	for _, x := range []sgn{sNeg, sZero, sPos} {
		if a&x == 0 {
			continue
		}
		for _, y := range []sgn{sNeg, sZero, sPos} {
			if b&y == 0 {
				continue
			}
			switch {
			case x == sZero:
				r |= y
			case y == sZero:
				r |= x
			case x == y:
				r |= x
			default:
				r |= sTop
			}
		}
	}
	return r
}

func sgnMul(a, b sgn) sgn {
	if a == sBot || b == sBot {
		return sBot
	}
	var r sgn
	for _, x := range []sgn{sNeg, sZero, sPos} {
		if a&x == 0 {
			continue
		}
		for _, y := range []sgn{sNeg, sZero, sPos} {
			if b&y == 0 {
				continue
			}
			switch {
			case x == sZero || y == sZero:
				r |= sZero
			case x == y:
				r |= sPos
			default:
				r |= sNeg
			}
		}
	}
	return r
}

// integer quotient: magnitude may drop to zero
func sgnQuoInt(a, b sgn) sgn {
	r := sgnMul(a, b&^sZero)
	if r&(sNeg|sPos) != 0 {
		r |= sZero
	}
	return r
}

// remainder has the sign of the dividend or is zero
func sgnRem(a, b sgn) sgn {
	if a == sBot || b == sBot {
		return sBot
	}
	return a | sZero
}

type envKey any // ssa.Value (register) or string (stable field symbol)

type env map[envKey]sgn

func (e env) clone() env {
	n := env{}
	for k, v := range e {
		n[k] = v
	}
	return n
}

func joinEnv(a, b env) env {
	if a == nil {
		return b.clone()
	}
	if b == nil {
		return a.clone()
	}
	n := env{}
	for k, v := range a {
		if w, ok := b[k]; ok {
			n[k] = v | w
		}
	}
	return n
}

func envEqual(a, b env) bool {
	if len(a) != len(b) {
		return false
	}
	for k, v := range a {
		if w, ok := b[k]; !ok || w != v {
			return false
		}
	}
	return true
}

type signAn struct {
	p         *Prog
	scope     map[*ssa.Function]bool
	paramSign map[*ssa.Parameter]sgn
	fixedPar  map[*ssa.Parameter]bool // assumption or ⊤: not updated from call sites
	fieldSign map[string]sgn
	symAssume map[string]sgn // "Type.Field" -> sign assumed for loads (property quantifier)
	stores    map[*ssa.Function]map[string]bool
	fnState   map[*ssa.Function]*fnSigns
	changed   bool
	noZero    map[string]bool // fields initialised by every allocation
}

type fnSigns struct {
	in   map[*ssa.BasicBlock]env
	edge map[[2]*ssa.BasicBlock]env
}

func fieldKeyOf(fa *ssa.FieldAddr) string {
	pt, ok := fa.X.Type().Underlying().(*types.Pointer)
	if !ok {
		return ""
	}
	st, ok := pt.Elem().Underlying().(*types.Struct)
	if !ok {
		return ""
	}
	name := pt.Elem().String()
	if i := strings.LastIndex(name, "/"); i >= 0 {
		name = name[i+1:]
	}
	return name + "." + st.Field(fa.Field).Name()
}

// symbolOf: stable-field symbol of a load, "" if v is not such a load.
func (a *signAn) symbolOf(fn *ssa.Function, v ssa.Value) (sym, field string) {
	u, ok := v.(*ssa.UnOp)
	if !ok || u.Op != token.MUL {
		return "", ""
	}
	fa, ok := u.X.(*ssa.FieldAddr)
	if !ok {
		return "", ""
	}
	fk := fieldKeyOf(fa)
	if fk == "" {
		return "", fk
	}
	// base identity: parameter / free variable / load chain rendered structurally
	return a.baseString(fa.X) + "->" + fk, fk
}

// lenSymbol: symbol of len(<field load>), "" otherwise.
func (a *signAn) lenSymbol(fn *ssa.Function, v ssa.Value) (string, *ssa.UnOp) {
	c, ok := v.(*ssa.Call)
	if !ok {
		return "", nil
	}
	if b, ok := c.Call.Value.(*ssa.Builtin); !ok || b.Name() != "len" || len(c.Call.Args) != 1 {
		return "", nil
	}
	ld, ok := c.Call.Args[0].(*ssa.UnOp)
	if !ok {
		return "", nil
	}
	sym, _ := a.symbolOf(fn, ld)
	if sym == "" {
		return "", nil
	}
	return "len:" + sym, ld
}

// kills: instruction ins may change the content of field fk.
func (a *signAn) kills(ins ssa.Instruction, fk string) bool {
	switch x := ins.(type) {
	case *ssa.Store:
		if fa, ok := x.Addr.(*ssa.FieldAddr); ok && fieldKeyOf(fa) == fk {
			return true
		}
	}
	if c, ok := ins.(ssa.CallInstruction); ok {
		if sc := c.Common().StaticCallee(); sc != nil && a.stores[sc] != nil && a.stores[sc][fk] {
			return true
		}
	}
	return false
}

// symApplies: a fact about memory symbol (field fk) known at point (blk, idx) applies to the value loaded by ld, i.e. the load
// happened in the same block with no store to the field between it and the point, or the field is never stored here.
func (a *signAn) symApplies(fn *ssa.Function, ld ssa.Instruction, fk string, pt evalPoint) bool {
	if !a.stores[fn][fk] {
		return true
	}
	if pt.b == nil || ld.Block() != pt.b {
		return false
	}
	seen := false
	for i, ins := range pt.b.Instrs {
		if i >= pt.idx {
			break
		}
		if ins == ld {
			seen = true
			continue
		}
		if seen && a.kills(ins, fk) {
			return false
		}
	}
	return seen
}

type evalPoint struct {
	b   *ssa.BasicBlock
	idx int
}

func fkOfSym(sym string) string {
	if i := strings.LastIndex(sym, "->"); i >= 0 {
		return sym[i+2:]
	}
	return ""
}

func (a *signAn) baseString(v ssa.Value) string {
	switch x := v.(type) {
	case *ssa.Parameter:
		return "param " + x.Name()
	case *ssa.FreeVar:
		return "free " + x.Name()
	case *ssa.UnOp:
		if x.Op == token.MUL {
			if fa, ok := x.X.(*ssa.FieldAddr); ok {
				return a.baseString(fa.X) + "." + fieldKeyOf(fa)
			}
			return "*" + a.baseString(x.X)
		}
	case *ssa.FieldAddr:
		return a.baseString(x.X) + ".&" + fieldKeyOf(x)
	case *ssa.Alloc:
		return fmt.Sprintf("alloc %s@%p", x.Name(), x)
	}
	return fmt.Sprintf("%s@%p", v.Name(), v)
}

func isNumeric(t types.Type) bool {
	b, ok := t.Underlying().(*types.Basic)
	return ok && b.Info()&(types.IsInteger|types.IsFloat) != 0
}

func isIntType(t types.Type) bool {
	b, ok := t.Underlying().(*types.Basic)
	return ok && b.Info()&types.IsInteger != 0
}

// eval: sign of v under the facts of e (facts about immutable SSA values and stable symbols hold wherever they are known).
func (a *signAn) eval(fn *ssa.Function, v ssa.Value, e env, depth int, visiting map[ssa.Value]bool, pt evalPoint) sgn {
	if v == nil {
		return sTop
	}
	if !isNumeric(v.Type()) {
		return sTop
	}
	res := sTop
	if s, ok := e[v]; ok {
		res &= s
	}
	if sym, fk := a.symbolOf(fn, v); sym != "" {
		if s, ok := e[sym]; ok && a.symApplies(fn, v.(ssa.Instruction), fk, pt) {
			res &= s
		}
		if s, ok := a.symAssume[fk]; ok {
			res &= s
		}
	}
	if lsym, ld := a.lenSymbol(fn, v); lsym != "" {
		if s, ok := e[lsym]; ok && a.symApplies(fn, ld, fkOfSym(lsym), pt) {
			res &= s
		}
	}
	if depth > 12 || visiting[v] {
		return res
	}
	visiting[v] = true
	defer delete(visiting, v)
	switch x := v.(type) {
	case *ssa.Const:
		res &= sgnOfConst(x)
	case *ssa.Parameter:
		if s, ok := a.paramSign[x]; ok {
			res &= s
		}
	case *ssa.BinOp:
		l := a.eval(fn, x.X, e, depth+1, visiting, pt)
		r := a.eval(fn, x.Y, e, depth+1, visiting, pt)
		switch x.Op {
		case token.ADD:
			res &= sgnAdd(l, r)
		case token.SUB:
			res &= sgnAdd(l, sgnNeg(r))
		case token.MUL:
			res &= sgnMul(l, r)
		case token.QUO:
			if isIntType(x.Type()) {
				res &= sgnQuoInt(l, r)
			} else {
				res &= sgnMul(l, r&^sZero) | (l & sZero)
			}
		case token.REM:
			res &= sgnRem(l, r)
		}
	case *ssa.UnOp:
		switch x.Op {
		case token.SUB:
			res &= sgnNeg(a.eval(fn, x.X, e, depth+1, visiting, pt))
		case token.MUL:
			if fa, ok := x.X.(*ssa.FieldAddr); ok {
				if fk := fieldKeyOf(fa); fk != "" {
					if s, ok := a.fieldSign[fk]; ok {
						res &= s
					}
					if s, ok := a.symAssume[fk]; ok {
						res &= s
					}
				}
			} else if al, ok := x.X.(*ssa.Alloc); ok {
				// local cell: join of all stores (flow-insensitive)
				s := sBot
				known := true
				for _, ref := range *al.Referrers() {
					switch st := ref.(type) {
					case *ssa.Store:
						if st.Addr == ssa.Value(al) {
							s |= a.eval(fn, st.Val, e, depth+1, visiting, pt)
						}
					case *ssa.UnOp:
					default:
						known = false
					}
				}
				if known && s != sBot {
					res &= s | sZero // zero value before the first store
				}
			}
		}
	case *ssa.Convert:
		s := a.eval(fn, x.X, e, depth+1, visiting, pt)
		from, to := x.X.Type().Underlying().(*types.Basic), x.Type().Underlying().(*types.Basic)
		if from != nil && to != nil && from.Info()&types.IsFloat != 0 && to.Info()&types.IsInteger != 0 {
			if s&(sNeg|sPos) != 0 {
				s |= sZero // truncation toward zero
			}
		}
		if to != nil && to.Info()&types.IsUnsigned != 0 {
			s = sZero | sPos
		}
		res &= s
	case *ssa.ChangeType:
		res &= a.eval(fn, x.X, e, depth+1, visiting, pt)
	case *ssa.Phi:
		st := a.fnState[fn]
		s := sBot
		for i, edge := range x.Edges {
			pe := e
			if st != nil {
				if ee, ok := st.edge[[2]*ssa.BasicBlock{x.Block().Preds[i], x.Block()}]; ok {
					if ee == nil {
						continue // edge not reachable
					}
					pe = ee
				}
			}
			pr := x.Block().Preds[i]
			s |= a.eval(fn, edge, pe, depth+1, visiting, evalPoint{pr, len(pr.Instrs)})
		}
		if s != sBot {
			res &= s
		}
	case *ssa.Call:
		if b, ok := x.Call.Value.(*ssa.Builtin); ok && (b.Name() == "len" || b.Name() == "cap") {
			res &= sZero | sPos
			break
		}
		name := ""
		if x.Call.IsInvoke() {
			name = x.Call.Method.Name()
		} else if c := x.Call.StaticCallee(); c != nil {
			name = c.Name()
			full := staticCalleeName(&x.Call)
			switch full {
			case "math.Round", "math.Floor", "math.Ceil", "math.Trunc":
				s := a.eval(fn, x.Call.Args[0], e, depth+1, visiting, pt)
				if s&(sNeg|sPos) != 0 {
					s |= sZero
				}
				res &= s
			case "math.Abs":
				res &= sZero | sPos
			}
			if strings.HasSuffix(full, "utils.Min") || strings.HasSuffix(full, "utils.Max") || strings.Contains(full, "utils.Min[") || strings.Contains(full, "utils.Max[") {
				s := sBot
				for _, arg := range x.Call.Args {
					if sl, ok := arg.(*ssa.Slice); ok {
						_ = sl
						s = sTop
						break
					}
					s |= a.eval(fn, arg, e, depth+1, visiting, pt)
				}
				if s != sBot {
					res &= s
				}
			}
		}
		if name == "Len" && isIntType(x.Type()) {
			res &= sZero | sPos
		}
	}
	return res
}

// refine the facts of e with the knowledge that cond == truth.
func (a *signAn) refine(fn *ssa.Function, cond ssa.Value, truth bool, e env, pt evalPoint) env {
	if u, ok := cond.(*ssa.UnOp); ok && u.Op == token.NOT {
		return a.refine(fn, u.X, !truth, e, pt)
	}
	b, ok := cond.(*ssa.BinOp)
	if !ok {
		return e
	}
	op := b.Op
	if !truth {
		switch op {
		case token.LSS:
			op = token.GEQ
		case token.LEQ:
			op = token.GTR
		case token.GTR:
			op = token.LEQ
		case token.GEQ:
			op = token.LSS
		case token.EQL:
			op = token.NEQ
		case token.NEQ:
			op = token.EQL
		default:
			return e
		}
	}
	switch op {
	case token.LSS, token.LEQ, token.GTR, token.GEQ, token.EQL, token.NEQ:
	default:
		return e
	}
	if !isNumeric(b.X.Type()) {
		return e
	}
	vis := map[ssa.Value]bool{}
	sx, sy := a.eval(fn, b.X, e, 0, vis, pt), a.eval(fn, b.Y, e, 0, vis, pt)
	n := e.clone()
	set := func(v ssa.Value, s sgn) {
		if _, isConst := v.(*ssa.Const); isConst {
			return
		}
		cur := sTop
		if c, ok := n[v]; ok {
			cur = c
		}
		n[v] = cur & s
		if sym, _ := a.symbolOf(fn, v); sym != "" {
			// facts about memory are only recorded from a load made at this very point's block
			if ld, ok := v.(ssa.Instruction); ok && (ld.Block() == pt.b || !a.stores[fn][fkOfSym(sym)]) {
				cur := sTop
				if c, ok := n[sym]; ok {
					cur = c
				}
				n[sym] = cur & s
			}
		}
		if lsym, ld := a.lenSymbol(fn, v); lsym != "" && (ld.Block() == pt.b || !a.stores[fn][fkOfSym(lsym)]) {
			cur := sTop
			if c, ok := n[lsym]; ok {
				cur = c
			}
			n[lsym] = cur & s
		}
	}
	// constraint on the left operand given the right one's sign, for `left op right`
	left := func(op token.Token, other sgn) sgn {
		switch op {
		case token.LSS:
			if other&sPos == 0 {
				return sNeg
			}
		case token.LEQ:
			if other&sPos == 0 {
				if other&sZero == 0 {
					return sNeg
				}
				return sNeg | sZero
			}
		case token.GTR:
			if other&sNeg == 0 {
				return sPos
			}
		case token.GEQ:
			if other&sNeg == 0 {
				if other&sZero == 0 {
					return sPos
				}
				return sZero | sPos
			}
		case token.EQL:
			return other
		case token.NEQ:
			if other == sZero {
				return sNeg | sPos
			}
		}
		return sTop
	}
	mirror := map[token.Token]token.Token{token.LSS: token.GTR, token.LEQ: token.GEQ, token.GTR: token.LSS, token.GEQ: token.LEQ, token.EQL: token.EQL, token.NEQ: token.NEQ}
	set(b.X, sx&left(op, sy))
	set(b.Y, sy&left(mirror[op], sx))
	return n
}

// analyseFn computes block-entry and edge environments of fn.
func (a *signAn) analyseFn(fn *ssa.Function) {
	if len(fn.Blocks) == 0 {
		return
	}
	st := &fnSigns{in: map[*ssa.BasicBlock]env{}, edge: map[[2]*ssa.BasicBlock]env{}}
	a.fnState[fn] = st
	st.in[fn.Blocks[0]] = env{}
	for iter := 0; iter < 50; iter++ {
		changed := false
		for _, b := range fn.Blocks {
			in, reached := st.in[b]
			if !reached {
				continue
			}
			// out edges
			if len(b.Instrs) == 0 {
				continue
			}
			last := b.Instrs[len(b.Instrs)-1]
			flowed := a.flow(fn, b, in, len(b.Instrs))
			for i, s := range b.Succs {
				out := flowed
				if iff, ok := last.(*ssa.If); ok {
					out = a.refine(fn, iff.Cond, i == 0, flowed, evalPoint{b, len(b.Instrs) - 1})
					// an infeasible edge: some fact became ⊥
					for _, v := range out {
						if v == sBot {
							out = nil
						}
					}
				}
				k := [2]*ssa.BasicBlock{b, s}
				if out == nil {
					st.edge[k] = nil
					continue
				}
				if old, ok := st.edge[k]; !ok || old == nil || !envEqual(old, out) {
					st.edge[k] = out
					changed = true
				}
			}
		}
		for _, b := range fn.Blocks[1:] {
			var acc env
			any := false
			for _, pr := range b.Preds {
				if ee, ok := st.edge[[2]*ssa.BasicBlock{pr, b}]; ok && ee != nil {
					if !any {
						acc, any = ee.clone(), true
					} else {
						acc = joinEnv(acc, ee)
					}
				}
			}
			if !any {
				continue
			}
			if old, ok := st.in[b]; !ok || !envEqual(old, acc) {
				st.in[b] = acc
				changed = true
			}
		}
		if !changed {
			break
		}
	}
}

// flow: facts of `in` that survive the first `upto` instructions of block b (stores and calls kill facts about the fields
// they may write).
func (a *signAn) flow(fn *ssa.Function, b *ssa.BasicBlock, in env, upto int) env {
	out := in
	copied := false
	for i, ins := range b.Instrs {
		if i >= upto {
			break
		}
		var fks []string
		switch x := ins.(type) {
		case *ssa.Store:
			if fa, ok := x.Addr.(*ssa.FieldAddr); ok {
				fks = append(fks, fieldKeyOf(fa))
			}
		}
		if c, ok := ins.(ssa.CallInstruction); ok {
			if sc := c.Common().StaticCallee(); sc != nil {
				for fk := range a.stores[sc] {
					fks = append(fks, fk)
				}
			}
		}
		for _, fk := range fks {
			for k := range out {
				if ks, ok := k.(string); ok && fkOfSym(ks) == fk {
					if !copied {
						out, copied = out.clone(), true
					}
					delete(out, k)
				}
			}
		}
	}
	return out
}

// envAt: facts holding just before instruction ins, and the evaluation point.
func (a *signAn) envAt(fn *ssa.Function, ins ssa.Instruction) (env, evalPoint, bool) {
	st := a.fnState[fn]
	b := ins.Block()
	idx := 0
	for i, x := range b.Instrs {
		if x == ins {
			idx = i
		}
	}
	pt := evalPoint{b, idx}
	if st == nil {
		return env{}, pt, true
	}
	e, ok := st.in[b]
	if !ok {
		return nil, pt, false
	}
	return a.flow(fn, b, e, idx), pt, true
}

func lowerFirst(s string) bool { return s != "" && s[0] >= 'a' && s[0] <= 'z' }

// newSignAn builds the analysis for the given packages (relative paths) and runs the interprocedural fixpoint.
func newSignAn(p *Prog, pkgs []string, paramAssume map[string]sgn, symAssume map[string]sgn) *signAn {
	prog := p.SSA()
	a := &signAn{p: p, scope: map[*ssa.Function]bool{}, paramSign: map[*ssa.Parameter]sgn{}, fixedPar: map[*ssa.Parameter]bool{},
		fieldSign: map[string]sgn{}, symAssume: symAssume, stores: map[*ssa.Function]map[string]bool{}, fnState: map[*ssa.Function]*fnSigns{}, noZero: map[string]bool{}}
	inScope := func(f *ssa.Function) bool {
		if f == nil || f.Pkg == nil {
			return false
		}
		rel := relPath(f.Pkg.Pkg.Path())
		for _, k := range pkgs {
			if rel == k {
				return true
			}
		}
		return false
	}
	var add func(f *ssa.Function)
	add = func(f *ssa.Function) {
		if f == nil || a.scope[f] || f.Blocks == nil || f.Synthetic != "" {
			return // wrappers and thunks only forward their arguments: they are not call sites of their own
		}
		a.scope[f] = true
		for _, an := range f.AnonFuncs {
			add(an)
		}
	}
	for _, pk := range prog.AllPackages() {
		if pk.Pkg == nil {
			continue
		}
		ok := false
		for _, k := range pkgs {
			if relPath(pk.Pkg.Path()) == k {
				ok = true
			}
		}
		if !ok {
			continue
		}
		for _, m := range pk.Members {
			switch x := m.(type) {
			case *ssa.Function:
				add(x)
			case *ssa.Type:
				for _, t := range []types.Type{x.Type(), types.NewPointer(x.Type())} {
					ms := prog.MethodSets.MethodSet(t)
					for i := 0; i < ms.Len(); i++ {
						add(prog.MethodValue(ms.At(i)))
					}
				}
			}
		}
	}
	// address-taken functions / direct stores summary
	addrTaken := map[*ssa.Function]bool{}
	direct := map[*ssa.Function]map[string]bool{}
	callees := map[*ssa.Function][]*ssa.Function{}
	allocs := map[string][]*ssa.Alloc{}
	for f := range a.scope {
		direct[f] = map[string]bool{}
		for _, b := range f.Blocks {
			for _, ins := range b.Instrs {
				switch x := ins.(type) {
				case *ssa.Store:
					if fa, ok := x.Addr.(*ssa.FieldAddr); ok {
						direct[f][fieldKeyOf(fa)] = true
					}
				case *ssa.Alloc:
					if pt, ok := x.Type().Underlying().(*types.Pointer); ok {
						if _, isStruct := pt.Elem().Underlying().(*types.Struct); isStruct {
							n := pt.Elem().String()
							if i := strings.LastIndex(n, "/"); i >= 0 {
								n = n[i+1:]
							}
							allocs[n] = append(allocs[n], x)
						}
					}
				}
				if c, ok := ins.(ssa.CallInstruction); ok {
					if sc := c.Common().StaticCallee(); sc != nil && inScope(sc) {
						callees[f] = append(callees[f], sc)
					}
				}
				// function values used other than as static callee
				var ops []*ssa.Value
				for _, op := range ins.Operands(ops) {
					if op == nil || *op == nil {
						continue
					}
					if g, ok := (*op).(*ssa.Function); ok {
						if c, isCall := ins.(ssa.CallInstruction); isCall && c.Common().Value == *op {
							continue
						}
						addrTaken[g] = true
					}
					if mc, ok := (*op).(*ssa.MakeClosure); ok {
						if c, isCall := ins.(ssa.CallInstruction); isCall && c.Common().Value == *op {
							continue
						}
						if g, ok := mc.Fn.(*ssa.Function); ok {
							addrTaken[g] = true
						}
					}
				}
			}
		}
	}
	// transitive stores
	for f := range a.scope {
		seen := map[*ssa.Function]bool{}
		acc := map[string]bool{}
		var walk func(g *ssa.Function, d int)
		walk = func(g *ssa.Function, d int) {
			if seen[g] || d > 6 {
				return
			}
			seen[g] = true
			for k := range direct[g] {
				acc[k] = true
			}
			for _, c := range callees[g] {
				walk(c, d+1)
			}
			for _, an := range g.AnonFuncs {
				walk(an, d+1)
			}
		}
		walk(f, 0)
		a.stores[f] = acc
	}
	// zero-initialisation: a field keeps ZERO unless every allocation of its struct stores it in the same function
	for sname, as := range allocs {
		if len(as) == 0 {
			continue
		}
		pt := as[0].Type().Underlying().(*types.Pointer)
		stt := pt.Elem().Underlying().(*types.Struct)
		for i := 0; i < stt.NumFields(); i++ {
			all := true
			for _, al := range as {
				found := false
				for _, ref := range *al.Referrers() {
					if fa, ok := ref.(*ssa.FieldAddr); ok && fa.Field == i {
						for _, r2 := range *fa.Referrers() {
							if st, ok := r2.(*ssa.Store); ok && st.Addr == ssa.Value(fa) {
								found = true
							}
						}
					}
				}
				if !found {
					all = false
				}
			}
			if all {
				a.noZero[sname+"."+stt.Field(i).Name()] = true
			}
		}
	}
	// parameters: assumptions, ⊤ for exported / address-taken / method-set functions, ⊥ (to be joined) otherwise
	for f := range a.scope {
		callable := !lowerFirst(f.Name()) || addrTaken[f] || f.Parent() != nil || f.Synthetic != ""
		if f.Signature.Recv() != nil {
			switch f.Name() {
			case "Len", "Less", "Swap", "Push", "Pop", "String":
				callable = true
			}
		}
		for _, prm := range f.Params {
			key := fnFullName(f) + "." + prm.Name()
			if s, ok := paramAssume[key]; ok {
				a.paramSign[prm], a.fixedPar[prm] = s, true
			} else if callable {
				a.paramSign[prm], a.fixedPar[prm] = sTop, true
			} else {
				a.paramSign[prm] = sBot
			}
		}
	}
	// fixpoint
	fns := make([]*ssa.Function, 0, len(a.scope))
	for f := range a.scope {
		fns = append(fns, f)
	}
	sort.Slice(fns, func(i, j int) bool { return fns[i].String() < fns[j].String() })
	for round := 0; round < 12; round++ {
		a.changed = false
		for _, f := range fns {
			a.analyseFn(f)
		}
		for _, f := range fns {
			for _, b := range f.Blocks {
				e0, reached := a.fnState[f].in[b]
				if !reached {
					continue
				}
				for ii, ins := range b.Instrs {
					e := a.flow(f, b, e0, ii)
					pt := evalPoint{b, ii}
					switch x := ins.(type) {
					case *ssa.Store:
						if fa, ok := x.Addr.(*ssa.FieldAddr); ok && isNumeric(x.Val.Type()) {
							fk := fieldKeyOf(fa)
							s := a.eval(f, x.Val, e, 0, map[ssa.Value]bool{}, pt)
							old, had := a.fieldSign[fk]
							if !had {
								old = sBot
								if !a.noZero[fk] {
									old = sZero
								}
							}
							if old|s != old || !had {
								a.fieldSign[fk] = old | s
								a.changed = true
							}
						}
					}
					if c, ok := ins.(ssa.CallInstruction); ok {
						sc := c.Common().StaticCallee()
						if sc == nil || !a.scope[sc] {
							continue
						}
						args := c.Common().Args
						for i, prm := range sc.Params {
							if a.fixedPar[prm] || i >= len(args) || !isNumeric(prm.Type()) {
								continue
							}
							s := a.eval(f, args[i], e, 0, map[ssa.Value]bool{}, pt)
							if a.paramSign[prm]|s != a.paramSign[prm] {
								a.paramSign[prm] |= s
								a.changed = true
							}
						}
					}
				}
			}
		}
		if !a.changed {
			break
		}
	}
	// parameters of functions never called stay ⊥: make them ⊤ (dead code is still checked conservatively)
	for prm, s := range a.paramSign {
		if s == sBot {
			a.paramSign[prm] = sTop
		}
	}
	for _, f := range fns {
		a.analyseFn(f)
	}
	return a
}
