package main

// E2: lock classes, order, held-set and context discipline (C20, C19, C18; guarded-by used by C10/C15/C22).

import (
	"fmt"
	"go/ast"
	"go/token"
	"go/types"
	"sort"
	"strings"
)

func init() {
	register("C20", checkC20)
}

var scgCache = map[*Prog]*SCG{}

func getSCG(p *Prog, r *Result) *SCG {
	if g, ok := scgCache[p]; ok {
		return g
	}
	g, err := buildSCG(p)
	if err != nil {
		r.undecided("anchor", "SCG", "", err.Error())
		return nil
	}
	g.propagate()
	scgCache[p] = g
	return g
}

func (g *SCG) describeHelpers() []string {
	var out []string
	for fn, h := range g.helpers {
		c := h.class
		if c == "" {
			c = fmt.Sprintf("by key-generator param #%d", h.keyParam)
		}
		kind := "wrapper"
		if h.base {
			kind = "base"
		}
		out = append(out, fmt.Sprintf("%s: %s helper, class %s, callback param #%d", fn.Name, kind, c, h.cbParam))
	}
	sort.Strings(out)
	return out
}

// allowed nesting edges: exactly Pod -> Workload.
var allowedLockEdges = map[string]bool{"Pod->Workload": true}

func checkC20(p *Prog, r *Result, tier string) {
	r.Technique = "lock-order analysis over a synchronous call graph with combinators (AST+types, go/cfg dominance)"
	r.Explanation = "L1 who-may-call: store.CreateLock / DistributedLock.Lock/TryLock only via calcium.doLock, doLock only from the base lock helpers. " +
		"L2 order inside a group: the loop that calls doLock ranges over a slice sorted by the lock key (sort call dominating the loop, comparator '<' on the key expression), repeats skipped; a helper whose every call site passes a one-element literal is trivially ordered. " +
		"L3 order across groups: held-lock sets are propagated context-sensitively over the synchronous call graph (async combinators reset the set); every acquisition under a non-empty held set yields an edge held->acquired; only Pod->Workload is allowed; NodeOperation must be acquired with nothing held. " +
		"Decides lock ORDER discipline, a necessary condition of deadlock freedom on distributed locks."
	r.NotCovered = "blocking on a saturated worker pool; locks taken outside cluster/calcium (none exist: L1); run-time equality of keys in different classes"
	r.Assumptions = []string{"A1 no reflection/unsafe control flow", "A2 interface dispatch bounded by module types (mocks/fakes excluded)", "A3 ants pool runs every Invoke'd closure in another goroutine"}
	g := getSCG(p, r)
	if g == nil {
		return
	}
	r.Tables["lock_classes"] = g.classes
	r.Tables["lock_helpers"] = g.describeHelpers()
	r.Tables["async_combinators"] = asyncCallees
	r.Tables["sync_combinators"] = syncCallees
	r.Analysed["lock_helpers"] = len(g.helpers)
	r.Analysed["acquisition_sites_x_contexts"] = len(g.acq)
	for _, pr := range g.problems {
		r.undecided("scg", pr, "", "unresolved construct in the synchronous call graph")
	}
	checkL1(p, r, g)
	checkL2(p, r, g)
	checkL3(p, r, g)
	// unlisted higher-order callees inside cluster/calcium (the rule scope) are reported: the table must stay complete
	var unl []string
	for n, c := range g.unknownHOF {
		unl = append(unl, fmt.Sprintf("%s x%d", n, c))
	}
	sort.Strings(unl)
	r.Tables["unlisted_higher_order_callees_treated_as_sync"] = unl
	controlsLocks(p, r)
}

// L1: who may call the lock primitives.
func checkL1(p *Prog, r *Result, g *SCG) {
	r.min("L1", 3)
	prim := map[string]bool{"store.Store.CreateLock": true, "lock.DistributedLock.Lock": true, "lock.DistributedLock.TryLock": true}
	n := 0
	for _, fn := range p.sortedFuncs() {
		if fn.Body == nil {
			continue
		}
		rel := relPath(fn.Pkg.PkgPath)
		fn.inspectBody(func(x ast.Node) bool {
			c, ok := x.(*ast.CallExpr)
			if !ok {
				return true
			}
			f := fn.Callee(c)
			if f == nil {
				return true
			}
			name := objName(f)
			isPrim := prim[name]
			// concrete implementations called directly also count
			if !isPrim && (f.Name() == "Lock" || f.Name() == "TryLock" || f.Name() == "CreateLock") && f.Pkg() != nil && strings.HasPrefix(f.Pkg().Path(), modPath) {
				if sig, _ := f.Type().(*types.Signature); sig != nil && sig.Recv() != nil && sig.Params().Len() >= 1 {
					if f.Name() == "CreateLock" || (sig.Results().Len() == 2) {
						isPrim = true
					}
				}
			}
			if !isPrim {
				return true
			}
			// the store-internal forwarding (Mercury embeds meta.KV; redis CreateLock constructs the lock) is not a call of Lock/TryLock
			n++
			top := fn
			for top.Parent != nil {
				top = top.Parent
			}
			key := fmt.Sprintf("%s calls %s", fn.Name, name)
			if top == g.doLock {
				r.ok("L1", key, p.pos(c), "lock primitive used inside doLock")
			} else if rel == "store/etcdv3" || rel == "store/etcdv3/meta" || rel == "store/redis" {
				r.ok("L1", key, p.pos(c), "store-internal forwarding of CreateLock")
			} else {
				r.bad("L1", key, p.pos(c), "distributed lock primitive used outside calcium.doLock: the acquisition escapes the lock-order discipline")
			}
			return true
		})
	}
	// doLock only from the base helpers
	for _, fn := range p.sortedFuncs() {
		if fn.Body == nil {
			continue
		}
		for _, c := range fn.calls(func(f *types.Func) bool { return p.ByObj[f] == g.doLock }) {
			top := fn
			for top.Parent != nil {
				top = top.Parent
			}
			key := fmt.Sprintf("%s calls doLock", fn.Name)
			h := g.helpers[top]
			if h != nil && h.base && h.cbParam >= 0 {
				r.ok("L1", key, p.pos(c), "doLock called from base helper with a callback parameter")
			} else {
				r.bad("L1", key, p.pos(c), "doLock called outside a with...Locked helper: no ordered group, no paired unlock")
			}
		}
	}
}

// L2: order inside a group.
func checkL2(p *Prog, r *Result, g *SCG) {
	r.min("L2", 2)
	var bases []*FuncNode
	for fn, h := range g.helpers {
		if h.base {
			bases = append(bases, fn)
		}
	}
	sort.Slice(bases, func(i, j int) bool { return bases[i].Name < bases[j].Name })
	for _, fn := range bases {
		checkL2Helper(p, r, g, fn)
	}
}

// enclosingRange finds the innermost range/for statement of fn's own body that contains pos.
func enclosingLoop(fn *FuncNode, pos token.Pos) ast.Stmt {
	var best ast.Stmt
	fn.inspectBody(func(n ast.Node) bool {
		switch s := n.(type) {
		case *ast.RangeStmt:
			if s.Body.Pos() <= pos && pos < s.Body.End() {
				best = s
			}
		case *ast.ForStmt:
			if s.Body.Pos() <= pos && pos < s.Body.End() {
				best = s
			}
		}
		return true
	})
	return best
}

func checkL2Helper(p *Prog, r *Result, g *SCG, fn *FuncNode) {
	cs := fn.calls(func(f *types.Func) bool { return p.ByObj[f] == g.doLock })
	for _, call := range cs {
		key := fn.Name + " / lock loop"
		loop := enclosingLoop(fn, call.Pos())
		if loop == nil {
			r.ok("L2", key, p.pos(call), "single acquisition (no loop)")
			continue
		}
		rs, ok := loop.(*ast.RangeStmt)
		if !ok {
			r.undecided("L2", key, p.pos(loop), "lock loop is not a range statement; order cannot be established")
			continue
		}
		// trivial case: every call site of this helper passes a one-element slice literal for the parameter that determines the ranged slice
		if trivial, why := allCallersPassSingleton(p, g, fn); trivial {
			r.ok("L2", key, p.pos(loop), "every call site passes a one-element literal ("+why+"): a group of one lock is trivially ordered")
			continue
		}
		slice, ok := unparen(rs.X).(*ast.Ident)
		if !ok {
			r.undecided("L2", key, p.pos(loop), "ranged expression is not a local slice variable")
			continue
		}
		sliceObj := fn.Pkg.TypesInfo.ObjectOf(slice)
		elemObj := types.Object(nil)
		if id, ok := rs.Value.(*ast.Ident); ok {
			elemObj = fn.Pkg.TypesInfo.ObjectOf(id)
		}
		// key expression of the acquisition, as a function of the element
		keyExpr := call.Args[1]
		keyOfElem := keyExprOfElem(fn, keyExpr, elemObj)
		if keyOfElem == "" {
			r.undecided("L2", key, p.pos(call), "lock key is not a recognisable function of the loop element")
			continue
		}
		// a sort call on the ranged slice dominating the loop whose comparator is '<' on that key expression
		loopRef := fn.find(rs.X)
		sorted, detail := false, "no sort of the ranged slice by the lock key dominates the lock loop"
		fn.inspectBody(func(n ast.Node) bool {
			c, ok := n.(*ast.CallExpr)
			if !ok || sorted {
				return true
			}
			f := fn.Callee(c)
			if f == nil {
				return true
			}
			nm := fullObjName(f)
			if (nm == "sort.Slice" || nm == "sort.SliceStable") && len(c.Args) == 2 {
				if id, ok := unparen(c.Args[0]).(*ast.Ident); !ok || fn.Pkg.TypesInfo.ObjectOf(id) != sliceObj {
					return true
				}
				cmp, ok2 := p.resolveFuncArg(fn, c.Args[1])
				if !ok2 || cmp == nil {
					return true
				}
				if !comparatorIsLessOnKey(cmp, slice.Name, keyOfElem) {
					detail = "the ranged slice is sorted, but not ascending by the lock key expression " + keyOfElem
					return true
				}
				if !fn.dominates(fn.find(c), loopRef) {
					detail = "sort call does not dominate the lock loop"
					return true
				}
				// no append / reassignment of the slice between sort and loop
				if _, hit := fn.reach(fn.find(c), true, func(x nodeRef) bool { return x == loopRef }, func(x nodeRef) bool {
					return assignsObj(fn, x.node(), sliceObj)
				}, false); !hit {
					detail = "the sorted slice is modified between the sort and the lock loop"
					return true
				}
				sorted = true
			}
			return true
		})
		if !sorted {
			r.bad("L2", key, p.pos(loop), detail+": two operations over the same lock group can acquire in opposite orders")
			continue
		}
		// repeats skipped: the doLock call is guarded by a `_, ok := locks[key]; !ok` test or the slice is unique
		if guardedByMapMiss(fn, call) {
			r.ok("L2", key, p.pos(loop), "ranged slice sorted ascending by lock key "+keyOfElem+", repeats skipped by map-miss guard")
		} else {
			r.bad("L2", key, p.pos(call), "acquisition not guarded against repeated keys (self-deadlock on a repeat)")
		}
	}
}

// allCallersPassSingleton: every call of helper fn (from anywhere in the module) passes a composite literal with exactly
// one element for one slice-typed parameter, and the helper's loop depends only on that parameter.
func allCallersPassSingleton(p *Prog, g *SCG, fn *FuncNode) (bool, string) {
	// find slice-typed params
	n := 0
	okAll := true
	why := ""
	for _, caller := range p.sortedFuncs() {
		if caller.Body == nil {
			continue
		}
		for _, c := range caller.calls(func(f *types.Func) bool { return p.ByObj[f] == fn }) {
			n++
			single := false
			for _, a := range c.Args {
				if cl, ok := unparen(a).(*ast.CompositeLit); ok {
					if _, isSlice := caller.typeOf(cl).Underlying().(*types.Slice); isSlice && len(cl.Elts) == 1 {
						single = true
						why = fmt.Sprintf("%d call site(s), e.g. %s", n, exprStr(cl))
					}
				}
			}
			if !single {
				okAll = false
			}
		}
	}
	return n > 0 && okAll, why
}

// keyExprOfElem renders the lock key as an expression over "$" standing for the loop element; "" if not a function of it.
func keyExprOfElem(fn *FuncNode, keyExpr ast.Expr, elem types.Object) string {
	e := unparen(keyExpr)
	if id, ok := e.(*ast.Ident); ok {
		// local: key := genKey(n)
		obj := fn.Pkg.TypesInfo.ObjectOf(id)
		var rhs ast.Expr
		cnt := 0
		ast.Inspect(fn.Body, func(nd ast.Node) bool {
			if a, ok := nd.(*ast.AssignStmt); ok && len(a.Lhs) == len(a.Rhs) {
				for i, l := range a.Lhs {
					if lid, ok := l.(*ast.Ident); ok && fn.Pkg.TypesInfo.ObjectOf(lid) == obj {
						cnt++
						rhs = a.Rhs[i]
					}
				}
			}
			return true
		})
		if cnt != 1 {
			return ""
		}
		e = unparen(rhs)
	}
	if elem == nil || !fn.usesObj(e, elem) {
		return ""
	}
	return replaceIdent(fn, e, elem, "$")
}

// replaceIdent prints e with every use of obj replaced by repl.
func replaceIdent(fn *FuncNode, e ast.Expr, obj types.Object, repl string) string {
	s := exprStr(e)
	name := obj.Name()
	// token-wise replacement
	var b strings.Builder
	i := 0
	isId := func(c byte) bool {
		return c == '_' || c >= '0' && c <= '9' || c >= 'a' && c <= 'z' || c >= 'A' && c <= 'Z'
	}
	for i < len(s) {
		if strings.HasPrefix(s[i:], name) && (i == 0 || !isId(s[i-1]) && s[i-1] != '.') && (i+len(name) == len(s) || !isId(s[i+len(name)])) {
			b.WriteString(repl)
			i += len(name)
			continue
		}
		b.WriteByte(s[i])
		i++
	}
	return b.String()
}

// comparatorIsLessOnKey: func(i, j int) bool { return K(s[i]) < K(s[j]) } (possibly through locals).
func comparatorIsLessOnKey(cmp *FuncNode, sliceName, keyOfElem string) bool {
	if cmp.Type.Params == nil || cmp.Type.Params.NumFields() != 2 {
		return false
	}
	var names []string
	for _, f := range cmp.Type.Params.List {
		for _, id := range f.Names {
			names = append(names, id.Name)
		}
	}
	if len(names) != 2 || len(cmp.Body.List) != 1 {
		return false
	}
	ret, ok := cmp.Body.List[0].(*ast.ReturnStmt)
	if !ok || len(ret.Results) != 1 {
		return false
	}
	be, ok := unparen(ret.Results[0]).(*ast.BinaryExpr)
	if !ok || be.Op != token.LSS {
		return false
	}
	want := func(idx string) string {
		return strings.ReplaceAll(keyOfElem, "$", sliceName+"["+idx+"]")
	}
	return exprStr(be.X) == want(names[0]) && exprStr(be.Y) == want(names[1])
}

func assignsObj(fn *FuncNode, n ast.Node, obj types.Object) bool {
	found := false
	if n == nil {
		return false
	}
	inspectNoLit(n, func(x ast.Node) bool {
		if a, ok := x.(*ast.AssignStmt); ok {
			for _, l := range a.Lhs {
				if id, ok := unparen(l).(*ast.Ident); ok && fn.Pkg.TypesInfo.ObjectOf(id) == obj {
					found = true
				}
			}
		}
		return !found
	})
	return found
}

// guardedByMapMiss: the call sits in the body of `if _, ok := m[key]; !ok { ... }`.
func guardedByMapMiss(fn *FuncNode, call *ast.CallExpr) bool {
	found := false
	fn.inspectBody(func(n ast.Node) bool {
		is, ok := n.(*ast.IfStmt)
		if !ok || is.Init == nil || !(is.Body.Pos() <= call.Pos() && call.End() <= is.Body.End()) {
			return true
		}
		as, ok := is.Init.(*ast.AssignStmt)
		if !ok || len(as.Lhs) != 2 || len(as.Rhs) != 1 {
			return true
		}
		ix, ok := unparen(as.Rhs[0]).(*ast.IndexExpr)
		if !ok {
			return true
		}
		if _, isMap := fn.typeOf(ix.X).Underlying().(*types.Map); !isMap {
			return true
		}
		if exprStr(ix.Index) != exprStr(call.Args[1]) {
			return true
		}
		un, ok := unparen(is.Cond).(*ast.UnaryExpr)
		if ok && un.Op == token.NOT && exprStr(un.X) == exprStr(as.Lhs[1]) {
			found = true
		}
		return true
	})
	return found
}

// L3: nesting edges.
func checkL3(p *Prog, r *Result, g *SCG) {
	r.min("L3", 15)
	type ek struct{ fn, edge, callee string }
	seen := map[ek]bool{}
	sites := map[string]bool{}
	for _, a := range g.acq {
		site := a.fn.Name + " -> " + shortName(a.via)
		if a.held == 0 {
			k := ek{a.fn.Name, "(none)->" + a.class, a.via}
			if seen[k] {
				continue
			}
			seen[k] = true
			sites[site] = true
			r.ok("L3", fmt.Sprintf("%s acquires %s holding nothing (via %s)", a.fn.Name, a.class, shortName(a.via)), p.pos(a.call), "")
			continue
		}
		for _, h := range g.heldNames(a.held) {
			edge := h + "->" + a.class
			k := ek{a.fn.Name, edge, a.via}
			if seen[k] {
				continue
			}
			seen[k] = true
			key := fmt.Sprintf("%s acquires %s holding %s (via %s)", a.fn.Name, a.class, h, shortName(a.via))
			if allowedLockEdges[edge] {
				r.ok("L3", key, p.pos(a.call), "allowed nesting "+edge)
			} else {
				r.bad("L3", key, p.pos(a.call), "lock nesting "+edge+" is outside the global order (only Pod->Workload allowed; NodeOperation only with nothing held)", g.pathTo(a.fn, a.held)...)
			}
		}
	}
	r.Analysed["lock_helper_call_sites"] = len(sites)
}

// controls: tiny known-bad / known-good shapes analysed by the same comparator/guard code.
func controlsLocks(p *Prog, r *Result) {
	// L2 comparator recogniser: positive and negative control on synthetic strings
	good := comparatorSrcOK("func(i, j int) bool { return genKey(ns[i]) < genKey(ns[j]) }", "ns", "genKey($)")
	bad1 := comparatorSrcOK("func(i, j int) bool { return ns[i].Name < ns[j].Name }", "ns", "genKey($)")
	bad2 := comparatorSrcOK("func(i, j int) bool { return genKey(ns[i]) > genKey(ns[j]) }", "ns", "genKey($)")
	r.control("L2/comparator-good", !good, false)
	r.control("L2/comparator-wrong-key", !bad1, true)
	r.control("L2/comparator-descending", !bad2, true)
}
