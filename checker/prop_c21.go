package main

// C21: node selection yields exactly the filtered set of distinct nodes.

import (
	"fmt"
	"go/ast"
	"go/token"
	"go/types"
	"strings"
)

func init() { register("C21", checkC21) }

// sliceBaseObj returns the object of x in `x[i]`.
func indexBaseObj(fn *FuncNode, e ast.Expr) (types.Object, ast.Expr) {
	if ix, ok := unparen(e).(*ast.IndexExpr); ok {
		return fn.objOf(ix.X), ix.Index
	}
	return nil, nil
}

func checkC21(p *Prog, r *Result, tier string) {
	r.Technique = "type-resolved AST + go/cfg rules: index-provenance rule on every utils.Unique call, sort/compact rule on the result slice of filterNodes (comparator evaluated by the E5 abstract evaluator), guard/dominance rules on the include, exclude, label and down-node filters in calcium and in both store backends (sibling agreement)"
	r.Explanation = "U1 the index returned by utils.Unique(s, getVal) is only used to cut s itself (s[:idx]) and getVal reads s[i]: an index computed on one slice and applied to another keeps duplicates and drops distinct elements; " +
		"NORM before filterNodes returns, its result slice itself is sorted by a strict weak order on the node name and adjacent equal names are compacted, in a defer registered before any return; " +
		"INC the include path appends the node fetched for each included name and nothing else; EX the exclude path builds the exclude set from exactly the Excludes list and appends a listed node iff its own name is not in the set; " +
		"G1 in both store backends a node is emitted only past the guard `!all && node.IsDown()` with `all` forwarded from NodeFilter.All; G2 a node becomes a candidate only under utils.LabelsFilter(node.Labels, labels) with labels forwarded from NodeFilter.Labels; G3 argument positions of that forwarding; G4 IsDown is Bypass || !Available; AV Available is the outcome of the status lookup (err == nil)."
	r.NotCovered = "the store queries themselves (which nodes a pod lists); utils.LabelsFilter's own definition; engine client construction"
	r.Assumptions = []string{"golang.org/x/exp/slices.CompactFunc and sort.SliceStable behave as documented"}
	r.min("U1", 1)
	r.min("NORM", 1)
	r.min("INC", 1)
	r.min("EX", 2)
	r.min("G1", 2)
	r.min("G2", 2)
	r.min("G3", 2)
	r.min("G4", 1)
	r.min("AV", 2)

	// ---- U1
	var uniq *types.Func
	if u := p.Fn("utils.Unique"); u != nil {
		uniq = u.Obj
	} else {
		r.undecided("U1", "utils.Unique", "", "not found")
	}
	for _, fn := range p.sortedFuncs() {
		if uniq == nil {
			break
		}
		k := 0
		var stack []ast.Node
		ast.Inspect(fn.Body, func(n ast.Node) bool {
			if n == nil {
				stack = stack[:len(stack)-1]
				return false
			}
			stack = append(stack, n)
			if _, isLit := n.(*ast.FuncLit); isLit && n != ast.Node(fn.Lit) {
				stack = stack[:len(stack)-1]
				return false
			}
			call, ok := n.(*ast.CallExpr)
			if !ok {
				return true
			}
			f := fn.Callee(call)
			if f == nil || f.Origin() != uniq || len(call.Args) != 2 {
				return true
			}
			k++
			key := fmt.Sprintf("%s / Unique call #%d on %s", fn.Name, k, exprStr(call.Args[0]))
			s := fn.objOf(call.Args[0])
			why := ""
			if s == nil {
				why = "the de-duplicated operand is not a plain variable"
			}
			// getVal returns s[i]
			if lit, ok := unparen(call.Args[1]).(*ast.FuncLit); ok && why == "" {
				okv := false
				if len(lit.Body.List) == 1 {
					if rt, ok := lit.Body.List[0].(*ast.ReturnStmt); ok && len(rt.Results) == 1 {
						if base, _ := indexBaseObj(fn, rt.Results[0]); base == s {
							okv = true
						}
					}
				}
				if !okv {
					why = "getVal does not read the element of the slice being de-duplicated"
				}
			} else if why == "" {
				why = "getVal is not a literal"
			}
			// use of the result: direct `s[:Unique(..)]`, or bound to a variable used only as `s[:v]`
			if why == "" {
				parent := stack[len(stack)-2]
				useOK := func(idxUse ast.Node, parentOf ast.Node) string {
					se, ok := parentOf.(*ast.SliceExpr)
					if !ok || se.High != idxUse || se.Low != nil {
						return "the index is not used as the upper bound of a slice expression"
					}
					if fn.objOf(se.X) != s {
						return fmt.Sprintf("the index computed on %s cuts a different slice, %s: duplicates stay and distinct elements are dropped", exprStr(call.Args[0]), exprStr(se.X))
					}
					return ""
				}
				switch pp := parent.(type) {
				case *ast.SliceExpr:
					why = useOK(call, pp)
				case *ast.AssignStmt:
					if len(pp.Lhs) != 1 {
						why = "unrecognised use of the index"
						break
					}
					v := fn.objOf(pp.Lhs[0])
					root := fn
					nuse := 0
					var st2 []ast.Node
					ast.Inspect(root.Body, func(x ast.Node) bool {
						if x == nil {
							st2 = st2[:len(st2)-1]
							return false
						}
						st2 = append(st2, x)
						if id, ok := x.(*ast.Ident); ok && fn.objOf(id) == v && id != pp.Lhs[0] {
							nuse++
							if w := useOK(id, st2[len(st2)-2]); w != "" && why == "" {
								why = w
							}
						}
						return true
					})
					if nuse == 0 && why == "" {
						why = "the index is never used"
					}
				default:
					why = "unrecognised use of the index"
				}
			}
			r.check2(why, "U1", key, p.pos(call), "index cuts the same slice it was computed on")
			return true
		})
	}

	// ---- filterNodes
	F := p.Fn("cluster/calcium.(*Calcium).filterNodes")
	if F == nil {
		r.undecided("NORM", "cluster/calcium.(*Calcium).filterNodes", "", "not found")
	} else {
		c21FilterNodes(p, r, F)
	}

	// ---- stores
	for _, be := range []struct{ pkg, recv string }{{"store/etcdv3", "(*Mercury)"}, {"store/redis", "(*Rediaron)"}} {
		D := p.Fn(be.pkg + "." + be.recv + ".doGetNodes")
		G := p.Fn(be.pkg + "." + be.recv + ".GetNodesByPod")
		if D == nil || G == nil {
			r.undecided("G1", be.pkg+" doGetNodes/GetNodesByPod", "", "not found")
			continue
		}
		c21Store(p, r, be.pkg, D, G)
	}
	// ---- G4
	if I := p.Fn("types.(*Node).IsDown"); I == nil {
		r.undecided("G4", "types.(*Node).IsDown", "", "not found")
	} else {
		why := "IsDown is not a single `return n.Bypass || !n.Available`"
		rv := recvObj(I)
		if len(I.Body.List) == 1 {
			if rt, ok := I.Body.List[0].(*ast.ReturnStmt); ok && len(rt.Results) == 1 {
				if be, ok := unparen(rt.Results[0]).(*ast.BinaryExpr); ok && be.Op == token.LOR {
					isF := func(e ast.Expr, f string, neg bool) bool {
						e = unparen(e)
						if neg {
							u, ok := e.(*ast.UnaryExpr)
							if !ok || u.Op != token.NOT {
								return false
							}
							e = unparen(u.X)
						}
						sel, ok := e.(*ast.SelectorExpr)
						return ok && I.objOf(sel.X) == rv && sel.Sel.Name == f
					}
					if (isF(be.X, "Bypass", false) && isF(be.Y, "Available", true)) || (isF(be.Y, "Bypass", false) && isF(be.X, "Available", true)) {
						why = ""
					}
				}
			}
		}
		r.check2(why, "G4", "types.(*Node).IsDown / down means bypassed or not available", p.pos(I.Decl), "Bypass || !Available")
	}
}

func c21FilterNodes(p *Prog, r *Result, F *FuncNode) {
	// named result
	var ns types.Object
	if F.Type.Results != nil && len(F.Type.Results.List) > 0 && len(F.Type.Results.List[0].Names) > 0 {
		ns = F.Pkg.TypesInfo.ObjectOf(F.Type.Results.List[0].Names[0])
	}
	filt := F.paramObj(1)
	// NORM
	why := ""
	var at ast.Node = F.Decl
	var norm *FuncNode
	if ns == nil {
		why = "the result slice is not a named result the deferred normalisation can reach"
	} else if len(F.Body.List) == 0 {
		why = "empty body"
	} else if ds, ok := F.Body.List[0].(*ast.DeferStmt); !ok {
		why = "the first statement is not the deferred normalisation: a return before its registration escapes it"
	} else if lit, ok := unparen(ds.Call.Fun).(*ast.FuncLit); !ok {
		why = "deferred call is not a literal"
	} else {
		norm = p.ByLit[lit]
		at = ds
	}
	if norm != nil {
		// sort of ns by Name
		sorted, compacted := false, false
		var sortRef, compRef nodeRef
		for _, c := range norm.calls(func(f *types.Func) bool { return isSortSlice(f) }) {
			if norm.objOf(c.Args[0]) != ns {
				continue
			}
			if lit, ok := unparen(c.Args[1]).(*ast.FuncLit); ok {
				v := newCmpFunc(lit.Type, lit.Body, nil).analyse()
				if v.Err == "" && len(v.Problems) == 0 && sigString(v.Signature) == "Name↑" {
					sorted, sortRef = true, norm.find(c)
				} else {
					why = fmt.Sprintf("the result is sorted by a comparator that is not a strict weak order on the name (%s %v %s)", sigString(v.Signature), v.Problems, v.Err)
				}
			}
		}
		norm.inspectBody(func(n ast.Node) bool {
			as, ok := n.(*ast.AssignStmt)
			if !ok || len(as.Lhs) != 1 || len(as.Rhs) != 1 || norm.objOf(as.Lhs[0]) != ns {
				return true
			}
			c, ok := unparen(as.Rhs[0]).(*ast.CallExpr)
			if !ok {
				return true
			}
			f := norm.Callee(c)
			if f == nil || !strings.HasSuffix(fullObjName(f), "slices.CompactFunc") || len(c.Args) != 2 || norm.objOf(c.Args[0]) != ns {
				return true
			}
			if lit, ok := unparen(c.Args[1]).(*ast.FuncLit); ok && len(lit.Body.List) == 1 {
				if rt, ok := lit.Body.List[0].(*ast.ReturnStmt); ok && len(rt.Results) == 1 {
					if be, ok := unparen(rt.Results[0]).(*ast.BinaryExpr); ok && be.Op == token.EQL {
						l, ok1 := unparen(be.X).(*ast.SelectorExpr)
						rr, ok2 := unparen(be.Y).(*ast.SelectorExpr)
						if ok1 && ok2 && l.Sel.Name == "Name" && rr.Sel.Name == "Name" && norm.objOf(l.X) != norm.objOf(rr.X) {
							compacted, compRef = true, norm.find(as)
						}
					}
				}
			}
			return true
		})
		switch {
		case why != "":
		case !sorted:
			why = "the result slice itself is not sorted by node name before duplicates are removed (a sorted copy does not help)"
		case !compacted:
			why = "adjacent nodes with equal names are not removed from the result slice itself"
		case !norm.dominates(sortRef, compRef):
			why = "duplicates are removed before the slice is sorted: only adjacent repeats would be dropped"
		}
	}
	r.check2(why, "NORM", F.Name+" / result slice is sorted by name and de-duplicated on every return", p.pos(at), "defer { sort.SliceStable(ns, by Name); ns = slices.CompactFunc(ns, same Name) } registered first")

	// INC: for _, name := range filter.Includes { node, err := store.GetNode(ctx, name); if err != nil {return}; ns = append(ns, node) }
	why = "no loop over NodeFilter.Includes found"
	at = F.Decl
	isFilterField := func(e ast.Expr, field string) bool {
		sel, ok := unparen(e).(*ast.SelectorExpr)
		return ok && F.objOf(sel.X) == filt && sel.Sel.Name == field
	}
	F.inspectBody(func(n ast.Node) bool {
		// the loop over the included names, in any of its forms, over NodeFilter.Includes or a local copy of it
		el := elemLoopOf(F, n)
		if el == nil {
			return true
		}
		list := el.list
		if o := F.objOf(list); o != nil {
			if d := F.singleDef(o); d != nil {
				list = d
			}
		}
		if !isFilterField(list, "Includes") {
			return true
		}
		at = n
		isName := func(e ast.Expr) bool {
			if el.elem != nil && F.objOf(e) == el.elem {
				return true
			}
			if el.idx != nil {
				ix, ok := unparen(e).(*ast.IndexExpr)
				return ok && F.objOf(ix.Index) == el.idx && exprStr(unparen(ix.X)) == exprStr(unparen(el.list))
			}
			return false
		}
		rs := struct{ Body *ast.BlockStmt }{el.body}
		var nodeObj types.Object
		nApp := 0
		why = ""
		for _, st := range rs.Body.List {
			switch s := st.(type) {
			case *ast.AssignStmt:
				if len(s.Rhs) == 1 {
					if c, ok := unparen(s.Rhs[0]).(*ast.CallExpr); ok {
						if f := F.Callee(c); f != nil && objName(f) == "store.Store.GetNode" && len(c.Args) == 2 && isName(c.Args[1]) {
							nodeObj = F.objOf(s.Lhs[0])
							continue
						}
						if id, ok := c.Fun.(*ast.Ident); ok && id.Name == "append" && len(c.Args) == 2 && F.objOf(c.Args[0]) == ns && F.objOf(s.Lhs[0]) == ns && F.objOf(c.Args[1]) == nodeObj && nodeObj != nil {
							nApp++
							continue
						}
					}
				}
				if el.elem != nil && len(s.Lhs) == 1 && F.objOf(s.Lhs[0]) == el.elem {
					continue // `name := includes[i]`
				}
				why = "unexpected assignment in the include loop: " + p.pos(s)
			case *ast.IfStmt:
				// only an error return is allowed
				if be, ok := unparen(s.Cond).(*ast.BinaryExpr); !ok || be.Op != token.NEQ || !isNilIdent(be.Y) {
					why = "the include loop skips nodes under a condition other than a lookup error: " + exprStr(s.Cond)
				}
			default:
				why = fmt.Sprintf("unexpected %T in the include loop", st)
			}
		}
		if why == "" && (nodeObj == nil || nApp != 1) {
			why = "the include loop does not append the node fetched for each included name exactly once"
		}
		return true
	})
	r.check2(why, "INC", F.Name+" / every included name contributes its node", p.pos(at), "for each include: GetNode(name) then append")

	// EX1/EX2 in filterNodes itself, or in a helper of the package that is handed NodeFilter.Excludes (its result is then
	// what filterNodes assigns to the result list)
	{
		why1, why2, at1, at2 := c21Excludes(p, F, func(e ast.Expr) bool { return isFilterField(e, "Excludes") }, ns)
		if strings.HasPrefix(why1, "no set built") {
			for _, c := range F.callsDeep(func(f *types.Func) bool { return f.Pkg() == F.Pkg.Types }) {
				H := p.ByObj[F.Callee(c)]
				if H == nil || H.Body == nil || H == F {
					continue
				}
				var src types.Object
				for i, a := range c.Args {
					if isFilterField(a, "Excludes") {
						src = H.paramObj(i)
					}
				}
				if src == nil {
					continue
				}
				// the helper's result: its named result, or the single variable it returns
				var hres types.Object
				if H.Type.Results != nil && len(H.Type.Results.List) == 1 && len(H.Type.Results.List[0].Names) == 1 {
					hres = H.Pkg.TypesInfo.ObjectOf(H.Type.Results.List[0].Names[0])
				} else {
					inspectNoLit(H.Body, func(x ast.Node) bool {
						if rt, ok := x.(*ast.ReturnStmt); ok && len(rt.Results) == 1 {
							hres = H.objOf(rt.Results[0])
						}
						return true
					})
				}
				// … which filterNodes stores as its own result
				stored := false
				F.inspectBody(func(x ast.Node) bool {
					if as, ok := x.(*ast.AssignStmt); ok && len(as.Lhs) == 1 && len(as.Rhs) == 1 && unparen(as.Rhs[0]) == ast.Expr(c) && F.objOf(as.Lhs[0]) == ns {
						stored = true
					}
					if rt, ok := x.(*ast.ReturnStmt); ok && len(rt.Results) >= 1 && unparen(rt.Results[0]) == ast.Expr(c) {
						stored = true
					}
					return true
				})
				if hres == nil || !stored {
					continue
				}
				why1, why2, at1, at2 = c21Excludes(p, H, func(e ast.Expr) bool { return H.objOf(e) == src }, hres)
			}
		}
		r.check2(why1, "EX", F.Name+" / exclude set is exactly NodeFilter.Excludes", p.pos(at1), "excludes[n] = struct{}{} for each n in Excludes")
		r.check2(why2, "EX", F.Name+" / a listed node is kept iff its own name is not excluded", p.pos(at2), "membership test on n.Name guards the append")
	}
}

func c21Store(p *Prog, r *Result, pkg string, D, G *FuncNode) {
	labels, all := D.paramObj(2), D.paramObj(3)
	// G2: append of a candidate under LabelsFilter(node.Labels, labels)
	why := "no candidate append under utils.LabelsFilter(node.Labels, labels)"
	var at ast.Node = D.Decl
	D.inspectBody(func(n ast.Node) bool {
		is, ok := n.(*ast.IfStmt)
		if !ok {
			return true
		}
		c, ok := unparen(is.Cond).(*ast.CallExpr)
		if !ok {
			return true
		}
		f := D.Callee(c)
		if f == nil || objName(f) != "utils.LabelsFilter" || len(c.Args) != 2 {
			return true
		}
		at = is
		sel, ok := unparen(c.Args[0]).(*ast.SelectorExpr)
		if !ok || sel.Sel.Name != "Labels" || D.objOf(c.Args[1]) != labels {
			why = "LabelsFilter is not applied to (node.Labels, the labels parameter)"
			return true
		}
		node := D.objOf(sel.X)
		for _, st := range is.Body.List {
			if as, ok := st.(*ast.AssignStmt); ok && len(as.Rhs) == 1 {
				if ac, ok := unparen(as.Rhs[0]).(*ast.CallExpr); ok {
					if id, ok := ac.Fun.(*ast.Ident); ok && id.Name == "append" && len(ac.Args) == 2 && D.objOf(ac.Args[1]) == node {
						why = ""
					}
				}
			}
		}
		return true
	})
	// every append of a decoded node into a []*Node in the first loop must be inside that if
	r.check2(why, "G2", pkg+" doGetNodes / a node is a candidate only if it carries the requested labels", p.pos(at), "append under utils.LabelsFilter(node.Labels, labels)")

	// G1 + AV in the spawned closure(s)
	g1 := "no emission of a node found"
	av := "Available is not assigned from the status lookup"
	at = D.Decl
	for _, cl := range D.Lits {
		var sends []ast.Node
		cl.inspectBody(func(n ast.Node) bool {
			if s, ok := n.(*ast.SendStmt); ok {
				sends = append(sends, s)
			}
			return true
		})
		if len(sends) == 0 {
			continue
		}
		g1 = ""
		for _, s := range sends {
			sv := cl.objOf(s.(*ast.SendStmt).Value)
			// a dominating `if !all && node.IsDown() { return }`
			dom := false
			cl.inspectBody(func(n ast.Node) bool {
				is, ok := n.(*ast.IfStmt)
				if !ok || is.Else != nil || len(is.Body.List) != 1 {
					return true
				}
				if _, isRet := is.Body.List[0].(*ast.ReturnStmt); !isRet {
					return true
				}
				be, ok := unparen(is.Cond).(*ast.BinaryExpr)
				if !ok || be.Op != token.LAND {
					return true
				}
				isNotAll := func(e ast.Expr) bool {
					u, ok := unparen(e).(*ast.UnaryExpr)
					return ok && u.Op == token.NOT && cl.objOf(u.X) == all
				}
				isDown := func(e ast.Expr) bool {
					c, ok := unparen(e).(*ast.CallExpr)
					if !ok {
						return false
					}
					f := cl.Callee(c)
					sel, ok2 := unparen(c.Fun).(*ast.SelectorExpr)
					return f != nil && objName(f) == "types.(*Node).IsDown" && ok2 && cl.objOf(sel.X) == sv
				}
				if (isNotAll(be.X) && isDown(be.Y)) || (isNotAll(be.Y) && isDown(be.X)) {
					// the if statement's condition node dominates the send and the send is not inside the if
					if cl.dominates(cl.find(is.Cond), cl.find(s)) && !(is.Body.Pos() <= s.Pos() && s.End() <= is.Body.End()) {
						dom = true
					}
				}
				return true
			})
			if !dom {
				g1 = "a node is emitted at " + p.pos(s) + " without passing `if !all && node.IsDown() { return }`: down or bypassed nodes are selected although not all nodes were requested (or up nodes are dropped)"
			}
			at = s
		}
		// AV
		cl.inspectBody(func(n ast.Node) bool {
			as, ok := n.(*ast.AssignStmt)
			if !ok || len(as.Lhs) != 1 || len(as.Rhs) != 1 {
				return true
			}
			sel, ok := unparen(as.Lhs[0]).(*ast.SelectorExpr)
			if !ok || sel.Sel.Name != "Available" {
				return true
			}
			be, ok := unparen(as.Rhs[0]).(*ast.BinaryExpr)
			if ok && be.Op == token.EQL && isNilIdent(be.Y) {
				if eo := cl.objOf(be.X); eo != nil {
					// err defined by a GetNodeStatus call
					cl.inspectBody(func(x ast.Node) bool {
						if d, ok := x.(*ast.AssignStmt); ok && len(d.Rhs) == 1 && len(d.Lhs) == 2 && cl.objOf(d.Lhs[1]) == eo {
							if c, ok := unparen(d.Rhs[0]).(*ast.CallExpr); ok {
								if f := cl.Callee(c); f != nil && f.Name() == "GetNodeStatus" {
									av = ""
								}
							}
						}
						return true
					})
				}
			}
			return true
		})
	}
	r.check2(g1, "G1", pkg+" doGetNodes / down or bypassed nodes are skipped unless all nodes were requested", p.pos(at), "emission dominated by `if !all && node.IsDown() { return }`")
	r.check2(av, "AV", pkg+" doGetNodes / Available reflects the status lookup", p.pos(D.Decl), "node.Available = err == nil with err from GetNodeStatus")

	// G3: GetNodesByPod forwards nodeFilter.Labels, nodeFilter.All
	filt := G.paramObj(1)
	why = "no doGetNodes call"
	at = G.Decl
	// the lookup may sit in GetNodesByPod (or a closure of it) or in a helper of the package that is handed the filter
	type g3site struct {
		fn   *FuncNode
		filt types.Object
	}
	g3sites := []g3site{{G, filt}}
	for _, c := range G.callsDeep(func(f *types.Func) bool { return f.Pkg() == G.Pkg.Types && f != D.Obj }) {
		enc := p.enclosing(G.Pkg, c.Pos())
		H := p.ByObj[enc.Callee(c)]
		if H == nil || H.Body == nil || H == G {
			continue
		}
		for i, a := range c.Args {
			if enc.objOf(a) == filt && filt != nil && H.paramObj(i) != nil {
				g3sites = append(g3sites, g3site{H, H.paramObj(i)})
			}
		}
	}
	for _, gs := range g3sites {
		G, filt := gs.fn, gs.filt
		for _, c := range G.callsDeep(func(f *types.Func) bool { return f == D.Obj }) {
			at = c
			enc := p.enclosing(G.Pkg, c.Pos())
			isField := func(e ast.Expr, f string) bool {
				sel, ok := unparen(e).(*ast.SelectorExpr)
				return ok && enc.objOf(sel.X) == filt && sel.Sel.Name == f
			}
			if len(c.Args) == 5 && isField(c.Args[2], "Labels") && isField(c.Args[3], "All") {
				why = ""
			} else {
				why = fmt.Sprintf("doGetNodes is called with (%s, %s) in the labels/all positions, not (nodeFilter.Labels, nodeFilter.All)", exprStr(c.Args[2]), exprStr(c.Args[3]))
			}
		}
	}
	r.check2(why, "G3", pkg+" GetNodesByPod / forwards NodeFilter.Labels and NodeFilter.All", p.pos(at), "doGetNodes(…, nodeFilter.Labels, nodeFilter.All, …)")
}

// c21Excludes: in F, (1) a set is built from exactly the names of the exclude list (isSrc recognises the list), written
// nowhere else; (2) one loop over the listed nodes appends a node to the result `ns` exactly when its own name is absent
// from that set. The node of an iteration may be the range value or an element expression `nodes[i]`.
func c21Excludes(p *Prog, F *FuncNode, isSrc func(ast.Expr) bool, ns types.Object) (why1, why2 string, at1, at2 ast.Node) {
	var exSet types.Object
	why := "no set built from NodeFilter.Excludes"
	var at ast.Node = F.Decl
	F.inspectBody(func(n ast.Node) bool {
		rs, ok := n.(*ast.RangeStmt)
		if !ok || !isSrc(rs.X) || rs.Value == nil || len(rs.Body.List) != 1 {
			return true
		}
		at = rs
		if as, ok := rs.Body.List[0].(*ast.AssignStmt); ok && len(as.Lhs) == 1 {
			if base, idx := indexBaseObj(F, as.Lhs[0]); base != nil && F.objOf(idx) == F.objOf(rs.Value) {
				if _, isMap := base.Type().Underlying().(*types.Map); isMap {
					exSet, why = base, ""
				}
			}
		}
		return true
	})
	if exSet != nil {
		// no other writes to the set
		nw := 0
		F.inspectBody(func(n ast.Node) bool {
			if as, ok := n.(*ast.AssignStmt); ok {
				for _, l := range as.Lhs {
					if base, _ := indexBaseObj(F, l); base == exSet {
						nw++
					}
				}
			}
			if c, ok := n.(*ast.CallExpr); ok {
				if id, ok := c.Fun.(*ast.Ident); ok && id.Name == "delete" && len(c.Args) > 0 && F.objOf(c.Args[0]) == exSet {
					nw += 2
				}
			}
			return true
		})
		if nw != 1 {
			why = "the exclude set is written at more than one place"
		}
	}
	why1, at1 = why, at

	// EX2: for _, n := range listed { if _, ok := excludes[n.Name]; ok { continue }; ns = append(ns, n) }
	why = "no loop filtering the listed nodes by the exclude set"
	at = F.Decl
	F.inspectBody(func(n ast.Node) bool {
		// the loop over the listed nodes: `for _, n := range L`, `for i := range L` or `for i := 0; i < len(L); i++`; the
		// node of an iteration is then written `n`, respectively `L[i]`
		var body *ast.BlockStmt
		elemTxt := ""
		switch l := n.(type) {
		case *ast.RangeStmt:
			if exSet == nil || !F.usesObj(l.Body, exSet) {
				return true
			}
			if id, ok := l.Value.(*ast.Ident); ok && id.Name != "_" {
				body, elemTxt = l.Body, id.Name
			} else if id, ok := l.Key.(*ast.Ident); ok && l.Value == nil && id.Name != "_" {
				body, elemTxt = l.Body, exprStr(unparen(l.X))+"["+id.Name+"]"
			}
		case *ast.ForStmt:
			if exSet == nil || !F.usesObj(l.Body, exSet) || l.Cond == nil {
				return true
			}
			// i := 0; i < len(L); i++
			init, ok1 := l.Init.(*ast.AssignStmt)
			post, ok2 := l.Post.(*ast.IncDecStmt)
			be, ok3 := unparen(l.Cond).(*ast.BinaryExpr)
			if ok1 && ok2 && ok3 && len(init.Lhs) == 1 && len(init.Rhs) == 1 && post.Tok == token.INC && be.Op == token.LSS {
				iv := F.objOf(init.Lhs[0])
				k, isC := F.constInt(init.Rhs[0])
				lc, isLen := unparen(be.Y).(*ast.CallExpr)
				if iv != nil && isC && k == 0 && F.objOf(post.X) == iv && F.objOf(be.X) == iv && isLen && isBuiltinCall(F, lc, "len") && len(lc.Args) == 1 {
					body, elemTxt = l.Body, exprStr(unparen(lc.Args[0]))+"["+iv.Name()+"]"
				}
			}
		}
		if body == nil {
			return true
		}
		rsBody := body
		isElem := func(e ast.Expr) bool { return exprStr(unparen(e)) == elemTxt }
		at = n
		why = ""
		// the single `ns = append(ns, n)` of the loop, reached exactly when the membership test on n.Name says "absent"
		var apps []*ast.AssignStmt
		otherWrite := false
		ast.Inspect(rsBody, func(x ast.Node) bool {
			as, ok := x.(*ast.AssignStmt)
			if !ok {
				return true
			}
			for i, l := range as.Lhs {
				if F.objOf(l) != ns {
					continue
				}
				isApp := false
				if len(as.Rhs) == len(as.Lhs) {
					if c, ok := unparen(as.Rhs[i]).(*ast.CallExpr); ok {
						if id, ok := c.Fun.(*ast.Ident); ok && id.Name == "append" && len(c.Args) == 2 && F.objOf(c.Args[0]) == ns && isElem(c.Args[1]) && !c.Ellipsis.IsValid() {
							isApp = true
						}
					}
				}
				if isApp {
					apps = append(apps, as)
				} else {
					otherWrite = true
				}
			}
			return true
		})
		switch {
		case otherWrite:
			why = "the result list is written in the exclude loop by something other than `ns = append(ns, n)`"
		case len(apps) != 1:
			why = "a listed node is not appended exactly when its name is absent from the exclude set"
		}
		if why == "" {
			conds, ok := pathConds(rsBody, apps[0])
			// membership flags: `_, ok := excludes[n.Name]` (in an if's init or as a statement of the loop)
			member := map[types.Object]bool{}
			ast.Inspect(rsBody, func(x ast.Node) bool {
				as, isAs := x.(*ast.AssignStmt)
				if !isAs || len(as.Lhs) != 2 || len(as.Rhs) != 1 || as.Tok != token.DEFINE {
					return true
				}
				base, idx := indexBaseObj(F, as.Rhs[0])
				sel, ok2 := unparen(idx).(*ast.SelectorExpr)
				if base == exSet && ok2 && isElem(sel.X) && sel.Sel.Name == "Name" {
					if o := F.objOf(as.Lhs[1]); o != nil {
						member[o] = true
					}
				}
				return true
			})
			switch {
			case !ok:
				why = "the append of a listed node is nested in something other than if/else: the rule cannot tell when it runs"
			case len(conds) != 1:
				why = "the exclude test is not a single membership test `_, ok := excludes[n.Name]` on the node's own name guarding the append"
			default:
				e, pos := unparen(conds[0].Expr), conds[0].Pos
				for {
					u, isNot := e.(*ast.UnaryExpr)
					if !isNot || u.Op != token.NOT {
						break
					}
					e, pos = unparen(u.X), !pos
				}
				if !member[F.objOf(e)] {
					why = "the exclude test is not `if _, ok := excludes[n.Name]; ok { continue }` on the node's own name"
				} else if pos {
					why = "a listed node is appended when its name IS in the exclude set, and dropped otherwise"
				}
			}
		}
		return true
	})
	return why1, why, at1, at
}
