package main

// E10: liveness shape of result channels, wait groups and pipes (C12 C27 C29 C30).

import (
	"fmt"
	"go/ast"
	"go/token"
	"go/types"
	"strings"
)

type chanAnalyzer struct {
	p *Prog
	g *SCG
}

func newChanAnalyzer(p *Prog, r *Result) *chanAnalyzer {
	g := getSCG(p, r)
	if g == nil {
		return nil
	}
	return &chanAnalyzer{p, g}
}

// mustPass: every path from r (exclusive) to an exit of fn crosses a node satisfying pred.
func mustPass(fn *FuncNode, from nodeRef, pred func(nodeRef) bool) bool {
	_, hit := fn.reach(from, true, nil, pred, true)
	return !hit
}

// mustPassFromEntry: every path from the entry of fn to an exit crosses a node satisfying pred.
func mustPassFromEntry(fn *FuncNode, pred func(nodeRef) bool) bool {
	_, hit := fn.reach(fn.entry(), false, nil, pred, true)
	return !hit
}

func isBuiltinCall(fn *FuncNode, c *ast.CallExpr, name string) bool {
	id, ok := unparen(c.Fun).(*ast.Ident)
	if !ok || id.Name != name {
		return false
	}
	_, isB := fn.Pkg.TypesInfo.ObjectOf(id).(*types.Builtin)
	return isB
}

// wgCall: c is <wg>.<method>() on a sync.WaitGroup; returns the object of the receiver variable (or field).
func wgCall(fn *FuncNode, c *ast.CallExpr, method string) (types.Object, bool) {
	f := fn.Callee(c)
	if f == nil || fullObjName(f) != "sync.(*WaitGroup)."+method {
		return nil, false
	}
	sel, ok := unparen(c.Fun).(*ast.SelectorExpr)
	if !ok {
		return nil, false
	}
	return fn.objOf(sel.X), true
}

// doneFirst: the first statement of closure S is `defer <wg>.Done()`; also accepts a body that only calls a bound local
// closure whose first statement is that defer (the RunAndWait idiom).
func (a *chanAnalyzer) doneFirst(S *FuncNode) (types.Object, bool) {
	if S == nil || S.Body == nil || len(S.Body.List) == 0 {
		return nil, false
	}
	if d, ok := S.Body.List[0].(*ast.DeferStmt); ok {
		if o, ok := wgCall(S, d.Call, "Done"); ok {
			return o, true
		}
	}
	if len(S.Body.List) == 1 {
		if es, ok := S.Body.List[0].(*ast.ExprStmt); ok {
			if c, ok := es.X.(*ast.CallExpr); ok {
				if t, ok := a.p.resolveFuncArg(S, c.Fun); ok && t != nil && t != S {
					return a.doneFirst(t)
				}
			}
		}
	}
	return nil, false
}

// sendsOnType: fn (own body, synchronous closures, statically called module functions, depth<=3) sends on a channel of type T.
func (a *chanAnalyzer) sendsOnType(fn *FuncNode, T types.Type, depth int, seen map[*FuncNode]bool) bool {
	if fn == nil || fn.Body == nil || depth > 3 || seen[fn] {
		return false
	}
	seen[fn] = true
	found := false
	fn.inspectBody(func(n ast.Node) bool {
		if found {
			return false
		}
		switch x := n.(type) {
		case *ast.SendStmt:
			if t := fn.typeOf(x.Chan); t != nil && chanElemEq(t, T) {
				found = true
			}
		case *ast.CallExpr:
			if f := fn.Callee(x); f != nil {
				if t := a.p.ByObj[f]; t != nil {
					if _, isAsync := asyncCallees[fullObjName(f)]; !isAsync && a.sendsOnType(t, T, depth+1, seen) {
						found = true
					}
				}
			}
			if t, ok := a.p.resolveFuncArg(fn, x.Fun); ok && t != nil && t.Lit != nil && a.g.roles[t].kind == "bound" {
				if a.sendsOnType(t, T, depth+1, seen) {
					found = true
				}
			}
		}
		return true
	})
	if found {
		return true
	}
	for _, l := range fn.Lits {
		switch a.g.roles[l].kind {
		case "sync", "defer", "lockcb":
			if a.sendsOnType(l, T, depth+1, seen) {
				return true
			}
		}
	}
	return false
}

func chanElemEq(t, T types.Type) bool {
	c1, ok1 := t.Underlying().(*types.Chan)
	c2, ok2 := T.Underlying().(*types.Chan)
	return ok1 && ok2 && types.Identical(c1.Elem(), c2.Elem())
}

// asyncSpawns lists the async closures spawned directly by G (including through an immediately-invoked wrapper literal).
type spawn struct {
	S    *FuncNode
	call *ast.CallExpr // the spawning call in G's own body (pool.Invoke / SentryGo / go)
	node ast.Node
}

func (a *chanAnalyzer) asyncSpawns(G *FuncNode) []spawn {
	var out []spawn
	for _, l := range G.Lits {
		r := a.g.roles[l]
		if r.kind == "async" {
			out = append(out, spawn{S: l, call: r.call, node: l.Lit})
			continue
		}
		if r.kind == "sync" && r.via == "immediate call" {
			for _, ll := range l.Lits {
				if a.g.roles[ll].kind == "async" {
					// the spawning call is the one that has the immediate call as its argument
					out = append(out, spawn{S: ll, call: a.g.argContext(G, r.call), node: l.Lit})
				}
			}
		}
	}
	return out
}

// findMakeChan finds `x := make(chan T ...)` (or var spec) in F's own body; returns object, type and node.
func findMadeChans(F *FuncNode) map[types.Object]ast.Node {
	out := map[types.Object]ast.Node{}
	rec := func(lhs ast.Expr, rhs ast.Expr, at ast.Node) {
		c, ok := unparen(rhs).(*ast.CallExpr)
		if !ok || !isBuiltinCall(F, c, "make") {
			return
		}
		if _, isChan := F.typeOf(c).Underlying().(*types.Chan); !isChan {
			return
		}
		if o := F.objOf(lhs); o != nil {
			out[o] = at
		}
	}
	F.inspectBody(func(n ast.Node) bool {
		switch x := n.(type) {
		case *ast.AssignStmt:
			if len(x.Lhs) == len(x.Rhs) {
				for i := range x.Lhs {
					rec(x.Lhs[i], x.Rhs[i], x)
				}
			}
		case *ast.ValueSpec:
			for i := range x.Names {
				if i < len(x.Values) {
					rec(x.Names[i], x.Values[i], x)
				}
			}
		}
		return true
	})
	return out
}

// checkStream: H1 (close on every path, after joins), H5 (wait-group discipline), for the channel(s) made and returned by F.
// rule names are prefixed (e.g. "H1", "H5").
func (a *chanAnalyzer) checkStream(r *Result, F *FuncNode, want int) {
	p := a.p
	made := findMadeChans(F)
	nstreams := 0
	for ch, at := range made {
		// only channels that F returns
		returned := false
		F.inspectBody(func(n ast.Node) bool {
			if rt, ok := n.(*ast.ReturnStmt); ok {
				for _, e := range rt.Results {
					if F.objOf(e) == ch {
						returned = true
					}
				}
			}
			return true
		})
		if !returned {
			continue
		}
		nstreams++
		T := ch.Type()
		key := fmt.Sprintf("%s / chan %s", F.Name, ch.Name())
		// the closer: an async closure of F containing close(ch)
		var closers []*FuncNode
		var closeCalls []*ast.CallExpr
		ast.Inspect(F.Body, func(n ast.Node) bool {
			if c, ok := n.(*ast.CallExpr); ok && isBuiltinCall(F, c, "close") && len(c.Args) == 1 && F.objOf(c.Args[0]) == ch {
				closeCalls = append(closeCalls, c)
				k := p.enclosing(F.Pkg, c.Pos())
				closers = append(closers, k)
			}
			return true
		})
		if len(closeCalls) != 1 {
			r.bad("H1", key+" / closed exactly once on every path", p.pos(at), fmt.Sprintf("channel returned to the caller has %d close sites (want exactly 1): the stream either never closes or can be closed twice", len(closeCalls)))
			continue
		}
		// K: the async closure the close belongs to (walk up through deferred literals)
		K := closers[0]
		for K != nil && K != F && a.g.roles[K].kind != "async" {
			K = K.Parent
		}
		if K == nil || K == F {
			r.bad("H1", key+" / closed exactly once on every path", p.pos(closeCalls[0]), "close is not inside a goroutine spawned by the function that returns the channel")
			continue
		}
		// close must be (in) the first statement of K, a defer; inside a deferred literal it must be on every path
		okClose, why := false, "close(ch) is not deferred as the first statement of the producing goroutine: an early return or panic leaves the stream open"
		if len(K.Body.List) > 0 {
			if d, ok := K.Body.List[0].(*ast.DeferStmt); ok {
				if d.Call == closeCalls[0] {
					okClose, why = true, "defer close(ch) is the first statement of the producer"
				} else if lit, ok := unparen(d.Call.Fun).(*ast.FuncLit); ok {
					dl := p.ByLit[lit]
					if dl != nil && closers[0] == dl {
						cref := dl.find(closeCalls[0])
						if mustPassFromEntry(dl, func(x nodeRef) bool { return x == cref }) {
							okClose, why = true, "first statement of the producer defers a closure that closes ch on every path"
						} else {
							why = "the deferred closure does not reach close(ch) on every path"
						}
					}
				}
			}
		}
		if okClose {
			r.ok("H1", key+" / closed exactly once on every path", p.pos(closeCalls[0]), why)
		} else {
			r.bad("H1", key+" / closed exactly once on every path", p.pos(closeCalls[0]), why)
		}
		// joins: K and F's other spawns
		a.checkJoins(r, F, K, T, key)
	}
	if nstreams < want {
		r.undecided("H1", F.Name+" / returned channel", p.pos(F.Decl), fmt.Sprintf("expected %d channel(s) made and returned, found %d", want, nstreams))
	}
}

// checkJoins: every goroutine that can send on a channel of type T is joined before the function that spawned it returns
// (or, for the stream creator F, before the closer K closes).
func (a *chanAnalyzer) checkJoins(r *Result, F, K *FuncNode, T types.Type, key string) {
	p := a.p
	visited := map[*FuncNode]bool{}
	var visit func(G *FuncNode, depth int)
	visit = func(G *FuncNode, depth int) {
		if G == nil || G.Body == nil || visited[G] || depth > 6 {
			return
		}
		visited[G] = true
		spawns := a.asyncSpawns(G)
		if rl := a.g.roles[G]; G.Lit != nil && rl.kind == "sync" && rl.via == "immediate call" {
			spawns = nil // goroutines returned by an immediately-invoked wrapper are attributed to the enclosing function
		}
		for _, sp := range spawns {
			S := sp.S
			if S == K {
				visit(S, depth+1)
				continue
			}
			if !a.sendsOnType(S, T, 0, map[*FuncNode]bool{}) {
				visit(S, depth+1) // it may spawn senders itself
				continue
			}
			jk := fmt.Sprintf("%s / sender %s joined", key, S.Name)
			W, ok := a.doneFirst(S)
			if !ok {
				r.bad("H5", jk, p.pos(S.Lit), "goroutine that sends on the stream does not start with `defer wg.Done()`: an early return or panic skips Done (Wait blocks forever) or the sender is not joined before close (send on closed channel)")
				visit(S, depth+1)
				continue
			}
			if why := a.addAccounted(G, W, sp); why != "" {
				r.bad("H5", jk, p.pos(S.Lit), why)
				visit(S, depth+1)
				continue
			}
			// where is W waited on?
			waiter := G
			if G == F {
				waiter = K // the creator returns immediately; the closer waits
			}
			if a.waitsOn(waiter, W, sp, waiter == K && G == F) || (waiter != K && topOf(G).paramIndex(W) >= 0 && a.waitsOn(K, W, sp, true)) {
				r.ok("H5", jk, p.pos(S.Lit), "starts with defer "+W.Name()+".Done(); "+W.Name()+".Wait() is passed on every path of "+shortName(waiter.Name)+" before it returns / closes")
			} else {
				r.bad("H5", jk, p.pos(S.Lit), W.Name()+".Wait() is not on every path of "+shortName(waiter.Name)+" after the spawn: the stream can be closed while this goroutine still sends")
			}
			visit(S, depth+1)
		}
		// synchronous closures and statically called functions that (transitively) send
		for _, l := range G.Lits {
			switch a.g.roles[l].kind {
			case "sync", "defer", "lockcb", "bound":
				visit(l, depth+1)
			}
		}
		G.inspectBody(func(n ast.Node) bool {
			if c, ok := n.(*ast.CallExpr); ok {
				if f := G.Callee(c); f != nil {
					if t := p.ByObj[f]; t != nil && a.passesChanOfType(G, c, T) {
						visit(t, depth+1)
					}
				}
			}
			return true
		})
	}
	visit(F, 0)
}

func (a *chanAnalyzer) passesChanOfType(G *FuncNode, c *ast.CallExpr, T types.Type) bool {
	for _, arg := range c.Args {
		if t := G.typeOf(arg); t != nil && chanElemEq(t, T) {
			return true
		}
	}
	return false
}

// waitsOn: in function W-waiter, <wg>.Wait() is a deferred call, or is crossed on every path from the spawn to the exit
// (when fromEntry: on every path from the entry).
func (a *chanAnalyzer) waitsOn(fn *FuncNode, W types.Object, sp spawn, fromEntry bool) bool {
	isWait := func(x nodeRef) bool {
		n := x.node()
		if n == nil {
			return false
		}
		found := false
		inspectNoLit(n, func(y ast.Node) bool {
			if c, ok := y.(*ast.CallExpr); ok {
				if o, ok := wgCall(fn, c, "Wait"); ok && sameWG(o, W) {
					found = true
				}
			}
			return !found
		})
		return found
	}
	// deferred Wait anywhere in fn's own body
	deferred := false
	fn.inspectBody(func(n ast.Node) bool {
		if d, ok := n.(*ast.DeferStmt); ok {
			if o, ok := wgCall(fn, d.Call, "Wait"); ok && sameWG(o, W) {
				deferred = true
			}
		}
		return true
	})
	if deferred {
		return true
	}
	if fromEntry {
		return mustPassFromEntry(fn, isWait)
	}
	ref := fn.find(sp.node)
	if !ref.valid() {
		return false
	}
	return mustPass(fn, ref, isWait)
}

// sameWG: same variable, or a parameter/field standing for it (matched by name when objects differ across functions).
func sameWG(a, b types.Object) bool {
	if a == b {
		return true
	}
	return a != nil && b != nil && a.Name() == b.Name()
}

// sendPattern classifies how closure S reports on channels of type T:
// "always-once" (exactly one send on every path), "once-iff-error" (one send inside a first-statement defer guarded by the
// named error result), "none", "other".
func (a *chanAnalyzer) sendPattern(S *FuncNode, T types.Type) (string, string) {
	type site struct {
		fn   *FuncNode
		stmt *ast.SendStmt
	}
	var sites []site
	var collect func(fn *FuncNode)
	collect = func(fn *FuncNode) {
		fn.inspectBody(func(n ast.Node) bool {
			if s, ok := n.(*ast.SendStmt); ok {
				if t := fn.typeOf(s.Chan); t != nil && chanElemEq(t, T) {
					sites = append(sites, site{fn, s})
				}
			}
			return true
		})
		for _, l := range fn.Lits {
			switch a.g.roles[l].kind {
			case "defer", "sync":
				collect(l)
			}
		}
	}
	collect(S)
	if len(sites) == 0 {
		return "none", ""
	}
	if len(sites) > 1 {
		return "other", fmt.Sprintf("%d send sites", len(sites))
	}
	st := sites[0]
	ref := st.fn.find(st.stmt)
	if st.fn == S {
		if mustPassFromEntry(S, func(x nodeRef) bool { return x == ref }) && !inLoop(S, st.stmt) {
			return "always-once", "single send on every path"
		}
		return "other", "send not on every path"
	}
	// in a deferred literal: which statement of S registers it?
	if a.g.roles[st.fn].kind != "defer" || st.fn.Parent != S {
		return "other", "send inside a nested closure"
	}
	regIdx := -1
	for i, s := range S.Body.List {
		if d, ok := s.(*ast.DeferStmt); ok && unparen(d.Call.Fun) == ast.Expr(st.fn.Lit) {
			regIdx = i
		}
	}
	if regIdx < 0 {
		return "other", "deferred sender not registered at top level"
	}
	// everything before the registration must be unable to leave S (no return); allow a leading `defer wg.Done()`
	for i := 0; i < regIdx; i++ {
		if _, ok := S.Body.List[i].(*ast.DeferStmt); !ok {
			hasRet := false
			inspectNoLit(S.Body.List[i], func(y ast.Node) bool {
				if _, ok := y.(*ast.ReturnStmt); ok {
					hasRet = true
				}
				return !hasRet
			})
			if hasRet {
				return "other", "a return precedes the registration of the deferred send"
			}
		}
	}
	if mustPassFromEntry(st.fn, func(x nodeRef) bool { return x == ref }) && !inLoop(st.fn, st.stmt) {
		return "always-once", "deferred send on every path"
	}
	// guarded by the named error result of S
	if errRes := namedErrResult(S); errRes != nil {
		if guardedByNonNil(st.fn, st.stmt, errRes) {
			return "once-iff-error", "deferred send guarded by the named error result " + errRes.Name()
		}
	}
	return "other", "deferred send is conditional"
}

func inLoop(fn *FuncNode, n ast.Node) bool { return enclosingLoop(fn, n.Pos()) != nil }

func namedErrResult(S *FuncNode) types.Object {
	if S.Type.Results == nil {
		return nil
	}
	for _, f := range S.Type.Results.List {
		for _, id := range f.Names {
			if o := S.Pkg.TypesInfo.ObjectOf(id); o != nil && o.Type().String() == "error" {
				return o
			}
		}
	}
	return nil
}

// guardedByNonNil: stmt sits directly in the body of `if <obj> != nil { ... }` (no else) in fn, and nowhere else conditional.
func guardedByNonNil(fn *FuncNode, stmt ast.Node, obj types.Object) bool {
	ok := false
	fn.inspectBody(func(n ast.Node) bool {
		is, isIf := n.(*ast.IfStmt)
		if !isIf || !(is.Body.Pos() <= stmt.Pos() && stmt.End() <= is.Body.End()) {
			return true
		}
		be, isBin := unparen(is.Cond).(*ast.BinaryExpr)
		if isBin && be.Op == token.NEQ && fn.objOf(be.X) == obj && isNilIdent(be.Y) && is.Init == nil {
			// the send must be a direct statement of the if body
			for _, s := range is.Body.List {
				if s == stmt {
					ok = true
				}
			}
		}
		return true
	})
	return ok
}

var _ = strings.Join

// addAccounted: a <wg>.Add call dominates the spawn in G; when wg is a parameter of the enclosing declared function the Add may
// sit in its callers, dominating the call. Returns "" when accounted, else the reason.
func (a *chanAnalyzer) addAccounted(G *FuncNode, W types.Object, sp spawn) string {
	spRef := G.find(sp.node)
	found := false
	for fn := G; fn != nil && !found; fn = fn.Parent {
		ref := spRef
		if fn != G {
			// position of the literal chain inside fn
			inner := G
			for inner.Parent != fn && inner.Parent != nil {
				inner = inner.Parent
			}
			if inner.Lit != nil {
				ref = fn.find(inner.Lit)
			}
		}
		fn.inspectBody(func(n ast.Node) bool {
			if c, ok := n.(*ast.CallExpr); ok {
				if o, ok := wgCall(fn, c, "Add"); ok && sameWG(o, W) {
					if fn.dominates(fn.find(c), ref) || enclosingLoop(fn, c.Pos()) != nil && enclosingLoop(fn, c.Pos()) == enclosingLoop(fn, ref.node().Pos()) && c.Pos() < ref.node().Pos() {
						found = true
					}
				}
			}
			return true
		})
	}
	if found {
		return ""
	}
	top := topOf(G)
	if top.paramIndex(W) >= 0 && top.Obj != nil {
		ncall, nok := 0, 0
		for _, caller := range a.p.sortedFuncs() {
			if caller.Body == nil {
				continue
			}
			for _, c := range caller.calls(func(f *types.Func) bool { return f == top.Obj }) {
				ncall++
				cref := caller.find(c)
				caller.inspectBody(func(n ast.Node) bool {
					if ac, ok := n.(*ast.CallExpr); ok {
						if o, ok := wgCall(caller, ac, "Add"); ok && sameWG(o, W) && ac.Pos() < c.Pos() && caller.dominates(caller.find(ac), cref) {
							nok++
						}
					}
					return true
				})
			}
		}
		if ncall > 0 && nok >= ncall {
			return ""
		}
	}
	return "no " + W.Name() + ".Add dominates the spawn of this goroutine: Wait can return (and the stream be closed) while it still sends"
}
