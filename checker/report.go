package main

// Obligations, verdicts, evidence files and known-findings handling.

import (
	"encoding/json"
	"fmt"
	"os"
	"path/filepath"
	"sort"
	"strings"
	"time"
)

const (
	stOK        = "discharged"
	stViolation = "violation"
	stUndecided = "undecided"
)

// Oblig is one rule instance: rule + construct identify it (never a line number).
type Oblig struct {
	Rule      string   `json:"rule"`
	Construct string   `json:"construct"`
	Status    string   `json:"status"`
	Detail    string   `json:"detail,omitempty"`
	Pos       string   `json:"pos,omitempty"`
	Path      []string `json:"path,omitempty"`
	Known     bool     `json:"known_finding,omitempty"`
}

func (o Oblig) key() string { return o.Rule + " | " + o.Construct }

// Result collects everything one property check produced.
type Result struct {
	ID           string
	Obligs       []Oblig
	RuleMin      map[string]int    // minimum number of instances per rule (confirmed by hand)
	Controls     map[string]string // control name -> outcome
	Analysed     map[string]int
	Tables       map[string]any
	Explanation  string
	NotCovered   string
	Assumptions  []string
	Observations []string
	Technique    string
}

func newResult(id string) *Result {
	return &Result{ID: id, RuleMin: map[string]int{}, Controls: map[string]string{}, Analysed: map[string]int{}, Tables: map[string]any{}}
}

func (r *Result) add(rule, construct, status, pos, detail string, path ...string) {
	r.Obligs = append(r.Obligs, Oblig{Rule: rule, Construct: construct, Status: status, Pos: pos, Detail: detail, Path: path})
}
func (r *Result) ok(rule, construct, pos, detail string) { r.add(rule, construct, stOK, pos, detail) }
func (r *Result) bad(rule, construct, pos, detail string, path ...string) {
	r.add(rule, construct, stViolation, pos, detail, path...)
}
func (r *Result) undecided(rule, construct, pos, detail string) {
	r.add(rule, construct, stUndecided, pos, detail)
}
func (r *Result) check(cond bool, rule, construct, pos, okDetail, badDetail string) bool {
	if cond {
		r.ok(rule, construct, pos, okDetail)
	} else {
		r.bad(rule, construct, pos, badDetail)
	}
	return cond
}
func (r *Result) min(rule string, n int) { r.RuleMin[rule] = n }
func (r *Result) observe(f string, a ...any) {
	r.Observations = append(r.Observations, fmt.Sprintf(f, a...))
}
func (r *Result) control(name string, fired bool, wantFired bool) {
	s := "silent"
	if fired {
		s = "fired"
	}
	if fired == wantFired {
		r.Controls[name] = s + " (as expected)"
		return
	}
	r.Controls[name] = s + " (UNEXPECTED)"
	r.undecided("control", name, "", "positive/negative control of the rule did not behave as expected: the rule implementation is broken")
}

// KnownFinding is one entry of /verif/known_findings.json.
type KnownFinding struct {
	Property  string `json:"property"`
	Rule      string `json:"rule"`
	Construct string `json:"construct"`
	WhatFails string `json:"what_fails"`
	Status    string `json:"status"` // known | fixed
	Commit    string `json:"commit,omitempty"`
}

func loadKnown(verifDir string) ([]KnownFinding, error) {
	b, err := os.ReadFile(filepath.Join(verifDir, "known_findings.json"))
	if err != nil {
		if os.IsNotExist(err) {
			return nil, nil
		}
		return nil, err
	}
	var out []KnownFinding
	if err := json.Unmarshal(b, &out); err != nil {
		return nil, err
	}
	return out, nil
}

// finish applies count minima and known findings, writes the evidence file and replay files, prints the
// VIOLATION / KNOWN-FINDING lines and returns the number of unlisted violations.
func (r *Result) finish(verifDir, tier string, seed int, t0 time.Time, known []KnownFinding, only string) int {
	// count minima: a rule that matches fewer sites than confirmed by hand never passes vacuously
	counts := map[string]int{}
	for _, o := range r.Obligs {
		counts[o.Rule]++
	}
	rules := map[string]map[string]int{}
	for rule, min := range r.RuleMin {
		if counts[rule] < min {
			r.undecided("count", rule, "", fmt.Sprintf("rule %s matched %d instances, expected at least %d (confirmed by reading): an anchored construct disappeared or changed shape", rule, counts[rule], min))
		}
	}
	for rule, n := range counts {
		rules[rule] = map[string]int{"instances": n, "min": r.RuleMin[rule]}
	}
	sort.SliceStable(r.Obligs, func(i, j int) bool { return r.Obligs[i].key() < r.Obligs[j].key() })
	// a finding is identified by rule + construct; the ordinal of a function literal inside its function (`F$2$1`) is not
	// part of the identity (it changes when a literal is given a name or another literal is added before it): the
	// enclosing declared function, the site ordinal and the effect named in the construct are
	kmap := map[string]KnownFinding{}
	for _, k := range known {
		if k.Property == r.ID && k.Status == "known" {
			kmap[stripLitOrdinals(k.Rule+" | "+k.Construct)] = k
		}
	}
	nviol, nknown, ndis, nund := 0, 0, 0, 0
	os.MkdirAll(filepath.Join(verifDir, "evidence", "replay"), 0o755)
	// remove stale replay files of this property
	old, _ := filepath.Glob(filepath.Join(verifDir, "evidence", "replay", r.ID+"-*.json"))
	for _, f := range old {
		os.Remove(f)
	}
	var lines []string
	var samples []Oblig
	var problems []Oblig
	for i := range r.Obligs {
		o := &r.Obligs[i]
		if only != "" && o.key() != only {
			continue
		}
		switch o.Status {
		case stOK:
			ndis++
			if len(samples) < 12 {
				samples = append(samples, *o)
			}
		default:
			if k, ok := kmap[stripLitOrdinals(o.key())]; ok && o.Status == stViolation {
				o.Known = true
				nknown++
				problems = append(problems, *o)
				lines = append(lines, fmt.Sprintf("KNOWN-FINDING: property=%s %s at %s: %s", r.ID, o.key(), o.Pos, k.WhatFails))
				continue
			}
			if o.Status == stUndecided {
				nund++
			}
			nviol++
			problems = append(problems, *o)
			rp := filepath.Join("evidence", "replay", fmt.Sprintf("%s-%d.json", r.ID, nviol))
			b, _ := json.MarshalIndent(map[string]any{"property": r.ID, "obligation": o, "key": o.key(),
				"replay": fmt.Sprintf("bin/verifcheck -p %s -only %q", r.ID, o.key())}, "", " ")
			os.WriteFile(filepath.Join(verifDir, rp), b, 0o644)
			lines = append(lines, fmt.Sprintf("%s rule=%s construct=%s at %s: %s", strings.ToUpper(o.Status), o.Rule, o.Construct, o.Pos, o.Detail))
			lines = append(lines, fmt.Sprintf("VIOLATION property=%s replay=%s", r.ID, rp))
		}
	}
	total := ndis + nknown + nviol
	if total == 0 {
		nviol++
		lines = append(lines, fmt.Sprintf("UNDECIDED property=%s: no obligation was generated", r.ID))
		rp := filepath.Join("evidence", "replay", fmt.Sprintf("%s-0.json", r.ID))
		os.WriteFile(filepath.Join(verifDir, rp), []byte(`{"property":"`+r.ID+`","key":"none","detail":"no obligations"}`), 0o644)
		lines = append(lines, fmt.Sprintf("VIOLATION property=%s replay=%s", r.ID, rp))
	}
	if len(samples) == 0 && len(problems) > 0 {
		samples = problems
	}
	// the evidence schema types these as arrays: never emit null for an empty list
	if r.Assumptions == nil {
		r.Assumptions = []string{}
	}
	if samples == nil {
		samples = []Oblig{}
	}
	if problems == nil {
		problems = []Oblig{}
	}
	if r.Observations == nil {
		r.Observations = []string{}
	}
	if r.Obligs == nil {
		r.Obligs = []Oblig{}
	}
	cov := map[string]any{
		"explanation":         r.Explanation,
		"not_covered":         r.NotCovered,
		"obligations":         total,
		"discharged":          ndis,
		"known_findings":      nknown,
		"undecided":           nund,
		"unlisted_violations": nviol,
		"rules":               rules,
		"controls":            r.Controls,
		"analysed":            r.Analysed,
		"tables":              r.Tables,
		"samples":             samples,
		"problems":            problems,
		"all_obligations":     r.Obligs,
		"observations":        r.Observations,
		"checker_cmd":         fmt.Sprintf("bin/verifcheck -p %s -tier %s", r.ID, tier),
		"trusted_base":        []string{"go/types", "go/cfg", "go/ssa (x/tools v0.29.0)", "rule tables in /verif/checker"},
	}
	ev := map[string]any{
		"property_id": r.ID, "tier": tier, "seed": seed, "level": "other",
		"coverage": cov, "assumptions": r.Assumptions, "wall_s": time.Since(t0).Seconds(), "violations": nviol,
	}
	b, _ := json.MarshalIndent(ev, "", " ")
	if only == "" {
		os.WriteFile(filepath.Join(verifDir, "evidence", r.ID+".json"), b, 0o644)
	}
	fmt.Printf("== %s: %d obligations, %d discharged, %d known findings, %d unlisted violations (%d undecided)\n", r.ID, total, ndis, nknown, nviol, nund)
	for _, l := range lines {
		fmt.Println(l)
	}
	return nviol
}

// stripLitOrdinals removes the `$n` ordinals of function literals from a construct name.
func stripLitOrdinals(s string) string {
	var b strings.Builder
	for i := 0; i < len(s); i++ {
		if s[i] == '$' {
			j := i + 1
			for j < len(s) && s[j] >= '0' && s[j] <= '9' {
				j++
			}
			if j > i+1 {
				i = j - 1
				continue
			}
		}
		b.WriteByte(s[i])
	}
	return b.String()
}
