package main

// E5 cmpeval: comparators as finite functions of orderings.
//
// A comparator less(i, j) that touches its operands only through <,>,<=,>=,==,!= on key expressions (the same
// expression with the element index swapped) is a boolean function of n three-valued orderings. It is evaluated
// abstractly over all 3^n pair assignments and all 13^n weak-order triples; no concrete value is ever supplied.

import (
	"fmt"
	"go/ast"
	"go/parser"
	"go/token"
	"sort"
	"strings"
)

type cmpFunc struct {
	body   *ast.BlockStmt
	pi, pj string // names of the two index parameters
	keys   []string
	err    string
	subst  map[string]ast.Expr // single-definition locals of the comparator body
	inline func(call *ast.CallExpr) (*cmpFunc, [2]int, bool)
}

// normKey renders e with the index identifiers replaced by placeholders; which[0]/which[1] tell whether pi / pj occur.
func (c *cmpFunc) normKey(e ast.Expr) (s string, hasI, hasJ bool) {
	var b strings.Builder
	var walk func(e ast.Expr)
	walk = func(e ast.Expr) {
		switch x := e.(type) {
		case *ast.Ident:
			switch {
			case x.Name == c.pi:
				hasI = true
				b.WriteString("§")
			case x.Name == c.pj:
				hasJ = true
				b.WriteString("§")
			default:
				if sub, ok := c.subst[x.Name]; ok {
					b.WriteString("(")
					walk(sub)
					b.WriteString(")")
				} else {
					b.WriteString(x.Name)
				}
			}
		case *ast.ParenExpr:
			walk(x.X)
		case *ast.SelectorExpr:
			walk(x.X)
			b.WriteString("." + x.Sel.Name)
		case *ast.IndexExpr:
			walk(x.X)
			b.WriteString("[")
			walk(x.Index)
			b.WriteString("]")
		case *ast.BinaryExpr:
			b.WriteString("(")
			walk(x.X)
			b.WriteString(" " + x.Op.String() + " ")
			walk(x.Y)
			b.WriteString(")")
		case *ast.UnaryExpr:
			b.WriteString(x.Op.String())
			walk(x.X)
		case *ast.StarExpr:
			b.WriteString("*")
			walk(x.X)
		case *ast.BasicLit:
			b.WriteString(x.Value)
		case *ast.CallExpr:
			walk(x.Fun)
			b.WriteString("(")
			for i, a := range x.Args {
				if i > 0 {
					b.WriteString(",")
				}
				walk(a)
			}
			b.WriteString(")")
		default:
			b.WriteString(fmt.Sprintf("<%T>", e))
		}
	}
	walk(e)
	return b.String(), hasI, hasJ
}

func (c *cmpFunc) keyIndex(k string) int {
	for i, x := range c.keys {
		if x == k {
			return i
		}
	}
	c.keys = append(c.keys, k)
	return len(c.keys) - 1
}

// collect registers every key of the comparator (so that the enumeration covers them all) and validates the shape.
func (c *cmpFunc) collect() {
	ast.Inspect(c.body, func(n ast.Node) bool {
		switch x := n.(type) {
		case *ast.FuncLit:
			c.err = "nested function literal in comparator"
			return false
		case *ast.AssignStmt:
			if x.Tok == token.DEFINE && len(x.Lhs) == len(x.Rhs) {
				for i, l := range x.Lhs {
					if id, ok := l.(*ast.Ident); ok {
						if _, dup := c.subst[id.Name]; dup || id.Name == c.pi || id.Name == c.pj {
							c.err = "local " + id.Name + " defined twice / shadows an index"
						}
						c.subst[id.Name] = x.Rhs[i]
					}
				}
				return false
			}
			c.err = "assignment other than a single definition of a local in comparator"
			return false
		case *ast.CallExpr:
			if c.inline != nil {
				if callee, _, ok := c.inline(x); ok {
					if callee.err != "" {
						c.err = "inlined comparator: " + callee.err
					}
					for _, k := range callee.keys {
						c.keyIndex(k)
					}
					return false
				}
			}
		case *ast.BinaryExpr:
			switch x.Op {
			case token.LSS, token.GTR, token.LEQ, token.GEQ, token.EQL, token.NEQ:
				if _, _, err := c.atom(x); err != "" {
					c.err = err
				}
				return false
			}
		}
		return true
	})
}

// atom classifies a comparison: key index and whether the left operand is the i-element.
func (c *cmpFunc) atom(x *ast.BinaryExpr) (key int, leftIsI bool, err string) {
	l, li, lj := c.normKey(x.X)
	r, ri, rj := c.normKey(x.Y)
	switch {
	case li && !lj && rj && !ri, lj && !li && ri && !rj:
		if l != r {
			return 0, false, fmt.Sprintf("comparison of two different expressions of the operands: %s vs %s", l, r)
		}
		return c.keyIndex(l), li, ""
	}
	return 0, false, fmt.Sprintf("comparison is not between the same key of the two elements: %s %s %s", l, x.Op, r)
}

type triBool int

const (
	tbFalse triBool = iota
	tbTrue
	tbNone // statement list fell through without returning
)

// eval evaluates the comparator for the ordering vector ord (ord[k] = sign of key_k(elem i) - key_k(elem j)).
func (c *cmpFunc) eval(ord []int) (bool, string) {
	v, err := c.evalStmts(c.body.List, ord)
	if err != "" {
		return false, err
	}
	if v == tbNone {
		return false, "comparator can fall off its end"
	}
	return v == tbTrue, ""
}

func (c *cmpFunc) evalStmts(list []ast.Stmt, ord []int) (triBool, string) {
	for _, st := range list {
		v, err := c.evalStmt(st, ord)
		if err != "" || v != tbNone {
			return v, err
		}
	}
	return tbNone, ""
}

func (c *cmpFunc) evalStmt(st ast.Stmt, ord []int) (triBool, string) {
	switch s := st.(type) {
	case *ast.ReturnStmt:
		if len(s.Results) != 1 {
			return tbNone, "return without exactly one result"
		}
		b, err := c.evalExpr(s.Results[0], ord)
		if err != "" {
			return tbNone, err
		}
		if b {
			return tbTrue, ""
		}
		return tbFalse, ""
	case *ast.BlockStmt:
		return c.evalStmts(s.List, ord)
	case *ast.IfStmt:
		if s.Init != nil {
			return tbNone, "if with init statement"
		}
		b, err := c.evalExpr(s.Cond, ord)
		if err != "" {
			return tbNone, err
		}
		if b {
			return c.evalStmts(s.Body.List, ord)
		}
		if s.Else != nil {
			return c.evalStmt(s.Else, ord)
		}
		return tbNone, ""
	case *ast.SwitchStmt:
		if s.Init != nil || s.Tag != nil {
			return tbNone, "switch with init/tag"
		}
		var def *ast.CaseClause
		for _, cc := range s.Body.List {
			cl := cc.(*ast.CaseClause)
			if cl.List == nil {
				def = cl
				continue
			}
			for _, e := range cl.List {
				b, err := c.evalExpr(e, ord)
				if err != "" {
					return tbNone, err
				}
				if b {
					return c.evalStmts(cl.Body, ord)
				}
			}
		}
		if def != nil {
			return c.evalStmts(def.Body, ord)
		}
		return tbNone, ""
	case *ast.AssignStmt:
		return tbNone, "" // single-definition locals: substituted
	case *ast.EmptyStmt:
		return tbNone, ""
	}
	return tbNone, fmt.Sprintf("unsupported statement %T in comparator", st)
}

func (c *cmpFunc) evalExpr(e ast.Expr, ord []int) (bool, string) {
	switch x := e.(type) {
	case *ast.ParenExpr:
		return c.evalExpr(x.X, ord)
	case *ast.Ident:
		switch x.Name {
		case "true":
			return true, ""
		case "false":
			return false, ""
		}
		if sub, ok := c.subst[x.Name]; ok {
			return c.evalExpr(sub, ord)
		}
	case *ast.UnaryExpr:
		if x.Op == token.NOT {
			b, err := c.evalExpr(x.X, ord)
			return !b, err
		}
	case *ast.CallExpr:
		if c.inline != nil {
			if callee, perm, ok := c.inline(x); ok {
				o2 := ord
				if perm == [2]int{1, 0} {
					o2 = make([]int, len(ord))
					for i, v := range ord {
						o2[i] = -v
					}
				}
				// the callee shares the key table through its own normalisation: keys are strings
				sub := make([]int, len(callee.keys))
				for i, k := range callee.keys {
					sub[i] = o2[c.keyIndex(k)]
				}
				return callee.eval(sub)
			}
		}
	case *ast.BinaryExpr:
		switch x.Op {
		case token.LAND:
			a, err := c.evalExpr(x.X, ord)
			if err != "" || !a {
				return false, err
			}
			return c.evalExpr(x.Y, ord)
		case token.LOR:
			a, err := c.evalExpr(x.X, ord)
			if err != "" || a {
				return a, err
			}
			return c.evalExpr(x.Y, ord)
		case token.LSS, token.GTR, token.LEQ, token.GEQ, token.EQL, token.NEQ:
			k, leftIsI, err := c.atom(x)
			if err != "" {
				return false, err
			}
			o := ord[k]
			if !leftIsI {
				o = -o
			}
			switch x.Op {
			case token.LSS:
				return o < 0, ""
			case token.GTR:
				return o > 0, ""
			case token.LEQ:
				return o <= 0, ""
			case token.GEQ:
				return o >= 0, ""
			case token.EQL:
				return o == 0, ""
			default:
				return o != 0, ""
			}
		}
	}
	return false, fmt.Sprintf("unsupported expression %s in comparator", exprStr(e))
}

func newCmpFunc(typ *ast.FuncType, body *ast.BlockStmt, inline func(call *ast.CallExpr) (*cmpFunc, [2]int, bool)) *cmpFunc {
	c := &cmpFunc{body: body, subst: map[string]ast.Expr{}, inline: inline}
	var names []string
	if typ != nil && typ.Params != nil {
		for _, f := range typ.Params.List {
			for _, id := range f.Names {
				names = append(names, id.Name)
			}
		}
	}
	if len(names) != 2 {
		c.err = "comparator does not have exactly two named parameters"
		return c
	}
	c.pi, c.pj = names[0], names[1]
	c.collect()
	return c
}

type keyDir struct {
	Key string
	Asc bool
}

func (k keyDir) String() string {
	if k.Asc {
		return k.Key + "↑"
	}
	return k.Key + "↓"
}

type cmpVerdict struct {
	Keys       []string
	Problems   []string // violated strict-weak-order laws with a witness ordering
	Signature  []keyDir // lexicographic signature, nil if the function is not a lexicographic order of its keys
	Pairs, Tri int
	Err        string
}

func signs(n int) [][]int {
	out := [][]int{{}}
	for i := 0; i < n; i++ {
		var nx [][]int
		for _, p := range out {
			for _, s := range []int{-1, 0, 1} {
				nx = append(nx, append(append([]int{}, p...), s))
			}
		}
		out = nx
	}
	return out
}

func signOf(a int) int {
	switch {
	case a < 0:
		return -1
	case a > 0:
		return 1
	}
	return 0
}

// weakTriples returns the 13 weak orders of three elements as (ab, bc, ac) sign triples.
func weakTriples() [][3]int {
	seen := map[[3]int]bool{}
	var out [][3]int
	for a := 0; a < 3; a++ {
		for b := 0; b < 3; b++ {
			for c := 0; c < 3; c++ {
				t := [3]int{signOf(a - b), signOf(b - c), signOf(a - c)}
				if !seen[t] {
					seen[t] = true
					out = append(out, t)
				}
			}
		}
	}
	return out
}

func describeOrd(keys []string, ord []int) string {
	var parts []string
	for i, k := range keys {
		parts = append(parts, fmt.Sprintf("%s:%s", shortKey(k), map[int]string{-1: "a<b", 0: "a=b", 1: "a>b"}[ord[i]]))
	}
	return strings.Join(parts, ", ")
}

// shortKey names a key by the fields selected on the indexed element: "h.infos[§].Count" -> "Count",
// "(r[§].Usage + r[§].Rate)" -> "Usage+Rate".
func shortKey(k string) string {
	var fields []string
	for _, part := range strings.Split(k, "§]")[1:] {
		part = strings.TrimLeft(part, ").")
		end := 0
		for end < len(part) && (part[end] == '_' || part[end] == '.' || part[end] >= '0' && part[end] <= '9' || part[end] >= 'A' && part[end] <= 'Z' || part[end] >= 'a' && part[end] <= 'z') {
			end++
		}
		fields = append(fields, part[:end])
	}
	if len(fields) == 0 {
		return k
	}
	op := "+"
	for _, o := range []string{" - ", " * ", " / "} {
		if strings.Contains(k, o) {
			op = strings.TrimSpace(o)
		}
	}
	short := strings.Join(fields, op)
	// a function applied to the key (other than a widening conversion) is part of the key: f(Usage+Rate) orders by f's
	// value, which may identify elements that the plain key tells apart
	if i := strings.Index(k, "("); i > 0 {
		name := k[:i]
		plain := true
		for _, ch := range name {
			if !(ch == '_' || ch == '.' || ch >= '0' && ch <= '9' || ch >= 'A' && ch <= 'Z' || ch >= 'a' && ch <= 'z') {
				plain = false
			}
		}
		if plain && name != "float64" && name != "float32" {
			short = name + "(" + short + ")"
		}
	}
	return short
}

func negv(v []int) []int {
	o := make([]int, len(v))
	for i, x := range v {
		o[i] = -x
	}
	return o
}

// analyse decides the strict-weak-order laws and the lexicographic signature.
func (c *cmpFunc) analyse() cmpVerdict {
	v := cmpVerdict{}
	if c.err != "" {
		v.Err = c.err
		return v
	}
	n := len(c.keys)
	if n == 0 || n > 4 {
		v.Err = fmt.Sprintf("comparator has %d keys", n)
		return v
	}
	for _, k := range c.keys {
		v.Keys = append(v.Keys, shortKey(k))
	}
	ev := func(ord []int) bool {
		b, err := c.eval(ord)
		if err != "" && v.Err == "" {
			v.Err = err
		}
		return b
	}
	// irreflexivity
	if ev(make([]int, n)) {
		v.Problems = append(v.Problems, "not irreflexive: less(a,a) is true")
	}
	all := signs(n)
	v.Pairs = len(all)
	for _, ord := range all {
		if ev(ord) && ev(negv(ord)) {
			v.Problems = append(v.Problems, "not asymmetric: less(a,b) and less(b,a) both hold when "+describeOrd(c.keys, ord))
			break
		}
	}
	// triples
	wt := weakTriples()
	idx := make([]int, n)
	for {
		ab, bc, ac := make([]int, n), make([]int, n), make([]int, n)
		for k := 0; k < n; k++ {
			t := wt[idx[k]]
			ab[k], bc[k], ac[k] = t[0], t[1], t[2]
		}
		v.Tri++
		lab, lbc, lac := ev(ab), ev(bc), ev(ac)
		lba, lcb, lca := ev(negv(ab)), ev(negv(bc)), ev(negv(ac))
		if lab && lbc && !lac && !hasPrefix(v.Problems, "not transitive") {
			v.Problems = append(v.Problems, fmt.Sprintf("not transitive: a<b, b<c but not a<c when (a,b): %s; (b,c): %s", describeOrd(c.keys, ab), describeOrd(c.keys, bc)))
		}
		if !lab && !lba && !lbc && !lcb && (lac || lca) && !hasPrefix(v.Problems, "incomparability") {
			v.Problems = append(v.Problems, fmt.Sprintf("incomparability is not transitive when (a,b): %s; (b,c): %s", describeOrd(c.keys, ab), describeOrd(c.keys, bc)))
		}
		k := 0
		for k < n {
			idx[k]++
			if idx[k] < len(wt) {
				break
			}
			idx[k] = 0
			k++
		}
		if k == n {
			break
		}
	}
	if v.Err != "" {
		return v
	}
	// lexicographic signature: try every permutation and direction
	perm := make([]int, n)
	for i := range perm {
		perm[i] = i
	}
	var perms [][]int
	var gen func(k int)
	gen = func(k int) {
		if k == n {
			perms = append(perms, append([]int{}, perm...))
			return
		}
		for i := k; i < n; i++ {
			perm[k], perm[i] = perm[i], perm[k]
			gen(k + 1)
			perm[k], perm[i] = perm[i], perm[k]
		}
	}
	gen(0)
	sort.Slice(perms, func(a, b int) bool { return fmt.Sprint(perms[a]) < fmt.Sprint(perms[b]) })
	for _, pm := range perms {
		for dirs := 0; dirs < 1<<n; dirs++ {
			match := true
			for _, ord := range all {
				want := false
				for pos, k := range pm {
					if ord[k] != 0 {
						asc := dirs&(1<<pos) != 0
						want = (ord[k] < 0) == asc
						break
					}
				}
				if ev(ord) != want {
					match = false
					break
				}
			}
			if match {
				for pos, k := range pm {
					v.Signature = append(v.Signature, keyDir{shortKey(c.keys[k]), dirs&(1<<pos) != 0})
				}
				return v
			}
		}
	}
	return v
}

// parseCmp parses a comparator literal from source text (used by the controls).
func parseCmp(src string) *cmpFunc {
	e, err := parser.ParseExpr(src)
	if err != nil {
		return &cmpFunc{err: err.Error()}
	}
	lit, ok := e.(*ast.FuncLit)
	if !ok {
		return &cmpFunc{err: "not a literal"}
	}
	return newCmpFunc(lit.Type, lit.Body, nil)
}

func sigString(s []keyDir) string {
	var parts []string
	for _, k := range s {
		parts = append(parts, k.String())
	}
	return strings.Join(parts, ", ")
}

func hasPrefix(list []string, pre string) bool {
	for _, s := range list {
		if strings.HasPrefix(s, pre) {
			return true
		}
	}
	return false
}
