package main

// C22 — pods, nodes, node resource records and workloads stay referentially consistent.
//
// What is decided here is the structural part: every remove is dominated by its emptiness test, every create by its
// parent-exists test, the node/resource pair is written and removed by one Txn with the right compensation, and each
// check-then-act pair shares a lock class with the writers it conflicts with (must-hold sets over the synchronous call
// graph). Histories as such are not explored.

import (
	"fmt"
	"go/ast"
	"go/token"
	"go/types"
	"strings"
)

func init() { register("C22", checkC22) }

// c22Waive: calling contexts through these functions are not required to hold the pod lock when they record a workload.
var c22Waive = map[string]string{
	"cluster/calcium.(*Calcium).doReplaceWorkload": "replace records the new workload on the node of the workload it replaces while that one is still recorded, and removes (or re-adds, when the removal fails) the old record only after the new one is recorded: at every moment the node carries at least one of the two records, so RemoveNode's emptiness test cannot pass in between",
}

// returnsError: the block's last statement returns with a non-nil last result
func returnsError(b *ast.BlockStmt) bool {
	if b == nil || len(b.List) == 0 {
		return false
	}
	rt, ok := b.List[len(b.List)-1].(*ast.ReturnStmt)
	return ok && len(rt.Results) > 0 && !isNilIdent(rt.Results[len(rt.Results)-1])
}

// guardedBy reports whether target (a node of fn's own body) can only be reached past an `if cond { …; return err }`
// with pred(cond) true: the condition dominates the target and the target is outside the if's body. The search continues
// in the enclosing functions with the literal that contains the target (closures handed to synchronous combinators and
// lock callbacks run where they are written).
func guardedBy(fn *FuncNode, target ast.Node, pred func(fn *FuncNode, is *ast.IfStmt) bool) (*ast.IfStmt, *FuncNode) {
	for fn != nil && target != nil {
		var found *ast.IfStmt
		fn.inspectBody(func(n ast.Node) bool {
			is, ok := n.(*ast.IfStmt)
			if !ok || found != nil {
				return true
			}
			if !returnsError(is.Body) || !pred(fn, is) {
				return true
			}
			if is.Body.Pos() <= target.Pos() && target.End() <= is.Body.End() {
				return true
			}
			if fn.dominates(fn.find(is.Cond), fn.find(target)) {
				found = is
			}
			return true
		})
		if found != nil {
			return found, fn
		}
		if fn.Lit == nil {
			break
		}
		target, fn = fn.Lit, fn.Parent
	}
	return nil, nil
}

// lenTest: cond is len(v) > 0, len(v) != 0, len(v) >= 1 (or with l := len(v) in the if's init) for a variable v that is
// assigned from a call satisfying src; returns that call
func lenTest(fn *FuncNode, is *ast.IfStmt, src func(fn *FuncNode, c *ast.CallExpr) bool) *ast.CallExpr {
	be, ok := unparen(is.Cond).(*ast.BinaryExpr)
	if !ok {
		return nil
	}
	okOp := false
	switch be.Op {
	case token.GTR, token.NEQ:
		if v, isC := fn.constInt(be.Y); isC && v == 0 {
			okOp = true
		}
	case token.GEQ:
		if v, isC := fn.constInt(be.Y); isC && v == 1 {
			okOp = true
		}
	}
	if !okOp {
		return nil
	}
	x := unparen(be.X)
	// l := len(v) in init
	if id, ok := x.(*ast.Ident); ok && is.Init != nil {
		if as, ok := is.Init.(*ast.AssignStmt); ok && len(as.Lhs) == 1 && len(as.Rhs) == 1 {
			if lid, ok := as.Lhs[0].(*ast.Ident); ok && fn.objOf(lid) == fn.objOf(id) {
				x = unparen(as.Rhs[0])
			}
		}
	}
	lc, ok := x.(*ast.CallExpr)
	if !ok || len(lc.Args) != 1 {
		return nil
	}
	if id, ok := unparen(lc.Fun).(*ast.Ident); !ok || id.Name != "len" {
		return nil
	}
	vid, ok := unparen(lc.Args[0]).(*ast.Ident)
	if !ok {
		return nil
	}
	vo := fn.objOf(vid)
	if vo == nil {
		return nil
	}
	var out *ast.CallExpr
	// the variable may be defined in an enclosing function
	for f := fn; f != nil && out == nil; f = f.Parent {
		f.inspectBody(func(n ast.Node) bool {
			as, ok := n.(*ast.AssignStmt)
			if !ok || len(as.Rhs) != 1 || len(as.Lhs) < 1 {
				return true
			}
			lid, ok := as.Lhs[0].(*ast.Ident)
			if !ok || f.objOf(lid) != vo {
				return true
			}
			if c, ok := unparen(as.Rhs[0]).(*ast.CallExpr); ok && src(f, c) {
				out = c
			}
			return true
		})
	}
	return out
}

func filterLitField(fn *FuncNode, e ast.Expr, field string) ast.Expr {
	if u, ok := unparen(e).(*ast.UnaryExpr); ok && u.Op == token.AND {
		e = u.X
	}
	cl, ok := unparen(e).(*ast.CompositeLit)
	if !ok {
		return nil
	}
	for _, el := range cl.Elts {
		if kv, ok := el.(*ast.KeyValueExpr); ok {
			if id, ok := kv.Key.(*ast.Ident); ok && id.Name == field {
				return kv.Value
			}
		}
	}
	return nil
}

func checkC22(p *Prog, r *Result, tier string) {
	r.Technique = "dominance rules (go/cfg) for the emptiness and parent-exists tests in calcium, both stores and the cpumem plugin; Txn-shape rule for the node/resource pair (closure resolution + compensation analysis shared with C11); lock-class rule: must-hold lock sets over the synchronous call graph for every writer that conflicts with a check-then-act pair"
	r.Explanation = "RN calcium removes a node's record only inside the pod-lock callback of that node, past `len(ListNodeWorkloads(node, no label filter)) > 0 → ErrNodeNotEmpty`, and the same Txn then removes the node's resource records; " +
		"RP both stores delete a pod's key only past `len(GetNodesByPod{Podname: pod, All: true}) != 0 → ErrPodHasNodes` (All: true — a filter that skips unavailable nodes would let a pod with nodes be removed); " +
		"AP both stores create a node's keys only past a successful GetPod of the node's pod; " +
		"AN calcium.AddNode is Txn(cond: resource records, then: node record, rollback: remove the resource records unless the cond itself failed — in which case the records found belong to an existing node); " +
		"PX the cpumem plugin refuses AddNode when a resource record exists, before it writes; " +
		"FI at the Txn sites that write node and node-resource records, a failure after the first lasting effect is compensated (rules T1–T3 of C11 restricted to node effects), and the resource manager rolls a partly failed AddNode/RemoveNode back on exactly the plugins that answered (T5) — a plugin that refused the node because it exists keeps the existing record; " +
		"LC every writer that can invalidate an emptiness or parent-exists test holds, on every synchronous path, the lock class under which calcium runs that test: store.AddWorkload vs RemoveNode's emptiness test (pod lock), store.AddNode vs RemovePod's test (pod lock), store.RemovePod and store.RemoveNode themselves."
	r.NotCovered = "interleavings as such (the LC rule compares lock classes, not keys: two operations in different pods hold the same class but different locks — which is what is wanted here, since the conflicting operations name the same pod); faults inside compensations; the volume/binary plugins' own existence checks; that a pod-lock callback over an EMPTY node set holds no lock at all (part of the recorded AddNode finding)"
	r.Assumptions = []string{"A2 (lock helpers run their callback with the lock held)", "the combinators' semantics as decided under C17"}
	r.min("RN", 3)
	r.min("RP", 2)
	r.min("AP", 2)
	r.min("AN", 3)
	r.min("PX", 1)
	r.min("FI", 4)
	r.min("LC", 4)

	g := getSCG(p, r)
	if g == nil {
		return
	}
	// contexts that do not pass through the waived functions (one named symbol each, with the reason)
	gw, err := buildSCG(p)
	if err != nil {
		r.undecided("LC", "synchronous call graph", "", err.Error())
		return
	}
	gw.cut = map[*FuncNode]bool{}
	for name := range c22Waive {
		if f := p.Fn(name); f != nil {
			gw.cut[f] = true
		} else {
			r.undecided("LC", "waived function "+name, "", "not found")
		}
	}
	gw.propagate()
	r.Tables["waived_contexts"] = c22Waive
	calleeIs := func(fn *FuncNode, c *ast.CallExpr, names ...string) bool {
		f := fn.Callee(c)
		if f == nil {
			return false
		}
		nm := objName(f)
		for _, n := range names {
			if nm == n {
				return true
			}
		}
		return false
	}
	callSites := func(pkgPrefix string, names ...string) (out []struct {
		fn *FuncNode
		c  *ast.CallExpr
	}) {
		for _, fn := range p.sortedFuncs(pkgPrefix) {
			if fn.Body == nil {
				continue
			}
			fn.inspectBody(func(n ast.Node) bool {
				if c, ok := n.(*ast.CallExpr); ok && calleeIs(fn, c, names...) {
					out = append(out, struct {
						fn *FuncNode
						c  *ast.CallExpr
					}{fn, c})
				}
				return true
			})
		}
		return
	}
	holdsPod := func(rule, key string, fn *FuncNode, c *ast.CallExpr, why string) {
		g := g
		if rule == "LC" {
			g = gw
		}
		must, nctx := g.mustHold(fn)
		switch {
		case nctx == 0:
			r.undecided(rule, key, p.pos(c), "function not reached by the synchronous call graph")
		case must&g.bit("Pod") != 0:
			r.ok(rule, key, p.pos(c), fmt.Sprintf("pod lock held in all %d calling context(s)", nctx))
		default:
			var path []string
			for h := range g.ctxs[fn] {
				if h&g.bit("Pod") == 0 {
					path = g.pathTo(fn, h)
					break
				}
			}
			r.bad(rule, key, p.pos(c), why, path...)
		}
	}

	// ---------------------------------------------------------------------------------------------- RN
	sites := callSites("cluster/calcium", "store.Store.RemoveNode")
	if len(sites) == 0 {
		r.undecided("RN", "cluster/calcium calls store.RemoveNode", "", "no call site found")
	}
	txnSites := findTxnSites(p)
	for _, s := range sites {
		base := s.fn.Name + " calls Store.RemoveNode"
		holdsPod("RN", base+" / inside the pod-lock callback", s.fn, s.c, "the node record is removed without the pod lock: the emptiness test and the removal are not one critical section")
		is, gf := guardedBy(s.fn, s.c, func(fn *FuncNode, is *ast.IfStmt) bool {
			return lenTest(fn, is, func(f *FuncNode, c *ast.CallExpr) bool {
				if !calleeIs(f, c, "cluster/calcium.(*Calcium).ListNodeWorkloads", "store.Store.ListNodeWorkloads") {
					return false
				}
				// no label filter: the last argument is nil
				return len(c.Args) == 3 && isNilIdent(c.Args[2])
			}) != nil
		})
		if is != nil {
			r.ok("RN", base+" / past the emptiness test", p.pos(is), "`"+exprStr(is.Cond)+"` returns an error in "+gf.Name+" and dominates the removal; workloads listed without label filter")
		} else {
			r.bad("RN", base+" / past the emptiness test", p.pos(s.c), "no `len(ListNodeWorkloads(node, nil)) > 0 → return error` dominates the removal of the node record: a node that still has workloads can be removed, and every listing that includes one of them then fails (ErrInvaildWorkloadMeta)")
		}
		// the Txn whose cond contains the call removes the resource records in then
		found := false
		for _, ts := range txnSites {
			if ts.kind != "Txn" || ts.closures[0] == nil || ts.closures[1] == nil {
				continue
			}
			inCond := false
			for f := s.fn; f != nil; f = f.Parent {
				if f == ts.closures[0] {
					inCond = true
				}
			}
			if !inCond {
				continue
			}
			found = true
			n := len(ts.closures[1].callsDeep(func(f *types.Func) bool { return objName(f) == "resource.Manager.RemoveNode" }))
			r.check(n > 0, "RN", base+" / the same Txn then removes the node's resource records", p.pos(ts.call), "then calls resource.Manager.RemoveNode", "the Txn that removes the node record does not remove the node's resource records afterwards: a resource record without a node stays behind (and AddNode of that name is refused for ever)")
		}
		if !found {
			r.bad("RN", base+" / the same Txn then removes the node's resource records", p.pos(s.c), "the removal of the node record is not the cond of a Txn")
		}
	}

	// ---------------------------------------------------------------------------------------------- RP / AP
	for _, st := range []struct{ pkg, recv string }{{"store/etcdv3", "(*Mercury)"}, {"store/redis", "(*Rediaron)"}} {
		RP := p.Fn(st.pkg + "." + st.recv + ".RemovePod")
		key := st.pkg + " RemovePod / the pod key is deleted only when no node (available or not) is recorded in the pod"
		if RP == nil {
			r.undecided("RP", key, "", "not found")
		} else {
			// the delete: a call named Delete/Del/BatchDelete in RemovePod's own body
			var del *ast.CallExpr
			RP.inspectBody(func(n ast.Node) bool {
				if c, ok := n.(*ast.CallExpr); ok && RP.Callee(c) != nil {
					switch RP.Callee(c).Name() {
					case "Delete", "Del", "BatchDelete":
						del = c
					}
				}
				return true
			})
			if del == nil {
				r.undecided("RP", key, p.pos(RP.Decl), "no delete call found")
			} else {
				why := ""
				is, _ := guardedBy(RP, del, func(fn *FuncNode, is *ast.IfStmt) bool {
					c := lenTest(fn, is, func(f *FuncNode, c *ast.CallExpr) bool {
						return f.Callee(c) != nil && f.Callee(c).Name() == "GetNodesByPod"
					})
					if c == nil || len(c.Args) < 2 {
						return false
					}
					all := filterLitField(fn, c.Args[1], "All")
					pod := filterLitField(fn, c.Args[1], "Podname")
					switch {
					case all == nil || exprStr(all) != "true":
						why = "the node filter of the emptiness test does not say All: true — unavailable nodes are skipped and a pod that still has (down) nodes is removed"
						return false
					case pod == nil || fn.objOf(pod) == nil || fn.objOf(pod) != fn.paramObj(1):
						why = "the node filter of the emptiness test does not name the pod being removed"
						return false
					case len(c.Args) > 2 && false:
						return false
					}
					return true
				})
				if is != nil {
					r.ok("RP", key, p.pos(is), "`"+exprStr(is.Cond)+"` over GetNodesByPod{Podname: podname, All: true} returns an error and dominates the delete")
				} else {
					if why == "" {
						why = "no `len(GetNodesByPod{Podname, All: true}) != 0 → return error` dominates the delete of the pod key"
					}
					r.bad("RP", key, p.pos(del), why+": a pod that still has nodes is removed")
				}
			}
		}
		AN := p.Fn(st.pkg + "." + st.recv + ".AddNode")
		key = st.pkg + " AddNode / node keys are written only past a successful GetPod of the node's pod"
		if AN == nil {
			r.undecided("AP", key, "", "not found")
			continue
		}
		var create *ast.CallExpr
		AN.inspectBody(func(n ast.Node) bool {
			if c, ok := n.(*ast.CallExpr); ok && AN.Callee(c) != nil {
				switch AN.Callee(c).Name() {
				case "doAddNode", "BatchCreate":
					create = c
				}
			}
			return true
		})
		if create == nil {
			r.undecided("AP", key, p.pos(AN.Decl), "no node-creating call found")
			continue
		}
		is, _ := guardedBy(AN, create, func(fn *FuncNode, is *ast.IfStmt) bool {
			// if err != nil where err comes from GetPod(ctx, opts.Podname)
			be, ok := unparen(is.Cond).(*ast.BinaryExpr)
			if !ok || be.Op != token.NEQ || !isNilIdent(be.Y) {
				return false
			}
			id, ok := unparen(be.X).(*ast.Ident)
			if !ok {
				return false
			}
			eo := fn.objOf(id)
			okSrc := false
			src := func(n ast.Node) bool {
				as, ok := n.(*ast.AssignStmt)
				if !ok || len(as.Rhs) != 1 {
					return true
				}
				c, ok := unparen(as.Rhs[0]).(*ast.CallExpr)
				if !ok || fn.Callee(c) == nil || fn.Callee(c).Name() != "GetPod" || len(c.Args) != 2 {
					return true
				}
				if !strings.HasSuffix(exprStr(c.Args[1]), ".Podname") {
					return true
				}
				if lid, ok := as.Lhs[len(as.Lhs)-1].(*ast.Ident); ok && fn.objOf(lid) == eo {
					// the assignment is the last definition before the test: it dominates the test and sits right before it
					if fn.dominates(fn.find(as), fn.find(is.Cond)) {
						okSrc = true
					}
				}
				return true
			}
			fn.inspectBody(src)
			if is.Init != nil {
				src(is.Init)
			}
			return okSrc
		})
		r.check(is != nil, "AP", key, p.pos(create), "`err != nil → return` after GetPod(opts.Podname) dominates the creation", "the node's keys are written without a successful lookup of its pod: a node can be recorded in a pod that does not exist")
	}

	// ---------------------------------------------------------------------------------------------- AN
	A := p.Fn("cluster/calcium.(*Calcium).AddNode")
	if A == nil {
		r.undecided("AN", "cluster/calcium.(*Calcium).AddNode", "", "not found")
	} else {
		var site *txnSite
		for _, ts := range txnSites {
			if ts.fn == A && ts.kind == "Txn" {
				site = ts
			}
		}
		if site == nil || site.closures[0] == nil || site.closures[1] == nil {
			r.undecided("AN", A.Name+" Txn", p.pos(A.Decl), "no Txn with literal closures found")
		} else {
			has := func(cl *FuncNode, name string) bool {
				return cl != nil && len(cl.callsDeep(func(f *types.Func) bool { return objName(f) == name })) > 0
			}
			r.check(has(site.closures[0], "resource.Manager.AddNode") && !has(site.closures[0], "store.Store.AddNode"), "AN", A.Name+" / cond creates the resource records", p.pos(site.call), "cond calls resource.Manager.AddNode", "the Txn's cond does not create the node's resource records (or already writes the node record): a recorded node can be left without resource information when the next step fails")
			r.check(has(site.closures[1], "store.Store.AddNode"), "AN", A.Name+" / then records the node", p.pos(site.call), "then calls store.Store.AddNode", "the node record is not written by the Txn's then")
			rb := site.closures[2]
			key := A.Name + " / rollback removes the resource records, except when the cond itself failed"
			if rb == nil {
				r.bad("AN", key, p.pos(site.call), "no rollback: when the node record cannot be written the resource records stay behind without a node")
			} else {
				flag := flagParam(rb)
				var rm *ast.CallExpr
				for _, c := range rb.callsDeep(func(f *types.Func) bool { return objName(f) == "resource.Manager.RemoveNode" }) {
					rm = c
				}
				switch {
				case rm == nil:
					r.bad("AN", key, p.pos(rb.Lit), "rollback does not call resource.Manager.RemoveNode: when the node record cannot be written the resource records stay behind without a node")
				case flag == nil:
					r.bad("AN", key, p.pos(rb.Lit), "rollback ignores failureByCond: when the resource manager refuses the node because it already exists, the rollback removes the EXISTING node's resource records — a recorded node without resource information")
				default:
					is, _ := guardedBy(rb, rm, func(fn *FuncNode, is *ast.IfStmt) bool {
						id, ok := unparen(is.Cond).(*ast.Ident)
						if !ok || fn.objOf(id) != flag || len(is.Body.List) != 1 {
							return false
						}
						return true
					})
					// the guarded return is `return nil` (success of the rollback, nothing to undo): accept any return
					if is == nil {
						rb.inspectBody(func(n ast.Node) bool {
							i, ok := n.(*ast.IfStmt)
							if !ok {
								return true
							}
							id, ok := unparen(i.Cond).(*ast.Ident)
							if !ok || rb.objOf(id) != flag || len(i.Body.List) == 0 {
								return true
							}
							if _, isRet := i.Body.List[len(i.Body.List)-1].(*ast.ReturnStmt); isRet && rb.dominates(rb.find(i.Cond), rb.find(rm)) && !(i.Body.Pos() <= rm.Pos() && rm.End() <= i.Body.End()) {
								is = i
							}
							return true
						})
					}
					r.check(is != nil, "AN", key, p.pos(rm), "`if failureByCond { return }` dominates resource.Manager.RemoveNode", "rollback removes the resource records even when the cond itself failed: when the resource manager refuses the node because it already exists, the EXISTING node's resource records are deleted — a recorded node without resource information")
				}
			}
		}
	}

	// ---------------------------------------------------------------------------------------------- PX
	if PA := p.Fn("resource/plugins/cpumem.Plugin.AddNode"); PA == nil {
		r.undecided("PX", "resource/plugins/cpumem.Plugin.AddNode", "", "not found")
	} else {
		key := PA.Name + " / an existing resource record is refused before anything is written"
		var writes []*ast.CallExpr
		PA.inspectBody(func(n ast.Node) bool {
			if c, ok := n.(*ast.CallExpr); ok && PA.Callee(c) != nil {
				switch PA.Callee(c).Name() {
				case "doSetNodeResourceInfo", "Put", "Create", "BatchPut", "BatchCreate":
					writes = append(writes, c)
				}
			}
			return true
		})
		if len(writes) == 0 {
			r.undecided("PX", key, p.pos(PA.Decl), "no write found")
		}
		for _, w := range writes {
			is, _ := guardedBy(PA, w, func(fn *FuncNode, is *ast.IfStmt) bool {
				// if _, err = p.doGetNodeResourceInfo(...); err == nil { return nil, ErrNodeExists }
				be, ok := unparen(is.Cond).(*ast.BinaryExpr)
				if !ok || be.Op != token.EQL || !isNilIdent(be.Y) {
					return false
				}
				as, ok := is.Init.(*ast.AssignStmt)
				if !ok || len(as.Rhs) != 1 {
					return false
				}
				c, ok := unparen(as.Rhs[0]).(*ast.CallExpr)
				return ok && fn.Callee(c) != nil && strings.Contains(fn.Callee(c).Name(), "GetNodeResourceInfo")
			})
			r.check(is != nil, "PX", key, p.pos(w), "`if _, err = doGetNodeResourceInfo(node); err == nil { return ErrNodeExists }` dominates the write", "the plugin writes the node's resource record without refusing an existing one: AddNode of an existing node overwrites its capacity and usage")
		}
	}

	// ---------------------------------------------------------------------------------------------- FI
	if a := newTxnAnalyzer(p, r); a != nil {
		nodeEff := map[string]bool{"resource.Manager.AddNode": true, "resource.Manager.RemoveNode": true, "store.Store.AddNode": true, "store.Store.RemoveNode": true}
		sub := newResult("C22-sub")
		for _, ts := range txnSites {
			if relPath(ts.fn.Pkg.PkgPath) != "cluster/calcium" {
				continue
			}
			hasNode := false
			for _, cl := range ts.closures[:2] {
				for _, e := range a.effects(cl, 0, nil) {
					if nodeEff[e.spec.name] {
						hasNode = true
					}
				}
			}
			if !hasNode {
				continue
			}
			a.checkTxnSite(sub, ts, func(e *effectSpec) bool { return nodeEff[e.name] })
		}
		// the resource manager's own fan-out over the plugins: the rollback of a partly failed AddNode/RemoveNode acts on
		// exactly the plugins that answered — rolling back a plugin that REFUSED the node (it exists) deletes the existing
		// node's resource record
		for _, ts := range txnSites {
			if relPath(ts.fn.Pkg.PkgPath) != "resource/cobalt" || ts.fn.Obj == nil || (ts.fn.Obj.Name() != "AddNode" && ts.fn.Obj.Name() != "RemoveNode") {
				continue
			}
			a.checkT5(sub, ts, p.pos(ts.call))
		}
		checkFanoutErrors(p, sub, "T5e")
		// re-label the T1–T3 obligations as FI
		for _, o := range sub.Obligs {
			switch o.Status {
			case stOK:
				r.ok("FI", o.Construct, o.Pos, o.Rule+": "+o.Detail)
			case stViolation:
				r.bad("FI", o.Construct, o.Pos, o.Rule+": "+o.Detail+" — the node record and the node's resource records no longer correspond")
			default:
				r.undecided("FI", o.Construct, o.Pos, o.Detail)
			}
		}
	}

	// ---------------------------------------------------------------------------------------------- LC
	for _, s := range callSites("cluster/calcium", "store.Store.AddWorkload") {
		holdsPod("LC", s.fn.Name+" calls Store.AddWorkload / under the pod lock that RemoveNode's emptiness test runs under", s.fn, s.c,
			"a workload is recorded on a node without the pod lock: RemoveNode tests `no workload recorded` and removes the node under that lock, so it can run between this operation's allocation and its recording — the workload then refers to a node that does not exist and every listing that includes it fails")
	}
	for _, s := range callSites("cluster/calcium", "store.Store.AddNode") {
		holdsPod("LC", s.fn.Name+" calls Store.AddNode / under the pod lock that RemovePod's emptiness test runs under", s.fn, s.c,
			"a node is recorded in a pod without that pod's lock (and the store reads the pod and writes the node in two requests): RemovePod can test `no node in the pod` and delete the pod in between — the pod is removed although it has a node")
	}
	for _, s := range callSites("cluster/calcium", "store.Store.RemovePod") {
		holdsPod("LC", s.fn.Name+" calls Store.RemovePod / inside a pod-lock callback", s.fn, s.c, "the pod is removed outside any pod-lock callback")
	}
	for _, s := range callSites("cluster/calcium", "store.Store.RemoveWorkload") {
		_ = s // removing a workload record cannot invalidate an emptiness test
	}
}
