package main

// C07: reported deploy capacity equals what an allocation accepts (sibling agreement + saturating totals).

import (
	"fmt"
	"go/ast"
	"go/token"
	"go/types"
	"strings"
)

func init() { register("C07", checkC07) }

// normExpr prints e with role objects replaced by their role names and single-definition locals replaced by their
// definitions (depth-bounded), so that expressions of two functions can be compared for having the same sources.
func normExpr(fn *FuncNode, e ast.Expr, roles map[types.Object]string, depth int) string {
	var b strings.Builder
	var walk func(e ast.Expr, d int)
	walk = func(e ast.Expr, d int) {
		switch x := e.(type) {
		case *ast.Ident:
			o := fn.objOf(x)
			if r, ok := roles[o]; ok {
				b.WriteString(r)
				return
			}
			if v, ok := o.(*types.Var); ok && !v.IsField() && d < 4 && fn.paramIndex(o) < 0 {
				if def := fn.singleDef(o); def != nil {
					b.WriteString("(")
					walk(def, d+1)
					b.WriteString(")")
					return
				}
			}
			b.WriteString(x.Name)
		case *ast.ParenExpr:
			walk(x.X, d)
		case *ast.SelectorExpr:
			if _, isPkg := fn.objOf(x.X).(*types.PkgName); isPkg {
				b.WriteString(exprStr(x))
				return
			}
			walk(x.X, d)
			b.WriteString("." + x.Sel.Name)
		case *ast.CallExpr:
			walk(x.Fun, d)
			b.WriteString("(")
			for i, a := range x.Args {
				if i > 0 {
					b.WriteString(", ")
				}
				walk(a, d)
			}
			b.WriteString(")")
		case *ast.BinaryExpr:
			walk(x.X, d)
			b.WriteString(" " + x.Op.String() + " ")
			walk(x.Y, d)
		case *ast.UnaryExpr:
			b.WriteString(x.Op.String())
			walk(x.X, d)
		case *ast.IndexExpr:
			walk(x.X, d)
			b.WriteString("[")
			walk(x.Index, d)
			b.WriteString("]")
		case *ast.BasicLit:
			b.WriteString(x.Value)
		default:
			b.WriteString(exprStr(e))
		}
	}
	walk(e, depth)
	return b.String()
}

func isMaxIntConst(fn *FuncNode, e ast.Expr) bool {
	sel, ok := unparen(e).(*ast.SelectorExpr)
	if !ok {
		return false
	}
	o := fn.objOf(sel)
	return o != nil && o.Pkg() != nil && o.Pkg().Path() == "math" && strings.HasPrefix(o.Name(), "MaxInt")
}

// satLoops finds loops `for … { … acc += e … acc = math.MaxInt … }` and checks that the saturation test covers both the
// accumulator and the addend.
func checkSaturatingTotals(p *Prog, r *Result, fns ...*FuncNode) {
	// a total accumulated in a helper of the same package (one call away) belongs to the function that calls it
	seen := map[*FuncNode]bool{}
	var all []*FuncNode
	for _, fn := range fns {
		if fn == nil {
			continue
		}
		for _, g := range p.withLocalCallees(fn, 1) {
			if g.Lit == nil && g.Body != nil && !seen[g] {
				seen[g] = true
				all = append(all, g)
			}
		}
	}
	for _, fn := range all {
		n := 0
		fn.inspectBody(func(x ast.Node) bool {
			var body *ast.BlockStmt
			switch l := x.(type) {
			case *ast.RangeStmt:
				body = l.Body
			case *ast.ForStmt:
				body = l.Body
			}
			if body == nil {
				return true
			}
			// accumulators: `acc += e` in this loop body
			type accum struct {
				acc    types.Object
				addend ast.Expr
				at     *ast.AssignStmt
			}
			var accs []accum
			inspectNoLit(body, func(y ast.Node) bool {
				if as, ok := y.(*ast.AssignStmt); ok && as.Tok == token.ADD_ASSIGN && len(as.Lhs) == 1 {
					if o := fn.objOf(as.Lhs[0]); o != nil {
						if b, ok := o.Type().Underlying().(*types.Basic); ok && b.Info()&types.IsInteger != 0 {
							accs = append(accs, accum{o, as.Rhs[0], as})
						}
					}
				}
				return true
			})
			for _, a := range accs {
				// saturation assignment of the same accumulator in the same loop
				var sat *ast.AssignStmt
				inspectNoLit(body, func(y ast.Node) bool {
					if as, ok := y.(*ast.AssignStmt); ok && as.Tok == token.ASSIGN && len(as.Lhs) == 1 && fn.objOf(as.Lhs[0]) == a.acc && isMaxIntConst(fn, as.Rhs[0]) {
						sat = as
					}
					return true
				})
				if sat == nil {
					continue
				}
				n++
				key := fmt.Sprintf("%s / saturating total #%d (%s += %s)", fn.Name, n, a.acc.Name(), exprStr(a.addend))
				// the test that chooses between saturation and addition: the saturating assignment runs when it holds, the
				// addition when it does not (if/else, a tagless switch with a default, or an early continue)
				why := "no `if acc == MaxInt || addend == MaxInt` choosing between saturation and addition"
				cs, ok1 := pathConds(body, sat)
				ca, ok2 := pathConds(body, a.at)
				var test ast.Expr
				if ok1 && ok2 {
					for _, c1 := range cs {
						for _, c2 := range ca {
							if c1.Expr == c2.Expr && c1.Pos && !c2.Pos {
								test = c1.Expr
							}
						}
					}
					if test == nil && len(cs) > 0 {
						why = "the addition is not the else-branch of the saturation test"
					}
				}
				if test != nil {
					var disj []ast.Expr
					var split func(e ast.Expr)
					split = func(e ast.Expr) {
						if be, ok := unparen(e).(*ast.BinaryExpr); ok && be.Op == token.LOR {
							split(be.X)
							split(be.Y)
							return
						}
						disj = append(disj, unparen(e))
					}
					split(test)
					accOK, addOK := false, false
					for _, d := range disj {
						be, ok := d.(*ast.BinaryExpr)
						if !ok || be.Op != token.EQL {
							continue
						}
						for _, pr := range [][2]ast.Expr{{be.X, be.Y}, {be.Y, be.X}} {
							if !isMaxIntConst(fn, pr[1]) {
								continue
							}
							if fn.objOf(pr[0]) == a.acc {
								accOK = true
							}
							if exprStr(unparen(pr[0])) == exprStr(unparen(a.addend)) {
								addOK = true
							}
						}
					}
					switch {
					case accOK && addOK:
						why = ""
					case !accOK:
						why = fmt.Sprintf("the test `%s` does not check the accumulator: once %s is saturated at MaxInt a later finite addend is added to it and it overflows to a negative total (the order comes from a map, so this depends on iteration order)", exprStr(test), a.acc.Name())
					default:
						why = fmt.Sprintf("the test `%s` does not check the addend: an unlimited (MaxInt) capacity is added to the running total and overflows", exprStr(test))
					}
				}
				r.check2(why, "N3", key, p.pos(a.at), "saturates when either the running total or the addend is MaxInt")
			}
			return true
		})
	}
}

func checkC07(p *Prog, r *Result, tier string) {
	r.Technique = "sibling-agreement rules between the capacity path and the allocation path of the cpumem plugin (normalised source expressions of the planner call, the memory quotient, the CPU precheck and the branch condition), saturating-accumulation idiom rule on both totals, go/cfg dominance for the zero-capacity filter"
	r.Explanation = "N3 both totals (plugin and manager) saturate: the choice between `total = MaxInt` and `total += capacity` tests the running total AND the addend; " +
		"AG1 capacity and allocation obtain CPU plans from schedule.GetCPUPlans with argument-wise identical sources (node info, no affinity map, configured share base and max share, the request); the reported capacity is len(plans) and the allocation refuses exactly when len(plans) < count, and neither CPU-bound side has a return that bypasses the planner call; " +
		"AG2 the memory branch of capacity and doAllocByMemory use the same two operands (available memory of the node info / requested memory) with the same zero-means-unlimited guard and the same CPU-count precheck; AG3 both sides choose between the memory and the CPU branch on the same condition (req.CPUBind); " +
		"DOM a node enters the offered map only under Capacity > 0, and the total is accumulated under the same guard; MG the manager's merge of the plugins' answers (rules shared with C09: a node is kept only if every plugin offers it, its capacity is the minimum, the first-answer path is taken only for a nil accumulator, the fold passes (accumulator, answer)) — otherwise a node or a capacity is reported that some plugin's allocation refuses."
	r.NotCovered = "the numeric identity itself (that the largest accepted count equals the quotient / plan count for every state); 'allocating k lowers capacity by k' over a history; overflow of a sum of finite capacities"
	r.Assumptions = []string{"the planner is deterministic for equal arguments (see C33 for the NUMA order caveat)"}
	r.min("N3", 2)
	r.min("AG1", 4)
	r.min("AG2", 3)
	r.min("AG3", 1)
	r.min("DOM", 1)

	const pk = "resource/plugins/cpumem"
	GN := p.Fn(pk + ".Plugin.GetNodesDeployCapacity")
	GC := p.Fn(pk + ".Plugin.doGetNodeDeployCapacity")
	AM := p.Fn(pk + ".Plugin.doAllocByMemory")
	AC := p.Fn(pk + ".Plugin.doAllocByCPU")
	CD := p.Fn(pk + ".Plugin.CalculateDeploy")
	MG := p.Fn("resource/cobalt.Manager.GetNodesDeployCapacity")
	for n, f := range map[string]*FuncNode{"GetNodesDeployCapacity": GN, "doGetNodeDeployCapacity": GC, "doAllocByMemory": AM, "doAllocByCPU": AC, "CalculateDeploy": CD, "cobalt GetNodesDeployCapacity": MG} {
		if f == nil {
			r.undecided("anchor", n, "", "not found")
		}
	}
	if GN == nil || GC == nil || AM == nil || AC == nil || CD == nil || MG == nil {
		return
	}
	checkSaturatingTotals(p, r, GN, MG)
	// the manager's merge decides which nodes are offered and with which capacity: the rules that C09 applies to it
	// (nil-accumulator guard, ok-checked intersection, Capacity = min over the sources, argument order of the fold) are
	// necessary for C07 as well — a node one plugin does not offer, or a capacity above one plugin's, is accepted by no allocation
	{
		tmp := newResult("C07")
		checkC09(p, tmp, tier)
		for _, o := range tmp.Obligs {
			switch o.Rule {
			case "UN2", "UN3", "UN4", "FOLD", "FOLD2":
				o.Rule = "MG-" + o.Rule
				r.Obligs = append(r.Obligs, o)
			}
		}
		r.min("MG-UN3", 1)
		r.min("MG-UN4", 1)
		r.min("MG-UN2", 2)
	}

	roles := func(fn *FuncNode, info, req int) map[types.Object]string {
		m := map[types.Object]string{}
		if o := fn.paramObj(info); o != nil {
			m[o] = "$info"
		}
		if o := fn.paramObj(req); o != nil {
			m[o] = "$req"
		}
		if rv := recvObj(fn); rv != nil {
			m[rv] = "$p"
		}
		return m
	}
	rGC, rAM, rAC := roles(GC, 0, 1), roles(AM, 0, 2), roles(AC, 0, 2)
	// condAt: the polarity under which node n of fn is reached of the first path condition whose normalised text (after
	// stripping negations) is one of the given; known=false when there is none
	condAt := func(fn *FuncNode, rl map[types.Object]string, n ast.Node, texts ...string) (val, known bool) {
		conds, ok := pathConds(fn.Body, n)
		if !ok {
			return false, false
		}
		for _, c := range conds {
			e, pos := unparen(c.Expr), c.Pos
			for {
				u, isNot := e.(*ast.UnaryExpr)
				if !isNot || u.Op != token.NOT {
					break
				}
				e, pos = unparen(u.X), !pos
			}
			t := normExpr(fn, e, rl, 0)
			for _, w := range texts {
				if t == w {
					return pos, true
				}
			}
		}
		return false, false
	}

	// ---- AG1
	planCall := func(fn *FuncNode, rl map[types.Object]string) (*ast.CallExpr, string, types.Object) {
		for _, c := range fn.calls(nameIs("resource/plugins/cpumem/schedule.GetCPUPlans")) {
			var parts []string
			for _, a := range c.Args {
				parts = append(parts, normExpr(fn, a, rl, 0))
			}
			var res types.Object
			fn.inspectBody(func(n ast.Node) bool {
				if as, ok := n.(*ast.AssignStmt); ok && len(as.Rhs) == 1 && unparen(as.Rhs[0]) == ast.Expr(c) {
					res = fn.objOf(as.Lhs[0])
				}
				return true
			})
			return c, strings.Join(parts, " | "), res
		}
		return nil, "", nil
	}
	cG, sG, plansG := planCall(GC, rGC)
	cA, sA, plansA := planCall(AC, rAC)
	want := "$info | nil | $p.config.Scheduler.ShareBase | $p.config.Scheduler.MaxShare | $req"
	if cG == nil || cA == nil {
		r.undecided("AG1", pk+" planner calls", "", "GetCPUPlans call not found in capacity or allocation path")
	} else {
		r.check(sG == sA && sG == want, "AG1", pk+" / capacity and allocation plan with the same arguments", p.pos(cG), "both: GetCPUPlans("+want+")",
			fmt.Sprintf("capacity plans with (%s), allocation with (%s): the reported capacity is computed for a different question than the one allocation asks", sG, sA))
		// capacity = len(plans); refusal iff len(plans) < count
		capOK := false
		GC.inspectBody(func(n ast.Node) bool {
			if as, ok := n.(*ast.AssignStmt); ok && len(as.Lhs) == 1 && len(as.Rhs) == 1 {
				if sel, ok := unparen(as.Lhs[0]).(*ast.SelectorExpr); ok && sel.Sel.Name == "Capacity" {
					if c, ok := unparen(as.Rhs[0]).(*ast.CallExpr); ok && len(c.Args) == 1 {
						if id, ok := c.Fun.(*ast.Ident); ok && id.Name == "len" && GC.objOf(c.Args[0]) == plansG && GC.dominates(GC.find(cG), GC.find(as)) {
							capOK = true
						}
					}
				}
			}
			return true
		})
		refOK := false
		count := AC.paramObj(1)
		AC.inspectBody(func(n ast.Node) bool {
			is, ok := n.(*ast.IfStmt)
			if !ok {
				return true
			}
			be, ok := unparen(is.Cond).(*ast.BinaryExpr)
			if !ok || be.Op != token.LSS {
				return true
			}
			c, ok := unparen(be.X).(*ast.CallExpr)
			if ok && len(c.Args) == 1 && AC.objOf(c.Args[0]) == plansA && AC.objOf(be.Y) == count && len(is.Body.List) == 1 {
				if rt, ok := is.Body.List[0].(*ast.ReturnStmt); ok && len(rt.Results) == 3 && !isNilIdent(rt.Results[2]) {
					refOK = true
				}
			}
			return true
		})
		r.check(capOK && refOK, "AG1", pk+" / capacity is the number of plans and allocation refuses exactly below it", p.pos(cA), "Capacity = len(plans); if len(plans) < count → insufficient",
			fmt.Sprintf("capacity=len(plans): %v; refusal iff len(plans) < count: %v", capOK, refOK))
		// no short cut: on the CPU-bound side every return of the capacity function comes after the planner call, and every
		// return of the allocation function either refuses below len(plans) or hands out plans — a test that exists on one
		// side only makes the capacity differ from what allocation accepts
		for _, side := range []struct {
			fn   *FuncNode
			call *ast.CallExpr
			what string
		}{{GC, cG, "capacity"}, {AC, cA, "allocation"}} {
			early := ""
			n := 0
			side.fn.inspectBody(func(x ast.Node) bool {
				rt, ok := x.(*ast.ReturnStmt)
				if !ok {
					return true
				}
				// returns inside the `!CPUBind` (memory) branch are judged by AG2
				rl := rGC
				if side.fn == AC {
					rl = rAC
				}
				if bind, known := condAt(side.fn, rl, rt, "$req.CPUBind"); known && !bind {
					return true
				}
				n++
				if !side.fn.dominates(side.fn.find(side.call), side.fn.find(rt)) {
					early = p.pos(rt)
				}
				return true
			})
			key := fmt.Sprintf("%s / the CPU-bound %s has no exit that bypasses the planner", pk, side.what)
			if n == 0 {
				r.undecided("AG1", key, p.pos(side.fn.Decl), "no return found")
			} else {
				r.check(early == "", "AG1", key, p.pos(side.call), fmt.Sprintf("all %d return(s) of the CPU-bound side are dominated by the GetCPUPlans call", n),
					"the return at "+early+" leaves the CPU-bound "+side.what+" before the planner has been asked: it applies a test the other side does not apply, so the reported capacity and the largest accepted count differ (e.g. aggregate CPU usage also counts unbound workloads, which hold no pieces)")
			}
		}
	}

	// ---- AG2 memory quotient, zero guard, cpu precheck
	findQuot := func(fn *FuncNode, rl map[types.Object]string) (quot string, at ast.Node) {
		fn.inspectBody(func(n ast.Node) bool {
			if be, ok := n.(*ast.BinaryExpr); ok && be.Op == token.QUO {
				s := normExpr(fn, be, rl, 0)
				if strings.Contains(s, "MemRequest") {
					quot, at = s, be
				}
			}
			return true
		})
		return
	}
	qG, atG := findQuot(GC, rGC)
	qA, _ := findQuot(AM, rAM)
	wantQ := "($info.GetAvailableResource()).Memory / $req.MemRequest"
	r.check(qG == qA && qG == wantQ, "AG2", pk+" / memory capacity and memory admission divide the same operands", p.pos(atG), wantQ,
		fmt.Sprintf("capacity computes `%s`, admission computes `%s`", qG, qA))
	// zero guard: capacity `if req.MemRequest == 0 {MaxInt} else {quot}`; admission `req.MemRequest > 0 && quot < count`
	// the saturated value is assigned exactly when MemRequest == 0 and the quotient computed exactly when it is not
	zG := false
	GC.inspectBody(func(n ast.Node) bool {
		as, ok := n.(*ast.AssignStmt)
		if !ok || len(as.Rhs) != 1 || !isMaxIntConst(GC, as.Rhs[0]) || atG == nil {
			return true
		}
		zero := func(n ast.Node) (bool, bool) {
			if v, known := condAt(GC, rGC, n, "$req.MemRequest == 0"); known {
				return v, true
			}
			if v, known := condAt(GC, rGC, n, "$req.MemRequest != 0", "$req.MemRequest > 0"); known {
				return !v, true
			}
			return false, false
		}
		z1, k1 := zero(as)
		z2, k2 := zero(atG)
		if k1 && k2 && z1 && !z2 {
			zG = true
		}
		return true
	})
	zA := false
	AM.inspectBody(func(n ast.Node) bool {
		if is, ok := n.(*ast.IfStmt); ok {
			s := normExpr(AM, is.Cond, rAM, 0)
			if s == "$req.MemRequest > 0 && "+wantQ+" < int64("+AM.paramObj(1).Name()+")" && len(is.Body.List) == 1 {
				if rt, ok := is.Body.List[0].(*ast.ReturnStmt); ok && len(rt.Results) == 3 && !isNilIdent(rt.Results[2]) {
					zA = true
				}
			}
		}
		return true
	})
	r.check(zG && zA, "AG2", pk+" / zero requested memory means unlimited on both sides, otherwise refuse exactly below the quotient", p.pos(AM.Decl), "capacity: MemRequest == 0 → MaxInt else quotient; admission: MemRequest > 0 && quotient < count → insufficient",
		fmt.Sprintf("capacity guard recognised: %v; admission guard recognised: %v — the two sides no longer decide the same inequality", zG, zA))
	// cpu precheck
	pre := func(fn *FuncNode, rl map[types.Object]string) string {
		out := ""
		fn.inspectBody(func(n ast.Node) bool {
			if is, ok := n.(*ast.IfStmt); ok {
				s := normExpr(fn, is.Cond, rl, 0)
				if strings.Contains(s, "CPURequest") && strings.Contains(s, "CPUMap") && len(is.Body.List) == 1 {
					if _, isRet := is.Body.List[0].(*ast.ReturnStmt); isRet {
						out = s
					}
				}
			}
			return true
		})
		return out
	}
	pG, pA := pre(GC, rGC), pre(AM, rAM)
	wantP := "$req.CPURequest > float64(len($info.Capacity.CPUMap))"
	r.check(pG == pA && pG == wantP, "AG2", pk+" / the CPU-count precheck of the memory branch is the same on both sides", p.pos(GC.Decl), wantP, fmt.Sprintf("capacity: `%s`, admission: `%s`", pG, pA))

	// ---- AG3 branch condition
	{
		// capacity: `if !req.CPUBind { memory … return }` ; CalculateDeploy: `if !req.CPUBind { doAllocByMemory } else { doAllocByCPU }`
		// the memory quotient is reached exactly when CPUBind is false, the planner call exactly when it is true
		bG := false
		if atG != nil && cG != nil {
			vq, kq := condAt(GC, rGC, atG, "$req.CPUBind")
			vp, kp := condAt(GC, rGC, cG, "$req.CPUBind")
			bG = kq && kp && !vq && vp
		}
		// CalculateDeploy: the memory path is reached exactly when CPUBind of the request handed on is false, the CPU path
		// exactly when it is true (whichever way round the branch is written)
		bindAt := func(c *ast.CallExpr) (val, found bool) {
			reqD := CD.objOf(c.Args[2])
			conds, ok := pathConds(CD.Body, c)
			if !ok || reqD == nil {
				return false, false
			}
			for _, cl := range conds {
				e, pos := unparen(cl.Expr), cl.Pos
				for {
					u, isNot := e.(*ast.UnaryExpr)
					if !isNot || u.Op != token.NOT {
						break
					}
					e, pos = unparen(u.X), !pos
				}
				if sel, ok := e.(*ast.SelectorExpr); ok && sel.Sel.Name == "CPUBind" && CD.objOf(sel.X) == reqD {
					return pos, true
				}
			}
			return false, false
		}
		memOK, cpuOK := false, false
		CD.inspectBody(func(n ast.Node) bool {
			c, ok := n.(*ast.CallExpr)
			if !ok || len(c.Args) < 3 {
				return true
			}
			switch CD.Callee(c) {
			case AM.Obj:
				v, found := bindAt(c)
				memOK = found && !v
			case AC.Obj:
				v, found := bindAt(c)
				cpuOK = found && v
			}
			return true
		})
		bD := memOK && cpuOK
		r.check(bG && bD, "AG3", pk+" / capacity and allocation pick the memory or the CPU path on the same condition", p.pos(CD.Decl), "!req.CPUBind → memory, else CPU plans, on both sides",
			fmt.Sprintf("capacity branches on !req.CPUBind: %v; CalculateDeploy routes !CPUBind→doAllocByMemory, else→doAllocByCPU: %v", bG, bD))
	}

	// ---- DOM
	{
		why := "no insertion into the offered map under `Capacity > 0`"
		var at ast.Node = GN.Decl
		GN.inspectBody(func(n ast.Node) bool {
			is, ok := n.(*ast.IfStmt)
			if !ok {
				return true
			}
			be, ok := unparen(is.Cond).(*ast.BinaryExpr)
			if !ok || be.Op != token.GTR {
				return true
			}
			sel, ok := unparen(be.X).(*ast.SelectorExpr)
			if !ok || sel.Sel.Name != "Capacity" {
				return true
			}
			if v, isC := GN.constInt(be.Y); !isC || v != 0 {
				return true
			}
			capObj := GN.objOf(sel.X)
			ins, acc := false, false
			for _, st := range is.Body.List {
				inspectNoLit(st, func(x ast.Node) bool {
					if as, ok := x.(*ast.AssignStmt); ok {
						if base, _ := indexBaseObj(GN, as.Lhs[0]); base != nil && GN.objOf(as.Rhs[0]) == capObj {
							ins = true
						}
						if as.Tok == token.ADD_ASSIGN {
							acc = true
						}
					}
					return true
				})
			}
			if ins && acc {
				why, at = "", is
			}
			return true
		})
		// no insertion outside
		GN.inspectBody(func(n ast.Node) bool {
			if as, ok := n.(*ast.AssignStmt); ok && why == "" {
				if base, _ := indexBaseObj(GN, as.Lhs[0]); base != nil {
					if _, isMap := base.Type().Underlying().(*types.Map); isMap && strings.Contains(base.Type().String(), "NodeDeployCapacity") {
						if is, ok := at.(*ast.IfStmt); ok && !(is.Body.Pos() <= as.Pos() && as.End() <= is.Body.End()) {
							why = "a node is put into the offered map outside the Capacity > 0 guard"
						}
					}
				}
			}
			return true
		})
		r.check2(why, "DOM", pk+" / nodes with zero capacity are not offered and not counted", p.pos(at), "map insertion and total accumulation both under `Capacity > 0`")
	}
}
