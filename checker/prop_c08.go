package main

// C08 (E7 fields): copy / arithmetic siblings of the cpumem bookkeeping types cover the same fields with mirrored
// operators, rollback entry points are the exact inverse call of their forward operation, and the realloc delta is
// built as copy(new) - origin.

import (
	"fmt"
	"go/ast"
	"go/token"
	"go/types"
	"sort"
	"strings"
)

func init() { register("C08", checkC08) }

const cpumemTypes = "resource/plugins/cpumem/types"

// usageFields: the usage-relevant fields per bookkeeping type, confirmed by reading calculateNodeResource (which builds
// NodeResource{CPU, CPUMap, Memory, NUMAMemory} from WorkloadResource{CPURequest, CPUMap, MemoryRequest, NUMAMemory}).
// "" stands for the map receiver itself. One line of reason per omission:
//
//	WorkloadResource.CPULimit/MemoryLimit/NUMANode: engine limits and placement, not node usage
//	NodeResource.NUMA: topology (cpu -> numa node), replaced not summed
var usageFields = map[string][]string{
	"WorkloadResource": {"CPURequest", "MemoryRequest", "CPUMap", "NUMAMemory"},
	"NodeResource":     {"CPU", "Memory", "CPUMap", "NUMAMemory"},
	"CPUMap":           {""},
	"NUMAMemory":       {""},
}

func recvObj(fn *FuncNode) types.Object {
	if fn.Decl == nil || fn.Decl.Recv == nil || len(fn.Decl.Recv.List) == 0 || len(fn.Decl.Recv.List[0].Names) == 0 {
		return nil
	}
	return fn.Pkg.TypesInfo.ObjectOf(fn.Decl.Recv.List[0].Names[0])
}

func recvStruct(o types.Object) (*types.Named, *types.Struct) {
	if o == nil {
		return nil, nil
	}
	t := o.Type()
	if pt, ok := t.(*types.Pointer); ok {
		t = pt.Elem()
	}
	nt, _ := t.(*types.Named)
	if nt == nil {
		return nil, nil
	}
	st, _ := nt.Underlying().(*types.Struct)
	return nt, st
}

// fieldOf: e (after parens and index expressions) is <base>.<field> or <base> itself; returns the field name ("" for base).
func fieldOf(fn *FuncNode, e ast.Expr, base types.Object) (string, bool) {
	e = unparen(e)
	for {
		ix, ok := e.(*ast.IndexExpr)
		if !ok {
			break
		}
		e = unparen(ix.X)
	}
	if sel, ok := e.(*ast.SelectorExpr); ok && fn.objOf(sel.X) == base {
		return sel.Sel.Name, true
	}
	if id, ok := e.(*ast.Ident); ok && fn.Pkg.TypesInfo.ObjectOf(id) == base {
		return "", true
	}
	return "", false
}

// updateOps returns, per receiver field, the set of arithmetic directions ("+", "-") with which the method updates it
// from its argument: `r.f += a.f`, `r.f = g(r.f + a.f)`, `r.f[k] -= ..` inside `range a.f`, `r.f.Add(a.f)`.
func updateOps(p *Prog, fn *FuncNode) map[string]map[string]bool {
	out := map[string]map[string]bool{}
	rv := recvObj(fn)
	put := func(f, op string) {
		if out[f] == nil {
			out[f] = map[string]bool{}
		}
		out[f][op] = true
	}
	// conditional updates: an update statement that sits inside an if — except the else-branch of
	// `if len(recv.F) == 0 { recv.F = arg.F } else { recv.F.Add(arg.F) }`, whose then-branch is the same sum
	var stack []ast.Node
	guarded := func() string {
		for i := len(stack) - 1; i >= 0; i-- {
			is, ok := stack[i].(*ast.IfStmt)
			if !ok {
				continue
			}
			// which branch are we in?
			inElse := i+1 < len(stack) && is.Else != nil && stack[i+1] == ast.Node(is.Else)
			if inElse && len(is.Body.List) == 1 {
				if as, ok := is.Body.List[0].(*ast.AssignStmt); ok && as.Tok == token.ASSIGN && len(as.Lhs) == 1 {
					if lf, ok := fieldOf(fn, as.Lhs[0], rv); ok {
						if sel, ok := unparen(as.Rhs[0]).(*ast.SelectorExpr); ok && sel.Sel.Name == lf && fn.objOf(sel.X) != rv {
							c := exprStr(is.Cond)
							if strings.HasPrefix(c, "len(") && strings.HasSuffix(c, ") == 0") || strings.HasSuffix(c, " == nil") {
								continue
							}
						}
					}
				}
			}
			return exprStr(is.Cond)
		}
		return ""
	}
	ast.Inspect(fn.Body, func(n ast.Node) bool {
		if n == nil {
			stack = stack[:len(stack)-1]
			return false
		}
		stack = append(stack, n)
		notePut := func(f, op string) {
			put(f, op)
			if g := guarded(); g != "" {
				put(f, "only if "+g)
			}
		}
		_ = notePut
		switch x := n.(type) {
		case *ast.AssignStmt:
			if len(x.Lhs) != 1 || len(x.Rhs) != 1 {
				return true
			}
			f, ok := fieldOf(fn, x.Lhs[0], rv)
			if !ok {
				return true
			}
			switch x.Tok {
			case token.ADD_ASSIGN:
				notePut(f, "+")
			case token.SUB_ASSIGN:
				notePut(f, "-")
			case token.ASSIGN:
				ast.Inspect(x.Rhs[0], func(y ast.Node) bool {
					if be, ok := y.(*ast.BinaryExpr); ok && (be.Op == token.ADD || be.Op == token.SUB) {
						if lf, ok := fieldOf(fn, be.X, rv); ok && lf == f {
							if be.Op == token.ADD {
								notePut(f, "+")
							} else {
								notePut(f, "-")
							}
						}
					}
					return true
				})
			}
		case *ast.ExprStmt:
			c, ok := x.X.(*ast.CallExpr)
			if !ok {
				return true
			}
			sel, ok := unparen(c.Fun).(*ast.SelectorExpr)
			if !ok {
				return true
			}
			f, ok := fieldOf(fn, sel.X, rv)
			if !ok {
				return true
			}
			if callee := fn.Callee(c); callee != nil && callee.Pkg() != nil && relPath(callee.Pkg().Path()) == cpumemTypes {
				switch callee.Name() {
				case "Add":
					notePut(f, "+")
				case "Sub":
					notePut(f, "-")
				}
			}
		}
		return true
	})
	return out
}

func opsStr(m map[string]bool) string {
	var s []string
	for k := range m {
		s = append(s, k)
	}
	sort.Strings(s)
	if len(s) == 0 {
		return "none"
	}
	return strings.Join(s, ",")
}

func checkC08(p *Prog, r *Result, tier string) {
	r.Technique = "field-coverage and mirrored-operator rules over the methods of resource/plugins/cpumem/types (type-checked AST), inverse-call rule over resource/cobalt, delta-shape rule in CalculateRealloc"
	r.Explanation = "DC every DeepCopy of a cpumem bookkeeping type reads every field of its receiver, and a map/pointer/slice field is never placed into the copy as the receiver's own value (it is ranged over or copied by a call); " +
		"MIR for every usage-relevant field (table in the evidence) Add updates it only with '+' and Sub only with '-', unconditionally (no update sits under an if, except the else-branch of Add's `if len(x.F) == 0 { x.F = y.F }`), in the struct types and in the two map types; " +
		"RBP the manager's own rollback of a partly failed usage/capacity update fans out over exactly the plugins that answered; RB every RollbackX of the resource manager calls SetNodeResourceUsage with the same argument shape as X (nil requests, delta mode) and the opposite direction; APPLY the plugin applies every workload resource (or delta) it is handed to the node usage: the loop in calculateNodeResource converts each element field by field (CPU<-CPURequest, CPUMap<-CPUMap, Memory<-MemoryRequest, NUMAMemory<-NUMAMemory) and adds or subtracts it unconditionally, direction chosen only by incr; DELTA CalculateRealloc publishes as delta a DeepCopy of the new resource from which the parsed origin was subtracted. " +
		"These are necessary for 'usage == sum of live workloads' and 'rollback restores usage exactly': a field missed by the copy or updated with the wrong sign makes the delta, and hence the usage, wrong for every history that touches it."
	r.NotCovered = "the arithmetic over a whole history (values), rounding of CPU sums, aliasing through the heap (WorkloadResource.Add adopts the argument's NUMAMemory map when its own is empty: noted as an observation)"
	r.Assumptions = []string{"usage-relevant field table (printed under tables) confirmed by reading calculateNodeResource", "A1 no reflection-based copying in these types (mapstructure is used only for Parse)"}
	r.Tables["usage_fields"] = usageFields
	r.min("DC", 3)
	r.min("MIR", 10)
	r.min("RB", 2)
	r.min("DELTA", 1)
	r.min("APPLY", 1)
	checkC08Apply(p, r)

	// ---- DC
	for _, fn := range p.sortedFuncs(cpumemTypes) {
		if fn.Decl == nil || fn.Decl.Name.Name != "DeepCopy" || fn.Parent != nil {
			continue
		}
		rv := recvObj(fn)
		nt, st := recvStruct(rv)
		if st == nil {
			continue
		}
		for i := 0; i < st.NumFields(); i++ {
			f := st.Field(i)
			key := fmt.Sprintf("%s / field %s is copied from the receiver", fn.Name, f.Name())
			reads, aliased := 0, false
			ast.Inspect(fn.Body, func(n ast.Node) bool {
				switch x := n.(type) {
				case *ast.SelectorExpr:
					if x.Sel.Name == f.Name() && fn.objOf(x.X) == rv {
						reads++
					}
				case *ast.KeyValueExpr:
					if sel, ok := unparen(x.Value).(*ast.SelectorExpr); ok && sel.Sel.Name == f.Name() && fn.objOf(sel.X) == rv {
						switch f.Type().Underlying().(type) {
						case *types.Map, *types.Pointer, *types.Slice:
							aliased = true
						}
					}
				}
				return true
			})
			switch {
			case reads == 0:
				r.bad("DC", key, p.pos(fn.Decl), fmt.Sprintf("%s.DeepCopy never reads the receiver's %s: the copy always has the zero/empty value, so a delta computed from the copy is wrong for every workload that uses this field", nt.Obj().Name(), f.Name()))
			case aliased:
				r.bad("DC", key, p.pos(fn.Decl), fmt.Sprintf("the copy shares the receiver's %s (reference type assigned, not copied): arithmetic on the copy changes the original", f.Name()))
			default:
				r.ok("DC", key, p.pos(fn.Decl), fmt.Sprintf("%d read(s) of the receiver's field, not aliased", reads))
			}
		}
	}

	checkMirror(p, r)
	// RBP (T5 of C11 on the manager's usage sites): when a usage or capacity update fails in one plugin, the manager rolls
	// back exactly the plugins that had answered — writing the "before" value of a plugin that never answered (nil) wipes
	// that plugin's record
	if a := newTxnAnalyzer(p, r); a != nil {
		sub := newResult("C08-sub")
		n := 0
		for _, ts := range findTxnSites(p) {
			if relPath(ts.fn.Pkg.PkgPath) != "resource/cobalt" || ts.kind != "PCR" || ts.fn.Obj == nil {
				continue
			}
			switch ts.fn.Obj.Name() {
			case "SetNodeResourceUsage", "SetNodeResourceCapacity", "SetNodeResourceInfo":
				n++
				a.checkT5(sub, ts, p.pos(ts.call))
			}
		}
		for _, o := range sub.Obligs {
			switch o.Status {
			case stOK:
				r.ok("RBP", o.Construct, o.Pos, o.Detail)
			case stViolation:
				r.bad("RBP", o.Construct, o.Pos, o.Detail+": the rollback of a partly failed update rewrites plugins that never changed anything (with an empty \"before\" value), so rolling back does not restore the usage — it destroys it")
			default:
				r.undecided("RBP", o.Construct, o.Pos, o.Detail)
			}
		}
		r.min("RBP", 2)
		if n == 0 {
			r.undecided("RBP", "resource/cobalt usage/capacity PCR sites", "", "none found")
		}
	}

	// ---- RB
	isSet := func(f *types.Func) bool { return strings.HasSuffix(objName(f), ".SetNodeResourceUsage") }
	type shape struct {
		nilReq   bool
		delta    string
		dir      string
		call     *ast.CallExpr
		resource string
	}
	shapeOf := func(fn *FuncNode) (shape, int) {
		cs := fn.callsDeep(isSet)
		if len(cs) != 1 {
			return shape{}, len(cs)
		}
		c := cs[0]
		if len(c.Args) < 7 {
			return shape{}, -1
		}
		s := shape{call: c}
		s.nilReq = isNilIdent(c.Args[2]) && isNilIdent(c.Args[3])
		s.delta = exprStr(c.Args[5])
		if sel, ok := unparen(c.Args[6]).(*ast.SelectorExpr); ok {
			s.dir = sel.Sel.Name
		} else {
			s.dir = exprStr(c.Args[6])
		}
		s.resource = exprStr(c.Args[4])
		return s, 1
	}
	for _, fn := range p.sortedFuncs("resource/cobalt") {
		if fn.Decl == nil || fn.Parent != nil || !strings.HasPrefix(fn.Decl.Name.Name, "Rollback") {
			continue
		}
		fwdName := strings.Replace(fn.Name, ".Rollback", ".", 1)
		fwd := p.Fn(fwdName)
		key := fmt.Sprintf("%s is the inverse usage update of %s", fn.Name, shortName(fwdName))
		if fwd == nil {
			r.undecided("RB", key, p.pos(fn.Decl), "forward operation not found")
			continue
		}
		rs, n1 := shapeOf(fn)
		fs, n2 := shapeOf(fwd)
		if n1 != 1 || n2 != 1 {
			r.bad("RB", key, p.pos(fn.Decl), fmt.Sprintf("expected exactly one SetNodeResourceUsage call in each (rollback %d, forward %d)", n1, n2))
			continue
		}
		ok := rs.nilReq && fs.nilReq && rs.delta == fs.delta && fs.dir == "Incr" && rs.dir == "Decr"
		r.check(ok, "RB", key, p.pos(rs.call), fmt.Sprintf("both: nil requests, delta=%s; forward %s, rollback %s", fs.delta, fs.dir, rs.dir),
			fmt.Sprintf("forward (nilreq=%v delta=%s dir=%s) and rollback (nilreq=%v delta=%s dir=%s) are not exact inverses: rolling back does not restore the node's usage", fs.nilReq, fs.delta, fs.dir, rs.nilReq, rs.delta, rs.dir))
	}

	// ---- DELTA
	C := p.Fn("resource/plugins/cpumem.Plugin.CalculateRealloc")
	dkey := "cpumem.Plugin.CalculateRealloc / delta = DeepCopy(new) - origin"
	if C == nil {
		r.undecided("DELTA", dkey, "", "not found")
		return
	}
	// origin: the local on which Parse(<parameter>) is called
	var origin types.Object
	C.inspectBody(func(n ast.Node) bool {
		if c, ok := n.(*ast.CallExpr); ok && len(c.Args) == 1 {
			if sel, ok := unparen(c.Fun).(*ast.SelectorExpr); ok && sel.Sel.Name == "Parse" {
				if a := C.objOf(c.Args[0]); a != nil && C.paramIndex(a) >= 0 {
					if o := C.objOf(sel.X); o != nil {
						if nt, _ := recvStruct(o); nt != nil && nt.Obj().Name() == "WorkloadResource" && origin == nil {
							origin = o
						}
					}
				}
			}
		}
		return true
	})
	// published values: map literal keys "delta_resource" and "workload_resource"
	var deltaObj, newObj types.Object
	C.inspectBody(func(n ast.Node) bool {
		if kv, ok := n.(*ast.KeyValueExpr); ok {
			if k, ok := C.constString(kv.Key); ok {
				switch k {
				case "delta_resource":
					deltaObj = C.objOf(kv.Value)
				case "workload_resource":
					newObj = C.objOf(kv.Value)
				}
			}
		}
		return true
	})
	if origin == nil || deltaObj == nil || newObj == nil {
		r.undecided("DELTA", dkey, p.pos(C.Decl), "origin / delta_resource / workload_resource not identified")
		return
	}
	def := C.singleDef(deltaObj)
	fromCopy := false
	if c, ok := unparen(def).(*ast.CallExpr); ok && def != nil {
		if sel, ok := unparen(c.Fun).(*ast.SelectorExpr); ok && sel.Sel.Name == "DeepCopy" && C.objOf(sel.X) == newObj {
			fromCopy = true
		}
	}
	nSub, otherMut := 0, ""
	C.inspectBody(func(n ast.Node) bool {
		switch x := n.(type) {
		case *ast.CallExpr:
			if sel, ok := unparen(x.Fun).(*ast.SelectorExpr); ok && C.objOf(sel.X) == deltaObj {
				if sel.Sel.Name == "Sub" && len(x.Args) == 1 && C.objOf(x.Args[0]) == origin {
					nSub++
				} else {
					otherMut = exprStr(x)
				}
			}
		case *ast.AssignStmt:
			for _, l := range x.Lhs {
				if f, ok := fieldOf(C, l, deltaObj); ok && f != "" {
					otherMut = exprStr(l) + " assigned"
				}
			}
		}
		return true
	})
	r.check(fromCopy && nSub == 1 && otherMut == "", "DELTA", dkey, p.pos(C.Decl), "delta := new.DeepCopy(); delta.Sub(origin); nothing else touches it",
		fmt.Sprintf("delta from DeepCopy of the published new resource: %v; Sub(origin) calls: %d; other mutation: %q — the usage delta applied to the node is not new - origin", fromCopy, nSub, otherMut))
}

// APPLY: calculateNodeResource applies every element of the workload-resource list, all four usage fields, unconditionally.
func checkC08Apply(p *Prog, r *Result) {
	F := p.Fn("resource/plugins/cpumem.Plugin.calculateNodeResource")
	key := "resource/plugins/cpumem.Plugin.calculateNodeResource / every workload resource handed in is applied to the usage, all usage fields, direction by incr only"
	if F == nil {
		r.undecided("APPLY", key, "", "not found")
		return
	}
	var list, incr types.Object
	for i := 0; ; i++ {
		o := F.paramObj(i)
		if o == nil {
			break
		}
		if sl, ok := o.Type().Underlying().(*types.Slice); ok && strings.HasSuffix(sl.Elem().String(), "WorkloadResource") {
			list = o
		}
		if o.Name() == "incr" {
			incr = o
		}
	}
	if list == nil || incr == nil {
		r.undecided("APPLY", key, p.pos(F.Decl), "no []*WorkloadResource / incr parameters")
		return
	}
	want := map[string]string{"CPU": "CPURequest", "CPUMap": "CPUMap", "Memory": "MemoryRequest", "NUMAMemory": "NUMAMemory"}
	why := "no loop over the workload resources"
	var at ast.Node = F.Decl
	F.inspectBody(func(n ast.Node) bool {
		rs, ok := n.(*ast.RangeStmt)
		if !ok || F.objOf(rs.X) != list || rs.Value == nil {
			return true
		}
		at = rs
		elem := F.objOf(rs.Value)
		why = ""
		conv, applied := false, false
		var convObj types.Object
		// the NodeResource built from the element: every usage field from the workload's own field
		checkLit := func(e ast.Expr) bool {
			e = unparen(e)
			if u, ok := e.(*ast.UnaryExpr); ok {
				e = unparen(u.X)
			}
			lit, ok := e.(*ast.CompositeLit)
			if !ok || !strings.HasSuffix(F.typeOf(lit).String(), "NodeResource") {
				return false
			}
			got := map[string]string{}
			for _, el := range lit.Elts {
				if kv, ok := el.(*ast.KeyValueExpr); ok {
					if sel, ok := unparen(kv.Value).(*ast.SelectorExpr); ok && F.objOf(sel.X) == elem {
						got[exprStr(kv.Key)] = sel.Sel.Name
					} else {
						got[exprStr(kv.Key)] = "?" + exprStr(kv.Value)
					}
				}
			}
			for k, v := range want {
				if got[k] != v {
					why = fmt.Sprintf("usage field %s is taken from %q, not from the workload's %s", k, got[k], v)
				}
			}
			return true
		}
		// `if incr { resp.Add(x) } else { resp.Sub(x) }` with x the given object, in fn (the function or a local closure)
		// the statements add x when incr holds and subtract it when it does not, and do nothing else: exactly one
		// `recv.Add(x)` reached under incr and one `recv.Sub(x)` reached under !incr (if/else, or early return)
		dirApplied := func(fn *FuncNode, stmts []ast.Stmt, x types.Object, incr types.Object) bool {
			if len(stmts) == 0 {
				return false
			}
			blk := &ast.BlockStmt{List: stmts, Lbrace: stmts[0].Pos(), Rbrace: stmts[len(stmts)-1].End()}
			var adds, subs []*ast.CallExpr
			other := false
			inspectNoLit(blk, func(n ast.Node) bool {
				switch y := n.(type) {
				case *ast.CallExpr:
					sel, ok := unparen(y.Fun).(*ast.SelectorExpr)
					if ok && len(y.Args) == 1 && fn.objOf(y.Args[0]) == x && (sel.Sel.Name == "Add" || sel.Sel.Name == "Sub") {
						if sel.Sel.Name == "Add" {
							adds = append(adds, y)
						} else {
							subs = append(subs, y)
						}
					} else {
						other = true
					}
				case *ast.AssignStmt, *ast.IncDecStmt, *ast.ForStmt, *ast.RangeStmt, *ast.GoStmt, *ast.DeferStmt, *ast.SendStmt:
					other = true
				}
				return true
			})
			if other || len(adds) != 1 || len(subs) != 1 {
				return false
			}
			under := func(c *ast.CallExpr) (val, known bool) {
				conds, ok := pathConds(blk, c)
				if !ok {
					return false, false
				}
				for _, cl := range conds {
					e, pos := unparen(cl.Expr), cl.Pos
					for {
						u, isNot := e.(*ast.UnaryExpr)
						if !isNot || u.Op != token.NOT {
							break
						}
						e, pos = unparen(u.X), !pos
					}
					if fn.objOf(e) == incr {
						return pos, true
					}
				}
				return false, false
			}
			va, ka := under(adds[0])
			vs, ks := under(subs[0])
			return ka && ks && va && !vs
		}
		dirSwitch := func(fn *FuncNode, s *ast.IfStmt, x types.Object, incr types.Object) bool {
			return dirApplied(fn, []ast.Stmt{s}, x, incr)
		}
		for _, st := range rs.Body.List {
			switch s := st.(type) {
			case *ast.AssignStmt:
				if len(s.Lhs) != 1 || len(s.Rhs) != 1 {
					why = "unexpected assignment in the loop"
					continue
				}
				if !checkLit(s.Rhs[0]) {
					why = "unexpected assignment in the loop: " + exprStr(s.Lhs[0])
					continue
				}
				conv, convObj = true, F.objOf(s.Lhs[0])
			case *ast.IfStmt:
				// if incr { resp.Add(x) } else { resp.Sub(x) }
				if dirSwitch(F, s, convObj, incr) && convObj != nil {
					applied = true
				} else {
					why = "the loop contains a condition other than the direction switch `if incr {Add} else {Sub}` (" + exprStr(s.Cond) + "): some workload resources or deltas are skipped, so usage drifts from the sum of the workloads (a bind-only delta has zero CPU and memory request but non-empty per-core pieces)"
				}
			case *ast.ExprStmt:
				// apply(x) / applyTo(resp, x, incr): a local closure or a declared helper whose whole body is the direction
				// switch on the parameter that receives x (and on incr, captured or handed in)
				good := false
				if c, ok := unparen(s.X).(*ast.CallExpr); ok && len(c.Args) >= 1 {
					if t, ok := p.resolveFuncArg(F, c.Fun); ok && t != nil && t.Body != nil && len(t.Body.List) >= 1 {
						valIdx, tIncr := -1, incr
						for i, a := range c.Args {
							switch o := F.objOf(a); {
							case o != nil && o == incr:
								tIncr = t.paramObj(i)
							case o != nil && o == convObj:
								valIdx = i
							case o == nil && checkLit(a):
								valIdx, conv = i, true
							}
						}
						if valIdx >= 0 && t.paramObj(valIdx) != nil && tIncr != nil && dirApplied(t, t.Body.List, t.paramObj(valIdx), tIncr) {
							good = true
						}
					}
				}
				if good {
					applied = true
				} else {
					why = "unexpected call in the loop over the workload resources: " + exprStr(s.X)
				}
			default:
				why = fmt.Sprintf("unexpected %T in the loop over the workload resources", st)
			}
		}
		if why == "" && (!conv || !applied) {
			why = "the loop does not convert and apply each element"
		}
		return true
	})
	r.check2(why, "APPLY", key, p.pos(at), "for each workload: NodeResource{CPU, CPUMap, Memory, NUMAMemory} from the element; if incr Add else Sub")
}

// methodCallOn: for a statement `recv.M(arg)` returns M and arg's object.
func methodCallOn(fn *FuncNode, st ast.Stmt) (string, types.Object) {
	es, ok := st.(*ast.ExprStmt)
	if !ok {
		return "", nil
	}
	c, ok := unparen(es.X).(*ast.CallExpr)
	if !ok || len(c.Args) != 1 {
		return "", nil
	}
	sel, ok := unparen(c.Fun).(*ast.SelectorExpr)
	if !ok {
		return "", nil
	}
	return sel.Sel.Name, fn.objOf(c.Args[0])
}

// checkMirror: MIR rule (used by C08 and C10)
func checkMirror(p *Prog, r *Result) {
	// map types: Add/Sub walk the OPERAND and touch every one of its keys (walking the receiver, or skipping keys the receiver
	// lacks, loses the entries a delta needs: new − origin must carry −x for a core only the origin holds)
	for _, tn := range []string{"CPUMap", "NUMAMemory"} {
		for _, mn := range []string{"Add", "Sub"} {
			fn := p.Fn(cpumemTypes + "." + tn + "." + mn)
			key := fmt.Sprintf("%s.%s / walks every key of its operand", tn, mn)
			if fn == nil {
				r.undecided("MIR", key, "", "not found")
				continue
			}
			rv, op := recvObj(fn), fn.paramObj(0)
			why := "no range over the operand found"
			fn.inspectBody(func(n ast.Node) bool {
				rs, ok := n.(*ast.RangeStmt)
				if !ok {
					return true
				}
				switch {
				case fn.objOf(rs.X) == rv:
					why = "the loop walks the receiver, not the operand: keys that only the operand has are never applied"
				case fn.objOf(rs.X) == op:
					why = ""
					// the update indexes the receiver with the range key
					okUpd := false
					for _, st := range rs.Body.List {
						if as, ok := st.(*ast.AssignStmt); ok && len(as.Lhs) == 1 {
							if ix, ok := unparen(as.Lhs[0]).(*ast.IndexExpr); ok && fn.objOf(ix.X) == rv && rs.Key != nil && fn.objOf(ix.Index) == fn.objOf(rs.Key) {
								okUpd = true
							}
						}
					}
					if !okUpd {
						why = "the loop over the operand does not update receiver[key] as a direct statement of its body"
					}
					ast.Inspect(rs.Body, func(x ast.Node) bool {
						switch y := x.(type) {
						case *ast.BranchStmt:
							why = "the loop over the operand can skip a key (`" + y.Tok.String() + "` at " + p.pos(y) + "): for that key nothing is added or subtracted, so a delta lacks the entry and the usage keeps what was given up"
						case *ast.ReturnStmt:
							why = "the loop over the operand can stop early (return at " + p.pos(y) + ")"
						}
						return true
					})
				}
				return true
			})
			r.check2(why, "MIR", key, p.pos(fn.Decl), "for k, v := range operand { receiver[k] ±= v }")
		}
	}
	// ---- MIR
	typeNames := make([]string, 0, len(usageFields))
	for tn := range usageFields {
		typeNames = append(typeNames, tn)
	}
	sort.Strings(typeNames)
	for _, tn := range typeNames {
		var add, sub *FuncNode
		for _, pre := range []string{cpumemTypes + ".(*" + tn + ").", cpumemTypes + "." + tn + "."} {
			if f := p.Fn(pre + "Add"); f != nil {
				add = f
			}
			if f := p.Fn(pre + "Sub"); f != nil {
				sub = f
			}
		}
		if add == nil || sub == nil {
			r.undecided("MIR", tn+" / Add and Sub exist", "", "method pair not found")
			continue
		}
		ao, so := updateOps(p, add), updateOps(p, sub)
		for _, f := range usageFields[tn] {
			name := f
			if name == "" {
				name = "(entries)"
			}
			key := fmt.Sprintf("%s.%s / Add adds, Sub subtracts", tn, name)
			okA := len(ao[f]) == 1 && ao[f]["+"]
			okS := len(so[f]) == 1 && so[f]["-"]
			r.check(okA && okS, "MIR", key, p.pos(add.Decl), "Add: +, Sub: -",
				fmt.Sprintf("Add updates it with {%s}, Sub with {%s}: the two are not inverse on this field for every operand (wrong sign, or an update that is skipped under a condition), so a delta lacks entries and release/rollback does not restore the usage", opsStr(ao[f]), opsStr(so[f])))
		}
	}

}
