package main

// C23: the etcd and redis metadata stores behave identically (structural siblings: constants, failure classes, atomic creates).

import (
	"fmt"
	"go/ast"
	"go/constant"
	"go/token"
	"go/types"
	"sort"
	"strings"
)

func init() { register("C23", checkC23) }

// failure classes of the sentinels both backends use (one line each)
var c23Class = map[string]string{
	"types.ErrInvaildCount":           "not-found", // etcd GetOne/GetMulti: key missing
	"types.ErrKeyNotExists":           "not-found", // etcd update/delete compare failed
	"types.ErrPodNotFound":            "not-found",
	"store/redis.ErrKeyNotExitsts":    "not-found", // redis BatchUpdate: EXISTS count differs
	"redis:nil":                       "not-found", // redis GET on a missing key, wrapped by GetOne/GetMulti
	"types.ErrKeyExists":              "exists",
	"types.ErrTxnConditionFailed":     "exists", // etcd create compare failed
	"store/redis.ErrAlreadyExists":    "exists", // redis SETNX answered 0
	"types.ErrPodHasNodes":            "has-children",
	"types.ErrInvaildWorkloadStatus":  "invalid-argument",
	"types.ErrInvaildWorkloadMeta":    "invalid-argument",
	"types.ErrInvaildNodeStatusTTL":   "invalid-argument",
	"types.ErrNoOps":                  "", // empty batch: an internal condition, no caller passes an empty batch
	"types.ErrNilEngine":              "",
	"store/redis.ErrBadCmdType":       "",
	"store/redis.ErrMaxRetryExceeded": "",
}

// differences that are decided elsewhere or are not differences of the outcome (one line of reason each)
var c23Waive = map[string]string{
	"SetNodeStatus/not-found":       "the redis node-status writer bypasses the entity check: reported and recorded under C25 (ROUTE), not repeated here",
	"GetAllPods/not-found":          "redis lists with KEYS then MGET: not-found only if a key disappears between the two commands (a race, not a difference for any sequential history)",
	"GetDeployStatus/not-found":     "same KEYS-then-MGET window as GetAllPods",
	"ServiceStatusStream/not-found": "same KEYS-then-MGET window as GetAllPods",
	"UpdateNodes/exists":            "etcd tests Succeeded of an unconditional BatchPut (no compare): that branch cannot be taken",
}

type c23Analyzer struct {
	p     *Prog
	memo  map[*FuncNode]map[string]bool
	stack map[*FuncNode]bool
}

// classesOf: failure classes a function can produce, by sentinels it (or its same-backend callees) uses in value position.
func (a *c23Analyzer) classesOf(fn *FuncNode, depth int) map[string]bool {
	if m, ok := a.memo[fn]; ok {
		return m
	}
	out := map[string]bool{}
	if depth > 6 || a.stack[fn] {
		return out
	}
	a.stack[fn] = true
	defer delete(a.stack, fn)
	// identifiers inside errors.Is / errors.As calls are tests, not productions
	tested := map[*ast.Ident]bool{}
	ast.Inspect(fn.Body, func(n ast.Node) bool {
		c, ok := n.(*ast.CallExpr)
		if !ok {
			return true
		}
		enc := a.p.enclosing(fn.Pkg, c.Pos())
		if enc == nil {
			return true
		}
		if f := enc.Callee(c); f != nil && (strings.HasSuffix(fullObjName(f), "errors.Is") || strings.HasSuffix(fullObjName(f), "errors.As")) {
			for _, arg := range c.Args {
				ast.Inspect(arg, func(x ast.Node) bool {
					if id, ok := x.(*ast.Ident); ok {
						tested[id] = true
					}
					return true
				})
			}
		}
		return true
	})
	ast.Inspect(fn.Body, func(n ast.Node) bool {
		switch x := n.(type) {
		case *ast.Ident:
			if tested[x] {
				return true
			}
			o := fn.Pkg.TypesInfo.ObjectOf(x)
			v, ok := o.(*types.Var)
			if !ok || v.Pkg() == nil || v.Parent() != v.Pkg().Scope() || !strings.HasPrefix(v.Name(), "Err") {
				return true
			}
			key := relPath(v.Pkg().Path()) + "." + v.Name()
			if cls, known := c23Class[key]; known {
				if cls != "" {
					out[cls] = true
				}
			} else if v.Type().String() == "error" {
				out["?"+key] = true
			}
		case *ast.CallExpr:
			enc := a.p.enclosing(fn.Pkg, x.Pos())
			if enc == nil {
				return true
			}
			f := enc.Callee(x)
			if f == nil {
				return true
			}
			if fullObjName(f) == "github.com/go-redis/redis/v8.cmdable.Get" || (f.Name() == "Get" && f.Pkg() != nil && strings.Contains(f.Pkg().Path(), "go-redis")) {
				// GET of a missing key answers redis.Nil: returned as it is by some callers — a not-found failure all the same
				out["not-found"] = true
			}
			if objName(f) == "store/redis.isRedisNoKeyError" {
				// a missing key is recognised here: the branch that follows produces not-found (wraps or returns it)
				out["not-found"] = true
			}
			if isInterfaceMethod(f) && f.Pkg() != nil && relPath(f.Pkg().Path()) == "store/etcdv3/meta" {
				if t := a.p.Fn("store/etcdv3/meta.(*ETCD)." + f.Name()); t != nil {
					for c := range a.classesOf(t, depth+1) {
						out[c] = true
					}
				}
			}
			if t := a.p.ByObj[f]; t != nil {
				rel := relPath(t.Pkg.PkgPath)
				if strings.HasPrefix(rel, "store/") && !strings.HasSuffix(rel, "/mocks") {
					for c := range a.classesOf(t, depth+1) {
						out[c] = true
					}
				}
			}
		}
		return true
	})
	a.memo[fn] = out
	return out
}

func setStr(m map[string]bool) string {
	var ks []string
	for k := range m {
		ks = append(ks, k)
	}
	sort.Strings(ks)
	return "{" + strings.Join(ks, ", ") + "}"
}

func checkC23(p *Prog, r *Result, tier string) {
	r.Technique = "sibling agreement between the two store.Store implementations: equality of the key-layout constants (constant evaluation), agreement of failure classes per interface method (which error sentinels, mapped to classes by a frozen table, each implementation and its same-backend callees can produce), and an atomicity rule for multi-key conditional creates (one conditional transaction with an inspected result vs. a pipeline of independent SETNX)"
	r.Explanation = "KC every key-layout constant has the same name and value in both backends; FC for every method of store.Store the failure classes {not-found, exists, has-children, invalid-argument} that the etcd implementation can produce are exactly those the redis implementation can produce (sentinels used in value position, followed through same-backend callees; a class on one side only means some operation fails in one backend and succeeds in the other); " +
		"CW in every store function that creates conditionally, no plain write (put/set/delete/update) lies on a path to the conditional create — a refused create has then changed nothing; DC both backends decrease the in-progress counter by exactly one (etcd: Itoa(Atoi(value read) − 1), redis: one DECR); BS0 BindStatus looks at the entity key on every path in both backends (redis: EXISTS before every write); KD same-named helper functions of the two backends build their keys from the same key-layout constants and under the same conditions (a key deleted always in one backend and only sometimes in the other leaves different metadata behind); DL where the etcd implementation turns 'nothing was deleted' into not-found, the redis implementation inspects DEL's count as well; AT a create of several keys is one conditional operation whose outcome is inspected — etcd: a single transaction comparing Version(key) == 0 for every key; redis: must not be a pipeline that issues an independent SETNX per key (the keys that were absent are written although the call reports failure), and the per-key results must be looked at; a multi-key UPDATE tests all keys with one EXISTS before it writes and never uses a conditional command per key."
	r.NotCovered = "equality of the stored metadata after arbitrary sequences; ordering and limits of list results; error classes produced by the servers themselves"
	r.Assumptions = []string{"the failure-class table (printed under tables) maps each sentinel to the class a caller can observe"}
	r.Tables["failure_classes"] = c23Class
	r.Tables["waived_differences"] = c23Waive
	r.min("KC", 12)
	r.min("FC", 30)
	r.min("AT", 4)

	ek, rk := p.ByPath["store/etcdv3"], p.ByPath["store/redis"]
	if ek == nil || rk == nil {
		r.undecided("KC", "store packages", "", "store/etcdv3 or store/redis not found")
		return
	}
	// ---- KC
	consts := func(pk *types.Package) map[string]string {
		out := map[string]string{}
		for _, n := range pk.Scope().Names() {
			if c, ok := pk.Scope().Lookup(n).(*types.Const); ok && c.Val().Kind() == constant.String && (strings.HasSuffix(n, "Key") || strings.HasSuffix(n, "Prefix")) {
				out[n] = constant.StringVal(c.Val())
			}
		}
		return out
	}
	ec, rc := consts(ek.Types), consts(rk.Types)
	names := map[string]bool{}
	for n := range ec {
		names[n] = true
	}
	for n := range rc {
		names[n] = true
	}
	var ns []string
	for n := range names {
		ns = append(ns, n)
	}
	sort.Strings(ns)
	for _, n := range ns {
		ev, eok := ec[n]
		rv, rok := rc[n]
		if n == "keyNotifyPrefix" { // redis keyspace-notification channel, no etcd counterpart
			continue
		}
		key := "key layout / " + n
		switch {
		case !eok || !rok:
			r.bad("KC", key, "", fmt.Sprintf("constant exists in one backend only (etcd %v, redis %v)", eok, rok))
		case ev != rv:
			r.bad("KC", key, "", fmt.Sprintf("etcd %q, redis %q: the same metadata lives under different keys, so the same query returns different results", ev, rv))
		default:
			r.ok("KC", key, "", fmt.Sprintf("%q in both", ev))
		}
	}

	// ---- FC
	var iface *types.Interface
	if sp := p.ByPath["store"]; sp != nil {
		if o := sp.Types.Scope().Lookup("Store"); o != nil {
			iface, _ = o.Type().Underlying().(*types.Interface)
		}
	}
	if iface == nil {
		r.undecided("FC", "store.Store", "", "interface not found")
		return
	}
	an := &c23Analyzer{p: p, memo: map[*FuncNode]map[string]bool{}, stack: map[*FuncNode]bool{}}
	find := func(pkgs []string, recvs []string, name string) *FuncNode {
		for i, pk := range pkgs {
			if fn := p.Fn(pk + "." + recvs[i] + "." + name); fn != nil {
				return fn
			}
		}
		return nil
	}
	for i := 0; i < iface.NumMethods(); i++ {
		m := iface.Method(i).Name()
		if m == "TerminateEmbededStorage" || m == "CreateLock" {
			continue
		}
		E := find([]string{"store/etcdv3", "store/etcdv3", "store/etcdv3/meta"}, []string{"(*Mercury)", "Mercury", "(*ETCD)"}, m)
		R := find([]string{"store/redis", "store/redis"}, []string{"(*Rediaron)", "Rediaron"}, m)
		key := "store.Store." + m + " / both backends can fail in the same classes"
		if E == nil || R == nil {
			r.undecided("FC", key, "", fmt.Sprintf("implementation not found (etcd %v, redis %v)", E != nil, R != nil))
			continue
		}
		ce, cr := an.classesOf(E, 0), an.classesOf(R, 0)
		var diffs []string
		for c := range ce {
			if !cr[c] && !strings.HasPrefix(c, "?") {
				diffs = append(diffs, "etcd can fail with "+c+", redis cannot")
			}
		}
		for c := range cr {
			if !ce[c] && !strings.HasPrefix(c, "?") {
				diffs = append(diffs, "redis can fail with "+c+", etcd cannot")
			}
		}
		for c := range ce {
			if strings.HasPrefix(c, "?") {
				r.undecided("FC", key+" / unclassified sentinel", p.pos(E.Decl), "sentinel "+c[1:]+" is not in the failure-class table")
			}
		}
		for c := range cr {
			if strings.HasPrefix(c, "?") {
				r.undecided("FC", key+" / unclassified sentinel", p.pos(R.Decl), "sentinel "+c[1:]+" is not in the failure-class table")
			}
		}
		sort.Strings(diffs)
		var kept []string
		for _, d := range diffs {
			cls := d[strings.Index(d, "with ")+5 : strings.LastIndex(d, ",")]
			if _, w := c23Waive[m+"/"+cls]; w {
				continue
			}
			kept = append(kept, d)
		}
		if len(kept) == 0 {
			r.ok("FC", key, p.pos(E.Decl), "etcd "+setStr(ce)+" = redis "+setStr(cr))
		} else {
			r.bad("FC", key, p.pos(R.Decl), strings.Join(kept, "; ")+" (etcd "+setStr(ce)+", redis "+setStr(cr)+"): the same operation sequence succeeds in one backend and fails in the other")
		}
	}

	// ---- DL: where etcd reports not-found because nothing was deleted, redis must look at DEL's count too
	r.min("DL", 1)
	for i := 0; i < iface.NumMethods(); i++ {
		m := iface.Method(i).Name()
		E := find([]string{"store/etcdv3", "store/etcdv3"}, []string{"(*Mercury)", "Mercury"}, m)
		R := find([]string{"store/redis", "store/redis"}, []string{"(*Rediaron)", "Rediaron"}, m)
		if E == nil || R == nil {
			continue
		}
		checksDeleted := false
		E.inspectBody(func(n ast.Node) bool {
			if is, ok := n.(*ast.IfStmt); ok && strings.Contains(exprStr(is.Cond), ".Deleted") {
				if rt, ok := is.Body.List[len(is.Body.List)-1].(*ast.ReturnStmt); ok && !isNilIdent(rt.Results[len(rt.Results)-1]) {
					checksDeleted = true
				}
			}
			return true
		})
		if !checksDeleted {
			continue
		}
		key := "store.Store." + m + " / deleting something that does not exist fails in both backends"
		looks := false
		R.inspectBody(func(n ast.Node) bool {
			as, ok := n.(*ast.AssignStmt)
			if !ok || len(as.Rhs) != 1 || len(as.Lhs) != 2 {
				return true
			}
			if !strings.Contains(exprStr(as.Rhs[0]), ".Del(") {
				return true
			}
			if id, ok := as.Lhs[0].(*ast.Ident); ok && id.Name != "_" {
				o := R.objOf(id)
				R.inspectBody(func(x ast.Node) bool {
					if is, ok := x.(*ast.IfStmt); ok && R.usesObj(is.Cond, o) {
						looks = true
					}
					return true
				})
			}
			return true
		})
		r.check(looks, "DL", key, p.pos(R.Decl), "redis tests the number of deleted keys", "etcd returns not-found when the delete removed nothing (resp.Deleted != 1), redis discards DEL's count and reports success: removing a "+strings.ToLower(strings.TrimPrefix(m, "Remove"))+" that does not exist succeeds on redis and fails on etcd")
	}

	// ---- AT
	// etcd: batchCreate compares Version(key) == 0 for every key in one doBatchOp
	if B, P := p.Fn("store/etcdv3/meta.(*ETCD).batchCreate"), p.Fn("store/etcdv3/meta.(*ETCD).batchPut"); B == nil || P == nil {
		r.undecided("AT", "store/etcdv3/meta.(*ETCD).batchCreate", "", "not found")
	} else {
		// batchCreate: for key := range data { limit[key] = {cmpVersion: "="} }; one batchPut(data, limit); !Succeeded -> ErrKeyExists
		perKey := false
		B.inspectBody(func(n ast.Node) bool {
			rs, ok := n.(*ast.RangeStmt)
			if !ok || B.objOf(rs.X) != B.paramObj(1) || rs.Key == nil || len(rs.Body.List) != 1 {
				return true
			}
			if as, ok := rs.Body.List[0].(*ast.AssignStmt); ok && len(as.Lhs) == 1 {
				if _, idx := indexBaseObj(B, as.Lhs[0]); idx != nil && B.objOf(idx) == B.objOf(rs.Key) {
					if lit, ok := unparen(as.Rhs[0]).(*ast.CompositeLit); ok && len(lit.Elts) == 1 {
						if kv, ok := lit.Elts[0].(*ast.KeyValueExpr); ok && exprStr(kv.Key) == "cmpVersion" {
							if v, ok := B.constString(kv.Value); ok && v == "=" {
								perKey = true
							}
						}
					}
				}
			}
			return true
		})
		onePut := len(B.calls(func(f *types.Func) bool { return f == P.Obj })) == 1
		failed := false
		B.inspectBody(func(n ast.Node) bool {
			if is, ok := n.(*ast.IfStmt); ok && strings.HasSuffix(exprStr(is.Cond), ".Succeeded") && strings.HasPrefix(exprStr(is.Cond), "!") {
				if rt, ok := is.Body.List[0].(*ast.ReturnStmt); ok && strings.Contains(exprStr(rt.Results[len(rt.Results)-1]), "ErrKeyExists") {
					failed = true
				}
			}
			return true
		})
		// batchPut: cmpVersion -> Compare(Version(key), condition, 0) into txn.If, one doBatchOp
		cmp := false
		ast.Inspect(P.Body, func(n ast.Node) bool {
			if c, ok := n.(*ast.CallExpr); ok && P.Callee(c) != nil && P.Callee(c).Name() == "Compare" && len(c.Args) == 3 {
				if vc, ok := unparen(c.Args[0]).(*ast.CallExpr); ok && P.Callee(vc) != nil && P.Callee(vc).Name() == "Version" {
					if v, isC := P.constInt(c.Args[2]); isC && v == 0 {
						cmp = true
					}
				}
			}
			return true
		})
		oneOp := len(P.calls(func(f *types.Func) bool { return f.Name() == "doBatchOp" })) == 1
		r.check(perKey && onePut && failed && cmp && oneOp, "AT", "store/etcdv3/meta batchCreate / all keys are created in one transaction that requires each of them to be absent", p.pos(B.Decl), "limit[key] = {version \"=\" 0} for every key; one batchPut → one doBatchOp; !Succeeded → ErrKeyExists",
			fmt.Sprintf("absent-condition per key: %v; one batchPut: %v; failed compare reported: %v; compare on Version(key) with 0: %v; a single batched transaction: %v", perKey, onePut, failed, cmp, oneOp))
	}
	for _, name := range []string{"BatchCreate", "BatchCreateAndDecr"} {
		B := p.Fn("store/redis.(*Rediaron)." + name)
		key := "store/redis " + name + " / a multi-key create is one conditional operation with an inspected outcome"
		if B == nil {
			r.undecided("AT", key, "", "not found")
			continue
		}
		// SETNX (or SET) per key inside a loop: independent commands
		perKey := false
		loopCalls := func(fn *FuncNode, body ast.Node) {
			ast.Inspect(body, func(n ast.Node) bool {
				var lb *ast.BlockStmt
				switch x := n.(type) {
				case *ast.RangeStmt:
					lb = x.Body
				case *ast.ForStmt:
					lb = x.Body
				}
				if lb != nil {
					ast.Inspect(lb, func(y ast.Node) bool {
						if c, ok := y.(*ast.CallExpr); ok && fn.Callee(c) != nil && (fn.Callee(c).Name() == "SetNX" || fn.Callee(c).Name() == "Set") {
							perKey = true
						}
						return true
					})
				}
				return true
			})
		}
		loopCalls(B, B.Decl.Body)
		for _, l := range B.Lits {
			loopCalls(l, l.Body)
		}
		// the one conditional command: MSETNX, or a server-side script whose text tests for existence
		var condCall *ast.CallExpr
		how := ""
		B.inspectBody(func(n ast.Node) bool {
			c, ok := n.(*ast.CallExpr)
			if !ok || B.Callee(c) == nil {
				return true
			}
			f := B.Callee(c)
			switch {
			case f.Name() == "MSetNX" && name == "BatchCreate":
				condCall, how = c, "MSETNX (all keys or none)"
			case (f.Name() == "Run" || f.Name() == "Eval" || f.Name() == "EvalSha") && f.Pkg() != nil && strings.Contains(f.Pkg().Path(), "go-redis"):
				txt := c23ScriptText(p, B, c)
				up := strings.ToUpper(txt)
				if strings.Contains(up, "EXISTS") || strings.Contains(up, "SETNX") || strings.Contains(up, "\"NX\"") || strings.Contains(up, "\"GET\"") {
					condCall, how = c, "server-side script that tests for existence before it writes"
				}
			}
			return true
		})
		// the reply of that command decides between success and an error return
		inspected := false
		if condCall != nil {
			B.inspectBody(func(n ast.Node) bool {
				as, ok := n.(*ast.AssignStmt)
				if !ok || len(as.Rhs) != 1 || len(as.Lhs) != 2 {
					return true
				}
				has := false
				ast.Inspect(as.Rhs[0], func(x ast.Node) bool {
					if x == ast.Node(condCall) {
						has = true
					}
					return true
				})
				id, ok := as.Lhs[0].(*ast.Ident)
				if !has || !ok || id.Name == "_" {
					return true
				}
				o := B.objOf(id)
				B.inspectBody(func(x ast.Node) bool {
					is, ok := x.(*ast.IfStmt)
					if !ok || !B.usesObj(is.Cond, o) || len(is.Body.List) == 0 {
						return true
					}
					if rt, ok := is.Body.List[len(is.Body.List)-1].(*ast.ReturnStmt); ok && len(rt.Results) > 0 && !isNilIdent(rt.Results[len(rt.Results)-1]) {
						inspected = true
					}
					return true
				})
				return true
			})
		}
		switch {
		case perKey:
			r.bad("AT", key, p.pos(B.Decl), "the keys are written by an independent command each (SETNX/SET in a loop, at best inside a MULTI pipeline): when one key already exists the others are written all the same, whatever the call then reports — where etcd fails the whole create and writes nothing")
		case condCall == nil:
			r.bad("AT", key, p.pos(B.Decl), "no single conditional command creates the keys (expected MSETNX or a server-side script that tests for existence)")
		case !inspected:
			r.bad("AT", key, p.pos(condCall), "the reply of the conditional command ("+how+") is not turned into an error: a create that was refused reports success")
		default:
			r.ok("AT", key, p.pos(condCall), how+"; its reply decides between nil and an error")
		}
	}

	// ---- AT (update): a multi-key update is all-or-nothing too: the keys are tested together before anything is written
	// (one EXISTS over all keys whose count is compared with the number of keys, dominating the writes), never by a
	// conditional command per key — SET XX per key overwrites the keys that exist although the update reports failure
	if BU := p.Fn("store/redis.(*Rediaron).BatchUpdate"); BU == nil {
		r.undecided("AT", "store/redis BatchUpdate", "", "not found")
	} else {
		key := "store/redis BatchUpdate / a multi-key update writes nothing unless every key exists"
		perKey := ""
		var firstWrite ast.Node
		scan := func(fn *FuncNode) {
			fn.inspectBody(func(n ast.Node) bool {
				c, ok := n.(*ast.CallExpr)
				if !ok || fn.Callee(c) == nil {
					return true
				}
				switch fn.Callee(c).Name() {
				case "SetXX", "SetNX":
					perKey = fn.Callee(c).Name() + " at " + p.pos(c)
				case "Set", "MSet", "TxPipelined":
					if fn == BU && firstWrite == nil {
						firstWrite = c
					}
				}
				return true
			})
		}
		scan(BU)
		for _, l := range BU.Lits {
			scan(l)
		}
		if firstWrite == nil {
			// the writing tail as a helper of the package (`return r.txSet(ctx, data)`): the call is where the writes happen
			for _, c := range BU.calls(func(f *types.Func) bool { return f.Pkg() == BU.Pkg.Types }) {
				H := p.ByObj[BU.Callee(c)]
				if H == nil || H.Body == nil || H == BU || firstWrite != nil {
					continue
				}
				writes := false
				for _, g := range append([]*FuncNode{H}, H.Lits...) {
					scan(g)
					if len(g.calls(func(f *types.Func) bool { n := f.Name(); return n == "Set" || n == "MSet" || n == "TxPipelined" })) > 0 {
						writes = true
					}
				}
				if writes {
					firstWrite = c
				}
			}
		}
		var guard *ast.IfStmt
		if firstWrite != nil {
			guard, _ = guardedBy(BU, firstWrite, func(fn *FuncNode, is *ast.IfStmt) bool {
				// int(e) != len(keys) where e comes from Exists(...)
				be, ok := unparen(is.Cond).(*ast.BinaryExpr)
				if !ok || be.Op != token.NEQ {
					return false
				}
				hasLen := strings.Contains(exprStr(be.Y), "len(") || strings.Contains(exprStr(be.X), "len(")
				fromExists := false
				ast.Inspect(be, func(x ast.Node) bool {
					if id, ok := x.(*ast.Ident); ok && fn.objOf(id) != nil {
						o := fn.objOf(id)
						fn.inspectBody(func(y ast.Node) bool {
							if as, ok := y.(*ast.AssignStmt); ok && len(as.Rhs) == 1 && strings.Contains(exprStr(as.Rhs[0]), ".Exists(") {
								for _, l := range as.Lhs {
									if fn.objOf(l) == o {
										fromExists = true
									}
								}
							}
							return true
						})
					}
					return true
				})
				return hasLen && fromExists
			})
		}
		switch {
		case perKey != "":
			r.bad("AT", key, p.pos(BU.Decl), "the update issues a conditional command per key ("+perKey+"): when only some of the keys exist those are overwritten and the call reports failure — etcd's transaction (Version != 0 for every key) writes nothing in that case")
		case firstWrite == nil:
			r.undecided("AT", key, p.pos(BU.Decl), "no write found")
		case guard == nil:
			r.bad("AT", key, p.pos(firstWrite), "no `Exists(all keys) != len(keys) → error` dominates the writes: an update of a partly missing key set writes the keys that exist")
		default:
			r.ok("AT", key, p.pos(guard), "`"+exprStr(guard.Cond)+"` over one EXISTS of all keys dominates the writes")
		}
	}

	// ---- BS0: BindStatus looks at the entity on the same paths in both backends. redis tests EXISTS(entityKey) before every
	// write; etcd must not have a branch (e.g. ttl == 0) that returns through a helper which is not handed the entity key
	if EB := p.Fn("store/etcdv3/meta.(*ETCD).BindStatus"); EB == nil {
		r.undecided("BS0", "store/etcdv3/meta BindStatus", "", "not found")
	} else {
		ent := EB.paramObj(1)
		key := "store BindStatus / the entity is looked at on every path in both backends"
		why := ""
		EB.inspectBody(func(n ast.Node) bool {
			rt, ok := n.(*ast.ReturnStmt)
			if !ok || len(rt.Results) != 1 {
				return true
			}
			c, ok := unparen(rt.Results[0]).(*ast.CallExpr)
			if !ok {
				return true
			}
			uses := false
			for _, a := range c.Args {
				if EB.usesObj(a, ent) {
					uses = true
				}
			}
			if !uses {
				cond := ""
				EB.inspectBody(func(y ast.Node) bool {
					if is, ok := y.(*ast.IfStmt); ok && is.Body.Pos() <= rt.Pos() && rt.End() <= is.Body.End() {
						cond = exprStr(is.Cond)
					}
					return true
				})
				why = "etcd's BindStatus returns through `" + exprStr(c.Fun) + "` without the entity key when `" + cond + "`: a status with that TTL is accepted for a node or workload that does not exist, where redis (EXISTS on the entity before every write) answers ErrInvaildCount"
			}
			return true
		})
		r.min("BS0", 1)
		r.check2(why, "BS0", key, p.pos(EB.Decl), "every return of etcd's BindStatus goes through a helper that is handed the entity key")
	}

	// ---- KD: same-named helper functions of the two backends touch the same set of keys: for every function that exists in
	// both store packages under the same name and builds a []string of keys (or a map keyed by them) from the key-layout
	// constants, the multiset of constants used is the same and none of the keys is added under a condition that the
	// sibling does not have
	{
		type keyUse struct {
			consts []string
			cond   map[string]string
		}
		// a helper that exists in one backend only (no function of that name in the other) is part of its callers
		hasSibling := func(f *types.Func) bool {
			return p.Fn("store/redis.(*Rediaron)."+f.Name()) != nil && p.Fn("store/etcdv3.(*Mercury)."+f.Name()) != nil
		}
		var collectIn func(fn *FuncNode, ku *keyUse, seen map[*FuncNode]bool)
		inline := false
		collect := func(fn *FuncNode) *keyUse {
			ku := &keyUse{cond: map[string]string{}}
			collectIn(fn, ku, map[*FuncNode]bool{fn: true})
			sort.Strings(ku.consts)
			// a set: how often a constant is mentioned does not matter
			uniq := ku.consts[:0]
			for i, c := range ku.consts {
				if i == 0 || c != ku.consts[i-1] {
					uniq = append(uniq, c)
				}
			}
			ku.consts = uniq
			return ku
		}
		collectIn = func(fn *FuncNode, ku *keyUse, seen map[*FuncNode]bool) {
			var stack []ast.Node
			ast.Inspect(fn.Body, func(n ast.Node) bool {
				if n == nil {
					stack = stack[:len(stack)-1]
					return false
				}
				stack = append(stack, n)
				if call, ok := n.(*ast.CallExpr); ok {
					if enc := p.enclosing(fn.Pkg, call.Pos()); enc != nil {
						if f := enc.Callee(call); inline && f != nil && f.Pkg() == fn.Pkg.Types && !hasSibling(f) {
							if H := p.ByObj[f]; H != nil && H.Body != nil && !seen[H] && len(seen) < 4 {
								seen[H] = true
								collectIn(H, ku, seen)
							}
						}
					}
				}
				id, ok := n.(*ast.Ident)
				if !ok {
					return true
				}
				c, ok := fn.Pkg.TypesInfo.Uses[id].(*types.Const)
				if !ok || c.Pkg() != fn.Pkg.Types || !(strings.HasSuffix(c.Name(), "Key") || strings.HasSuffix(c.Name(), "Prefix")) {
					return true
				}
				ku.consts = append(ku.consts, c.Name())
				for i := len(stack) - 1; i >= 0; i-- {
					if is, ok := stack[i].(*ast.IfStmt); ok && i+1 < len(stack) && stack[i+1] == ast.Node(is.Body) {
						ku.cond[c.Name()] = exprStr(is.Cond)
						break
					}
				}
				return true
			})
		}
		nk := 0
		for _, ef := range p.sortedFuncs("store/etcdv3") {
			if ef.Decl == nil || ef.Obj == nil || relPath(ef.Pkg.PkgPath) != "store/etcdv3" {
				continue
			}
			sig, _ := ef.Obj.Type().(*types.Signature)
			if sig == nil || sig.Recv() == nil {
				continue
			}
			rf := p.Fn("store/redis.(*Rediaron)." + ef.Obj.Name())
			if rf == nil || rf.Body == nil {
				continue
			}
			// the function's own text first; when the two differ there, once more with each backend's private helpers read as
			// part of their callers (a key built in an extracted helper is still built by the operation)
			inline = false
			eu, ru := collect(ef), collect(rf)
			if len(eu.consts) == 0 && len(ru.consts) == 0 {
				continue
			}
			if strings.Join(eu.consts, ",") != strings.Join(ru.consts, ",") {
				inline = true
				if eu2, ru2 := collect(ef), collect(rf); strings.Join(eu2.consts, ",") == strings.Join(ru2.consts, ",") {
					eu, ru = eu2, ru2
				}
				inline = false
			}
			if ef.Obj.Name() == "SetNodeStatus" {
				// redis writes the node status without looking at the node record: recorded as a C25 known finding (waived
				// here by name, as under FC)
				continue
			}
			nk++
			key := "store " + ef.Obj.Name() + " / both backends build their keys from the same layout constants, under the same conditions"
			why := ""
			if strings.Join(eu.consts, ",") != strings.Join(ru.consts, ",") {
				why = fmt.Sprintf("etcd uses [%s], redis uses [%s]: the two backends read, write or delete different keys for the same operation", strings.Join(eu.consts, " "), strings.Join(ru.consts, " "))
			} else {
				for c, cond := range eu.cond {
					if _, both := ru.cond[c]; !both {
						why = "etcd touches the " + c + " key only under `" + cond + "`, redis always: after the same sequence one backend still holds (or lacks) that key"
					}
				}
				for c, cond := range ru.cond {
					if _, both := eu.cond[c]; !both {
						why = "redis touches the " + c + " key only under `" + cond + "`, etcd always: after the same sequence one backend still holds (or lacks) that key"
					}
				}
			}
			r.check2(why, "KD", key, p.pos(ef.Decl), "["+strings.Join(eu.consts, " ")+"]")
		}
		r.min("KD", 15)
		r.Analysed["sibling_functions_with_keys"] = nk
	}

	// ---- CW: a failed create leaves the store unchanged — nothing is written before the conditional create
	r.min("CW", 8)
	condCreate := map[string]bool{"BatchCreate": true, "batchCreate": true, "BatchCreateAndDecr": true, "Create": true, "MSetNX": true, "SetNX": true}
	plainWrite := map[string]bool{"BatchPut": true, "batchPut": true, "Put": true, "Set": true, "BatchUpdate": true, "Update": true, "BatchDelete": true, "Delete": true, "Del": true,
		"HSet": true, "Expire": true, "Decr": true, "Incr": true, "MSet": true}
	storeCall := func(fn *FuncNode, c *ast.CallExpr, set map[string]bool) bool {
		f := fn.Callee(c)
		if f == nil || !set[f.Name()] || f.Pkg() == nil {
			return false
		}
		pp := f.Pkg().Path()
		return strings.Contains(pp, "go-redis") || strings.HasSuffix(pp, "store/redis") || strings.HasSuffix(pp, "store/etcdv3/meta") || strings.HasSuffix(pp, "store/etcdv3") || strings.Contains(pp, "etcd/client/v3")
	}
	for _, fn := range p.sortedFuncs("store/redis", "store/etcdv3") {
		if fn.Body == nil || fn.Lit != nil || strings.Contains(fn.Name, "embedded") {
			continue
		}
		// the primitives themselves are judged by AT
		if fn.Obj != nil && (condCreate[fn.Obj.Name()] || fn.Obj.Name() == "doBatchOp") {
			continue
		}
		var creates []*ast.CallExpr
		fn.inspectBody(func(n ast.Node) bool {
			if c, ok := n.(*ast.CallExpr); ok && storeCall(fn, c, condCreate) {
				creates = append(creates, c)
			}
			return true
		})
		for i, cc := range creates {
			key := fmt.Sprintf("%s / nothing is written before the conditional create #%d", fn.Name, i+1)
			target := fn.find(cc)
			var offender ast.Node
			// a plain write from which the conditional create can still be reached
			fn.inspectBody(func(n ast.Node) bool {
				c, ok := n.(*ast.CallExpr)
				if !ok || offender != nil || !storeCall(fn, c, plainWrite) {
					return true
				}
				from := fn.find(c)
				if !from.valid() || !target.valid() {
					return true
				}
				if _, reaches := fn.reach(from, true, func(x nodeRef) bool { return x == target }, nil, false); reaches || (from.b == target.b && from.i < target.i) {
					offender = c
				}
				return true
			})
			if offender != nil {
				r.bad("CW", key, p.pos(offender), "`"+exprStr(offender.(*ast.CallExpr).Fun)+"` writes unconditionally on a path that leads to the conditional create at "+p.pos(cc)+": when the create is refused because the entity exists, that write has already changed the store (and, for keys of the existing entity, overwritten its data) — the other backend creates everything in the one conditional operation")
			} else {
				r.ok("CW", key, p.pos(cc), "no plain write can reach the conditional create")
			}
		}
	}

	// ---- DC: the in-progress counter is decreased by exactly one in both backends
	r.min("DC", 2)
	if E := p.Fn("store/etcdv3/meta.(*ETCD).BatchCreateAndDecr"); E == nil {
		r.undecided("DC", "store/etcdv3/meta BatchCreateAndDecr", "", "not found")
	} else {
		key := "store/etcdv3/meta BatchCreateAndDecr / the counter written is the counter read minus one"
		keyObj := E.paramObj(2)
		var val ast.Expr
		E.inspectBody(func(n ast.Node) bool {
			c, ok := n.(*ast.CallExpr)
			if !ok || E.Callee(c) == nil || E.Callee(c).Name() != "OpPut" || len(c.Args) < 2 || E.objOf(c.Args[0]) != keyObj {
				return true
			}
			val = c.Args[1]
			return true
		})
		// single-assignment locals are looked through
		resolve := func(e ast.Expr) (ast.Expr, bool) {
			for depth := 0; depth < 4; depth++ {
				id, ok := unparen(e).(*ast.Ident)
				if !ok {
					return e, true
				}
				o := E.objOf(id)
				var defs []ast.Expr
				multi := false
				E.inspectBody(func(n ast.Node) bool {
					switch x := n.(type) {
					case *ast.AssignStmt:
						for i, l := range x.Lhs {
							if E.objOf(l) == o {
								if len(x.Lhs) == len(x.Rhs) {
									defs = append(defs, x.Rhs[i])
								} else {
									defs = append(defs, x.Rhs[0])
								}
							}
						}
					case *ast.IncDecStmt:
						if E.objOf(x.X) == o {
							multi = true
						}
					}
					return true
				})
				if len(defs) != 1 || multi {
					return e, len(defs) <= 1 && !multi
				}
				e = defs[0]
			}
			return e, true
		}
		okShape, why := false, "no OpPut on the counter key found"
		if val != nil {
			why = "the value put is `" + exprStr(val) + "`"
			if ic, ok := unparen(val).(*ast.CallExpr); ok && E.Callee(ic) != nil && E.Callee(ic).Name() == "Itoa" && len(ic.Args) == 1 {
				arg, single := resolve(ic.Args[0])
				if !single {
					why = "the value put (`" + exprStr(ic.Args[0]) + "`) is assigned more than once: it is not simply the counter read minus one"
				} else if be, ok := unparen(arg).(*ast.BinaryExpr); ok && be.Op == token.SUB {
					if v, isC := E.constInt(be.Y); isC && v == 1 {
						src, single2 := resolve(be.X)
						if c2, ok := unparen(src).(*ast.CallExpr); ok && single2 && E.Callee(c2) != nil && E.Callee(c2).Name() == "Atoi" {
							okShape = true
						} else {
							why = "the minuend `" + exprStr(be.X) + "` is not the parsed counter (Atoi of the value read), assigned once"
						}
					}
				} else {
					why = "the value put is Itoa(`" + exprStr(arg) + "`), not Itoa(counter - 1)"
				}
			}
		}
		r.check(okShape, "DC", key, p.pos(E.Decl), "OpPut(decrKey, Itoa(Atoi(value read) - 1))", why+": redis decreases the counter with DECR (no floor, no other step), so the two backends report different in-progress counts for the same sequence")
	}
	if R := p.Fn("store/redis.(*Rediaron).BatchCreateAndDecr"); R == nil {
		r.undecided("DC", "store/redis BatchCreateAndDecr", "", "not found")
	} else {
		key := "store/redis BatchCreateAndDecr / the counter is decreased with one DECR"
		n, bad := 0, ""
		R.inspectBody(func(x ast.Node) bool {
			c, ok := x.(*ast.CallExpr)
			if !ok || R.Callee(c) == nil {
				return true
			}
			switch R.Callee(c).Name() {
			case "Decr":
				n++
			case "DecrBy", "IncrBy", "Incr":
				bad = R.Callee(c).Name()
			case "Run", "Eval", "EvalSha":
				up := strings.ToUpper(c23ScriptText(p, R, c))
				n += strings.Count(up, "\"DECR\"")
				// the DECR is not inside an if/loop of the script (the guard that returns for a missing counter is closed
				// before it)
				depth := 0
				for _, line := range strings.Split(up, "\n") {
					l := " " + strings.TrimSpace(line) + " "
					if strings.Contains(l, "\"DECR\"") && depth > 0 {
						bad = "DECR inside a conditional or loop of the script"
					}
					if strings.Contains(l, " THEN ") || strings.HasSuffix(strings.TrimSpace(l), " THEN") || strings.Contains(l, " DO ") || strings.HasSuffix(strings.TrimSpace(l), " DO") {
						depth++
					}
					if strings.HasPrefix(strings.TrimSpace(l), "END") {
						depth--
					}
				}
				for _, w := range []string{"\"DECRBY\"", "\"INCR\"", "\"INCRBY\"", "MATH.MAX", "MATH.MIN"} {
					if strings.Contains(up, w) {
						bad = w
					}
				}
			}
			return true
		})
		for _, l := range R.Lits {
			l.inspectBody(func(x ast.Node) bool {
				if c, ok := x.(*ast.CallExpr); ok && l.Callee(c) != nil && l.Callee(c).Name() == "Decr" {
					n++
				}
				return true
			})
		}
		r.check(n == 1 && bad == "", "DC", key, p.pos(R.Decl), "exactly one DECR on the counter key", fmt.Sprintf("%d DECR commands, other counter arithmetic: %q — etcd writes the counter read minus one", n, bad))
	}

}

// c23ScriptText returns the constant text of the script a go-redis Script.Run/Eval call executes:
// the string argument of Eval, or the argument of redis.NewScript in the initialiser of the package-level
// variable Run is called on.
func c23ScriptText(p *Prog, fn *FuncNode, c *ast.CallExpr) string {
	constOf := func(info *types.Info, e ast.Expr) string {
		if tv, ok := info.Types[e]; ok && tv.Value != nil && tv.Value.Kind() == constant.String {
			return constant.StringVal(tv.Value)
		}
		return ""
	}
	info := fn.Pkg.TypesInfo
	for _, a := range c.Args {
		if s := constOf(info, a); s != "" {
			return s
		}
	}
	sel, ok := unparen(c.Fun).(*ast.SelectorExpr)
	if !ok {
		return ""
	}
	id, ok := unparen(sel.X).(*ast.Ident)
	if !ok {
		return ""
	}
	v, ok := info.Uses[id].(*types.Var)
	if !ok {
		return ""
	}
	out := ""
	for _, file := range fn.Pkg.Syntax {
		ast.Inspect(file, func(n ast.Node) bool {
			vs, ok := n.(*ast.ValueSpec)
			if !ok {
				return true
			}
			for i, nm := range vs.Names {
				if info.Defs[nm] == v && i < len(vs.Values) {
					if call, ok := unparen(vs.Values[i]).(*ast.CallExpr); ok {
						for _, a := range call.Args {
							if s := constOf(info, a); s != "" {
								out = s
							}
						}
					}
				}
			}
			return true
		})
	}
	return out
}
