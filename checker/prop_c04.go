package main

// C04 — allocations never overcommit a node's cores or memory: the structural clauses.
//
// The planner's arithmetic for every topology is not computed. What is decided is that each place where cores or memory
// are handed out keeps the books: what is written into a plan is taken off the core it comes from, a core without pieces
// left is not handed out again, a core is in exactly one of the two pools, a NUMA node's plans are computed from that
// node's cores and memory only and are subtracted before the remainder is planned, plans are cut to what the memory
// admits, and a node state is validated before it is written.

import (
	"fmt"
	"go/ast"
	"go/token"
	"go/types"
	"strings"
)

func init() { register("C04", checkC04) }

const c04Sched = "resource/plugins/cpumem/schedule"

// innermostLoopWriting: the innermost for/range statement of fn whose body assigns to an index expression of a map
func loopsWritingMap(fn *FuncNode) []ast.Stmt {
	var out []ast.Stmt
	var visit func(n ast.Node, enclosing ast.Stmt)
	writes := func(body *ast.BlockStmt) bool {
		found := false
		for _, s := range body.List {
			inspectNoLoops(s, func(x ast.Node) bool {
				if as, ok := x.(*ast.AssignStmt); ok {
					for _, l := range as.Lhs {
						if ix, ok := unparen(l).(*ast.IndexExpr); ok {
							if t := fn.typeOf(ix.X); t != nil {
								if _, isMap := t.Underlying().(*types.Map); isMap {
									found = true
								}
							}
						}
					}
				}
				return true
			})
		}
		return found
	}
	visit = func(n ast.Node, enclosing ast.Stmt) {
		ast.Inspect(n, func(x ast.Node) bool {
			switch y := x.(type) {
			case *ast.FuncLit:
				return false
			case *ast.ForStmt:
				if x != n {
					if writes(y.Body) {
						out = append(out, y)
					}
					visit(y.Body, y)
					return false
				}
			case *ast.RangeStmt:
				if x != n {
					if writes(y.Body) {
						out = append(out, y)
					}
					visit(y.Body, y)
					return false
				}
			}
			return true
		})
	}
	visit(fn.Body, nil)
	return out
}

// inspectNoLoops walks n without entering nested loops or literals
func inspectNoLoops(n ast.Node, f func(ast.Node) bool) {
	ast.Inspect(n, func(x ast.Node) bool {
		if x == nil {
			return false
		}
		switch x.(type) {
		case *ast.FuncLit:
			return false
		case *ast.ForStmt, *ast.RangeStmt:
			if x != n {
				return false
			}
		}
		return f(x)
	})
}

func loopBody(s ast.Stmt) []ast.Stmt {
	switch l := s.(type) {
	case *ast.ForStmt:
		return l.Body.List
	case *ast.RangeStmt:
		return l.Body.List
	}
	return nil
}

func checkC04(p *Prog, res *Result, tier string) {
	res.Technique = "book-keeping rules for every place where the CPU planner hands out pieces or memory: path enumeration with a linear symbolic state over the planning loops (value written into a plan = amount taken off the core; re-insertion only with pieces left), pool-membership and move rules, same-key rule for the per-NUMA planning, pairing of each plan with its subtraction from the available resource, truncation and admission guards (dominance), validate-before-write"
	res.Explanation = "PAIR in the full-core planners (heap and affinity variants) every path through the innermost loop writes into the plan exactly what it takes off the core's pieces, and the core is kept for a later plan only on a path past `pieces left > 0`; FRAG a core yields pieces/fragment fragment plans of `fragment` pieces each; " +
		"POOL newHost puts a core into the full pool only if its free pieces are a positive multiple of the share base and into the fragment pool only if it has free pieces; FULL the full-core planners are only ever called with the full pool (h.fullCores), for which that book-keeping is exact; MOVE when full cores become fragment cores they are removed from the full pool in the same step ([:k] with [k:], [0] with [1:]), so no core is planned from both pools; " +
		"NUMA the plans of a NUMA node are computed from that node's cores (numaCPUMap[id], built from the capacity topology with the available pieces of each core) and that node's free memory (NUMAMemory[id]), are labelled with the same id, and each is subtracted (pieces, memory, NUMA memory under the same id) from the available resource before the cross-node remainder is planned; " +
		"MEM the plans of one planning call are cut to availableMemory / memoryRequest, the memory-only allocation is refused when availableMemory / request < count, the CPU allocation is refused when fewer plans than instances exist and uses exactly the first `count` plans; AVL the available resource is capacity minus usage on a deep copy; ADM a re-allocation returns the origin to the pool and then admits the full new request (origin + delta), not the delta, in both branches; " +
		"REC the recorded workload resources carry the plan's core map and NUMA node, and NUMA memory under that node; VAL a node's resource record is validated (usage ≤ capacity per core and per NUMA node) before it is written."
	res.NotCovered = "the arithmetic of the planner for concrete topologies (that the mixed full+fragment combination index-wise pairs disjoint cores follows from MOVE and is not re-derived per input); the choice of the best full/fragment split; integer rounding of requests (C05); termination and index bounds (C06)"
	res.Assumptions = []string{"container/heap and sort behave as documented", "a core's free pieces are ≥ 0 on entry (VAL on every write)"}
	res.min("PAIR", 2)
	res.min("FRAG", 1)
	res.min("POOL", 2)
	res.min("MOVE", 2)
	res.min("NUMA", 5)
	res.min("MEM", 4)
	res.min("AVL", 1)
	res.min("REC", 2)
	res.min("VAL", 1)

	c04Pair(p, res)
	c04Frag(p, res)
	c04Pool(p, res)
	c04Move(p, res)
	c04NUMA(p, res)
	c04Mem(p, res)
	c04Rec(p, res)
	// FULL: the full-core planners only ever see the full pool: their "keep the core while pieces are left" step is exact
	// only for cores whose free pieces are a multiple of the share base, which is what POOL guarantees for h.fullCores
	{
		n := 0
		for _, fn := range p.sortedFuncs(c04Sched) {
			if fn.Body == nil {
				continue
			}
			fn.inspectBody(func(x ast.Node) bool {
				c, ok := x.(*ast.CallExpr)
				if !ok || fn.Callee(c) == nil || len(c.Args) != 2 {
					return true
				}
				nm := fn.Callee(c).Name()
				if nm != "getFullCPUPlans" && nm != "getFullCPUPlansWithAffinity" {
					return true
				}
				n++
				key := fmt.Sprintf("%s / call #%d of %s plans over the full pool only", fn.Name, n, nm)
				arg := unparen(c.Args[0])
				okArg := false
				if sel, ok := arg.(*ast.SelectorExpr); ok && sel.Sel.Name == "fullCores" {
					okArg = true
				}
				// the affinity variant is reached from getFullCPUPlans with its own parameter
				if id, ok := arg.(*ast.Ident); ok && fn.Obj != nil && fn.Obj.Name() == "getFullCPUPlans" && fn.paramIndex(fn.objOf(id)) >= 0 {
					okArg = true
				}
				res.check(okArg, "FULL", key, p.pos(c), "the core list is h.fullCores", "the full-core planner is handed `"+exprStr(arg)+"`, not the full pool: a core whose free pieces are not a multiple of the share base is taken a whole share at a time and kept while `pieces > 0`, so its last plan takes more than it has")
				return true
			})
		}
		res.min("FULL", 3)
		if n == 0 {
			res.undecided("FULL", "calls of the full-core planners", "", "none found")
		}
	}
	// ADM (shared with C10): a re-allocation is admitted by testing the FULL new request (origin + delta) against the pool
	// to which the origin was returned, in the CPU-bound and in the memory branch
	checkReallocAdmission(p, res)
}

// ---- PAIR
func c04Pair(p *Prog, res *Result) {
	for _, name := range []string{c04Sched + ".(*host).getFullCPUPlans", c04Sched + ".(*host).getFullCPUPlansWithAffinity"} {
		fn := p.Fn(name)
		key := name + " / what a plan gives a core is taken off that core, and only a core with pieces left is kept"
		if fn == nil {
			res.undecided("PAIR", key, "", "not found")
			continue
		}
		loops := loopsWritingMap(fn)
		if len(loops) == 0 {
			res.undecided("PAIR", key, p.pos(fn.Decl), "no loop writes a plan")
			continue
		}
		loop := loops[len(loops)-1] // innermost, last found
		body := loopBody(loop)
		// the element: root of the plan's index `<E>.ID`; the plan: the indexed map
		var elemExpr string
		var elemObj types.Object
		var planObj types.Object
		for _, s := range body {
			inspectNoLoops(s, func(x ast.Node) bool {
				as, ok := x.(*ast.AssignStmt)
				if !ok {
					return true
				}
				for _, l := range as.Lhs {
					ix, ok := unparen(l).(*ast.IndexExpr)
					if !ok {
						continue
					}
					sel, ok := unparen(ix.Index).(*ast.SelectorExpr)
					if !ok || sel.Sel.Name != "ID" {
						continue
					}
					planObj = fn.objOf(ix.X)
					elemExpr = exprStr(sel.X)
					if id, ok := unparen(sel.X).(*ast.Ident); ok {
						elemObj = fn.objOf(id)
					}
				}
				return true
			})
		}
		if planObj == nil || elemExpr == "" {
			res.undecided("PAIR", key, p.pos(loop), "the plan is not indexed by <core>.ID")
			continue
		}
		isElem := func(e ast.Expr) bool {
			if elemObj != nil {
				id, ok := unparen(e).(*ast.Ident)
				return ok && fn.objOf(id) == elemObj
			}
			return exprStr(unparen(e)) == elemExpr
		}
		term := func(e ast.Expr) (string, bool) {
			e = unparen(e)
			switch y := e.(type) {
			case *ast.Ident:
				if o := fn.objOf(y); o != nil && isIntLike(o.Type()) {
					if _, isConst := o.(*types.Const); !isConst {
						return y.Name, true
					}
				}
			case *ast.SelectorExpr:
				if isIntLike(fn.typeOf(y)) {
					if isElem(y.X) {
						return "E." + y.Sel.Name, true
					}
					return exprStr(y), true
				}
			case *ast.IndexExpr:
				if fn.objOf(y.X) == planObj {
					if sel, ok := unparen(y.Index).(*ast.SelectorExpr); ok && sel.Sel.Name == "ID" && isElem(sel.X) {
						return "plan[E]", true
					}
				}
			}
			return "", false
		}
		x := &shapeExec{fn: fn, term: term}
		paths := x.run(body, newSpath())
		why := ""
		nKeep, nPaths := 0, 0
		for _, pa := range paths {
			if pa.end == "overflow" {
				why = "path enumeration exceeded its bound"
				break
			}
			given, ok := pa.state["plan[E]"]
			if !ok {
				continue
			}
			nPaths++
			// the pieces the core is left with: either E.pieces was lowered in place, or a new core is built with the remainder
			left := x.read(pa.state, "E.pieces")
			keeps := []lin{}
			for _, ev := range pa.events {
				if ev.call == nil || !isBuiltinCall(fn, ev.call, "append") || len(ev.call.Args) != 2 {
					continue
				}
				a := unparen(ev.call.Args[1])
				if isElem(a) {
					keeps = append(keeps, x.read(ev.state, "E.pieces"))
					continue
				}
				if u, ok := a.(*ast.UnaryExpr); ok && u.Op == token.AND {
					a = unparen(u.X)
				}
				if cl, ok := a.(*ast.CompositeLit); ok {
					for _, el := range cl.Elts {
						if kv, ok := el.(*ast.KeyValueExpr); ok && exprStr(kv.Key) == "pieces" {
							v := x.eval(kv.Value, ev.state)
							keeps = append(keeps, v)
							left = v
						}
					}
				}
			}
			// what was given + what is left = what the core had
			bal := given.add(left).sub(linSym("E.pieces"))
			if len(keeps) == 0 {
				// nothing kept on this path: the balance must still hold for an in-place decrement, or the core is dropped
				if _, lowered := pa.state["E.pieces"]; lowered && !bal.isZero() {
					why = fmt.Sprintf("on the path [%s] the plan gives the core %s but its pieces change by %s", pathLabel(pa), given.String(), deltaOf(pa.state, "E.pieces").String())
				}
				continue
			}
			nKeep++
			if bal.hasOpaque() {
				why = "on the path [" + pathLabel(pa) + "] the balance " + bal.String() + " is not linear"
				continue
			}
			if !bal.isZero() {
				why = fmt.Sprintf("on the path [%s] the core is kept with %s pieces after the plan took %s of its E.pieces: given + left − had = %s, not 0 — the core's pieces are handed out twice (or lost)", pathLabel(pa), left.String(), given.String(), bal.String())
				continue
			}
			// kept only past `left > 0`
			okGuard := false
			for _, c := range pa.conds {
				if (c.op == ">" && c.diff.eq(left)) || (c.op == ">=" && c.diff.eq(left.sub(linConst(1)))) || (c.op == "!=" && c.diff.eq(left)) {
					okGuard = true
				}
			}
			if !okGuard {
				why = "on the path [" + pathLabel(pa) + "] the core is kept for a later plan without `pieces left > 0` having been tested: an exhausted core is handed out again"
			}
		}
		if why == "" && (nPaths == 0 || nKeep == 0) {
			why = fmt.Sprintf("%d path(s) write the plan, %d keep the core: the shape the rule looks for is not there", nPaths, nKeep)
			res.undecided("PAIR", key, p.pos(loop), why)
			continue
		}
		res.check2(why, "PAIR", key, p.pos(loop), fmt.Sprintf("%d writing path(s), %d keeping path(s): given + left = had, kept only past left > 0", nPaths, nKeep))
	}
}

// ---- FRAG
func c04Frag(p *Prog, res *Result) {
	fn := p.Fn(c04Sched + ".(*host).getFragmentCPUPlans")
	key := c04Sched + ".(*host).getFragmentCPUPlans / a core yields pieces/fragment plans of `fragment` pieces"
	if fn == nil {
		res.undecided("FRAG", key, "", "not found")
		return
	}
	frag := fn.paramObj(1)
	why := "no `for i := 0; i < core.pieces/fragment; i++` loop appending {core.ID: fragment} found"
	fn.inspectBody(func(n ast.Node) bool {
		rs, ok := n.(*ast.RangeStmt)
		if !ok || rs.Value == nil {
			return true
		}
		core := fn.objOf(rs.Value)
		for _, s := range rs.Body.List {
			fs, ok := s.(*ast.ForStmt)
			if !ok {
				continue
			}
			be, ok := unparen(fs.Cond).(*ast.BinaryExpr)
			if !ok || be.Op != token.LSS {
				continue
			}
			q, ok := unparen(be.Y).(*ast.BinaryExpr)
			if !ok || q.Op != token.QUO || fn.objOf(q.Y) != frag {
				why = "the number of plans per core is `" + exprStr(be.Y) + "`, not core.pieces / fragment"
				continue
			}
			sel, ok := unparen(q.X).(*ast.SelectorExpr)
			if !ok || sel.Sel.Name != "pieces" || fn.objOf(sel.X) != core {
				why = "the number of plans per core is `" + exprStr(be.Y) + "`, not core.pieces / fragment"
				continue
			}
			// body appends CPUMap{core.ID: fragment}
			okLit := false
			ast.Inspect(fs.Body, func(x ast.Node) bool {
				if cl, ok := x.(*ast.CompositeLit); ok && len(cl.Elts) == 1 {
					if kv, ok := cl.Elts[0].(*ast.KeyValueExpr); ok {
						ks, ok := unparen(kv.Key).(*ast.SelectorExpr)
						if ok && ks.Sel.Name == "ID" && fn.objOf(ks.X) == core && fn.objOf(kv.Value) == frag {
							okLit = true
						}
					}
				}
				return true
			})
			if okLit {
				why = ""
			} else {
				why = "each fragment plan is not {core.ID: fragment}"
			}
		}
		return true
	})
	res.check2(why, "FRAG", key, p.pos(fn.Decl), "for i < core.pieces/fragment { append(CPUMap{core.ID: fragment}) }")
}

// ---- POOL
func c04Pool(p *Prog, res *Result) {
	fn := p.Fn(c04Sched + ".newHost")
	if fn == nil {
		res.undecided("POOL", c04Sched+".newHost", "", "not found")
		return
	}
	share := fn.paramObj(1)
	type site struct {
		field string
		call  *ast.CallExpr
		conds []ast.Expr // conjuncts of the enclosing if conditions (then-branches) and negated else
	}
	var sites []site
	var walk func(stmts []ast.Stmt, conds []ast.Expr)
	walk = func(stmts []ast.Stmt, conds []ast.Expr) {
		for _, s := range stmts {
			switch y := s.(type) {
			case *ast.IfStmt:
				walk(y.Body.List, append(append([]ast.Expr{}, conds...), splitOp(y.Cond, token.LAND)...))
				if y.Else != nil {
					neg := &ast.UnaryExpr{Op: token.NOT, X: y.Cond}
					switch e := y.Else.(type) {
					case *ast.BlockStmt:
						walk(e.List, append(append([]ast.Expr{}, conds...), neg))
					case *ast.IfStmt:
						walk([]ast.Stmt{e}, append(append([]ast.Expr{}, conds...), neg))
					}
				}
			case *ast.SwitchStmt:
				// a tagless switch is the same chain of alternatives
				if y.Tag == nil && y.Init == nil {
					cur := append([]ast.Expr{}, conds...)
					for _, cc := range y.Body.List {
						cl, ok := cc.(*ast.CaseClause)
						if !ok || len(cl.List) > 1 {
							continue
						}
						if len(cl.List) == 1 {
							walk(cl.Body, append(append([]ast.Expr{}, cur...), splitOp(cl.List[0], token.LAND)...))
							cur = append(cur, &ast.UnaryExpr{Op: token.NOT, X: cl.List[0]})
						} else {
							walk(cl.Body, cur)
						}
					}
				}
			case *ast.RangeStmt:
				walk(y.Body.List, conds)
			case *ast.ForStmt:
				walk(y.Body.List, conds)
			case *ast.BlockStmt:
				walk(y.List, conds)
			case *ast.AssignStmt:
				if len(y.Lhs) == 1 && len(y.Rhs) == 1 {
					if c, ok := unparen(y.Rhs[0]).(*ast.CallExpr); ok && isBuiltinCall(fn, c, "append") {
						if sel, ok := unparen(y.Lhs[0]).(*ast.SelectorExpr); ok {
							sites = append(sites, site{sel.Sel.Name, c, conds})
						}
					}
				}
			}
		}
	}
	walk(fn.Body.List, nil)
	has := func(cs []ast.Expr, pred func(*ast.BinaryExpr) bool) bool {
		for _, c := range cs {
			if b, ok := unparen(c).(*ast.BinaryExpr); ok && pred(b) {
				return true
			}
		}
		return false
	}
	nFull, nFrag := 0, 0
	for _, s := range sites {
		switch s.field {
		case "fullCores":
			nFull++
			ge := has(s.conds, func(b *ast.BinaryExpr) bool {
				return (b.Op == token.GEQ && fn.objOf(b.Y) == share) || (b.Op == token.LEQ && fn.objOf(b.X) == share)
			})
			mod := has(s.conds, func(b *ast.BinaryExpr) bool {
				m, ok := unparen(b.X).(*ast.BinaryExpr)
				k, isC := fn.constInt(b.Y)
				return ok && m.Op == token.REM && fn.objOf(m.Y) == share && b.Op == token.EQL && isC && k == 0
			})
			res.check(ge && mod, "POOL", c04Sched+".newHost / a core enters the full pool only with a positive multiple of the share base free", p.pos(s.call), "pieces >= shareBase && pieces % shareBase == 0", "a core is put into the full-core pool without `pieces >= shareBase && pieces % shareBase == 0`: the full-core planner takes a whole share base off it and hands out pieces it does not have")
		case "fragmentCores":
			nFrag++
			pos := has(s.conds, func(b *ast.BinaryExpr) bool {
				k, isC := fn.constInt(b.Y)
				return isC && ((b.Op == token.GTR && k == 0) || (b.Op == token.GEQ && k == 1))
			})
			res.check(pos, "POOL", c04Sched+".newHost / a core enters the fragment pool only with free pieces", p.pos(s.call), "pieces > 0", "a core without free pieces (or with a negative number, i.e. already overcommitted) is put into the fragment pool")
		}
	}
	if nFull == 0 || nFrag == 0 {
		res.undecided("POOL", c04Sched+".newHost / pools", p.pos(fn.Decl), "appends to fullCores/fragmentCores not found")
	}
}

// ---- MOVE
func c04Move(p *Prog, res *Result) {
	fn := p.Fn(c04Sched + ".(*host).getCPUPlans")
	if fn == nil {
		res.undecided("MOVE", c04Sched+".(*host).getCPUPlans", "", "not found")
		return
	}
	// each `h.fragmentCores = append(h.fragmentCores, <from fullCores>)` must be followed in the same block by the
	// matching reslice of h.fullCores before any call to a planner
	n := 0
	var visit func(list []ast.Stmt)
	visit = func(list []ast.Stmt) {
		for i, s := range list {
			switch y := s.(type) {
			case *ast.IfStmt:
				visit(y.Body.List)
				if b, ok := y.Else.(*ast.BlockStmt); ok {
					visit(b.List)
				}
				continue
			case *ast.ForStmt:
				visit(y.Body.List)
				continue
			case *ast.RangeStmt:
				visit(y.Body.List)
				continue
			}
			as, ok := s.(*ast.AssignStmt)
			if !ok || len(as.Lhs) != 1 || len(as.Rhs) != 1 || !strings.HasSuffix(exprStr(as.Lhs[0]), ".fragmentCores") {
				continue
			}
			c, ok := unparen(as.Rhs[0]).(*ast.CallExpr)
			if !ok || !isBuiltinCall(fn, c, "append") || len(c.Args) != 2 {
				continue
			}
			// what is moved: h.fullCores[:k]...  or a variable bound to h.fullCores[0]
			moved := unparen(c.Args[1])
			want := ""
			if se, ok := moved.(*ast.SliceExpr); ok && strings.HasSuffix(exprStr(se.X), ".fullCores") && se.Low == nil && se.High != nil {
				want = exprStr(se.High) + ":"
			} else if id, ok := moved.(*ast.Ident); ok {
				// newFragmentCore := h.fullCores[0]
				for _, prev := range list[:i] {
					if pa, ok := prev.(*ast.AssignStmt); ok && len(pa.Lhs) == 1 && fn.objOf(pa.Lhs[0]) == fn.objOf(id) {
						if ix, ok := unparen(pa.Rhs[0]).(*ast.IndexExpr); ok && strings.HasSuffix(exprStr(ix.X), ".fullCores") {
							if k, isC := fn.constInt(ix.Index); isC && k == 0 {
								want = "1:"
							}
						}
					}
				}
			}
			if want == "" {
				continue
			}
			n++
			key := fmt.Sprintf("%s / full cores turned into fragment cores leave the full pool in the same step (#%d)", fn.Name, n)
			found, planned := false, false
			for _, nx := range list[i+1:] {
				if na, ok := nx.(*ast.AssignStmt); ok && len(na.Lhs) == 1 && strings.HasSuffix(exprStr(na.Lhs[0]), ".fullCores") {
					if se, ok := unparen(na.Rhs[0]).(*ast.SliceExpr); ok && strings.HasSuffix(exprStr(se.X), ".fullCores") && se.High == nil && se.Low != nil && exprStr(se.Low)+":" == want {
						found = true
						break
					}
				}
				ast.Inspect(nx, func(z ast.Node) bool {
					if cc, ok := z.(*ast.CallExpr); ok && fn.Callee(cc) != nil && strings.HasPrefix(fn.Callee(cc).Name(), "get") && strings.HasSuffix(fn.Callee(cc).Name(), "CPUPlans") {
						planned = true
					}
					return true
				})
				if planned {
					break
				}
			}
			res.check(found && !planned, "MOVE", key, p.pos(as), "append(fragmentCores, fullCores["+strings.TrimSuffix(want, ":")+"…]) followed by fullCores = fullCores["+want+"]", "the cores appended to the fragment pool are not removed from the full pool before the next planning call: the same core is planned as a full core and as a fragment core, and gets more pieces taken than it has")
		}
	}
	visit(fn.Body.List)
	if n == 0 {
		res.undecided("MOVE", fn.Name+" / moves", p.pos(fn.Decl), "no conversion of full cores into fragment cores found")
	}
}

// ---- NUMA
func c04NUMA(p *Prog, res *Result) {
	fn := p.Fn(c04Sched + ".GetCPUPlans")
	if fn == nil {
		res.undecided("NUMA", c04Sched+".GetCPUPlans", "", "not found")
		return
	}
	// the per-node loop: a range statement whose body calls doGetCPUPlans
	var loop *ast.RangeStmt
	var call *ast.CallExpr
	fn.inspectBody(func(n ast.Node) bool {
		rs, ok := n.(*ast.RangeStmt)
		if !ok {
			return true
		}
		for _, s := range rs.Body.List {
			inspectNoLoops(s, func(x ast.Node) bool {
				if c, ok := x.(*ast.CallExpr); ok && fn.Callee(c) != nil && fn.Callee(c).Name() == "doGetCPUPlans" {
					loop, call = rs, c
				}
				return true
			})
		}
		return true
	})
	if loop == nil {
		res.undecided("NUMA", fn.Name+" / per-node loop", p.pos(fn.Decl), "no loop calling doGetCPUPlans found")
		return
	}
	idObj := fn.objOf(loop.Value)
	if loop.Value == nil {
		idObj = fn.objOf(loop.Key)
	}
	isID := func(e ast.Expr) bool { id, ok := unparen(e).(*ast.Ident); return ok && fn.objOf(id) == idObj }
	// arguments: (origin, cpuMap, memory, shareBase, maxFragmentCores, cpuRequest, memRequest)
	cpuArg, memArg := unparen(call.Args[1]), unparen(call.Args[2])
	// cpuMap may be a local `cpuMap := numaCPUMap[id]`
	resolve := func(e ast.Expr) ast.Expr {
		if id, ok := e.(*ast.Ident); ok {
			o := fn.objOf(id)
			var def ast.Expr
			n := 0
			fn.inspectBody(func(x ast.Node) bool {
				if as, ok := x.(*ast.AssignStmt); ok && len(as.Lhs) == 1 && len(as.Rhs) == 1 && fn.objOf(as.Lhs[0]) == o {
					n++
					def = unparen(as.Rhs[0])
				}
				return true
			})
			if n == 1 {
				return def
			}
		}
		return e
	}
	cpuArg = resolve(cpuArg)
	var numaMapObj types.Object
	okCPU := false
	if ix, ok := cpuArg.(*ast.IndexExpr); ok && isID(ix.Index) {
		numaMapObj = fn.objOf(ix.X)
		okCPU = numaMapObj != nil
	}
	res.check(okCPU, "NUMA", fn.Name+" / a NUMA node's plans are computed from that node's cores only", p.pos(call), "doGetCPUPlans(…, numaCPUMap[id], …)", "the core map handed to the planner for a NUMA node is `"+exprStr(cpuArg)+"`, not the cores of that node: an instance labelled with the node can be given cores of another node")
	okMem := false
	if ix, ok := memArg.(*ast.IndexExpr); ok && isID(ix.Index) && strings.HasSuffix(exprStr(ix.X), ".NUMAMemory") {
		okMem = true
	}
	res.check(okMem, "NUMA", fn.Name+" / a NUMA node's plans are limited by that node's free memory", p.pos(call), "doGetCPUPlans(…, available.NUMAMemory[id], …)", "the memory handed to the planner for a NUMA node is `"+exprStr(memArg)+"`, not that node's free memory: more instances are placed on the node than its memory holds")
	// numaCPUMap is built from Capacity.NUMA with the available pieces of each core
	if numaMapObj != nil {
		// built: for cpu, node := range <…>.Capacity.NUMA { M[node][cpu] = available<…>.CPUMap[cpu] }, with the text of an
		// expression taken after replacing a helper's parameters by the arguments it is called with
		built := func(fn *FuncNode, mapObj types.Object, textOf func(ast.Expr) string) bool {
			okBuild := false
			fn.inspectBody(func(n ast.Node) bool {
				rs, ok := n.(*ast.RangeStmt)
				if !ok || !strings.HasSuffix(textOf(rs.X), ".Capacity.NUMA") || rs.Key == nil || rs.Value == nil {
					return true
				}
				cpu, node := fn.objOf(rs.Key), fn.objOf(rs.Value)
				ast.Inspect(rs.Body, func(x ast.Node) bool {
					as, ok := x.(*ast.AssignStmt)
					if !ok || len(as.Lhs) != 1 || len(as.Rhs) != 1 {
						return true
					}
					// numaCPUMap[node][cpu] = available.CPUMap[cpu]
					o, ok1 := unparen(as.Lhs[0]).(*ast.IndexExpr)
					if !ok1 || fn.objOf(o.Index) != cpu {
						return true
					}
					in, ok2 := unparen(o.X).(*ast.IndexExpr)
					if !ok2 || fn.objOf(in.X) != mapObj || fn.objOf(in.Index) != node {
						return true
					}
					r, ok3 := unparen(as.Rhs[0]).(*ast.IndexExpr)
					if ok3 && fn.objOf(r.Index) == cpu && strings.HasSuffix(textOf(r.X), ".CPUMap") && strings.HasPrefix(textOf(r.X), "available") {
						okBuild = true
					}
					return true
				})
				return true
			})
			return okBuild
		}
		okBuild := built(fn, numaMapObj, func(e ast.Expr) string { return exprStr(e) })
		if !okBuild {
			// numaCPUMap := helper(resourceInfo.Capacity.NUMA, available.CPUMap): look into the helper
			if def, _ := unparen(fn.singleDef(numaMapObj)).(*ast.CallExpr); def != nil {
				if H := p.ByObj[fn.Callee(def)]; H != nil && H.Body != nil && H.Pkg == fn.Pkg {
					argText := map[types.Object]string{}
					for i, a := range def.Args {
						if po := H.paramObj(i); po != nil {
							argText[po] = exprStr(a)
						}
					}
					textOf := func(e ast.Expr) string {
						if id, ok := unparen(e).(*ast.Ident); ok {
							if t, ok := argText[H.objOf(id)]; ok {
								return t
							}
						}
						return exprStr(e)
					}
					var retObj types.Object
					nret := 0
					inspectNoLit(H.Body, func(x ast.Node) bool {
						if rt, ok := x.(*ast.ReturnStmt); ok {
							nret++
							if len(rt.Results) == 1 {
								retObj = H.objOf(rt.Results[0])
							}
						}
						return true
					})
					if nret == 1 && retObj != nil {
						okBuild = built(H, retObj, textOf)
					}
				}
			}
		}
		res.check(okBuild, "NUMA", fn.Name+" / the per-node core maps hold each core's AVAILABLE pieces under the node the capacity topology puts it in", p.pos(fn.Decl), "for cpu, node := range Capacity.NUMA { numaCPUMap[node][cpu] = available.CPUMap[cpu] }", "the per-node core maps are not filled with the available pieces of each core under its node of the capacity topology: used pieces are planned again, or cores land under the wrong node")
	}
	// every plan appended in the loop: labelled with id, and subtracted
	var lit *ast.CompositeLit
	var sub *ast.CallExpr
	ast.Inspect(loop.Body, func(x ast.Node) bool {
		switch y := x.(type) {
		case *ast.CompositeLit:
			if t := fn.typeOf(y); t != nil && strings.HasSuffix(t.String(), "types.CPUPlan") {
				lit = y
			}
		case *ast.CallExpr:
			if f := fn.Callee(y); f != nil && f.Name() == "Sub" {
				sub = y
			}
		}
		return true
	})
	field := func(cl *ast.CompositeLit, name string) ast.Expr {
		if cl == nil {
			return nil
		}
		for _, el := range cl.Elts {
			if kv, ok := el.(*ast.KeyValueExpr); ok && exprStr(kv.Key) == name {
				return kv.Value
			}
		}
		return nil
	}
	res.check(lit != nil && field(lit, "NUMANode") != nil && isID(field(lit, "NUMANode")), "NUMA", fn.Name+" / a plan computed from a NUMA node's cores is labelled with that node", p.pos(loop), "CPUPlan{NUMANode: id, …}", "the plans computed from a NUMA node's cores are not labelled with that node's id: the workload's NUMA memory is booked on another node")
	okSub, whySub := false, "the plans of a NUMA node are not subtracted from the available resource inside the loop: the cross-node planning that follows hands the same pieces and memory out again"
	if sub != nil && lit != nil && len(sub.Args) == 1 {
		a := unparen(sub.Args[0])
		if u, ok := a.(*ast.UnaryExpr); ok {
			a = unparen(u.X)
		}
		if cl, ok := a.(*ast.CompositeLit); ok {
			planMap := field(lit, "CPUMap")
			cm, mem, nm := field(cl, "CPUMap"), field(cl, "Memory"), field(cl, "NUMAMemory")
			switch {
			case cm == nil || planMap == nil || fn.objOf(cm) == nil || fn.objOf(cm) != fn.objOf(planMap):
				whySub = "the core map subtracted is not the core map of the plan just appended"
			case mem == nil || !strings.HasSuffix(exprStr(mem), ".MemRequest"):
				whySub = "the memory subtracted per plan is not the request's memory"
			case nm == nil:
				whySub = "the NUMA memory of the node is not lowered per plan"
			default:
				if ncl, ok := unparen(nm).(*ast.CompositeLit); ok && len(ncl.Elts) == 1 {
					if kv, ok := ncl.Elts[0].(*ast.KeyValueExpr); ok && isID(kv.Key) && strings.HasSuffix(exprStr(kv.Value), ".MemRequest") {
						okSub = true
					}
				}
				if !okSub {
					whySub = "the NUMA memory subtracted per plan is not {id: MemRequest}"
				}
			}
			// the subtraction is in the same loop as the append (once per plan)
			if okSub {
				inner := false
				ast.Inspect(loop.Body, func(x ast.Node) bool {
					if rs, ok := x.(*ast.RangeStmt); ok && rs.Body.Pos() <= sub.Pos() && sub.End() <= rs.Body.End() && rs.Body.Pos() <= lit.Pos() && lit.End() <= rs.Body.End() {
						inner = true
					}
					return true
				})
				if !inner {
					okSub, whySub = false, "the subtraction does not run once per appended plan"
				}
			}
		}
	}
	res.check(okSub, "NUMA", fn.Name+" / every per-node plan is subtracted (pieces, memory, that node's NUMA memory) before the remainder is planned", p.pos(loop), "available.Sub(&NodeResource{CPUMap: plan, Memory: MemRequest, NUMAMemory: {id: MemRequest}}) once per appended plan", whySub)
	// the cross-node call comes after the loop and uses the same available resource
	okCross := false
	fn.inspectBody(func(n ast.Node) bool {
		if c, ok := n.(*ast.CallExpr); ok && c != call && fn.Callee(c) != nil && fn.Callee(c).Name() == "doGetCPUPlans" && c.Pos() > loop.End() {
			if strings.HasPrefix(exprStr(c.Args[1]), "available") && strings.HasSuffix(exprStr(c.Args[1]), ".CPUMap") && strings.HasPrefix(exprStr(c.Args[2]), "available") && strings.HasSuffix(exprStr(c.Args[2]), ".Memory") {
				okCross = true
			}
		}
		return true
	})
	// both planning calls are asked for the same amounts: the request's CPU request and its MEMORY REQUEST (the amount that
	// is booked per instance) — planning with another amount (e.g. the limit) cuts the plan list against a number that is
	// not what gets booked
	{
		n, bad := 0, ""
		fn.inspectBody(func(x ast.Node) bool {
			c, ok := x.(*ast.CallExpr)
			if !ok || fn.Callee(c) == nil || fn.Callee(c).Name() != "doGetCPUPlans" || len(c.Args) != 7 {
				return true
			}
			n++
			if !strings.HasSuffix(exprStr(c.Args[5]), ".CPURequest") {
				bad = "the CPU amount handed to the planner at " + p.pos(c) + " is `" + exprStr(c.Args[5]) + "`, not the request's CPURequest"
			}
			if !strings.HasSuffix(exprStr(c.Args[6]), ".MemRequest") {
				bad = "the memory amount handed to the planner at " + p.pos(c) + " is `" + exprStr(c.Args[6]) + "`, not the request's MemRequest (which is what each plan is booked with): a node whose free memory lies between the two amounts is planned differently from how it is booked"
			}
			return true
		})
		if n == 0 {
			res.undecided("NUMA", fn.Name+" / planner amounts", p.pos(fn.Decl), "no doGetCPUPlans call")
		} else {
			res.check2(bad, "NUMA", fn.Name+" / every planning call is asked for the request's CPURequest and MemRequest", p.pos(fn.Decl), fmt.Sprintf("%d call(s): (…, req.CPURequest, req.MemRequest)", n))
		}
	}
	res.check(okCross, "NUMA", fn.Name+" / the cross-node plans are computed from what the per-node plans left", p.pos(fn.Decl), "doGetCPUPlans(origin, available.CPUMap, available.Memory, …) after the loop", "the cross-node planning does not start from the available resource that the per-node plans were subtracted from")
}

// ---- MEM / AVL / VAL
func c04Mem(p *Prog, res *Result) {
	// truncation in doGetCPUPlans
	if fn := p.Fn(c04Sched + ".doGetCPUPlans"); fn == nil {
		res.undecided("MEM", c04Sched+".doGetCPUPlans", "", "not found")
	} else {
		avail, memReq := fn.paramObj(2), fn.paramObj(6)
		// the cut may live in a helper that is handed the plans, the available memory and the memory request
		T := fn
		fn.inspectBody(func(n ast.Node) bool {
			c, ok := n.(*ast.CallExpr)
			if !ok || T != fn {
				return true
			}
			H := p.ByObj[fn.Callee(c)]
			if H == nil || H.Body == nil || H.Pkg != fn.Pkg || H == fn {
				return true
			}
			var ha, hm types.Object
			for i, a := range c.Args {
				switch fn.objOf(a) {
				case avail:
					ha = H.paramObj(i)
				case memReq:
					hm = H.paramObj(i)
				}
			}
			if ha != nil && hm != nil {
				T, avail, memReq = H, ha, hm
			}
			return true
		})
		var capObj types.Object
		T.inspectBody(func(n ast.Node) bool {
			as, ok := n.(*ast.AssignStmt)
			if !ok || len(as.Lhs) != 1 || len(as.Rhs) != 1 {
				return true
			}
			found := false
			ast.Inspect(as.Rhs[0], func(x ast.Node) bool {
				if b, ok := x.(*ast.BinaryExpr); ok && b.Op == token.QUO && T.objOf(b.X) == avail && T.objOf(b.Y) == memReq {
					found = true
				}
				return true
			})
			if found && as.Tok == token.DEFINE {
				capObj = T.objOf(as.Lhs[0])
			}
			return true
		})
		// plans[:cap], reached exactly when cap < len(plans) (written either way round, as a branch or after an early return)
		okCut := false
		T.inspectBody(func(n ast.Node) bool {
			se, ok := n.(*ast.SliceExpr)
			if !ok || capObj == nil || se.Low != nil || T.objOf(se.High) != capObj || T.objOf(se.X) == nil {
				return true
			}
			conds, ok := pathConds(T.Body, se)
			if !ok {
				return true
			}
			for _, c := range conds {
				if kind, x, y, ok := normCmp(c.Expr, c.Pos); ok && kind == "lt" && T.objOf(x) == capObj {
					if lc, ok := y.(*ast.CallExpr); ok && isBuiltinCall(T, lc, "len") && len(lc.Args) == 1 && T.objOf(lc.Args[0]) == T.objOf(se.X) {
						okCut = true
					}
				}
			}
			return true
		})
		res.check(capObj != nil && okCut, "MEM", c04Sched+".doGetCPUPlans / the plans of one planning call are cut to what the memory admits", p.pos(fn.Decl), "memoryCapacity := availableMemory / memoryRequest; if memoryCapacity < len(plans) { plans = plans[:memoryCapacity] }", "the plan list is not cut to availableMemory / memoryRequest: more instances are planned than the (node's or NUMA node's) free memory holds")
	}
	const pk = "resource/plugins/cpumem"
	if fn := p.Fn(pk + ".Plugin.doAllocByMemory"); fn == nil {
		res.undecided("MEM", pk+".Plugin.doAllocByMemory", "", "not found")
	} else {
		cnt := fn.paramObj(1)
		var okRet *ast.ReturnStmt
		fn.inspectBody(func(n ast.Node) bool {
			if rt, ok := n.(*ast.ReturnStmt); ok && len(rt.Results) == 3 && isNilIdent(rt.Results[2]) {
				okRet = rt
			}
			return true
		})
		var g *ast.IfStmt
		if okRet != nil {
			g, _ = guardedBy(fn, okRet, func(f *FuncNode, is *ast.IfStmt) bool {
				for _, c := range splitOp(is.Cond, token.LAND) {
					b, ok := unparen(c).(*ast.BinaryExpr)
					if !ok || b.Op != token.LSS {
						continue
					}
					q, ok := unparen(b.X).(*ast.BinaryExpr)
					if !ok || q.Op != token.QUO || !strings.HasSuffix(exprStr(q.X), ".Memory") || !strings.HasSuffix(exprStr(q.Y), ".MemRequest") {
						continue
					}
					// right side: int64(deployCount)
					y := unparen(b.Y)
					if cv, ok := y.(*ast.CallExpr); ok && len(cv.Args) == 1 && f.Callee(cv) == nil {
						y = unparen(cv.Args[0]) // int64(count)
					}
					if id, ok := y.(*ast.Ident); ok && f.objOf(id) == cnt {
						return true
					}
				}
				return false
			})
		}
		res.check(g != nil, "MEM", pk+".Plugin.doAllocByMemory / refused when the free memory does not hold `count` requests", p.pos(fn.Decl), "available.Memory / MemRequest < count → error dominates the success return", "no `available.Memory / MemRequest < count → error` dominates the success return: more memory is allocated than is free")
		// available = GetAvailableResource of the node info parameter
		okAv := false
		fn.inspectBody(func(n ast.Node) bool {
			if c, ok := n.(*ast.CallExpr); ok && fn.Callee(c) != nil && fn.Callee(c).Name() == "GetAvailableResource" {
				okAv = true
			}
			return true
		})
		res.check(okAv, "MEM", pk+".Plugin.doAllocByMemory / the memory tested is the node's AVAILABLE memory", p.pos(fn.Decl), "GetAvailableResource()", "the admission test does not use the available (capacity − usage) resource")
	}
	if fn := p.Fn(pk + ".Plugin.doAllocByCPU"); fn == nil {
		res.undecided("MEM", pk+".Plugin.doAllocByCPU", "", "not found")
	} else {
		cnt := fn.paramObj(1)
		var plans types.Object
		fn.inspectBody(func(n ast.Node) bool {
			if as, ok := n.(*ast.AssignStmt); ok && len(as.Rhs) == 1 && len(as.Lhs) == 1 {
				if c, ok := unparen(as.Rhs[0]).(*ast.CallExpr); ok && fn.Callee(c) != nil && fn.Callee(c).Name() == "GetCPUPlans" {
					plans = fn.objOf(as.Lhs[0])
				}
			}
			return true
		})
		var loop *elemLoop
		fn.inspectBody(func(n ast.Node) bool {
			if el := elemLoopOf(fn, n); el != nil && fn.objOf(el.list) == plans {
				loop = el
			}
			return true
		})
		okGuard, okCut := false, false
		if loop != nil {
			g, _ := guardedBy(fn, loop.list, func(f *FuncNode, is *ast.IfStmt) bool {
				b, ok := unparen(is.Cond).(*ast.BinaryExpr)
				return ok && b.Op == token.LSS && exprStr(b.X) == "len("+plans.Name()+")" && f.objOf(b.Y) == cnt
			})
			okGuard = g != nil
			fn.inspectBody(func(n ast.Node) bool {
				if as, ok := n.(*ast.AssignStmt); ok && len(as.Lhs) == 1 && len(as.Rhs) == 1 && fn.objOf(as.Lhs[0]) == plans {
					if se, ok := unparen(as.Rhs[0]).(*ast.SliceExpr); ok && se.Low == nil && fn.objOf(se.High) == cnt && fn.objOf(se.X) == plans && as.Pos() < loop.stmt.Pos() {
						okCut = true
					}
				}
				return true
			})
		}
		res.check(okGuard && okCut, "MEM", pk+".Plugin.doAllocByCPU / refused when fewer plans than instances exist; exactly the first `count` jointly feasible plans are used", p.pos(fn.Decl), "len(plans) < count → error; plans = plans[:count]; one workload per plan", "the allocation does not refuse `len(plans) < count` or does not use exactly plans[:count]: plans that were not computed together (or more of them than requested) are handed out")
	}
	// AVL
	const tp = "resource/plugins/cpumem/types"
	if fn := p.Fn(tp + ".(*NodeResourceInfo).GetAvailableResource"); fn == nil {
		res.undecided("AVL", tp+".(*NodeResourceInfo).GetAvailableResource", "", "not found")
	} else {
		var cp types.Object
		okSub := false
		fn.inspectBody(func(n ast.Node) bool {
			switch y := n.(type) {
			case *ast.AssignStmt:
				if len(y.Rhs) == 1 && len(y.Lhs) == 1 {
					if c, ok := unparen(y.Rhs[0]).(*ast.CallExpr); ok && fn.Callee(c) != nil && fn.Callee(c).Name() == "DeepCopy" && strings.HasSuffix(exprStr(c.Fun), ".Capacity.DeepCopy") {
						cp = fn.objOf(y.Lhs[0])
					}
				}
			case *ast.CallExpr:
				if f := fn.Callee(y); f != nil && f.Name() == "Sub" && len(y.Args) == 1 && strings.HasSuffix(exprStr(y.Args[0]), ".Usage") {
					if sel, ok := unparen(y.Fun).(*ast.SelectorExpr); ok && cp != nil && fn.objOf(sel.X) == cp {
						okSub = true
					}
				}
			}
			return true
		})
		retOK := false
		fn.inspectBody(func(n ast.Node) bool {
			if rt, ok := n.(*ast.ReturnStmt); ok && len(rt.Results) == 1 && cp != nil && fn.objOf(rt.Results[0]) == cp {
				retOK = true
			}
			return true
		})
		res.check(cp != nil && okSub && retOK, "AVL", tp+".(*NodeResourceInfo).GetAvailableResource / available = a deep copy of the capacity minus the usage", p.pos(fn.Decl), "c := Capacity.DeepCopy(); c.Sub(Usage); return c", "the available resource is not capacity − usage on a copy: planning starts from pieces that are in use (or mutates the capacity record)")
	}
	// VAL
	if fn := p.Fn(pk + ".Plugin.doSetNodeResourceInfo"); fn == nil {
		res.undecided("VAL", pk+".Plugin.doSetNodeResourceInfo", "", "not found")
	} else {
		info := fn.paramObj(2)
		var put *ast.CallExpr
		fn.inspectBody(func(n ast.Node) bool {
			if c, ok := n.(*ast.CallExpr); ok && fn.Callee(c) != nil && (fn.Callee(c).Name() == "Put" || fn.Callee(c).Name() == "BatchPut" || fn.Callee(c).Name() == "Create") {
				put = c
			}
			return true
		})
		var g *ast.IfStmt
		if put != nil {
			g, _ = guardedBy(fn, put, func(f *FuncNode, is *ast.IfStmt) bool {
				as, ok := is.Init.(*ast.AssignStmt)
				if !ok || len(as.Rhs) != 1 {
					return false
				}
				c, ok := unparen(as.Rhs[0]).(*ast.CallExpr)
				if !ok || f.Callee(c) == nil || f.Callee(c).Name() != "Validate" {
					return false
				}
				sel, ok := unparen(c.Fun).(*ast.SelectorExpr)
				return ok && f.objOf(sel.X) == info
			})
		}
		res.check(g != nil, "VAL", pk+".Plugin.doSetNodeResourceInfo / a node's resource record is validated before it is written", p.pos(fn.Decl), "if err := resourceInfo.Validate(); err != nil { return err } dominates the store write", "the record is written without `Validate()` (usage ≤ capacity per core, per NUMA node and in total): an overcommitted state is persisted instead of being refused")
	}
}

// ---- REC
func c04Rec(p *Prog, res *Result) {
	const pk = "resource/plugins/cpumem"
	fn := p.Fn(pk + ".Plugin.doAllocByCPU")
	if fn == nil {
		res.undecided("REC", pk+".Plugin.doAllocByCPU", "", "not found")
		return
	}
	var plan types.Object
	var wl *ast.CompositeLit
	var site litSite
	fn.inspectBody(func(n ast.Node) bool {
		if el := elemLoopOf(fn, n); el != nil && el.elem != nil {
			// the literal in the plan loop, or in a constructor helper called there
			for _, ls := range p.litsVia(fn, el.body, func(owner *FuncNode, cl *ast.CompositeLit) bool {
				t := owner.typeOf(cl)
				return t != nil && strings.HasSuffix(t.String(), "types.WorkloadResource")
			}) {
				wl, plan, site = ls.lit, el.elem, ls
			}
		}
		return true
	})
	if wl == nil {
		res.undecided("REC", fn.Name+" / WorkloadResource literal", p.pos(fn.Decl), "not found")
		return
	}
	get := func(name string) ast.Expr {
		for _, el := range wl.Elts {
			if kv, ok := el.(*ast.KeyValueExpr); ok && exprStr(kv.Key) == name {
				return kv.Value
			}
		}
		return nil
	}
	fromPlan := func(e ast.Expr, f string) bool {
		sel, ok := unparen(e).(*ast.SelectorExpr)
		return ok && sel.Sel.Name == f && site.objIn(fn, sel.X) == plan
	}
	res.check(fromPlan(get("CPUMap"), "CPUMap") && fromPlan(get("NUMANode"), "NUMANode") && strings.HasSuffix(exprStr(get("MemoryRequest")), ".MemRequest") && strings.HasSuffix(exprStr(get("CPURequest")), ".CPURequest"), "REC", fn.Name+" / the recorded workload resources are the plan's cores and node and the request's amounts", p.pos(wl), "CPUMap: plan.CPUMap, NUMANode: plan.NUMANode, CPURequest/MemoryRequest from the request", "the recorded workload resource does not carry the plan's core map / NUMA node or the request's amounts: the usage booked differs from what was planned")
	// NUMAMemory = {NUMANode: MemoryRequest} when a node is set
	okNM := false
	site.owner.inspectBody(func(n ast.Node) bool {
		is, ok := n.(*ast.IfStmt)
		if !ok || !strings.Contains(exprStr(is.Cond), "NUMANode") {
			return true
		}
		for _, s := range is.Body.List {
			if as, ok := s.(*ast.AssignStmt); ok && len(as.Lhs) == 1 && strings.HasSuffix(exprStr(as.Lhs[0]), ".NUMAMemory") {
				if cl, ok := unparen(as.Rhs[0]).(*ast.CompositeLit); ok && len(cl.Elts) == 1 {
					if kv, ok := cl.Elts[0].(*ast.KeyValueExpr); ok && strings.HasSuffix(exprStr(kv.Key), ".NUMANode") && strings.HasSuffix(exprStr(kv.Value), ".MemoryRequest") {
						okNM = true
					}
				}
			}
		}
		return true
	})
	if !okNM {
		// the same through a pure helper: X.NUMAMemory = f(X.NUMANode, X.MemoryRequest) with
		// f(node, mem) = NUMAMemory{node: mem} when node is non-empty, nil otherwise
		site.owner.inspectBody(func(n ast.Node) bool {
			as, ok := n.(*ast.AssignStmt)
			if !ok || len(as.Lhs) != 1 || len(as.Rhs) != 1 || !strings.HasSuffix(exprStr(as.Lhs[0]), ".NUMAMemory") {
				return true
			}
			c, ok := unparen(as.Rhs[0]).(*ast.CallExpr)
			if !ok || len(c.Args) != 2 || !strings.HasSuffix(exprStr(c.Args[0]), "NUMANode") || !strings.HasSuffix(exprStr(c.Args[1]), "MemoryRequest") {
				return true
			}
			H := p.ByObj[site.owner.Callee(c)]
			if H == nil || H.Body == nil || H.Pkg != site.owner.Pkg {
				return true
			}
			pn, pm := H.paramObj(0), H.paramObj(1)
			inspectNoLit(H.Body, func(y ast.Node) bool {
				rt, ok := y.(*ast.ReturnStmt)
				if !ok || len(rt.Results) != 1 {
					return true
				}
				cl, ok := unparen(rt.Results[0]).(*ast.CompositeLit)
				if !ok || len(cl.Elts) != 1 {
					return true
				}
				kv, ok := cl.Elts[0].(*ast.KeyValueExpr)
				if !ok || H.objOf(kv.Key) != pn || H.objOf(kv.Value) != pm || pn == nil || pm == nil {
					return true
				}
				// reached exactly when the node id is non-empty
				if conds, ok := pathConds(H.Body, rt); ok {
					for _, cd := range conds {
						if kind, x, yv, ok := normCmp(cd.Expr, cd.Pos); ok && kind == "lt" {
							// 0 < len(node)
							if k, isC := H.constInt(x); isC && k == 0 {
								if lc, ok := yv.(*ast.CallExpr); ok && isBuiltinCall(H, lc, "len") && len(lc.Args) == 1 && H.objOf(lc.Args[0]) == pn {
									okNM = true
								}
							}
						}
						if be, ok := unparen(cd.Expr).(*ast.BinaryExpr); ok && be.Op == token.NEQ && cd.Pos && H.objOf(be.X) == pn {
							if s, isS := H.constString(be.Y); isS && s == "" {
								okNM = true
							}
						}
					}
				}
				return true
			})
			return true
		})
	}
	res.check(okNM, "REC", fn.Name+" / a workload placed on a NUMA node books its memory on that node", p.pos(fn.Decl), "if NUMANode != \"\" { NUMAMemory = {NUMANode: MemoryRequest} }", "the workload's memory is not booked as NUMA memory of the node it was placed on: the node's NUMA memory can be handed out again")
}
