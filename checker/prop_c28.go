package main

// C28: a failed node's workloads are reported down.

import (
	"fmt"
	"go/ast"
	"go/token"
	"go/types"
	"strings"
)

func init() { register("C28", checkC28) }

func checkC28(p *Prog, r *Result, tier string) {
	r.Technique = "sibling-agreement rule on every site of the redis store that classifies a keyspace action (constant-reference analysis of boolean chains and case clauses, against the etcd delete-event classification), go/cfg path rules on the watcher (every not-alive message reaches SetNode with WorkloadsDown) and on the workload sweep (every status write is dominated by Running=false, Healthy=false)"
	r.Explanation = "CL1 every redis site that turns a keyspace action into a gone/alive or delete decision treats `del` and `expired` alike (both constants occur in the same boolean chain or case list with the same operator); CL2 the etcd node-status stream reports not-alive exactly for delete events; both streams send one status per event; " +
		"M1 dealNodeStatusMessage reaches cluster.SetNode{Nodename: message.Nodename, WorkloadsDown: true} on every path except the two early returns for an errored message and for an alive message; M2 monitor starts the initial sweep, concurrently with (or after) opening the node status stream so that no lapse falls between the two, and handles every message of the stream with dealNodeStatusMessage; " +
		"M3 the initial sweep lists all nodes (All: true), turns a failed status lookup into a not-alive status and hands every node's status to dealNodeStatusMessage; " +
		"W1 SetNode calls the workload sweep under `opts.WorkloadsDown`; W2 in the sweep every SetWorkloadStatus is dominated by the assignments Running=false and Healthy=false on the same status object, with TTL 0 (never expires on its own); W3 the sweep loop has no continue/break/return other than the branch for a workload name that cannot be parsed, so every workload of the node gets that write."
	r.NotCovered = "'eventually' (timing, pool saturation); workloads whose name does not parse are skipped (logged); that a watcher is active at all (C26)"
	r.Assumptions = []string{"A3", "redis keyspace notifications deliver `del` for DEL and `expired` for TTL expiry"}
	r.min("CL1", 3)
	r.min("CL2", 3)
	r.min("M1", 2)
	r.min("M2", 3)
	r.min("M3", 3)
	r.min("W1", 1)
	r.min("W2", 1)

	// ---- CL1
	rpk := p.ByPath["store/redis"]
	var aDel, aExp types.Object
	if rpk != nil {
		aDel, aExp = rpk.Types.Scope().Lookup("actionDel"), rpk.Types.Scope().Lookup("actionExpired")
	}
	if aDel == nil || aExp == nil {
		r.undecided("CL1", "store/redis action constants", "", "actionDel/actionExpired not found")
	} else {
		for _, fn := range p.sortedFuncs("store/redis") {
			k := 0
			// maximal boolean chains and case clauses
			var visit func(n ast.Node, inChain bool)
			report := func(n ast.Node, what string) {
				refs := map[types.Object]token.Token{}
				ast.Inspect(n, func(x ast.Node) bool {
					be, ok := x.(*ast.BinaryExpr)
					if ok && (be.Op == token.EQL || be.Op == token.NEQ) {
						for _, side := range []ast.Expr{be.X, be.Y} {
							if o := fn.objOf(side); o == aDel || o == aExp {
								refs[o] = be.Op
							}
						}
					}
					if id, ok := x.(*ast.Ident); ok {
						if o := fn.objOf(id); (o == aDel || o == aExp) && refs[o] == 0 {
							refs[o] = token.CASE
						}
					}
					return true
				})
				if len(refs) == 0 {
					return
				}
				k++
				key := fmt.Sprintf("%s / action classification #%d (%s)", fn.Name, k, what)
				_, hasD := refs[aDel]
				_, hasE := refs[aExp]
				switch {
				case hasD && hasE && refs[aDel] == refs[aExp]:
					r.ok("CL1", key, p.pos(n), "`del` and `expired` are classified together")
				case hasD && hasE:
					r.bad("CL1", key, p.pos(n), "`del` and `expired` are compared with different operators in one decision")
				case hasE:
					r.bad("CL1", key, p.pos(n), "only `expired` counts as gone here: when the status key is deleted (DEL) the node is still reported alive and its workloads are never marked down; the etcd backend and the other redis sites treat deletion and expiry alike")
				default:
					r.bad("CL1", key, p.pos(n), "only `del` counts as gone here: an expired key is treated as still present")
				}
			}
			visit = func(n ast.Node, inChain bool) {
				if n == nil {
					return
				}
				switch x := n.(type) {
				case *ast.FuncLit:
					if x != fn.Lit {
						return
					}
				case *ast.BinaryExpr:
					if x.Op == token.LAND || x.Op == token.LOR || x.Op == token.EQL || x.Op == token.NEQ {
						if !inChain {
							report(x, "boolean expression")
						}
						return
					}
				case *ast.CaseClause:
					if len(x.List) > 0 {
						has := false
						for _, e := range x.List {
							if o := fn.objOf(e); o == aDel || o == aExp {
								has = true
							}
						}
						if has {
							// all case expressions of this clause together
							refs := map[types.Object]bool{}
							for _, e := range x.List {
								refs[fn.objOf(e)] = true
							}
							k++
							key := fmt.Sprintf("%s / action classification #%d (case clause)", fn.Name, k)
							if refs[aDel] && refs[aExp] {
								r.ok("CL1", key, p.pos(x), "`del` and `expired` share a case")
							} else {
								r.bad("CL1", key, p.pos(x), "`del` and `expired` are handled by different cases: one of them is not treated as the key being gone")
							}
						}
					}
				}
				ast.Inspect(n, func(c ast.Node) bool {
					if c == n || c == nil {
						return true
					}
					visit(c, false)
					return false
				})
			}
			if fn.Lit == nil || true {
				for _, st := range fn.Body.List {
					visit(st, false)
				}
			}
		}
	}

	// ---- CL2: etcd stream + one send per event in both
	for _, be := range []struct{ name, pkg string }{{"store/etcdv3.(*Mercury).NodeStatusStream", "etcd"}, {"store/redis.(*Rediaron).NodeStatusStream", "redis"}} {
		S := p.Fn(be.name)
		if S == nil {
			r.undecided("CL2", be.name, "", "not found")
			continue
		}
		var loop *FuncNode
		for _, l := range S.Lits {
			if len(l.callsDeep(func(f *types.Func) bool { return f.Name() == "GetNode" })) > 0 {
				loop = l
			}
		}
		if loop == nil {
			r.undecided("CL2", be.name+" / producer", p.pos(S.Decl), "no producing closure")
			continue
		}
		// Alive expression
		if be.pkg == "etcd" {
			why := "Alive is not `event.Type != clientv3.EventTypeDelete`"
			ast.Inspect(loop.Body, func(n ast.Node) bool {
				kv, ok := n.(*ast.KeyValueExpr)
				if !ok || exprStr(kv.Key) != "Alive" {
					return true
				}
				if b, ok := unparen(kv.Value).(*ast.BinaryExpr); ok && b.Op == token.NEQ {
					if o := loop.objOf(b.Y); o != nil && o.Name() == "EventTypeDelete" {
						if sel, ok := unparen(b.X).(*ast.SelectorExpr); ok && sel.Sel.Name == "Type" {
							why = ""
						}
					}
				}
				return true
			})
			r.check2(why, "CL2", be.name+" / not alive exactly for delete events", p.pos(loop.Lit), "Alive: event.Type != EventTypeDelete")
		}
		// one unconditional send per event: the send statement's innermost loop body contains it at top level and no continue precedes it
		why := "no send of the status"
		ast.Inspect(loop.Body, func(n ast.Node) bool {
			var body *ast.BlockStmt
			switch l := n.(type) {
			case *ast.RangeStmt:
				body = l.Body
			case *ast.ForStmt:
				body = l.Body
			}
			if body == nil {
				return true
			}
			for i, st := range body.List {
				if _, ok := st.(*ast.SendStmt); ok {
					why = ""
					for _, prev := range body.List[:i] {
						ast.Inspect(prev, func(x ast.Node) bool {
							if b, ok := x.(*ast.BranchStmt); ok && (b.Tok == token.CONTINUE || b.Tok == token.BREAK) {
								why = "an event can be skipped before its status is sent (" + p.pos(b) + ")"
							}
							if _, ok := x.(*ast.ReturnStmt); ok {
								why = "the stream can end before the status of an event is sent (" + p.pos(x) + ")"
							}
							return true
						})
					}
				}
			}
			return true
		})
		r.check2(why, "CL2", be.name+" / one status message per event", p.pos(loop.Lit), "unconditional send in the event loop")
	}

	// ---- M1
	D := p.Fn("selfmon.(*NodeStatusWatcher).dealNodeStatusMessage")
	MON := p.Fn("selfmon.(*NodeStatusWatcher).monitor")
	INI := p.Fn("selfmon.(*NodeStatusWatcher).initNodeStatus")
	if D == nil || MON == nil || INI == nil {
		r.undecided("M1", "selfmon watcher functions", "", "not found")
	} else {
		msg := D.paramObj(1)
		var setNode *ast.CallExpr
		for _, c := range D.calls(func(f *types.Func) bool { return objName(f) == "cluster.Cluster.SetNode" }) {
			setNode = c
		}
		if setNode == nil {
			r.bad("M1", D.Name+" / reaches SetNode", p.pos(D.Decl), "no cluster.SetNode call: a not-alive node never has its workloads marked down")
		} else {
			// options literal
			why := "SetNode options are not {Nodename: message.Nodename, WorkloadsDown: true}"
			if o := D.objOf(setNode.Args[1]); o != nil {
				if def := D.singleDef(o); def != nil {
					e := unparen(def)
					if u, ok := e.(*ast.UnaryExpr); ok {
						e = unparen(u.X)
					}
					if lit, ok := e.(*ast.CompositeLit); ok {
						nameOK, downOK := false, false
						for _, el := range lit.Elts {
							if kv, ok := el.(*ast.KeyValueExpr); ok {
								switch exprStr(kv.Key) {
								case "Nodename":
									if sel, ok := unparen(kv.Value).(*ast.SelectorExpr); ok && D.objOf(sel.X) == msg && sel.Sel.Name == "Nodename" {
										nameOK = true
									}
								case "WorkloadsDown":
									downOK = constBoolName(D, kv.Value) == "true"
								}
							}
						}
						if nameOK && downOK {
							why = ""
						} else if !downOK {
							why = "SetNode is not asked to mark the workloads down (WorkloadsDown is not the constant true)"
						} else {
							why = "SetNode is called for a node other than the one the message is about"
						}
					}
				}
			}
			r.check2(why, "M1", D.Name+" / asks SetNode to mark this node's workloads down", p.pos(setNode), "SetNodeOptions{Nodename: message.Nodename, WorkloadsDown: true}")
			// early returns
			why = ""
			snRef := D.find(setNode)
			D.inspectBody(func(n ast.Node) bool {
				rt, ok := n.(*ast.ReturnStmt)
				if !ok || rt.Pos() > setNode.Pos() {
					return true
				}
				allowed := false
				D.inspectBody(func(x ast.Node) bool {
					is, ok := x.(*ast.IfStmt)
					if !ok || !(is.Body.Pos() <= rt.Pos() && rt.End() <= is.Body.End()) || is.Init != nil {
						return true
					}
					c := unparen(is.Cond)
					if sel, ok := c.(*ast.SelectorExpr); ok && D.objOf(sel.X) == msg && sel.Sel.Name == "Alive" {
						allowed = true
					}
					if b, ok := c.(*ast.BinaryExpr); ok && b.Op == token.NEQ && isNilIdent(b.Y) {
						if sel, ok := unparen(b.X).(*ast.SelectorExpr); ok && D.objOf(sel.X) == msg && sel.Sel.Name == "Error" {
							allowed = true
						}
					}
					return true
				})
				if !allowed {
					why = "return at " + p.pos(rt) + " leaves before SetNode under a condition other than `message.Error != nil` or `message.Alive`: some not-alive messages are dropped"
				}
				return true
			})
			if why == "" {
				// the call is not itself under a condition
				if _, found := D.reach(D.entry(), false, func(nr nodeRef) bool { return nr == snRef }, nil, false); !found {
					why = "SetNode is unreachable"
				}
				D.inspectBody(func(x ast.Node) bool {
					if is, ok := x.(*ast.IfStmt); ok && is.Body.Pos() <= setNode.Pos() && setNode.End() <= is.Body.End() {
						why = "SetNode is only called under the condition `" + exprStr(is.Cond) + "`"
					}
					return true
				})
			}
			r.check2(why, "M1", D.Name+" / every not-alive message without error reaches SetNode", p.pos(D.Decl), "only `message.Error != nil` and `message.Alive` return early")
		}

		// ---- M2
		goInit := false
		MON.inspectBody(func(n ast.Node) bool {
			if c, ok := n.(*ast.CallExpr); ok && MON.Callee(c) == INI.Obj {
				goInit = true
			}
			return true
		})
		r.check(goInit, "M2", MON.Name+" / starts the initial sweep", p.pos(MON.Decl), "initNodeStatus is started", "the initial sweep is not started: a node that lapsed before the watcher became active is never handled")
		// the status watch must be open before the sweep can finish: either the sweep runs in its own goroutine, or the
		// stream is opened before the (synchronous) sweep; otherwise a lapse during the sweep is seen by neither
		{
			var initCall, streamCall *ast.CallExpr
			asyncInit := false
			MON.inspectBody(func(n ast.Node) bool {
				switch x := n.(type) {
				case *ast.GoStmt:
					if MON.Callee(x.Call) == INI.Obj {
						asyncInit, initCall = true, x.Call
					}
				case *ast.CallExpr:
					if MON.Callee(x) == INI.Obj && initCall == nil {
						initCall = x
					}
					if f := MON.Callee(x); f != nil && objName(f) == "cluster.Cluster.NodeStatusStream" {
						streamCall = x
					}
				}
				return true
			})
			why := ""
			switch {
			case initCall == nil || streamCall == nil:
				why = "sweep or stream call not found"
			case !asyncInit && !MON.dominates(MON.find(streamCall), MON.find(initCall)):
				why = "the initial sweep runs to completion before the node status stream is opened: a heartbeat that disappears after the sweep has read that node as alive and before the stream exists is seen by neither, and the node's workloads are never marked down"
			}
			r.check2(why, "M2", MON.Name+" / no gap between the initial sweep and the status stream", p.pos(MON.Decl), "the sweep runs concurrently (go) or after the stream has been opened")
		}
		why := "messages of cluster.NodeStatusStream are not handed to dealNodeStatusMessage"
		var chObj types.Object
		MON.inspectBody(func(n ast.Node) bool {
			if as, ok := n.(*ast.AssignStmt); ok && len(as.Rhs) == 1 {
				if c, ok := unparen(as.Rhs[0]).(*ast.CallExpr); ok && MON.Callee(c) != nil && objName(MON.Callee(c)) == "cluster.Cluster.NodeStatusStream" {
					chObj = MON.objOf(as.Lhs[0])
				}
			}
			return true
		})
		MON.inspectBody(func(n ast.Node) bool {
			cc, ok := n.(*ast.CommClause)
			if !ok || cc.Comm == nil {
				return true
			}
			as, ok := cc.Comm.(*ast.AssignStmt)
			if !ok || len(as.Rhs) != 1 {
				return true
			}
			u, ok := unparen(as.Rhs[0]).(*ast.UnaryExpr)
			if !ok || u.Op != token.ARROW || MON.objOf(u.X) != chObj || chObj == nil {
				return true
			}
			m := MON.objOf(as.Lhs[0])
			for _, st := range cc.Body {
				ast.Inspect(st, func(x ast.Node) bool {
					if c, ok := x.(*ast.CallExpr); ok && MON.Callee(c) == D.Obj && len(c.Args) == 2 && MON.objOf(c.Args[1]) == m {
						// not under a condition on the message other than the closed-channel test
						why = ""
					}
					return true
				})
			}
			return true
		})
		r.check2(why, "M2", MON.Name+" / every stream message is handled", p.pos(MON.Decl), "case message := <-NodeStatusStream(ctx): dealNodeStatusMessage(ctx, message)")

		// ---- M3
		allTrue := false
		ast.Inspect(INI.Body, func(n ast.Node) bool {
			if kv, ok := n.(*ast.KeyValueExpr); ok && exprStr(kv.Key) == "All" {
				enc := p.enclosing(INI.Pkg, kv.Pos())
				allTrue = constBoolName(enc, kv.Value) == "true"
			}
			return true
		})
		r.check(allTrue, "M3", INI.Name+" / the sweep lists all nodes, down ones included", p.pos(INI.Decl), "ListNodesOptions{All: true}", "the sweep does not ask for all nodes: nodes that are already down are exactly the ones it must look at")
		why = "no loop handing every listed node's status to dealNodeStatusMessage"
		fallback := "a failed status lookup is not turned into a not-alive status"
		INI.inspectBody(func(n ast.Node) bool {
			rs, ok := n.(*ast.RangeStmt)
			if !ok {
				return true
			}
			var statusObj types.Object
			for _, st := range rs.Body.List {
				if as, ok := st.(*ast.AssignStmt); ok && len(as.Rhs) == 1 {
					if c, ok := unparen(as.Rhs[0]).(*ast.CallExpr); ok && INI.Callee(c) != nil && objName(INI.Callee(c)) == "cluster.Cluster.GetNodeStatus" {
						statusObj = INI.objOf(as.Lhs[0])
					}
				}
				if es, ok := st.(*ast.ExprStmt); ok && statusObj != nil {
					if c, ok := unparen(es.X).(*ast.CallExpr); ok && INI.Callee(c) == D.Obj && INI.objOf(c.Args[1]) == statusObj {
						why = ""
					}
				}
				if is, ok := st.(*ast.IfStmt); ok && statusObj != nil {
					if b, ok := unparen(is.Cond).(*ast.BinaryExpr); ok && b.Op == token.NEQ && isNilIdent(b.Y) {
						ast.Inspect(is.Body, func(x ast.Node) bool {
							if kv, ok := x.(*ast.KeyValueExpr); ok && exprStr(kv.Key) == "Alive" && constBoolName(INI, kv.Value) == "false" {
								fallback = ""
							}
							return true
						})
					}
				}
			}
			return true
		})
		r.check2(why, "M3", INI.Name+" / every listed node's status is handled", p.pos(INI.Decl), "dealNodeStatusMessage(ctx, status) for each node, unconditionally")
		r.check2(fallback, "M3", INI.Name+" / a node whose status cannot be read counts as not alive", p.pos(INI.Decl), "status = &NodeStatus{…, Alive: false} on lookup error")
	}

	// ---- W1 / W2
	SN := p.Fn("cluster/calcium.(*Calcium).SetNode")
	SW := p.Fn("cluster/calcium.(*Calcium).setAllWorkloadsOnNodeDown")
	if SN == nil || SW == nil {
		r.undecided("W1", "cluster/calcium SetNode / setAllWorkloadsOnNodeDown", "", "not found")
		return
	}
	w1 := "SetNode never calls the workload sweep"
	ast.Inspect(SN.Body, func(n ast.Node) bool {
		is, ok := n.(*ast.IfStmt)
		if !ok {
			return true
		}
		enc := p.enclosing(SN.Pkg, is.Pos())
		for _, st := range is.Body.List {
			if es, ok := st.(*ast.ExprStmt); ok {
				if c, ok := unparen(es.X).(*ast.CallExpr); ok && enc.Callee(c) == SW.Obj {
					if sel, ok := unparen(is.Cond).(*ast.SelectorExpr); ok && sel.Sel.Name == "WorkloadsDown" {
						w1 = ""
					} else {
						w1 = "the workload sweep runs under `" + exprStr(is.Cond) + "`, not under opts.WorkloadsDown"
					}
				}
			}
		}
		return true
	})
	r.check2(w1, "W1", SN.Name+" / WorkloadsDown triggers the sweep over the node's workloads", p.pos(SN.Decl), "if opts.WorkloadsDown { setAllWorkloadsOnNodeDown(ctx, n.Name) }")
	w2 := "no SetWorkloadStatus in the sweep"
	for _, c := range SW.calls(func(f *types.Func) bool { return objName(f) == "store.Store.SetWorkloadStatus" }) {
		w2 = ""
		cref := SW.find(c)
		sel, ok := unparen(c.Args[1]).(*ast.SelectorExpr)
		if !ok {
			w2 = "status argument is not workload.StatusMeta"
			continue
		}
		base := SW.objOf(sel.X)
		for _, f := range []string{"Running", "Healthy"} {
			dom := false
			SW.inspectBody(func(n ast.Node) bool {
				as, ok := n.(*ast.AssignStmt)
				if !ok || len(as.Lhs) != 1 {
					return true
				}
				l, ok := unparen(as.Lhs[0]).(*ast.SelectorExpr)
				if !ok || l.Sel.Name != f {
					return true
				}
				inner, ok := unparen(l.X).(*ast.SelectorExpr)
				if ok && SW.objOf(inner.X) == base && inner.Sel.Name == sel.Sel.Name && constBoolName(SW, as.Rhs[0]) == "false" && SW.dominates(SW.find(as), cref) {
					dom = true
				}
				return true
			})
			if !dom {
				w2 = fmt.Sprintf("the status written for a workload of the failed node is not dominated by %s = false: it can still be reported as %s", f, strings.ToLower(f))
			}
		}
		if v, isC := SW.constInt(c.Args[2]); !isC || v != 0 {
			w2 = "the down status is written with a TTL: it expires and the workload looks undetermined again"
		}
	}
	r.check2(w2, "W2", SW.Name+" / every workload of the node is written as not running and not healthy", p.pos(SW.Decl), "Running=false, Healthy=false dominate SetWorkloadStatus(ctx, status, 0)")
	// W3: no workload of the node is skipped: inside the sweep loop the only way round SetWorkloadStatus is the branch that
	// handles a workload name that cannot be parsed
	{
		w3, n := "", 0
		SW.inspectBody(func(x ast.Node) bool {
			rs, ok := x.(*ast.RangeStmt)
			if !ok {
				return true
			}
			hasSet := false
			ast.Inspect(rs.Body, func(y ast.Node) bool {
				if c, ok := y.(*ast.CallExpr); ok && SW.Callee(c) != nil && objName(SW.Callee(c)) == "store.Store.SetWorkloadStatus" {
					hasSet = true
				}
				return true
			})
			if !hasSet {
				return true
			}
			n++
			var stack []ast.Node
			ast.Inspect(rs.Body, func(y ast.Node) bool {
				if y == nil {
					stack = stack[:len(stack)-1]
					return false
				}
				stack = append(stack, y)
				skip := false
				switch z := y.(type) {
				case *ast.BranchStmt:
					skip = z.Tok == token.CONTINUE || z.Tok == token.BREAK || z.Tok == token.GOTO
				case *ast.ReturnStmt:
					skip = true
				case *ast.FuncLit:
					return false
				}
				if !skip {
					return true
				}
				// allowed: directly inside `if err != nil { … }` where err comes from ParseWorkloadName
				okSkip := false
				for i := len(stack) - 1; i >= 0; i-- {
					if is, ok := stack[i].(*ast.IfStmt); ok {
						c := exprStr(is.Cond)
						if c == "err != nil" {
							// the err tested is the parse error: the previous statement in the loop body assigns it from ParseWorkloadName
							for j, st := range rs.Body.List {
								if st == ast.Stmt(is) && j > 0 {
									if as, ok := rs.Body.List[j-1].(*ast.AssignStmt); ok && len(as.Rhs) == 1 && strings.Contains(exprStr(as.Rhs[0]), "ParseWorkloadName") {
										okSkip = true
									}
								}
							}
						}
						break
					}
				}
				if !okSkip {
					w3 = "the sweep leaves the loop body at " + p.pos(y) + " before SetWorkloadStatus for a workload whose name parses: a workload of the failed node keeps whatever status it had (e.g. running but unhealthy stays `running`)"
				}
				return true
			})
			return true
		})
		if n == 0 {
			r.undecided("W3", SW.Name+" / sweep loop", p.pos(SW.Decl), "no loop with SetWorkloadStatus found")
		} else {
			r.min("W3", 1)
			r.check2(w3, "W3", SW.Name+" / no workload of the node is skipped by the sweep", p.pos(SW.Decl), "the only continue/return in the sweep loop is the unparsable-name branch")
		}
	}
}
