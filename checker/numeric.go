package main

// E6 numeric (rule N1) and the field-source rules of C05 and C31.
//
// N1: a conversion to an integer type whose operand is a non-constant floating-point product or quotient (directly,
// or through a local variable assigned once from such an expression) truncates toward zero; binary floating point
// makes 0.29*100 == 28.999999999999996, so the conversion must go through an explicit rounding function.

import (
	"go/constant"
	"fmt"
	"go/ast"
	"go/token"
	"go/types"
	"sort"
	"strings"
)

type convSite struct {
	fn      *FuncNode
	call    *ast.CallExpr // the conversion T(x)
	operand ast.Expr
	kind    string // "rounded:<func>", "arith" (product/quotient, unrounded), "plain" (no arithmetic: a stored or returned float)
	arith   string // the product/quotient expression that reaches the conversion
}

// both properties that use N1 (C05 "to the nearest piece", C31 "quota equal to its limit") need round-to-nearest;
// Floor/Ceil/Trunc are reported as a deliberate but wrong direction
var roundingFuncs = map[string]bool{"math.Round": true, "math.RoundToEven": true}
var directedFuncs = map[string]bool{"math.Floor": true, "math.Ceil": true, "math.Trunc": true}

func isFloat(t types.Type) bool {
	if t == nil {
		return false
	}
	b, ok := t.Underlying().(*types.Basic)
	return ok && b.Info()&types.IsFloat != 0
}

func isInteger(t types.Type) bool {
	if t == nil {
		return false
	}
	b, ok := t.Underlying().(*types.Basic)
	return ok && b.Info()&types.IsInteger != 0
}

// singleDef returns the only expression assigned to local variable o in fn (nil when it is assigned more than once,
// is a parameter, or is assigned from a multi-value expression).
func (fn *FuncNode) singleDef(o types.Object) ast.Expr {
	var def ast.Expr
	n := 0
	ast.Inspect(fn.Body, func(x ast.Node) bool {
		switch s := x.(type) {
		case *ast.AssignStmt:
			for i, l := range s.Lhs {
				if id, ok := l.(*ast.Ident); ok && fn.Pkg.TypesInfo.ObjectOf(id) == o {
					n++
					if len(s.Lhs) == len(s.Rhs) && (s.Tok == token.DEFINE || s.Tok == token.ASSIGN) {
						def = s.Rhs[i]
					} else {
						n++ // op-assign or tuple: not a single plain definition
					}
				}
			}
		case *ast.ValueSpec:
			for i, id := range s.Names {
				if fn.Pkg.TypesInfo.ObjectOf(id) == o {
					n++
					if i < len(s.Values) && len(s.Names) == len(s.Values) {
						def = s.Values[i]
					}
				}
			}
		case *ast.IncDecStmt:
			if id, ok := s.X.(*ast.Ident); ok && fn.Pkg.TypesInfo.ObjectOf(id) == o {
				n += 2
			}
		}
		return true
	})
	if n == 1 {
		return def
	}
	return nil
}

// floatArith: e (after parens, unary minus and single-definition locals) is a non-constant float product or quotient.
func (fn *FuncNode) floatArith(e ast.Expr, depth int) (ast.Expr, bool) {
	e = unparen(e)
	if tv, ok := fn.Pkg.TypesInfo.Types[e]; ok && tv.Value != nil {
		return nil, false // constant
	}
	switch x := e.(type) {
	case *ast.BinaryExpr:
		if x.Op == token.MUL || x.Op == token.QUO {
			return x, true
		}
		if x.Op == token.ADD || x.Op == token.SUB {
			if a, ok := fn.floatArith(x.X, depth); ok {
				return a, true
			}
			return fn.floatArith(x.Y, depth)
		}
	case *ast.UnaryExpr:
		return fn.floatArith(x.X, depth)
	case *ast.Ident:
		if depth < 3 {
			if v, ok := fn.Pkg.TypesInfo.ObjectOf(x).(*types.Var); ok && !v.IsField() && fn.paramIndex(v) < 0 {
				if d := fn.singleDef(v); d != nil {
					return fn.floatArith(d, depth+1)
				}
			}
		}
	}
	return nil, false
}

// floatToIntConvs lists every conversion of a non-constant float to an integer type in the functions given.
func floatToIntConvs(fns []*FuncNode) []convSite {
	var out []convSite
	for _, fn := range fns {
		if fn.Body == nil {
			continue
		}
		fn := fn
		fn.inspectBody(func(n ast.Node) bool {
			c, ok := n.(*ast.CallExpr)
			if !ok || len(c.Args) != 1 {
				return true
			}
			tv, ok := fn.Pkg.TypesInfo.Types[c.Fun]
			if !ok || !tv.IsType() || !isInteger(tv.Type) {
				return true
			}
			at, ok := fn.Pkg.TypesInfo.Types[c.Args[0]]
			if !ok || at.Value != nil || !isFloat(at.Type) {
				return true
			}
			s := convSite{fn: fn, call: c, operand: c.Args[0], kind: "plain"}
			if ic, ok := unparen(c.Args[0]).(*ast.CallExpr); ok {
				if f := fn.Callee(ic); f != nil && roundingFuncs[fullObjName(f)] {
					s.kind = "rounded:" + fullObjName(f)
				} else if f != nil && directedFuncs[fullObjName(f)] && len(ic.Args) == 1 {
					if a, ok := fn.floatArith(ic.Args[0], 0); ok {
						s.kind, s.arith = "arith", fullObjName(f)+"("+exprStr(a)+")"
					}
				}
			}
			if s.kind == "plain" {
				if a, ok := fn.floatArith(c.Args[0], 0); ok {
					s.kind, s.arith = "arith", exprStr(a)
				}
			}
			out = append(out, s)
			return true
		})
	}
	sort.Slice(out, func(i, j int) bool { return out[i].call.Pos() < out[j].call.Pos() })
	return out
}

// checkN1 emits one obligation per float->int conversion in scope; `must` names constructs that have to be present.
func checkN1(p *Prog, r *Result, scopes []string, want map[string]string) {
	sites := floatToIntConvs(p.sortedFuncs(scopes...))
	seen := map[string]int{}
	var table []string
	for _, s := range sites {
		key := fmt.Sprintf("%s / %s(%s)", s.fn.Name, exprStr(s.call.Fun), exprStr(s.operand))
		seen[key]++
		if seen[key] > 1 {
			key = fmt.Sprintf("%s #%d", key, seen[key])
		}
		table = append(table, key+" -> "+s.kind)
		switch {
		case strings.HasPrefix(s.kind, "rounded:"):
			r.ok("N1", key, p.pos(s.call), "operand is "+strings.TrimPrefix(s.kind, "rounded:")+"(...): explicit rounding")
		case s.kind == "arith":
			r.bad("N1", key, p.pos(s.call), "integer conversion truncates the floating-point product/quotient `"+s.arith+"`: a value such as 0.29*100 = 28.999999999999996 loses a whole unit; it must be rounded to the nearest integer (math.Round)")
		default:
			r.ok("N1", key, p.pos(s.call), "operand carries no product/quotient in this function (stored or returned float)")
		}
	}
	r.Tables["float_to_int_conversions"] = table
	// anchored conversions: the quantity named by the property must still be converted somewhere in its anchor function
	for fnName, why := range want {
		n := 0
		for _, s := range sites {
			if topOf(s.fn).Name == fnName {
				n++
			}
		}
		if n == 0 {
			r.undecided("N1", fnName+" / anchored conversion present", "", "no float->integer conversion left in "+fnName+" ("+why+"): the anchor moved; re-confirm where the quantity is converted")
		}
	}
	// positive instance: the scope must contain at least one conversion recognised as rounded, otherwise the rule
	// would pass on a tree where the recogniser matches nothing
	nr := 0
	for _, s := range sites {
		if strings.HasPrefix(s.kind, "rounded:") {
			nr++
		}
	}
	if nr == 0 {
		r.undecided("N1", strings.Join(scopes, ",")+" / a rounded conversion is recognised", "", "no conversion in scope is recognised as math.Round(...): the recogniser or the anchors changed")
	}
	r.Analysed["float_to_int_conversions"] = len(sites)
}

// ---------------------------------------------------------------------------------------------------------------
// C05

func init() { register("C05", checkC05); register("C31", checkC31) }

func checkC05(p *Prog, r *Result, tier string) {
	r.Technique = "conversion rule N1 over resource/plugins/cpumem (type-checked AST), argument/field provenance rules on GetCPUPlans and doAllocByCPU"
	r.Explanation = "N1 every conversion of a non-constant float to an integer in the cpumem plugin either rounds to nearest (math.Round) or carries no product/quotient: the request->pieces conversion therefore rounds to the nearest piece; " +
		"DIST a full-core plan takes each of its cores once: in the loop that pops the cores of one plan from the heap nothing is pushed back onto that heap (a core with pieces left is pushed back only after the plan is complete), and every popped core is written into the plan with the full share; " +
		"SRC1 every planner call in GetCPUPlans receives the CPURequest field of the same request object the caller passed; SRC2 in doAllocByCPU the recorded WorkloadResource takes CPURequest from that request object and CPUMap/NUMANode from the plan of the same loop iteration, and the engine parameters take the same plan's CPUMap: the recorded amount and the pieces handed out come from one request; SRC3 the same in every function of the plugin that plans and records (re-allocation included): CPURequest/CPULimit of the recorded resource are fields of the request object given to GetCPUPlans."
	r.NotCovered = "that the full/fragment split hands out exactly those pieces on every node state (numeric, not decided); requests not expressible in the share base's precision"
	r.Assumptions = []string{"IEEE-754 double arithmetic; math.Round rounds half away from zero", "A1 no reflection/unsafe"}
	r.min("N1", 1)
	r.min("SRC1", 2)
	r.min("SRC2", 3)
	r.min("DIST", 1)
	checkDistinctCoresPerPlan(p, r)
	// SRC3: wherever the plugin plans pieces for a request and records a workload resource in the same function, the
	// recorded CPU amounts are fields of the very request object the planner was given
	r.min("SRC3", 4)
	for _, fn := range p.sortedFuncs("resource/plugins/cpumem") {
		if fn.Body == nil || fn.Lit != nil || strings.Contains(fn.Name, "/schedule") {
			continue
		}
		var planned types.Object
		fn.inspectBody(func(n ast.Node) bool {
			if c, ok := n.(*ast.CallExpr); ok && fn.Callee(c) != nil && objName(fn.Callee(c)) == "resource/plugins/cpumem/schedule.GetCPUPlans" && len(c.Args) == 5 {
				planned = fn.objOf(c.Args[4])
			}
			return true
		})
		if planned == nil {
			continue
		}
		for _, site := range p.litsVia(fn, fn.Body, func(owner *FuncNode, cl *ast.CompositeLit) bool {
			t := owner.typeOf(cl)
			if t == nil || len(cl.Elts) == 0 {
				return false
			}
			nt, ok := t.(*types.Named)
			return ok && nt.Obj().Name() == "WorkloadResource"
		}) {
			site := site
			cl := site.lit
			// an expression of the literal's owner, as written in fn (a helper's parameter stands for its argument)
			inFn := func(e ast.Expr) ast.Expr {
				if site.owner != fn {
					if a, ok := site.args[site.owner.objOf(e)]; ok {
						return a
					}
				}
				return e
			}
			key := fn.Name + " / the CPU amounts recorded are those of the request the pieces were planned for"
			why := ""
			seen := 0
			for _, el := range cl.Elts {
				kv, ok := el.(*ast.KeyValueExpr)
				if !ok {
					continue
				}
				k := exprStr(kv.Key)
				if k != "CPURequest" && k != "CPULimit" {
					continue
				}
				seen++
				sel, ok := unparen(kv.Value).(*ast.SelectorExpr)
				if !ok || sel.Sel.Name != k || site.objIn(fn, sel.X) != planned {
					why = k + " of the recorded resource is `" + exprStr(kv.Value) + "`, not the " + k + " of `" + planned.Name() + "`, the (validated) request that was handed to the planner: the amount on record and the pieces given can differ (validation raises a bound workload's request to its limit)"
				}
			}
			if seen < 2 && why == "" {
				why = "the recorded resource does not set CPURequest and CPULimit"
			}
			r.check2(why, "SRC3", key, p.pos(cl), "CPURequest/CPULimit: <planned request>.CPURequest/.CPULimit")
			// SRC4: the cores recorded are, on every path, the cores of a plan the planner returned for that request
			var plansObj types.Object
			fn.inspectBody(func(y ast.Node) bool {
				if as, ok := y.(*ast.AssignStmt); ok && len(as.Lhs) == 1 && len(as.Rhs) == 1 {
					if c, ok := unparen(as.Rhs[0]).(*ast.CallExpr); ok && fn.Callee(c) != nil && objName(fn.Callee(c)) == "resource/plugins/cpumem/schedule.GetCPUPlans" {
						plansObj = fn.objOf(as.Lhs[0])
					}
				}
				return true
			})
			isPlanElem := func(e ast.Expr) bool {
				e = unparen(e)
				if ix, ok := e.(*ast.IndexExpr); ok {
					return fn.objOf(ix.X) == plansObj
				}
				id, ok := e.(*ast.Ident)
				if !ok {
					return false
				}
				o := fn.objOf(id)
				okDef := false
				fn.inspectBody(func(y ast.Node) bool {
					switch z := y.(type) {
					case *ast.RangeStmt:
						if z.Value != nil && fn.objOf(z.Value) == o && fn.objOf(z.X) == plansObj {
							okDef = true
						}
					case *ast.AssignStmt:
						if len(z.Lhs) == 1 && len(z.Rhs) == 1 && fn.objOf(z.Lhs[0]) == o {
							if ix, ok := unparen(z.Rhs[0]).(*ast.IndexExpr); ok && fn.objOf(ix.X) == plansObj {
								okDef = true
							}
						}
					}
					return true
				})
				return okDef
			}
			fromPlan := func(e ast.Expr) bool {
				sel, ok := unparen(e).(*ast.SelectorExpr)
				return ok && sel.Sel.Name == "CPUMap" && isPlanElem(inFn(sel.X))
			}
			why4 := ""
			for _, el := range cl.Elts {
				kv, ok := el.(*ast.KeyValueExpr)
				if !ok || exprStr(kv.Key) != "CPUMap" {
					continue
				}
				if fromPlan(kv.Value) {
					continue
				}
				id, ok := unparen(inFn(kv.Value)).(*ast.Ident)
				if !ok {
					why4 = "the recorded CPUMap is `" + exprStr(kv.Value) + "`, not the core map of a plan returned by the planner"
					continue
				}
				o := fn.objOf(id)
				fn.inspectBody(func(y ast.Node) bool {
					as, ok := y.(*ast.AssignStmt)
					if !ok {
						return true
					}
					for i, l := range as.Lhs {
						if fn.objOf(l) == o && i < len(as.Rhs) && !fromPlan(as.Rhs[i]) && !isNilIdent(as.Rhs[i]) {
							// keeping the origin's cores is consistent with the recorded amount exactly when the (validated) request
							// handed to the planner asks for the same CPU amount as the origin: accepted under that very test
							if sel, ok := unparen(as.Rhs[i]).(*ast.SelectorExpr); ok && sel.Sel.Name == "CPUMap" {
								originObj := fn.objOf(sel.X)
								sameAmount := false
								forEachCondBranch(fn.Body, func(cond ast.Expr, body []ast.Stmt, _ ast.Node) {
									if len(body) == 0 || !(body[0].Pos() <= as.Pos() && as.End() <= body[len(body)-1].End()) {
										return
									}
									for _, cj := range splitOp(cond, token.LAND) {
										be, ok := unparen(cj).(*ast.BinaryExpr)
										if !ok || be.Op != token.EQL {
											continue
										}
										l, ok1 := unparen(be.X).(*ast.SelectorExpr)
										rr, ok2 := unparen(be.Y).(*ast.SelectorExpr)
										if ok1 && ok2 && l.Sel.Name == "CPURequest" && rr.Sel.Name == "CPURequest" {
											lo, ro := fn.objOf(l.X), fn.objOf(rr.X)
											if (lo == planned && ro == originObj) || (ro == planned && lo == originObj) {
												sameAmount = true
											}
										}
									}
								})
								if sameAmount {
									continue
								}
							}
							why4 = "on some path the recorded core map is `" + exprStr(as.Rhs[i]) + "` (at " + p.pos(as) + "), not the core map of a plan the planner returned for the request whose amounts are recorded: the amount on record (after validation raised the request to the limit) and the pieces kept can differ"
						}
					}
					return true
				})
			}
			r.check2(why4, "SRC3", fn.Name+" / the cores recorded come from a plan computed for the recorded request", p.pos(cl), "CPUMap: <plan of GetCPUPlans(…, request)>.CPUMap on every path")
		}
	}
	checkN1(p, r, []string{"resource/plugins/cpumem"}, map[string]string{"resource/plugins/cpumem/schedule.(*host).getCPUPlans": "CPU request -> pieces"})

	// SRC1: GetCPUPlans -> doGetCPUPlans(.., req.CPURequest, ..)
	G := p.Fn("resource/plugins/cpumem/schedule.GetCPUPlans")
	D := p.Fn("resource/plugins/cpumem/schedule.doGetCPUPlans")
	if G == nil || D == nil {
		r.undecided("SRC1", "schedule.GetCPUPlans", "", "GetCPUPlans/doGetCPUPlans not found")
	} else {
		var reqObj types.Object
		for i := 0; ; i++ {
			o := G.paramObj(i)
			if o == nil {
				break
			}
			if strings.HasSuffix(o.Type().String(), "WorkloadResourceRequest") {
				reqObj = o
			}
		}
		cpuIdx := -1
		for i := 0; ; i++ {
			o := D.paramObj(i)
			if o == nil {
				break
			}
			if isFloat(o.Type()) {
				cpuIdx = i
			}
		}
		if reqObj == nil || cpuIdx < 0 {
			r.undecided("SRC1", "schedule.GetCPUPlans", p.pos(G.Decl), "request parameter or float parameter of doGetCPUPlans not found")
		} else {
			k := 0
			for _, c := range G.calls(func(f *types.Func) bool { return f == D.Obj }) {
				k++
				key := fmt.Sprintf("%s / planner call #%d receives the request's CPURequest", G.Name, k)
				ok := false
				if cpuIdx < len(c.Args) {
					if sel, isSel := unparen(c.Args[cpuIdx]).(*ast.SelectorExpr); isSel && sel.Sel.Name == "CPURequest" && G.objOf(sel.X) == reqObj {
						ok = true
					}
				}
				r.check(ok, "SRC1", key, p.pos(c), "argument is req.CPURequest", "the planner is driven by `"+exprStr(c.Args[cpuIdx])+"`, not by the request's CPURequest: the pieces planned no longer correspond to the amount that is recorded")
			}
		}
	}
	// SRC2: doAllocByCPU
	A := p.Fn("resource/plugins/cpumem.Plugin.doAllocByCPU")
	if A == nil {
		r.undecided("SRC2", "cpumem.Plugin.doAllocByCPU", "", "not found")
		return
	}
	var reqObj, plansObj, planVar types.Object
	var loop *elemLoop
	A.inspectBody(func(n ast.Node) bool {
		if x, ok := n.(*ast.AssignStmt); ok {
			if len(x.Rhs) == 1 && len(x.Lhs) == 1 {
				if c, ok := unparen(x.Rhs[0]).(*ast.CallExpr); ok {
					if f := A.Callee(c); f != nil && G != nil && f == G.Obj && len(c.Args) > 0 {
						plansObj = A.objOf(x.Lhs[0])
						reqObj = A.objOf(c.Args[len(c.Args)-1])
					}
				}
			}
		}
		// the loop over the plans, with a range value or an index (`plan := plans[i]`)
		if el := elemLoopOf(A, n); el != nil && plansObj != nil && A.objOf(el.list) == plansObj && el.elem != nil {
			loop, planVar = el, el.elem
		}
		return true
	})
	if reqObj == nil || loop == nil || planVar == nil {
		r.undecided("SRC2", A.Name, p.pos(A.Decl), "shape `plans := GetCPUPlans(.., req); for _, plan := range plans {..}` not found")
		return
	}
	fieldFrom := func(lit *ast.CompositeLit, field string) (ast.Expr, bool) {
		for _, el := range lit.Elts {
			if kv, ok := el.(*ast.KeyValueExpr); ok {
				if id, ok := kv.Key.(*ast.Ident); ok && id.Name == field {
					return kv.Value, true
				}
			}
		}
		return nil, false
	}
	nLit := 0
	// the literals of the plan loop, or of a constructor helper called there (its parameters stand for the arguments)
	for _, site := range p.litsVia(A, loop.body, func(owner *FuncNode, cl *ast.CompositeLit) bool {
		t := owner.typeOf(cl)
		return t != nil && (strings.HasSuffix(t.String(), "cpumem/types.WorkloadResource") || strings.HasSuffix(t.String(), "cpumem/types.EngineParams"))
	}) {
		site := site
		lit := site.lit
		isSelOf := func(e ast.Expr, base types.Object, name string) bool {
			sel, ok := unparen(e).(*ast.SelectorExpr)
			return ok && sel.Sel.Name == name && site.objIn(A, sel.X) == base
		}
		tn := site.owner.typeOf(lit).String()
		switch {
		case strings.HasSuffix(tn, "cpumem/types.WorkloadResource"):
			nLit++
			v, ok := fieldFrom(lit, "CPURequest")
			r.check(ok && isSelOf(v, reqObj, "CPURequest"), "SRC2", A.Name+" / recorded CPURequest comes from the planned request", p.pos(lit),
				"CPURequest: req.CPURequest (the object passed to GetCPUPlans)", "the recorded CPURequest is `"+exprStr(v)+"`, not the CPURequest of the request the plan was computed for: the recorded amount disagrees with the pieces given")
			v, ok = fieldFrom(lit, "CPUMap")
			r.check(ok && isSelOf(v, planVar, "CPUMap"), "SRC2", A.Name+" / recorded CPUMap comes from this iteration's plan", p.pos(lit),
				"CPUMap: plan.CPUMap of the loop variable", "the recorded CPUMap is `"+exprStr(v)+"`, not this iteration's plan")
		case strings.HasSuffix(tn, "cpumem/types.EngineParams"):
			v, ok := fieldFrom(lit, "CPUMap")
			r.check(ok && isSelOf(v, planVar, "CPUMap"), "SRC2", A.Name+" / engine CPUMap comes from this iteration's plan", p.pos(lit),
				"CPUMap: plan.CPUMap of the loop variable", "the engine is given `"+exprStr(v)+"`, not the plan that is recorded")
		}
	}
	if nLit == 0 {
		r.undecided("SRC2", A.Name, p.pos(loop.stmt), "no WorkloadResource literal in the plan loop")
	}
}

// ---------------------------------------------------------------------------------------------------------------
// C31

func checkC31(p *Prog, r *Result, tier string) {
	r.Technique = "conversion rule N1 over engine/docker, assignment-source rules on the fields of the container resource settings in makeResourceSetting, who-builds / who-calls rule for the settings"
	r.Explanation = "N1 the quota and share conversions in engine/docker round explicitly; FS every assignment to Memory and MemorySwap takes the memory parameter itself, CpusetMems the NUMA parameter, CpusetCpus a Join of exactly the keys of the core map; FQ on the bound, not remapped branch the quota is set to -1 (unrestricted) after any other quota assignment, and every quota assignment is 0, -1 or the rounded limit*period; FO the only function of engine/docker that writes these fields is makeResourceSetting and both the create and the update entry points call it."
	r.NotCovered = "what the Docker daemon does with the settings; IOPS options; that the resource plugin's parameters reach the engine unchanged (C10/C12 territory)"
	r.Assumptions = []string{"IEEE-754 double arithmetic; math.Round", "A4 docker SDK field semantics (CPUQuota -1 = unrestricted, CpusetCpus comma list)"}
	r.min("N1", 2)
	r.min("FS", 7)
	r.min("FQ", 2)
	r.min("FO", 3)
	r.min("UA", 2)
	checkN1(p, r, []string{"engine/docker"}, map[string]string{"engine/docker.makeResourceSetting": "CPU limit -> quota"})
	M := p.Fn("engine/docker.makeResourceSetting")
	if M == nil {
		r.undecided("FS", "engine/docker.makeResourceSetting", "", "not found")
		return
	}
	param := func(name string) types.Object {
		for i := 0; ; i++ {
			o := M.paramObj(i)
			if o == nil {
				return nil
			}
			if o.Name() == name {
				return o
			}
		}
	}
	// parameters are identified by type+position: (cpu float64, memory int64, cpuMap map, numaNode string, ...)
	var cpuP, memP, mapP, numaP types.Object
	for i := 0; ; i++ {
		o := M.paramObj(i)
		if o == nil {
			break
		}
		switch t := o.Type().Underlying().(type) {
		case *types.Basic:
			switch {
			case t.Info()&types.IsFloat != 0 && cpuP == nil:
				cpuP = o
			case t.Info()&types.IsInteger != 0 && memP == nil:
				memP = o
			case t.Kind() == types.String && numaP == nil:
				numaP = o
			}
		case *types.Map:
			if mapP == nil {
				if b, ok := t.Elem().Underlying().(*types.Basic); ok && b.Info()&types.IsInteger != 0 {
					mapP = o
				}
			}
		}
	}
	_ = param
	if cpuP == nil || memP == nil || mapP == nil || numaP == nil {
		r.undecided("FS", M.Name, p.pos(M.Decl), "parameters (cpu float, memory int, core map, numa string) not identified")
		return
	}
	// the settings variable: local of type container.Resources that is returned
	var resObj types.Object
	M.inspectBody(func(n ast.Node) bool {
		if rt, ok := n.(*ast.ReturnStmt); ok && len(rt.Results) == 1 {
			resObj = M.objOf(rt.Results[0])
		}
		return true
	})
	if resObj == nil {
		r.undecided("FS", M.Name, p.pos(M.Decl), "returned settings variable not found")
		return
	}
	type asg struct {
		field string
		rhs   ast.Expr
		at    *ast.AssignStmt
	}
	var asgs []asg
	M.inspectBody(func(n ast.Node) bool {
		if a, ok := n.(*ast.AssignStmt); ok && len(a.Lhs) == len(a.Rhs) {
			for i, l := range a.Lhs {
				if sel, ok := unparen(l).(*ast.SelectorExpr); ok && M.objOf(sel.X) == resObj {
					asgs = append(asgs, asg{sel.Sel.Name, a.Rhs[i], a})
				}
			}
		}
		return true
	})
	byField := map[string][]asg{}
	for _, a := range asgs {
		byField[a.field] = append(byField[a.field], a)
	}
	srcIs := func(field string, want types.Object, what string) {
		key := M.Name + " / " + field + " is " + what
		as := byField[field]
		if len(as) == 0 {
			r.bad("FS", key, p.pos(M.Decl), field+" is never set")
			return
		}
		for _, a := range as {
			if id, ok := unparen(a.rhs).(*ast.Ident); !ok || M.objOf(id) != want || a.at.Tok != token.ASSIGN {
				r.bad("FS", key, p.pos(a.at), field+" is assigned `"+exprStr(a.rhs)+"`, not "+what)
				return
			}
		}
		r.ok("FS", key, p.pos(as[0].at), fmt.Sprintf("%d assignment(s), each `= %s`", len(as), want.Name()))
	}
	srcIs("Memory", memP, "the memory limit parameter")
	srcIs("MemorySwap", memP, "the memory limit parameter")
	// the memory caps are set for EVERY parameter set: the assignments are plain statements of the function body, not under a
	// condition on the value (a cap that is left at 0 means "unchanged" to the engine on update: the old limit stays)
	for _, field := range []string{"Memory", "MemorySwap"} {
		key := M.Name + " / " + field + " is set whatever the value is"
		top := false
		for _, st := range M.Body.List {
			if a, ok := st.(*ast.AssignStmt); ok {
				for _, l := range a.Lhs {
					if sel, ok := unparen(l).(*ast.SelectorExpr); ok && M.objOf(sel.X) == resObj && sel.Sel.Name == field {
						top = true
					}
				}
			}
		}
		r.check(top, "FS", key, p.pos(M.Decl), "unconditional statement of makeResourceSetting", field+" is only assigned under a condition: for the parameter sets that fail it (a limit of 0, or the update path's stand-in for 'unlimited') the field stays 0, which the engine reads as 'leave unchanged' on update — the previous cap keeps being enforced")
	}
	// update path: a memory limit of 0 is replaced by a positive stand-in for "unlimited" before the translation
	if U := p.Fn("engine/docker.(*Engine).VirtualizationUpdateResource"); U != nil {
		key := U.Name + " / a memory limit of 0 becomes an explicit non-zero 'unlimited' value on update"
		why := "no `if memory == 0 { memory = <max> }` found"
		U.inspectBody(func(n ast.Node) bool {
			is, ok := n.(*ast.IfStmt)
			if !ok {
				return true
			}
			be, ok := unparen(is.Cond).(*ast.BinaryExpr)
			if !ok || be.Op != token.EQL {
				return true
			}
			if k, isC := U.constInt(be.Y); !isC || k != 0 {
				return true
			}
			for _, st := range is.Body.List {
				if a, ok := st.(*ast.AssignStmt); ok && len(a.Lhs) == 1 && len(a.Rhs) == 1 && U.objOf(a.Lhs[0]) == U.objOf(be.X) && strings.Contains(strings.ToLower(exprStr(be.X)), "mem") {
					if tv, ok := U.Pkg.TypesInfo.Types[a.Rhs[0]]; ok && tv.Value != nil {
						if v, exact := constant.Int64Val(constant.ToInt(tv.Value)); exact && v != 0 {
							why = "" // a positive maximum or the engine's -1, either lifts the cap explicitly
						} else {
							why = "a memory limit of 0 is replaced by `" + exprStr(a.Rhs[0]) + "`, which is still 0: the engine reads 0 as 'leave unchanged' and the old cap stays"
						}
					}
				}
			}
			return true
		})
		r.check2(why, "FS", key, p.pos(U.Decl), "if memory == 0 { memory = maxMemory }")
	}
	srcIs("CpusetMems", numaP, "the NUMA node parameter")
	// CpusetCpus = strings.Join(ids, ",") where ids collects exactly the range keys of the core map
	{
		key := M.Name + " / CpusetCpus lists exactly the allocated cores"
		as := byField["CpusetCpus"]
		ok, why := false, "CpusetCpus is never set"
		if len(as) == 1 {
			why = "CpusetCpus is assigned `" + exprStr(as[0].rhs) + "`"
			if c, isC := unparen(as[0].rhs).(*ast.CallExpr); isC && len(c.Args) == 2 {
				if f := M.Callee(c); f != nil && fullObjName(f) == "strings.Join" {
					sep, _ := M.constString(c.Args[1])
					ids := M.objOf(c.Args[0])
					// ids is appended only inside `for k := range coreMap` with k
					good, n := true, 0
					M.inspectBody(func(x ast.Node) bool {
						rs, isR := x.(*ast.RangeStmt)
						if !isR || M.objOf(rs.X) != mapP || rs.Key == nil {
							return true
						}
						kObj := M.objOf(rs.Key)
						for _, st := range rs.Body.List {
							if a, isA := st.(*ast.AssignStmt); isA && len(a.Lhs) == 1 && M.objOf(a.Lhs[0]) == ids {
								if ap, isAp := unparen(a.Rhs[0]).(*ast.CallExpr); isAp && isBuiltinCall(M, ap, "append") && len(ap.Args) == 2 && M.objOf(ap.Args[0]) == ids && M.objOf(ap.Args[1]) == kObj {
									n++
								} else {
									good = false
								}
							}
						}
						return true
					})
					// no other writes to ids outside that loop except its empty initialisation
					if sep == "," && ids != nil && good && n == 1 {
						ok, why = true, "strings.Join(keys of the core map, \",\")"
					} else {
						why = fmt.Sprintf("Join separator %q, collected from the core-map keys: %v (appends=%d)", sep, good, n)
					}
				}
			}
		}
		r.check(ok, "FS", key, p.pos(M.Decl), why, why+": the workload is not pinned to exactly its allocated cores")
	}
	// FQ: quota values and the unrestricted quota of the bound branch
	{
		key := M.Name + " / every quota value is 0, -1 or the rounded limit x period"
		bad := ""
		for _, a := range byField["CPUQuota"] {
			if v, ok := M.constInt(a.rhs); ok && (v == 0 || v == -1) {
				continue
			}
			if c, ok := unparen(a.rhs).(*ast.CallExpr); ok && len(c.Args) == 1 {
				if tv, isT := M.Pkg.TypesInfo.Types[c.Fun]; isT && tv.IsType() && M.usesObj(c.Args[0], cpuP) {
					if strings.Contains(exprStr(c.Args[0]), "CPUPeriodBase") {
						continue
					}
				}
			}
			bad = exprStr(a.rhs)
		}
		r.check(bad == "" && len(byField["CPUQuota"]) >= 3, "FQ", key, p.pos(M.Decl), fmt.Sprintf("%d quota assignments: constants 0/-1 or conversion of cpu x CPUPeriodBase (rounding decided by N1)", len(byField["CPUQuota"])), "quota assigned `"+bad+"` (or an assignment disappeared)")
		// bound branch: inside `if len(coreMap) > 0 { ... if remap {..} else { CPUQuota = -1 } }`, after the limit-based assignment
		key2 := M.Name + " / bound, not remapped workloads get an unrestricted quota"
		ok := false
		var last asg
		for _, a := range byField["CPUQuota"] {
			last = a
		}
		if v, isC := M.constInt(last.rhs); isC && v == -1 && last.at != nil {
			// enclosing ifs of the last assignment: one tests len(coreMap) > 0 (then-branch), one tests the remap flag (else-branch)
			inLen, inElseRemap := false, false
			M.inspectBody(func(x ast.Node) bool {
				is, isIf := x.(*ast.IfStmt)
				if !isIf {
					return true
				}
				if is.Body.Pos() <= last.at.Pos() && last.at.End() <= is.Body.End() {
					if be, isB := unparen(is.Cond).(*ast.BinaryExpr); isB && be.Op == token.GTR {
						if c, isCall := unparen(be.X).(*ast.CallExpr); isCall && isBuiltinCall(M, c, "len") && M.objOf(c.Args[0]) == mapP {
							inLen = true
						}
					}
				}
				if is.Else != nil && is.Else.Pos() <= last.at.Pos() && last.at.End() <= is.Else.End() {
					if id, isId := unparen(is.Cond).(*ast.Ident); isId {
						if b, isB := M.objOf(id).Type().Underlying().(*types.Basic); isB && b.Kind() == types.Bool && M.paramIndex(M.objOf(id)) >= 0 {
							inElseRemap = true
						}
					}
				}
				return true
			})
			ok = inLen && inElseRemap
		}
		r.check(ok, "FQ", key2, p.pos(M.Decl), "the textually last quota assignment is `= -1` inside `len(coreMap) > 0` / not-remap", "the bound branch no longer ends with CPUQuota = -1: a pinned workload is throttled by its limit as well")
	}
	// FO: only makeResourceSetting writes these fields; create and update call it
	{
		guarded := map[string]bool{"CPUQuota": true, "CPUShares": true, "CpusetCpus": true, "CpusetMems": true, "Memory": true, "MemorySwap": true}
		var others []string
		for _, fn := range p.sortedFuncs("engine/docker") {
			if topOf(fn) == M || fn.Body == nil {
				continue
			}
			fn := fn
			fn.inspectBody(func(n ast.Node) bool {
				switch x := n.(type) {
				case *ast.AssignStmt:
					for _, l := range x.Lhs {
						if sel, ok := unparen(l).(*ast.SelectorExpr); ok && guarded[sel.Sel.Name] {
							if t := fn.typeOf(sel.X); t != nil && strings.HasSuffix(strings.TrimPrefix(t.String(), "*"), "container.Resources") {
								others = append(others, fn.Name+" writes "+sel.Sel.Name+" at "+p.pos(x))
							}
						}
					}
				case *ast.CompositeLit:
					if t := fn.typeOf(x); t != nil && strings.HasSuffix(t.String(), "container.Resources") && len(x.Elts) > 0 {
						for _, el := range x.Elts {
							if kv, ok := el.(*ast.KeyValueExpr); ok {
								if id, ok := kv.Key.(*ast.Ident); ok && guarded[id.Name] {
									others = append(others, fn.Name+" builds Resources{"+id.Name+"} at "+p.pos(x))
								}
							}
						}
					}
				}
				return true
			})
		}
		r.check(len(others) == 0, "FO", "engine/docker / only makeResourceSetting decides cpu, cpuset and memory settings", p.pos(M.Decl), "no other function of engine/docker assigns those fields", strings.Join(others, "; "))
		for _, nm := range []string{"engine/docker.(*Engine).VirtualizationCreate", "engine/docker.(*Engine).VirtualizationUpdateResource"} {
			F := p.Fn(nm)
			if F == nil {
				r.undecided("FO", nm, "", "not found")
				continue
			}
			n := len(F.callsDeep(func(f *types.Func) bool { return f == M.Obj }))
			r.check(n >= 1, "FO", nm+" derives its settings from makeResourceSetting", p.pos(F.Decl), fmt.Sprintf("%d call(s)", n), "does not call makeResourceSetting any more")
		}
		checkC31UpdateArgs(p, r, M)
	}
}

// UA: which values each path translates. Create passes the parsed engine parameters as they are (remap = false); update
// passes the NORMALISED values (memory 0 -> unlimited, cpu 0 / empty map -> all cores, quota -1) and the remap flag of the
// parameters. Every translation in the update function must use the normalised locals: a second, un-normalised translation
// (e.g. in a retry) applies zero values that docker reads as "leave unchanged".
func checkC31UpdateArgs(p *Prog, r *Result, M *FuncNode) {
	C := p.Fn("engine/docker.(*Engine).VirtualizationCreate")
	U := p.Fn("engine/docker.(*Engine).VirtualizationUpdateResource")
	if C == nil || U == nil {
		r.undecided("UA", "engine/docker create/update", "", "not found")
		return
	}
	fields := []string{"Quota", "Memory", "CPU", "NUMANode"}
	// create: direct fields, remap constant false
	for i, c := range C.callsDeep(func(f *types.Func) bool { return f == M.Obj }) {
		key := fmt.Sprintf("%s / translation #%d uses the parsed parameters, not remapped", C.Name, i+1)
		why := ""
		for k, f := range fields {
			sel, ok := unparen(c.Args[k]).(*ast.SelectorExpr)
			if !ok || sel.Sel.Name != f {
				why = fmt.Sprintf("argument %d is `%s`, not the parsed %s", k, exprStr(c.Args[k]), f)
			}
		}
		enc := p.enclosing(C.Pkg, c.Pos())
		if why == "" && constBoolName(enc, c.Args[5]) != "false" {
			why = "a workload is created with remap = " + exprStr(c.Args[5])
		}
		r.check2(why, "UA", key, p.pos(c), "makeResourceSetting(opts.Quota, opts.Memory, opts.CPU, opts.NUMANode, …, false)")
	}
	// update: normalised locals
	calls := U.callsDeep(func(f *types.Func) bool { return f == M.Obj })
	for i, c := range calls {
		key := fmt.Sprintf("%s / translation #%d uses the normalised values", U.Name, i+1)
		why := ""
		for k, f := range fields {
			o := U.objOf(c.Args[k])
			if _, isIdent := unparen(c.Args[k]).(*ast.Ident); !isIdent || o == nil {
				why = fmt.Sprintf("argument %d is `%s`, not the normalised local derived from %s: an unlimited/zero value reaches docker as 0, which it treats as 'unchanged', so the old cap or cpuset stays", k, exprStr(c.Args[k]), f)
				break
			}
			// the local is initialised from <params>.<Field>
			fromField := false
			U.inspectBody(func(n ast.Node) bool {
				if as, ok := n.(*ast.AssignStmt); ok && len(as.Lhs) == 1 && len(as.Rhs) == 1 && U.objOf(as.Lhs[0]) == o {
					if sel, ok := unparen(as.Rhs[0]).(*ast.SelectorExpr); ok && sel.Sel.Name == f {
						fromField = true
					}
				}
				return true
			})
			if !fromField {
				why = fmt.Sprintf("argument %d (`%s`) is not derived from the parsed %s", k, exprStr(c.Args[k]), f)
				break
			}
		}
		// the remap argument: <params>.Remap, possibly or-ed with "the parsed core map was empty"
		hasRemap, hasUnbound := false, false
		for _, d := range splitOp(c.Args[5], token.LOR) {
			if sel, ok := unparen(d).(*ast.SelectorExpr); ok && sel.Sel.Name == "Remap" {
				hasRemap = true
				continue
			}
			if id, ok := unparen(d).(*ast.Ident); ok {
				// a local defined as len(<core map local>) == 0, before the core map local is re-assigned
				o := U.objOf(id)
				U.inspectBody(func(n ast.Node) bool {
					as, ok := n.(*ast.AssignStmt)
					if !ok || len(as.Lhs) != 1 || len(as.Rhs) != 1 || U.objOf(as.Lhs[0]) != o {
						return true
					}
					be, ok := unparen(as.Rhs[0]).(*ast.BinaryExpr)
					if !ok || be.Op != token.EQL {
						return true
					}
					lc, ok := unparen(be.X).(*ast.CallExpr)
					if !ok || exprStr(lc.Fun) != "len" || len(lc.Args) != 1 || U.objOf(lc.Args[0]) != U.objOf(c.Args[2]) {
						return true
					}
					if k, isC := U.constInt(be.Y); !isC || k != 0 {
						return true
					}
					// before any re-assignment of the core map local
					early := true
					U.inspectBody(func(m ast.Node) bool {
						if a2, ok := m.(*ast.AssignStmt); ok && a2.Tok == token.ASSIGN {
							for _, l := range a2.Lhs {
								if U.objOf(l) == U.objOf(c.Args[2]) && a2.Pos() < as.Pos() {
									early = false
								}
							}
						}
						return true
					})
					if early {
						hasUnbound = true
					}
					return true
				})
				continue
			}
			if why == "" {
				why = "the remap flag passed contains `" + exprStr(d) + "`, which is neither the parameters' Remap nor 'the parsed core map was empty'"
			}
		}
		if why == "" && !hasRemap {
			why = "the remap flag passed is `" + exprStr(c.Args[5]) + "`, not the parameters' Remap: a remapped (unbound) workload is translated as if it were bound"
		}
		r.check2(why, "UA", key, p.pos(c), "makeResourceSetting(quota, memory, cpuMap, numaNode, …, opts.Remap [|| unbound]) with the normalised locals")
		// UQ: the update path fills an empty core map with all cores (docker cannot take an empty cpuset); the workload is
		// still unbound, so the translation must not take the bound branch (which lifts the quota)
		fills := false
		U.inspectBody(func(n ast.Node) bool {
			if as, ok := n.(*ast.AssignStmt); ok && as.Tok == token.ASSIGN {
				for _, l := range as.Lhs {
					if U.objOf(l) == U.objOf(c.Args[2]) {
						fills = true
					}
				}
			}
			return true
		})
		if fills {
			// UQ (fill-in only for an empty map): the assignment that replaces the core map by all cores sits under a condition
			// that is exactly "the parsed core map is empty" — a disjunction with the quota unpins a bound workload whose limit is 0
			whyF := ""
			U.inspectBody(func(n ast.Node) bool {
				as, ok := n.(*ast.AssignStmt)
				if !ok || as.Tok != token.ASSIGN {
					return true
				}
				hit := false
				for _, l := range as.Lhs {
					if U.objOf(l) == U.objOf(c.Args[2]) {
						hit = true
					}
				}
				if !hit {
					return true
				}
				// innermost enclosing if
				var enc *ast.IfStmt
				U.inspectBody(func(y ast.Node) bool {
					if is, ok := y.(*ast.IfStmt); ok && is.Body.Pos() <= as.Pos() && as.End() <= is.Body.End() {
						if enc == nil || is.Pos() > enc.Pos() {
							enc = is
						}
					}
					return true
				})
				okCond := false
				if enc != nil {
					cs := exprStr(unparen(enc.Cond))
					if id, ok := unparen(enc.Cond).(*ast.Ident); ok {
						// the unbound local
						if d := U.singleDef(U.objOf(id)); d != nil && strings.HasPrefix(exprStr(d), "len(") && strings.HasSuffix(exprStr(d), ") == 0") {
							okCond = true
						}
					}
					if strings.HasPrefix(cs, "len(") && strings.HasSuffix(cs, ") == 0") && !strings.Contains(cs, "||") {
						okCond = true
					}
				}
				if !okCond {
					cond := "(no condition)"
					if enc != nil {
						cond = exprStr(enc.Cond)
					}
					whyF = "the core map is replaced by all cores under `" + cond + "`, not only when the parsed core map is empty: a workload that is bound to cores (cpu-bind with cpu limit 0 is valid) or remapped onto the share pool is put on every core of the node when its resources are updated"
				}
				return true
			})
			r.check2(whyF, "UQ", fmt.Sprintf("%s / translation #%d replaces the core map by all cores only when it is empty", U.Name, i+1), p.pos(c), "the all-cores fill-in sits under `unbound` / `len(cpuMap) == 0` alone")
			r.min("UQ", 2)
			r.check(hasUnbound, "UQ", fmt.Sprintf("%s / translation #%d keeps the quota of a workload whose core map was empty", U.Name, i+1), p.pos(c), "remap || unbound, with unbound := len(cpuMap) == 0 taken before the all-cores fill-in",
				"the update path replaces an empty core map by all cores and then translates with remap = `"+exprStr(c.Args[5])+"`: makeResourceSetting sees a non-empty core map without remap, takes the bound branch and sets the quota to -1 — re-allocating an unbound workload lifts its CPU limit")
		}
	}
	// memory normalisation exists: `if memory == 0 { memory = maxMemory }`
	_ = calls
}

// DIST: within the innermost loop that pops the cores of ONE plan from a heap, no push onto the same heap: on an oversold
// core (pieces > share base) the popped core would be the maximum again, be popped twice and the plan would end up with
// fewer than `full` cores.
func checkDistinctCoresPerPlan(p *Prog, r *Result) {
	isHeap := func(name string) func(*types.Func) bool {
		return func(f *types.Func) bool { return fullObjName(f) == "container/heap."+name }
	}
	n := 0
	for _, fn := range p.sortedFuncs("resource/plugins/cpumem/schedule") {
		pops := fn.calls(isHeap("Pop"))
		if len(pops) == 0 {
			continue
		}
		for _, pc := range pops {
			// innermost loop containing the pop
			var inner ast.Stmt
			var body *ast.BlockStmt
			fn.inspectBody(func(x ast.Node) bool {
				var b *ast.BlockStmt
				switch l := x.(type) {
				case *ast.ForStmt:
					b = l.Body
				case *ast.RangeStmt:
					b = l.Body
				}
				if b != nil && b.Pos() <= pc.Pos() && pc.End() <= b.End() {
					inner, body = x.(ast.Stmt), b
				}
				return true
			})
			if inner == nil {
				continue
			}
			n++
			key := fmt.Sprintf("%s / cores popped for one plan are not pushed back while the plan is being filled (#%d)", fn.Name, n)
			h := fn.objOf(pc.Args[0])
			why := ""
			inspectNoLit(body, func(x ast.Node) bool {
				if c, ok := x.(*ast.CallExpr); ok {
					if f := fn.Callee(c); f != nil && isHeap("Push")(f) && len(c.Args) == 2 && fn.objOf(c.Args[0]) == h {
						why = "heap.Push onto the same heap at " + p.pos(c) + " inside the loop that pops the cores of one plan: a core that still has more pieces than the others is popped again for the same plan, its map entry is overwritten, and the instance gets fewer whole cores than requested while its recorded CPU request says otherwise"
					}
				}
				return true
			})
			// the popped core is entered into the plan with the share base
			var core types.Object
			inspectNoLit(body, func(x ast.Node) bool {
				if as, ok := x.(*ast.AssignStmt); ok && len(as.Rhs) == 1 {
					e := unparen(as.Rhs[0])
					if ta, ok := e.(*ast.TypeAssertExpr); ok {
						e = unparen(ta.X)
					}
					if e == ast.Expr(pc) {
						core = fn.objOf(as.Lhs[0])
					}
				}
				return true
			})
			entered := false
			inspectNoLit(body, func(x ast.Node) bool {
				if as, ok := x.(*ast.AssignStmt); ok && len(as.Lhs) == 1 {
					if base, idx := indexBaseObj(fn, as.Lhs[0]); base != nil && core != nil {
						if sel, ok := unparen(idx).(*ast.SelectorExpr); ok && fn.objOf(sel.X) == core && sel.Sel.Name == "ID" {
							if rs, ok := unparen(as.Rhs[0]).(*ast.SelectorExpr); ok && rs.Sel.Name == "shareBase" {
								entered = true
							}
						}
					}
				}
				return true
			})
			if why == "" && !entered {
				why = "the popped core is not entered into the plan with the full share (plan[core.ID] = shareBase)"
			}
			r.check2(why, "DIST", key, p.pos(inner), "pop, plan[core.ID] = shareBase, deferred push after the plan is complete")
		}
	}
}
