package main

// C19 (lock-loss notification, L5 context discipline) and C18 (wrapper clauses TL1-TL3).

import (
	"fmt"
	"go/ast"
	"go/token"
	"go/types"
	"sort"
	"strings"

	"golang.org/x/tools/go/ssa"
)

func init() {
	register("C19", checkC19)
	register("C18", checkC18)
}

// lockImpls returns the module types implementing lock.DistributedLock (mocks excluded).
func lockImpls(p *Prog, r *Result) (iface *types.Interface, impls []*types.Named) {
	lp := p.ByPath["lock"]
	if lp == nil {
		r.undecided("anchor", "package lock", "", "package lock not found")
		return
	}
	tn, _ := lp.Types.Scope().Lookup("DistributedLock").(*types.TypeName)
	if tn == nil {
		r.undecided("anchor", "lock.DistributedLock", "", "interface not found")
		return
	}
	iface, _ = tn.Type().Underlying().(*types.Interface)
	for _, pk := range p.Pkgs {
		if excludedPkg(relPath(pk.PkgPath)) {
			continue
		}
		sc := pk.Types.Scope()
		for _, n := range sc.Names() {
			if t, ok := sc.Lookup(n).(*types.TypeName); ok && !t.IsAlias() {
				if nt, ok := t.Type().(*types.Named); ok {
					if _, isI := nt.Underlying().(*types.Interface); !isI && types.Implements(types.NewPointer(nt), iface) {
						impls = append(impls, nt)
					}
				}
			}
		}
	}
	sort.Slice(impls, func(i, j int) bool { return impls[i].String() < impls[j].String() })
	return
}

func methodNode(p *Prog, nt *types.Named, name string) *FuncNode {
	ms := types.NewMethodSet(types.NewPointer(nt))
	for i := 0; i < ms.Len(); i++ {
		if f, ok := ms.At(i).Obj().(*types.Func); ok && f.Name() == name {
			return p.ByObj[f]
		}
	}
	return nil
}

func isContextType(t types.Type) bool {
	return t != nil && (t.String() == "context.Context" || t.String() == "golang.org/x/net/context.Context")
}

// ---- C19 ---------------------------------------------------------------------------------------------------

type ctxOrigin struct {
	kind string // derived | param | fresh | unknown
	call *ssa.Call
	fn   *ssa.Function
	desc string
}

func isNilConst(v ssa.Value) bool {
	c, ok := v.(*ssa.Const)
	return ok && c.IsNil()
}

func staticCalleeName(c *ssa.CallCommon) string {
	if f := c.StaticCallee(); f != nil {
		if f.Pkg != nil {
			return f.Pkg.Pkg.Path() + "." + f.Name()
		}
		return f.String()
	}
	return ""
}

var ctxDerivers = map[string]bool{"context.WithCancel": true, "context.WithTimeout": true, "context.WithDeadline": true,
	"golang.org/x/net/context.WithCancel": true, "golang.org/x/net/context.WithTimeout": true, "golang.org/x/net/context.WithDeadline": true}

// traceCtx follows a context value back to where it comes from.
func traceCtx(p *Prog, f *ssa.Function, v ssa.Value, depth int, seen map[ssa.Value]bool) []ctxOrigin {
	if depth > 6 || seen[v] {
		return nil
	}
	seen[v] = true
	switch x := v.(type) {
	case *ssa.MakeInterface:
		return traceCtx(p, f, x.X, depth, seen)
	case *ssa.ChangeInterface:
		return traceCtx(p, f, x.X, depth, seen)
	case *ssa.ChangeType:
		return traceCtx(p, f, x.X, depth, seen)
	case *ssa.Phi:
		var out []ctxOrigin
		for _, e := range x.Edges {
			out = append(out, traceCtx(p, f, e, depth, seen)...)
		}
		return out
	case *ssa.Parameter:
		return []ctxOrigin{{kind: "param", fn: f, desc: "the caller's context parameter " + x.Name() + " itself"}}
	case *ssa.Extract:
		if c, ok := x.Tuple.(*ssa.Call); ok && x.Index == 0 {
			if ctxDerivers[staticCalleeName(&c.Call)] {
				return []ctxOrigin{{kind: "derived", call: c, fn: f, desc: staticCalleeName(&c.Call)}}
			}
			if callee := c.Call.StaticCallee(); callee != nil && callee.Blocks != nil {
				return traceReturns(p, callee, 0, depth+1)
			}
		}
	case *ssa.Call:
		n := staticCalleeName(&x.Call)
		if n == "context.TODO" || n == "context.Background" || n == "golang.org/x/net/context.TODO" || n == "golang.org/x/net/context.Background" {
			return []ctxOrigin{{kind: "fresh", fn: f, desc: n + "(): unrelated to the lock and never cancelled"}}
		}
		if callee := x.Call.StaticCallee(); callee != nil && callee.Blocks != nil {
			return traceReturns(p, callee, 0, depth+1)
		}
	case *ssa.Alloc:
		// struct wrapping a context: follow the value stored into its context-typed field
		var out []ctxOrigin
		for _, ref := range *x.Referrers() {
			if fa, ok := ref.(*ssa.FieldAddr); ok {
				ft := fa.Type().(*types.Pointer).Elem()
				if !isContextType(ft) {
					continue
				}
				for _, r2 := range *fa.Referrers() {
					if st, ok := r2.(*ssa.Store); ok && st.Addr == fa {
						out = append(out, traceCtx(p, f, st.Val, depth+1, seen)...)
					}
				}
			}
		}
		if len(out) > 0 {
			return out
		}
	case *ssa.UnOp:
		if x.Op == token.MUL {
			// load of a local cell: the stores that reach this load (flow-sensitive)
			if vals, ok := reachingStores(x); ok && len(vals) > 0 {
				var out []ctxOrigin
				for _, v2 := range vals {
					if isNilConst(v2) {
						continue
					}
					out = append(out, traceCtx(p, f, v2, depth+1, seen)...)
				}
				return out
			}
		}
	}
	return []ctxOrigin{{kind: "unknown", fn: f, desc: fmt.Sprintf("%T %s", v, v.String())}}
}

// reachingStores returns the values whose store to the local cell read by load may be the latest one when the load
// executes (backwards walk over the CFG). ok=false if the address is not a function-local cell or a closure writes it.
func reachingStores(load *ssa.UnOp) ([]ssa.Value, bool) {
	cell, isAlloc := load.X.(*ssa.Alloc)
	if !isAlloc {
		return nil, false
	}
	for _, ref := range *cell.Referrers() {
		if mc, ok := ref.(*ssa.MakeClosure); ok {
			cf := mc.Fn.(*ssa.Function)
			for i, b := range mc.Bindings {
				if b == ssa.Value(cell) {
					for _, r2 := range *cf.FreeVars[i].Referrers() {
						if st, ok := r2.(*ssa.Store); ok && st.Addr == ssa.Value(cf.FreeVars[i]) {
							return nil, false
						}
					}
				}
			}
		}
	}
	var out []ssa.Value
	seen := map[*ssa.BasicBlock]bool{}
	var walk func(b *ssa.BasicBlock, from int)
	walk = func(b *ssa.BasicBlock, from int) {
		for i := from; i >= 0; i-- {
			if st, ok := b.Instrs[i].(*ssa.Store); ok && st.Addr == ssa.Value(cell) {
				out = append(out, st.Val)
				return
			}
		}
		for _, pr := range b.Preds {
			if !seen[pr] {
				seen[pr] = true
				walk(pr, len(pr.Instrs)-1)
			}
		}
	}
	blk := load.Block()
	idx := 0
	for i, ins := range blk.Instrs {
		if ins == ssa.Instruction(load) {
			idx = i
		}
	}
	walk(blk, idx-1)
	return out, true
}

// resolveCell looks through loads of local cells.
func resolveCell(v ssa.Value) []ssa.Value {
	if u, ok := v.(*ssa.UnOp); ok && u.Op == token.MUL {
		if vals, ok := reachingStores(u); ok {
			var out []ssa.Value
			for _, x := range vals {
				out = append(out, resolveCell(x)...)
			}
			return out
		}
	}
	return []ssa.Value{v}
}

// traceReturns: origins of result #idx on the success paths (last result, an error, may be nil) of f.
func traceReturns(p *Prog, f *ssa.Function, idx int, depth int) []ctxOrigin {
	var out []ctxOrigin
	for _, b := range f.Blocks {
		if len(b.Instrs) == 0 {
			continue
		}
		ret, ok := b.Instrs[len(b.Instrs)-1].(*ssa.Return)
		if !ok || len(ret.Results) <= idx {
			continue
		}
		if len(ret.Results) >= 2 {
			errs := resolveCell(ret.Results[len(ret.Results)-1])
			mayBeNil := len(errs) > 0
			for _, e := range errs {
				mayBeNil = false
				if isNilConst(e) {
					mayBeNil = true
					break
				}
				if _, isConst := e.(*ssa.Const); !isConst {
					// a dynamic error value: if it was just tested non-nil this is a failure path; a call result returned
					// directly (return f(x)) is followed through the callee below
					if _, isExtract := e.(*ssa.Extract); isExtract {
						mayBeNil = true
						break
					}
				}
			}
			if !mayBeNil {
				continue
			}
		}
		vals := resolveCell(ret.Results[idx])
		for _, v := range vals {
			if isNilConst(v) {
				continue
			}
			out = append(out, traceCtx(p, f, v, depth, map[ssa.Value]bool{})...)
		}
	}
	return out
}

// derivesFromParam: the parent argument of a context.With* call traces back to a context parameter of fn.
func derivesFromParam(p *Prog, f *ssa.Function, v ssa.Value, depth int) bool {
	for _, o := range traceCtx(p, f, v, depth, map[ssa.Value]bool{}) {
		switch o.kind {
		case "param":
		case "derived":
			if !derivesFromParam(p, o.fn, o.call.Call.Args[0], depth+1) {
				return false
			}
		default:
			return false
		}
	}
	return true
}

// cancelInWatcher: the cancel function of derivation d is invoked by a goroutine started in f that waits on a lock-loss signal.
func cancelInWatcher(f *ssa.Function, d *ssa.Call) (bool, string) {
	// cancel value
	var cancel ssa.Value
	for _, ref := range *d.Referrers() {
		if ex, ok := ref.(*ssa.Extract); ok && ex.Index == 1 {
			cancel = ex
		}
	}
	if cancel == nil {
		return false, "cancel function of the derived context is discarded"
	}
	// values through which the closure can see cancel: the value itself or the cells it is stored to
	carriers := map[ssa.Value]bool{cancel: true}
	for _, ref := range *cancel.Referrers() {
		if st, ok := ref.(*ssa.Store); ok && st.Val == cancel {
			carriers[st.Addr] = true
		}
	}
	for _, b := range f.Blocks {
		for _, ins := range b.Instrs {
			g, ok := ins.(*ssa.Go)
			if !ok {
				continue
			}
			mc, ok := g.Call.Value.(*ssa.MakeClosure)
			if !ok {
				// `go m.watch(ctx, cancel, …)`: a declared function started as the watcher, cancel handed in as an argument
				if callee := g.Call.StaticCallee(); callee != nil && callee.Blocks != nil {
					for i, a := range g.Call.Args {
						isCancel := carriers[a]
						if u, ok := a.(*ssa.UnOp); ok && u.Op == token.MUL && carriers[u.X] {
							isCancel = true
						}
						if !isCancel || i >= len(callee.Params) || !invokesValue(callee, callee.Params[i]) {
							continue
						}
						if sig := lossSignal(callee); sig != "" {
							return true, "cancel invoked by watcher goroutine " + callee.Name() + " waiting on " + sig
						}
						return false, "goroutine " + callee.Name() + " calls cancel but waits on no lock-loss signal (no receive from a non-context Done() channel)"
					}
				}
				continue
			}
			cf := mc.Fn.(*ssa.Function)
			for i, bnd := range mc.Bindings {
				if !carriers[bnd] {
					continue
				}
				fv := cf.FreeVars[i]
				if !callsValue(cf, fv) {
					continue
				}
				if sig := lossSignal(cf); sig != "" {
					return true, "cancel invoked by watcher goroutine " + cf.Name() + " waiting on " + sig
				}
				return false, "goroutine " + cf.Name() + " calls cancel but waits on no lock-loss signal (no receive from a non-context Done() channel)"
			}
		}
	}
	return false, "no goroutine started by " + f.Name() + " invokes the cancel function of the returned context: lock loss is never signalled"
}

// invokesValue: function cf invokes (call or defer) the value v (a parameter), directly or after spilling it to a local cell.
func invokesValue(cf *ssa.Function, v ssa.Value) bool {
	cells := map[ssa.Value]bool{}
	if refs := v.Referrers(); refs != nil {
		for _, ref := range *refs {
			if st, ok := ref.(*ssa.Store); ok && st.Val == v {
				cells[st.Addr] = true
			}
		}
	}
	is := func(x ssa.Value) bool {
		if x == v {
			return true
		}
		if u, ok := x.(*ssa.UnOp); ok && u.Op == token.MUL && cells[u.X] {
			return true
		}
		return false
	}
	for _, b := range cf.Blocks {
		for _, ins := range b.Instrs {
			switch c := ins.(type) {
			case *ssa.Defer:
				if is(c.Call.Value) {
					return true
				}
			case *ssa.Call:
				if is(c.Call.Value) {
					return true
				}
			}
		}
	}
	return false
}

// callsValue: function cf invokes (call or defer) the free variable fv (directly or through a load of the captured cell).
func callsValue(cf *ssa.Function, fv *ssa.FreeVar) bool {
	is := func(v ssa.Value) bool {
		if v == ssa.Value(fv) {
			return true
		}
		if u, ok := v.(*ssa.UnOp); ok && u.Op == token.MUL && u.X == ssa.Value(fv) {
			return true
		}
		return false
	}
	for _, b := range cf.Blocks {
		for _, ins := range b.Instrs {
			switch c := ins.(type) {
			case *ssa.Defer:
				if is(c.Call.Value) {
					return true
				}
			case *ssa.Call:
				if is(c.Call.Value) {
					return true
				}
			}
		}
	}
	return false
}

// lossSignal: cf receives (select or <-) from a channel returned by a Done() method of a non-context value.
func lossSignal(cf *ssa.Function) string {
	chk := func(ch ssa.Value) string {
		c, ok := ch.(*ssa.Call)
		if !ok {
			return ""
		}
		if c.Call.IsInvoke() {
			if c.Call.Method.Name() == "Done" && !isContextType(c.Call.Value.Type()) {
				return c.Call.Value.Type().String() + ".Done()"
			}
			return ""
		}
		if callee := c.Call.StaticCallee(); callee != nil && callee.Name() == "Done" && len(c.Call.Args) > 0 && !isContextType(c.Call.Args[0].Type()) {
			return c.Call.Args[0].Type().String() + ".Done()"
		}
		return ""
	}
	for _, b := range cf.Blocks {
		for _, ins := range b.Instrs {
			switch x := ins.(type) {
			case *ssa.Select:
				for _, s := range x.States {
					if s.Dir == types.RecvOnly {
						if r := chk(s.Chan); r != "" {
							return r
						}
					}
				}
			case *ssa.UnOp:
				if x.Op == token.ARROW {
					if r := chk(x.X); r != "" {
						return r
					}
				}
			}
		}
	}
	return ""
}

func checkC19(p *Prog, r *Result, tier string) {
	r.Technique = "SSA value provenance of the returned lock context + AST/CFG context-threading rules in the lock helpers and callbacks"
	r.Explanation = "L5 context discipline. (a) For each DistributedLock implementation, on every success path of Lock/TryLock the returned context is derived (context.With*) from the ctx parameter and the cancel function of that derivation is invoked by a goroutine started there which waits on a lock-loss signal (receive from a non-context Done() channel). " +
		"(w) in each watcher goroutine the path from the lock-loss signal (the session's Done() case, where the loss is recorded) to the goroutine's exit — where the deferred cancel runs — passes no further blocking receive: the context is cancelled at once, not when something else ends. " +
		"(b) doLock returns the context handed back by DistributedLock.Lock. (c) both base helpers thread the context: doLock's ctx argument and its returned context are the same variable, which is the first argument of the callback invocation, so the critical section runs under a descendant of every lock's context. " +
		"(d) inside every lock callback, synchronous code passes only contexts declared inside that callback (its parameter or derivatives), never a captured outer context. Necessary for 'a holder is told promptly': if any link is missing, a lost lock cannot cancel the critical section."
	r.NotCovered = "the time bound (one keepalive interval); behaviour of etcd sessions and redis TTLs themselves; what callbacks do with a cancelled context"
	r.Assumptions = []string{"A4 etcd concurrency.Session.Done() closes when the lease is lost", "A2 interface dispatch bounded by module types"}
	_, impls := lockImpls(p, r)
	r.min("L5a", 4)
	var implNames []string
	for _, nt := range impls {
		implNames = append(implNames, nt.String())
		for _, m := range []string{"Lock", "TryLock"} {
			fn := methodNode(p, nt, m)
			key := fmt.Sprintf("%s.%s returned context", strings.TrimPrefix(nt.String(), modPath+"/"), m)
			if fn == nil {
				r.undecided("L5a", key, "", "method body not found")
				continue
			}
			sf := p.SSAFunc(fn)
			if sf == nil {
				r.undecided("L5a", key, p.pos(fn.Decl), "SSA function not found")
				continue
			}
			origins := traceReturns(p, sf, 0, 0)
			if len(origins) == 0 {
				r.undecided("L5a", key, p.pos(fn.Decl), "no success return path found")
				continue
			}
			okAll := true
			var details []string
			for _, o := range origins {
				switch o.kind {
				case "derived":
					if !derivesFromParam(p, o.fn, o.call.Call.Args[0], 0) {
						okAll = false
						details = append(details, "derived context's parent is not the ctx parameter")
						continue
					}
					ok, why := cancelInWatcher(o.fn, o.call)
					details = append(details, why)
					if !ok {
						okAll = false
					}
				default:
					okAll = false
					details = append(details, "returned context is "+o.desc+": it can not be cancelled when the lock is lost")
				}
			}
			if okAll {
				r.ok("L5a", key, p.pos(fn.Decl), strings.Join(details, "; "))
			} else {
				r.bad("L5a", key, p.pos(fn.Decl), strings.Join(details, "; "))
			}
		}
	}
	r.Tables["lock_implementations"] = implNames
	checkWatcherPrompt(p, r)

	g := getSCG(p, r)
	if g == nil {
		return
	}
	// (b) doLock
	r.min("L5b", 1)
	checkDoLockCtx(p, r, g)
	// (c) base helpers
	r.min("L5c", 2)
	for fn, h := range g.helpers {
		if h.base {
			checkHelperThreading(p, r, g, fn, h)
		}
	}
	// (d) callbacks
	r.min("L5d", 19)
	checkCallbackCtx(p, r, g)
}

func checkDoLockCtx(p *Prog, r *Result, g *SCG) {
	fn := g.doLock
	key := fn.Name + " returns the lock's context"
	var lhs types.Object
	var asg *ast.AssignStmt
	fn.inspectBody(func(n ast.Node) bool {
		if a, ok := n.(*ast.AssignStmt); ok && len(a.Rhs) == 1 && len(a.Lhs) == 2 {
			if c, ok := unparen(a.Rhs[0]).(*ast.CallExpr); ok {
				if f := fn.Callee(c); f != nil && objName(f) == "lock.DistributedLock.Lock" {
					lhs = fn.objOf(a.Lhs[0])
					asg = a
					// argument must be doLock's ctx parameter
					if len(c.Args) != 1 || fn.paramIndex(fn.objOf(c.Args[0])) != 0 {
						lhs = nil
					}
				}
			}
		}
		return true
	})
	if asg == nil || lhs == nil {
		r.bad("L5b", key, p.pos(fn.Decl), "doLock does not bind the context returned by DistributedLock.Lock(ctx) called with its ctx parameter")
		return
	}
	// every return statement after the Lock returns that object in position 1; no other assignment to it
	n := 0
	fn.inspectBody(func(x ast.Node) bool {
		if a, ok := x.(*ast.AssignStmt); ok && a != asg {
			for _, l := range a.Lhs {
				if fn.objOf(l) == lhs {
					n++
				}
			}
		}
		return true
	})
	okRet := true
	fn.inspectBody(func(x ast.Node) bool {
		if rt, ok := x.(*ast.ReturnStmt); ok && rt.Pos() > asg.Pos() {
			if len(rt.Results) == 3 && fn.objOf(rt.Results[1]) != lhs {
				okRet = false
			}
		}
		return true
	})
	// named result: also fine when the result variable itself is the lhs
	if n == 0 && okRet {
		r.ok("L5b", key, p.pos(asg), "rCtx, err = lock.Lock(ctx); returned unchanged")
	} else {
		r.bad("L5b", key, p.pos(asg), "the context returned by Lock is overwritten or not the one returned to the helper")
	}
}

func checkHelperThreading(p *Prog, r *Result, g *SCG, fn *FuncNode, h *lockHelper) {
	key := fn.Name + " threads lock contexts into the callback"
	var ctxObj types.Object
	okChain := true
	var pos ast.Node = fn.Decl
	fn.inspectBody(func(n ast.Node) bool {
		a, ok := n.(*ast.AssignStmt)
		if !ok || len(a.Rhs) != 1 || len(a.Lhs) != 3 {
			return true
		}
		c, ok := unparen(a.Rhs[0]).(*ast.CallExpr)
		if !ok || fn.Callee(c) == nil || p.ByObj[fn.Callee(c)] != g.doLock {
			return true
		}
		pos = a
		lo := fn.objOf(a.Lhs[1])
		ao := fn.objOf(c.Args[0])
		if lo == nil || lo != ao {
			okChain = false
		}
		ctxObj = lo
		return true
	})
	if ctxObj == nil || !okChain {
		r.bad("L5c", key, p.pos(pos), "the context returned by doLock is not the variable passed to the next doLock: the critical section is not a descendant of every lock's context (loss of an earlier lock goes unnoticed)")
		return
	}
	// callback invocation's first argument is that variable
	cb := fn.paramObj(h.cbParam)
	okCall, found := true, false
	fn.inspectBody(func(n ast.Node) bool {
		if c, ok := n.(*ast.CallExpr); ok {
			if id, ok := unparen(c.Fun).(*ast.Ident); ok && fn.Pkg.TypesInfo.ObjectOf(id) == cb {
				found = true
				if len(c.Args) == 0 || fn.objOf(c.Args[0]) != ctxObj {
					okCall = false
				}
			}
		}
		return true
	})
	if found && okCall {
		r.ok("L5c", key, p.pos(pos), "lock, ctx, err = doLock(ctx, ...); callback(ctx, ...)")
	} else {
		r.bad("L5c", key, p.pos(pos), "the callback is not invoked with the context returned by the last doLock")
	}
}

// checkCallbackCtx: inside lock callbacks, context arguments are declared inside the callback.
func checkCallbackCtx(p *Prog, r *Result, g *SCG) {
	var cbs []*FuncNode
	for fn, role := range g.roles {
		if role.kind == "lockcb" {
			cbs = append(cbs, fn)
		}
	}
	sort.Slice(cbs, func(i, j int) bool { return cbs[i].Name < cbs[j].Name })
	for _, cb := range cbs {
		var bad []string
		var visit func(fn *FuncNode)
		visit = func(fn *FuncNode) {
			fn.inspectBody(func(n ast.Node) bool {
				c, ok := n.(*ast.CallExpr)
				if !ok {
					return true
				}
				for _, a := range c.Args {
					id, ok := unparen(a).(*ast.Ident)
					if !ok || !isContextType(fn.typeOf(id)) {
						continue
					}
					obj := fn.Pkg.TypesInfo.ObjectOf(id)
					if obj == nil || obj.Pos() < cb.Lit.Pos() || obj.Pos() > cb.Lit.End() {
						bad = append(bad, fmt.Sprintf("%s passes captured outer context %q to %s", p.pos(c), id.Name, exprStr(c.Fun)))
					}
				}
				return true
			})
			for _, l := range fn.Lits {
				k := g.roles[l].kind
				if k == "async" || k == "escape" {
					continue // not part of the critical section
				}
				if k == "lockcb" {
					continue // checked on its own, against its own parameter
				}
				visit(l)
			}
		}
		visit(cb)
		key := cb.Name + " uses its own lock context"
		if len(bad) == 0 {
			r.ok("L5d", key, p.pos(cb.Lit), "")
		} else {
			r.bad("L5d", key, p.pos(cb.Lit), strings.Join(bad, "; ")+": the call is not cancelled when this lock is lost")
		}
	}
}

// ---- C18 ---------------------------------------------------------------------------------------------------

// primitive lock operations of the two client libraries
const (
	etcdMutexLock    = "go.etcd.io/etcd/client/v3/concurrency.(*Mutex).Lock"
	etcdMutexTryLock = "go.etcd.io/etcd/client/v3/concurrency.(*Mutex).TryLock"
	redisObtain      = "github.com/muroq/redislock.(*Client).Obtain"
	redisRelease     = "github.com/muroq/redislock.(*Lock).Release"
	etcdOpDelete     = "go.etcd.io/etcd/client/v3.OpDelete"
)

type primCall struct {
	fn   *FuncNode
	call *ast.CallExpr
	name string
	// binding of fn's parameters to the argument expressions of the call that reached fn (one level)
	bind   map[types.Object]ast.Expr
	bindFn *FuncNode
}

// primCalls collects calls to external primitives reachable from fn through static module calls (depth<=3).
func primCalls(p *Prog, fn *FuncNode, names map[string]bool, depth int, bind map[types.Object]ast.Expr, bindFn *FuncNode, out *[]primCall) {
	if depth > 3 {
		return
	}
	ast.Inspect(fn.Body, func(n ast.Node) bool {
		c, ok := n.(*ast.CallExpr)
		if !ok {
			return true
		}
		f := fn.Callee(c)
		if f == nil {
			return true
		}
		nm := fullObjName(f)
		if names[nm] {
			*out = append(*out, primCall{fn: fn, call: c, name: nm, bind: bind, bindFn: bindFn})
			return true
		}
		if t := p.ByObj[f]; t != nil && t != fn {
			b := map[types.Object]ast.Expr{}
			for i, a := range c.Args {
				if po := t.paramObj(i); po != nil {
					b[po] = a
				}
			}
			primCalls(p, t, names, depth+1, b, fn, out)
		}
		return true
	})
}

// optsNonBlocking: the redislock options expression denotes "no retry": the nil constant, possibly through one parameter binding.
func optsNonBlocking(pc primCall, e ast.Expr) (bool, string) {
	e = unparen(e)
	if isNilIdent(e) {
		return true, "options = nil (no retry strategy)"
	}
	if id, ok := e.(*ast.Ident); ok {
		obj := pc.fn.Pkg.TypesInfo.ObjectOf(id)
		if pc.bind != nil {
			if a, ok := pc.bind[obj]; ok {
				if isNilIdent(a) {
					return true, "options parameter bound to nil at " + pc.bindFn.Name
				}
				return false, "options parameter bound to " + exprStr(a) + " at " + pc.bindFn.Name
			}
		}
		return false, "options = " + id.Name
	}
	return false, "options = " + exprStr(e)
}

func checkC18(p *Prog, r *Result, tier string) {
	r.Technique = "who-calls-which-primitive and argument-flow rules over the two DistributedLock wrappers (AST + types, one level of parameter binding)"
	r.Explanation = "Only the wrapper clauses are decided, not mutual exclusion (that is a property of etcd concurrency.Mutex / redislock and their servers). " +
		"TL1: every TryLock reaches only the non-blocking primitive (etcd Mutex.TryLock; redislock Obtain with nil options) and never the blocking one. " +
		"TL2: every Lock calls the blocking primitive under a context derived by context.WithTimeout(ctx, <receiver's timeout field>) and propagates its error; the redis retry strategy is an unbounded, stateless backoff (LinearBackoff/ExponentialBackoff) so that only the wait timeout ends the wait. " +
		"TL3: every Unlock releases only its own acquisition (etcd: OpDelete only inside Then() of a Txn whose If() is mutex.IsOwner(); redis: Release on the handle stored by this lock's own Obtain; no other delete; no direct redis command anywhere in the wrapper package). TL5: every etcd lock is built on a session created for it alone (concurrency.Mutex is re-entrant per session). TL4: every TTL the wrappers hand to the lock library (Obtain, Refresh, session WithTTL) is the lock's configured TTL."
	r.NotCovered = "clause 1 (at most one holder over all schedules) beyond TL5 — library/server behaviour; fairness; lease expiry timing"
	r.Assumptions = []string{"A4 etcd concurrency.Mutex and muroq/redislock implement their documented semantics"}
	_, impls := lockImpls(p, r)
	r.min("TL1", 2)
	r.min("TL2", 2)
	r.min("TL3", 2)
	// TL4: the lease a holder gets is the configured TTL: wherever the wrappers hand a TTL to the lock library (redislock
	// Obtain/Refresh, etcd session WithTTL) it is the lock's own ttl (field or constructor parameter), never a value
	// derived from a wait deadline or anything else
	r.min("TL4", 2)
	for _, pkg := range []string{"lock/redis", "lock/etcdlock"} {
		for _, fn := range p.sortedFuncs(pkg) {
			if fn.Body == nil || relPath(fn.Pkg.PkgPath) != pkg {
				continue
			}
			fn.inspectBody(func(n ast.Node) bool {
				c, ok := n.(*ast.CallExpr)
				if !ok || fn.Callee(c) == nil {
					return true
				}
				f := fn.Callee(c)
				if f.Pkg() == nil || !(strings.Contains(f.Pkg().Path(), "redislock") || strings.Contains(f.Pkg().Path(), "concurrency")) {
					return true
				}
				sig, _ := f.Type().(*types.Signature)
				if sig == nil {
					return true
				}
				for i := 0; i < sig.Params().Len() && i < len(c.Args); i++ {
					pn := strings.ToLower(sig.Params().At(i).Name())
					if pn != "ttl" && pn != "lockttl" && !(f.Name() == "WithTTL" && i == 0) {
						continue
					}
					key := fmt.Sprintf("%s / the TTL handed to %s is the lock's configured TTL", fn.Name, f.Name())
					okArg := false
					ast.Inspect(c.Args[i], func(x ast.Node) bool {
						switch y := x.(type) {
						case *ast.SelectorExpr:
							if y.Sel.Name == "ttl" {
								okArg = true
							}
						case *ast.Ident:
							if o := fn.objOf(y); o != nil && y.Name == "ttl" && fn.paramIndex(o) >= 0 {
								okArg = true
							}
						}
						return true
					})
					r.check(okArg, "TL4", key, p.pos(c), "`"+exprStr(c.Args[i])+"`", "the lease length handed to the lock library is `"+exprStr(c.Args[i])+"`, not the lock's configured TTL: a holder's key can expire (and another contender acquire it) while the holder is still inside the TTL it was promised")
				}
				return true
			})
		}
	}
	// TL5: every etcd lock lives on a session of its own. concurrency.Mutex identifies its owner by the session's lease and is
	// re-entrant per session: two locks on one session both "acquire" the same key at once, and the first Unlock deletes the
	// key under the other. So: NewSession is called once per lock, inside the constructor that also builds the mutex on it,
	// the session is a local of that constructor, and no constructor takes a session from outside.
	{
		r.min("TL5", 1)
		key := "lock/etcdlock / every lock is built on a session created for it alone"
		why := ""
		nNew := 0
		for _, fn := range p.sortedFuncs("lock/etcdlock", "store/etcdv3/meta") {
			if fn.Body == nil {
				continue
			}
			rel := relPath(fn.Pkg.PkgPath)
			if rel != "lock/etcdlock" && rel != "store/etcdv3/meta" {
				continue
			}
			fn.inspectBody(func(n ast.Node) bool {
				c, ok := n.(*ast.CallExpr)
				if !ok || fn.Callee(c) == nil {
					return true
				}
				switch fullObjName(fn.Callee(c)) {
				case "go.etcd.io/etcd/client/v3/concurrency.NewSession":
					nNew++
					if rel != "lock/etcdlock" {
						why = "a session is created at " + p.pos(c) + ", outside the lock constructor: it can be shared by several locks"
					}
				case "go.etcd.io/etcd/client/v3/concurrency.NewMutex":
					// the session argument is a local defined by NewSession in the same function
					okSess := false
					if id, ok := unparen(c.Args[0]).(*ast.Ident); ok {
						o := fn.objOf(id)
						fn.inspectBody(func(y ast.Node) bool {
							if as, ok := y.(*ast.AssignStmt); ok && len(as.Rhs) == 1 {
								if cc, ok := unparen(as.Rhs[0]).(*ast.CallExpr); ok && fn.Callee(cc) != nil && fn.Callee(cc).Name() == "NewSession" {
									for _, l := range as.Lhs {
										if fn.objOf(l) == o {
											okSess = true
										}
									}
								}
							}
							return true
						})
					}
					if !okSess {
						why = "the mutex at " + p.pos(c) + " is built on `" + exprStr(c.Args[0]) + "`, not on a session created in the same constructor: locks that share a session share one owner, so a second Lock/TryLock on a held key succeeds at once and Unlock releases the key under the other holder"
					}
				}
				return true
			})
		}
		if nNew != 1 && why == "" {
			why = fmt.Sprintf("%d calls of concurrency.NewSession in the lock wrapper and the store (want exactly 1, in the lock constructor)", nNew)
		}
		r.check2(why, "TL5", key, "", "NewSession and NewMutex(session, key) in one constructor, session local to it")
	}
	prims := map[string]bool{etcdMutexLock: true, etcdMutexTryLock: true, redisObtain: true}
	for _, nt := range impls {
		tname := strings.TrimPrefix(nt.String(), modPath+"/")
		// TL1
		if fn := methodNode(p, nt, "TryLock"); fn != nil {
			var pcs []primCall
			primCalls(p, fn, prims, 0, nil, nil, &pcs)
			key := tname + ".TryLock is non-blocking"
			if len(pcs) == 0 {
				r.undecided("TL1", key, p.pos(fn.Decl), "no known lock primitive reached")
			}
			for _, pc := range pcs {
				switch pc.name {
				case etcdMutexTryLock:
					r.ok("TL1", key, p.pos(pc.call), "calls concurrency.Mutex.TryLock")
				case etcdMutexLock:
					r.bad("TL1", key, p.pos(pc.call), "TryLock reaches the blocking concurrency.Mutex.Lock: a try-lock on a held lock waits")
				case redisObtain:
					if ok, why := optsNonBlocking(pc, pc.call.Args[len(pc.call.Args)-1]); ok {
						r.ok("TL1", key, p.pos(pc.call), "Obtain with "+why)
					} else {
						r.bad("TL1", key, p.pos(pc.call), "Obtain with "+why+": a retry strategy makes try-lock wait on a held lock")
					}
				}
			}
		} else {
			r.undecided("TL1", tname+".TryLock is non-blocking", "", "method not found")
		}
		// TL2
		if fn := methodNode(p, nt, "Lock"); fn != nil {
			var pcs []primCall
			primCalls(p, fn, prims, 0, nil, nil, &pcs)
			key := tname + ".Lock waits with timeout and reports failure"
			if len(pcs) == 0 {
				r.undecided("TL2", key, p.pos(fn.Decl), "no known lock primitive reached")
			}
			for _, pc := range pcs {
				if pc.name == etcdMutexTryLock {
					r.bad("TL2", key, p.pos(pc.call), "Lock uses the non-blocking primitive: a waiter never acquires after release")
					continue
				}
				if pc.name == redisObtain {
					if nb, why := optsNonBlocking(pc, pc.call.Args[len(pc.call.Args)-1]); nb {
						r.bad("TL2", key, p.pos(pc.call), "Lock obtains with "+why+": a waiter fails immediately instead of waiting")
						continue
					}
				}
				if pc.name == redisObtain {
					if okS, whyS := retryStrategyUnbounded(p, pc, pc.call.Args[len(pc.call.Args)-1]); !okS {
						r.bad("TL2", key+" / retry strategy", p.pos(pc.call), whyS)
					} else {
						r.ok("TL2", key+" / retry strategy", p.pos(pc.call), whyS)
					}
				}
				ok, why := ctxIsTimeoutOfReceiver(p, fn, pc)
				ok2, why2 := errPropagated(pc)
				if ok && ok2 {
					r.ok("TL2", key, p.pos(pc.call), why+"; "+why2)
				} else {
					r.bad("TL2", key, p.pos(pc.call), why+"; "+why2)
				}
			}
		} else {
			r.undecided("TL2", tname+".Lock waits with timeout and reports failure", "", "method not found")
		}
		// TL3b: nothing in the redis wrapper touches the key except through the redislock client/handle
		if strings.Contains(tname, "lock/redis") {
			var bad []string
			for _, f := range p.sortedFuncs("lock/redis") {
				f.inspectBody(func(n ast.Node) bool {
					c, ok := n.(*ast.CallExpr)
					if !ok {
						return true
					}
					callee := f.Callee(c)
					if callee == nil || callee.Pkg() == nil {
						return true
					}
					sig, _ := callee.Type().(*types.Signature)
					if sig == nil || sig.Recv() == nil {
						return true
					}
					rt := sig.Recv().Type().String()
					if strings.Contains(rt, "go-redis/redis") || strings.HasSuffix(rt, "redislock.RedisClient") {
						bad = append(bad, exprStr(c.Fun)+" in "+f.Name+" at "+p.pos(c))
					}
					return true
				})
			}
			r.check(len(bad) == 0, "TL3", tname+" / the lock key is only touched through the redislock client and handle", "", "no direct redis command in lock/redis",
				"direct redis command(s): "+strings.Join(bad, "; ")+" — a command that is not token-checked can delete or overwrite a key that another holder owns within its lease")
		}
		// TL3
		if fn := methodNode(p, nt, "Unlock"); fn != nil {
			checkTL3(p, r, nt, tname, fn)
		} else {
			r.undecided("TL3", tname+".Unlock releases only its own acquisition", "", "method not found")
		}
	}
}

// ctxIsTimeoutOfReceiver: the context argument of the primitive call is (through at most one parameter binding) a variable
// defined by context.WithTimeout(<ctx param of Lock>, <recv>.timeout).
func ctxIsTimeoutOfReceiver(p *Prog, lockFn *FuncNode, pc primCall) (bool, string) {
	arg := unparen(pc.call.Args[0])
	holder := pc.fn
	if id, ok := arg.(*ast.Ident); ok && pc.bind != nil {
		if a, ok := pc.bind[pc.fn.Pkg.TypesInfo.ObjectOf(id)]; ok {
			arg = unparen(a)
			holder = pc.bindFn
		}
	}
	id, ok := arg.(*ast.Ident)
	if !ok {
		return false, "context argument " + exprStr(arg) + " is not a local variable"
	}
	obj := holder.Pkg.TypesInfo.ObjectOf(id)
	var def *ast.CallExpr
	cnt := 0
	ast.Inspect(holder.Body, func(n ast.Node) bool {
		if a, ok := n.(*ast.AssignStmt); ok && len(a.Rhs) == 1 {
			for i, l := range a.Lhs {
				if lid, ok := l.(*ast.Ident); ok && holder.Pkg.TypesInfo.ObjectOf(lid) == obj && i == 0 {
					cnt++
					if c, ok := unparen(a.Rhs[0]).(*ast.CallExpr); ok {
						def = c
					}
				}
			}
		}
		return true
	})
	if holder != lockFn {
		return false, "context of the blocking call is not established in Lock"
	}
	if cnt != 1 || def == nil {
		if lockFn.paramIndex(obj) >= 0 {
			return false, "the blocking primitive is called with the caller's context: the wait is not bounded by the lock's timeout"
		}
		return false, "context variable has no single defining call"
	}
	f := holder.Callee(def)
	if f == nil || !strings.HasSuffix(fullObjName(f), "context.WithTimeout") || len(def.Args) != 2 {
		return false, "context of the blocking call is not built by context.WithTimeout"
	}
	if lockFn.paramIndex(holder.objOf(def.Args[0])) < 0 {
		return false, "timeout context does not derive from Lock's ctx parameter"
	}
	sel, ok := unparen(def.Args[1]).(*ast.SelectorExpr)
	if !ok || sel.Sel.Name != "timeout" {
		return false, "timeout is " + exprStr(def.Args[1]) + ", not the lock's timeout field"
	}
	return true, "blocking call under context.WithTimeout(ctx, " + exprStr(def.Args[1]) + ")"
}

// errPropagated: the error of the primitive call reaches a return (if err := prim(); err != nil { return ..., err } | l, err := prim(); if err != nil {return nil, err}).
func errPropagated(pc primCall) (bool, string) {
	fn := pc.fn
	var errObj types.Object
	ok := false
	ast.Inspect(fn.Body, func(n ast.Node) bool {
		switch s := n.(type) {
		case *ast.AssignStmt:
			if len(s.Rhs) == 1 && unparen(s.Rhs[0]) == ast.Expr(pc.call) {
				errObj = fn.objOf(s.Lhs[len(s.Lhs)-1])
			}
		case *ast.ReturnStmt:
			for _, e := range s.Results {
				if unparen(e) == ast.Expr(pc.call) {
					ok = true
				}
			}
		}
		return true
	})
	if ok {
		return true, "result returned directly"
	}
	if errObj == nil {
		return false, "error of the lock primitive is discarded"
	}
	ast.Inspect(fn.Body, func(n ast.Node) bool {
		if is, isIf := n.(*ast.IfStmt); isIf {
			if be, isBin := unparen(is.Cond).(*ast.BinaryExpr); isBin && be.Op == token.NEQ && fn.objOf(be.X) == errObj && isNilIdent(be.Y) {
				for _, st := range is.Body.List {
					if rt, isRet := st.(*ast.ReturnStmt); isRet && len(rt.Results) > 0 && fn.objOf(rt.Results[len(rt.Results)-1]) == errObj {
						ok = true
					}
				}
			}
		}
		return true
	})
	if ok {
		return true, "error checked and returned"
	}
	return false, "error of the lock primitive is not returned to the caller"
}

func checkTL3(p *Prog, r *Result, nt *types.Named, tname string, fn *FuncNode) {
	key := tname + ".Unlock releases only its own acquisition"
	dels := map[string]bool{etcdOpDelete: true, redisRelease: true,
		"go.etcd.io/etcd/client/v3.KV.Delete": true, "github.com/go-redis/redis/v8.cmdable.Del": true, "github.com/go-redis/redis/v8.(*Client).Del": true}
	var pcs []primCall
	primCalls(p, fn, dels, 0, nil, nil, &pcs)
	if len(pcs) == 0 {
		r.bad("TL3", key, p.pos(fn.Decl), "Unlock reaches no release primitive: the lock is never released")
		return
	}
	for _, pc := range pcs {
		switch pc.name {
		case etcdOpDelete:
			// must be an argument of X.Then(...) where X's call chain contains .If(m.mutex.IsOwner())
			guarded := false
			ast.Inspect(pc.fn.Body, func(n ast.Node) bool {
				c, ok := n.(*ast.CallExpr)
				if !ok {
					return true
				}
				sel, ok := c.Fun.(*ast.SelectorExpr)
				if !ok || sel.Sel.Name != "Then" {
					return true
				}
				has := false
				for _, a := range c.Args {
					if unparen(a) == ast.Expr(pc.call) {
						has = true
					}
				}
				if !has {
					return true
				}
				// receiver chain
				if ic, ok := unparen(sel.X).(*ast.CallExpr); ok {
					if isel, ok := ic.Fun.(*ast.SelectorExpr); ok && isel.Sel.Name == "If" && len(ic.Args) == 1 {
						if oc, ok := unparen(ic.Args[0]).(*ast.CallExpr); ok {
							if f := pc.fn.Callee(oc); f != nil && fullObjName(f) == "go.etcd.io/etcd/client/v3/concurrency.(*Mutex).IsOwner" {
								guarded = true
							}
						}
					}
				}
				return true
			})
			// the deleted key must be the mutex's own key
			ownKey := false
			if len(pc.call.Args) >= 1 {
				if kc, ok := unparen(pc.call.Args[0]).(*ast.CallExpr); ok {
					if f := pc.fn.Callee(kc); f != nil && fullObjName(f) == "go.etcd.io/etcd/client/v3/concurrency.(*Mutex).Key" {
						ownKey = true
					}
				}
			}
			if guarded && ownKey {
				r.ok("TL3", key, p.pos(pc.call), "delete of mutex.Key() inside Then() of Txn().If(mutex.IsOwner())")
			} else {
				r.bad("TL3", key, p.pos(pc.call), "the etcd key is deleted without the IsOwner() compare (or is not the mutex's own key): a holder whose lease lapsed would remove the lock of the current holder")
			}
		case redisRelease:
			// receiver is a field of the lock that is assigned only from Obtain's result
			sel, ok := unparen(pc.call.Fun).(*ast.SelectorExpr)
			var fld types.Object
			if ok {
				if fs, ok := unparen(sel.X).(*ast.SelectorExpr); ok {
					fld = pc.fn.Pkg.TypesInfo.ObjectOf(fs.Sel)
				}
			}
			if fld == nil {
				r.bad("TL3", key, p.pos(pc.call), "Release is not called on the handle stored in the lock object")
				continue
			}
			okSrc, nStores := true, 0
			for _, m := range p.sortedFuncs(relPath(nt.Obj().Pkg().Path())) {
				if m.Body == nil {
					continue
				}
				ast.Inspect(m.Body, func(n ast.Node) bool {
					a, ok := n.(*ast.AssignStmt)
					if !ok {
						return true
					}
					for i, l := range a.Lhs {
						ls, ok := unparen(l).(*ast.SelectorExpr)
						if !ok || m.Pkg.TypesInfo.ObjectOf(ls.Sel) != fld {
							continue
						}
						nStores++
						if len(a.Rhs) != len(a.Lhs) {
							okSrc = false
							continue
						}
						// rhs must be a local defined from Obtain
						rid, ok := unparen(a.Rhs[i]).(*ast.Ident)
						if !ok || !definedByCall(m, rid, redisObtain) {
							okSrc = false
						}
					}
					return true
				})
			}
			if okSrc && nStores > 0 {
				r.ok("TL3", key, p.pos(pc.call), "Release on the handle returned by this lock's own Obtain (token-checked release)")
			} else {
				r.bad("TL3", key, p.pos(pc.call), "the released handle does not come only from this lock's own Obtain")
			}
		default:
			r.bad("TL3", key, p.pos(pc.call), "unconditional delete ("+pc.name+") in Unlock: may remove another holder's lock")
		}
	}
}

// definedByCall: identifier id is a local of fn whose only definition is a call to callee (first result).
func definedByCall(fn *FuncNode, id *ast.Ident, callee string) bool {
	obj := fn.Pkg.TypesInfo.ObjectOf(id)
	cnt, ok := 0, false
	ast.Inspect(fn.Body, func(n ast.Node) bool {
		if a, isA := n.(*ast.AssignStmt); isA && len(a.Rhs) == 1 {
			if lid, isId := a.Lhs[0].(*ast.Ident); isId && fn.Pkg.TypesInfo.ObjectOf(lid) == obj {
				cnt++
				if c, isC := unparen(a.Rhs[0]).(*ast.CallExpr); isC {
					if f := fn.Callee(c); f != nil && fullObjName(f) == callee {
						ok = true
					}
				}
			}
		}
		return true
	})
	return cnt == 1 && ok
}

// L5w: promptness inside the watcher goroutines. A watcher is a `go func(){…}()` literal with a select case receiving from
// the Done() channel of a non-context value (the session). In that case's body, from the statement that records the loss
// (a method call on the returned context wrapper) no blocking receive may be reachable before the goroutine exits, and the
// cancel function must run on exit (defer as first statement) or be called on that path.
func checkWatcherPrompt(p *Prog, r *Result) {
	r.min("L5w", 1)
	n := 0
	// functions started with `go` in the lock packages: literals and declared functions alike
	spawned := map[*FuncNode]bool{}
	for _, fn := range p.sortedFuncs("lock") {
		if fn.Body == nil {
			continue
		}
		fn.inspectBody(func(x ast.Node) bool {
			g, ok := x.(*ast.GoStmt)
			if !ok {
				return true
			}
			if lit, ok := unparen(g.Call.Fun).(*ast.FuncLit); ok {
				if t := p.ByLit[lit]; t != nil {
					spawned[t] = true
				}
			} else if f := fn.Callee(g.Call); f != nil {
				if t := p.ByObj[f]; t != nil {
					spawned[t] = true
				}
			}
			return true
		})
	}
	for _, fn := range p.sortedFuncs("lock") {
		if !spawned[fn] || fn.Body == nil {
			continue
		}
		var lossCase *ast.CommClause
		fn.inspectBody(func(x ast.Node) bool {
			cc, ok := x.(*ast.CommClause)
			if !ok || cc.Comm == nil {
				return true
			}
			var recv ast.Expr
			switch c := cc.Comm.(type) {
			case *ast.ExprStmt:
				if u, ok := unparen(c.X).(*ast.UnaryExpr); ok && u.Op == token.ARROW {
					recv = u.X
				}
			case *ast.AssignStmt:
				if len(c.Rhs) == 1 {
					if u, ok := unparen(c.Rhs[0]).(*ast.UnaryExpr); ok && u.Op == token.ARROW {
						recv = u.X
					}
				}
			}
			if call, ok := unparen(recv).(*ast.CallExpr); ok {
				if sel, ok := unparen(call.Fun).(*ast.SelectorExpr); ok && sel.Sel.Name == "Done" && !isContextType(fn.typeOf(sel.X)) {
					lossCase = cc
				}
			}
			return true
		})
		if lossCase == nil {
			continue
		}
		n++
		top := topOf(fn)
		key := fmt.Sprintf("%s / lock loss cancels the returned context without waiting for anything else", top.Name+" watcher "+strings.TrimPrefix(fn.Name, top.Name))
		// cancel on exit
		deferCancel := false
		if len(fn.Body.List) > 0 {
			if ds, ok := fn.Body.List[0].(*ast.DeferStmt); ok {
				if o := fn.objOf(ds.Call.Fun); o != nil {
					if sig, ok := o.Type().Underlying().(*types.Signature); ok && sig.Params().Len() == 0 && sig.Results().Len() == 0 {
						deferCancel = true
					}
				}
			}
		}
		// loss marker: method call on a value whose type embeds context.Context (the wrapper that is returned)
		var marker ast.Node
		for _, st := range lossCase.Body {
			ast.Inspect(st, func(x ast.Node) bool {
				if c, ok := x.(*ast.CallExpr); ok && marker == nil {
					if f := fn.Callee(c); f != nil && f.Pkg() != nil && strings.HasPrefix(relPath(f.Pkg().Path()), "lock") {
						if sig, ok := f.Type().(*types.Signature); ok && sig.Recv() != nil {
							marker = c
						}
					}
				}
				return true
			})
		}
		why := ""
		switch {
		case marker == nil:
			r.undecided("L5w", key, p.pos(lossCase), "no statement recording the loss on the returned context found in the session-done case")
			continue
		case !deferCancel:
			why = "the watcher does not register `defer cancel()` first: leaving the goroutine does not cancel the returned context"
		default:
			mref := fn.find(marker)
			if hit, found := fn.reach(mref, true, func(nr nodeRef) bool {
				blocked := false
				inspectNoLit(nr.node(), func(x ast.Node) bool {
					if u, ok := x.(*ast.UnaryExpr); ok && u.Op == token.ARROW {
						blocked = true
					}
					if _, ok := x.(*ast.SelectStmt); ok {
						blocked = true
					}
					return true
				})
				return blocked
			}, nil, false); found {
				why = "after recording the loss the watcher blocks on another receive (" + p.pos(hit.node()) + ") before it returns: Err() reports the loss but Done() is not closed, so the critical section and every context derived from it stay live while another holder has the lock"
			}
		}
		r.check2(why, "L5w", key, p.pos(lossCase), "loss recorded, then the goroutine returns and its deferred cancel closes Done()")
	}
}

// retryStrategyUnbounded: the options expression of a blocking Obtain resolves to &redislock.Options{RetryStrategy: X} with
// X a call of redislock.LinearBackoff or redislock.ExponentialBackoff (stateless, unlimited): only the context ends the wait.
func retryStrategyUnbounded(p *Prog, pc primCall, e ast.Expr) (bool, string) {
	e = unparen(e)
	fn := pc.fn
	if id, ok := e.(*ast.Ident); ok {
		obj := fn.Pkg.TypesInfo.ObjectOf(id)
		if pc.bind != nil {
			if a, ok := pc.bind[obj]; ok {
				e, fn = unparen(a), pc.bindFn
			}
		}
	}
	id, ok := e.(*ast.Ident)
	if !ok {
		return false, "retry options are not a package-level variable: " + exprStr(e)
	}
	obj := fn.Pkg.TypesInfo.ObjectOf(id)
	var init ast.Expr
	for _, f := range fn.Pkg.Syntax {
		ast.Inspect(f, func(n ast.Node) bool {
			if vs, ok := n.(*ast.ValueSpec); ok {
				for i, nm := range vs.Names {
					if fn.Pkg.TypesInfo.ObjectOf(nm) == obj && i < len(vs.Values) {
						init = vs.Values[i]
					}
				}
			}
			return true
		})
	}
	if init == nil {
		return false, "retry options variable has no initializer"
	}
	// written elsewhere?
	for _, f := range p.sortedFuncs(relPath(fn.Pkg.PkgPath)) {
		w := false
		f.inspectBody(func(n ast.Node) bool {
			if as, ok := n.(*ast.AssignStmt); ok {
				for _, l := range as.Lhs {
					if f.objOf(l) == obj {
						w = true
					}
					if sel, ok := unparen(l).(*ast.SelectorExpr); ok && f.objOf(sel.X) == obj {
						w = true
					}
				}
			}
			return true
		})
		if w {
			return false, "the shared retry options are modified at run time in " + f.Name
		}
	}
	x := unparen(init)
	if u, ok := x.(*ast.UnaryExpr); ok {
		x = unparen(u.X)
	}
	lit, ok := x.(*ast.CompositeLit)
	if !ok {
		return false, "retry options are not a literal"
	}
	for _, el := range lit.Elts {
		kv, ok := el.(*ast.KeyValueExpr)
		if !ok || exprStr(kv.Key) != "RetryStrategy" {
			continue
		}
		c, ok := unparen(kv.Value).(*ast.CallExpr)
		if !ok {
			return false, "RetryStrategy is not a constructor call"
		}
		tv := fn.Pkg.TypesInfo.Uses
		_ = tv
		var callee *types.Func
		switch f := unparen(c.Fun).(type) {
		case *ast.SelectorExpr:
			callee, _ = fn.Pkg.TypesInfo.ObjectOf(f.Sel).(*types.Func)
		case *ast.Ident:
			callee, _ = fn.Pkg.TypesInfo.ObjectOf(f).(*types.Func)
		}
		if callee == nil {
			return false, "RetryStrategy constructor not resolved"
		}
		switch fullObjName(callee) {
		case "github.com/muroq/redislock.LinearBackoff", "github.com/muroq/redislock.ExponentialBackoff":
			return true, "retry strategy " + callee.Name() + ": stateless and unlimited, the wait ends only with the timeout context"
		}
		return false, "retry strategy is " + exprStr(kv.Value) + ": a bounded or stateful strategy (LimitRetry keeps one counter for the shared options value, i.e. for every Lock call of the process) makes waiters give up before their wait timeout although the holder would have released in time"
	}
	return false, "options literal has no RetryStrategy: Lock does not wait at all"
}
