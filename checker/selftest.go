package main

// selfTest (thorough tier): run the property's rules against seeded mutants of the current tree.
func selfTest(p *Prog, r *Result, verifDir string, seed int) {
}
