package main

// Thorough tier: checker self-test against the kept seeded changes.
//
// For the property being checked, every confirmed seeded change under <verif>/seeded/<name>/ (patch.diff + meta.json,
// produced by independent sub-agents and confirmed to break the property while the pinned tests keep passing) is applied to
// a scratch copy of the CURRENT working tree of the repository (outside the repository and the verification directory,
// removed afterwards); the scratch copy is type-checked and the same rules are run on it. A seed the rules do not flag is a
// weakness of the checker, not of the repository: it is recorded in the evidence (and printed as SELFTEST-MISS) but never
// turned into a VIOLATION. Nothing under test is executed.

import (
	"encoding/json"
	"fmt"
	"os"
	"os/exec"
	"path/filepath"
	"sort"
	"strings"
)

type seedMeta struct {
	Seed      string   `json:"seed"`
	Breaks    []string `json:"breaks_property"`
	Confirmed bool     `json:"confirmed"`
}

func selfTest(p *Prog, r *Result, verifDir string, seed int) {
	dirs, _ := filepath.Glob(filepath.Join(verifDir, "seeded", "*", "meta.json"))
	sort.Strings(dirs)
	type outcome struct {
		Seed     string   `json:"seed"`
		Applied  bool     `json:"applied"`
		Detected bool     `json:"detected"`
		Rules    []string `json:"rules,omitempty"`
		Note     string   `json:"note,omitempty"`
	}
	var outs []outcome
	for _, mf := range dirs {
		var m seedMeta
		b, err := os.ReadFile(mf)
		if err != nil || json.Unmarshal(b, &m) != nil || !m.Confirmed {
			continue
		}
		mine := false
		for _, id := range m.Breaks {
			if id == r.ID {
				mine = true
			}
		}
		if !mine {
			continue
		}
		o := outcome{Seed: m.Seed}
		o.Applied, o.Rules, o.Note = replayPatch(p, r, filepath.Join(filepath.Dir(mf), "patch.diff"))
		o.Detected = len(o.Rules) > 0
		outs = append(outs, o)
	}
	missed := 0
	for _, o := range outs {
		if o.Applied && !o.Detected {
			missed++
			fmt.Printf("SELFTEST-MISS property=%s seed=%s: the rules do not flag this confirmed property-breaking change (checker weakness, not a finding about the repository)\n", r.ID, o.Seed)
		}
	}
	r.Tables["selftest_seeded_changes"] = outs
	r.Analysed["selftest_seeds_tried"] = len(outs)
	r.Analysed["selftest_seeds_missed"] = missed
	r.observe("thorough tier: %d kept seeded change(s) for this property re-applied to a scratch copy of the current tree and analysed with the same rules; %d not flagged", len(outs), missed)
}

// replayPatch applies one patch to a scratch copy of the current tree, type-checks it and runs the property's rules on it;
// it returns the rules that report something the unpatched tree does not.
func replayPatch(p *Prog, r *Result, patch string) (applied bool, fired []string, note string) {
	scratch, err := os.MkdirTemp("/var/tmp", "verif-selftest-")
	if err != nil {
		return false, nil, "cannot create scratch dir: " + err.Error()
	}
	defer os.RemoveAll(scratch)
	// copy the working tree (without .git)
	cp := exec.Command("rsync", "-a", "--exclude", ".git", p.Repo+"/", scratch+"/")
	if out, err := cp.CombinedOutput(); err != nil {
		return false, nil, "copy failed: " + strings.TrimSpace(string(out))
	}
	ap := exec.Command("patch", "-p1", "-s", "--fuzz=3", "-i", patch)
	ap.Dir = scratch
	if out, err := ap.CombinedOutput(); err != nil {
		return false, nil, "patch no longer applies to the current tree: " + strings.TrimSpace(string(out))
	}
	applied = true
	sp, err := loadProg(scratch, false)
	if err != nil {
		return applied, nil, "patched tree does not type-check: " + err.Error()
	}
	sr := newResult(r.ID)
	func() {
		defer func() {
			if e := recover(); e != nil {
				sr.undecided("panic", "checker", "", fmt.Sprint(e))
			}
		}()
		registry[r.ID](sp, sr, "quick")
	}()
	// apply count minima like finish() does
	counts := map[string]int{}
	for _, ob := range sr.Obligs {
		counts[ob.Rule]++
	}
	rules := map[string]bool{}
	for rule, min := range sr.RuleMin {
		if counts[rule] < min {
			rules["count:"+rule] = true
		}
	}
	base := map[string]bool{}
	for _, ob := range r.Obligs {
		if ob.Status != stOK {
			base[ob.key()] = true
		}
	}
	for _, ob := range sr.Obligs {
		if ob.Status != stOK && !base[ob.key()] {
			rules[ob.Rule+" @ "+ob.Construct] = true
		}
	}
	for k := range rules {
		fired = append(fired, k)
	}
	sort.Strings(fired)
	return applied, fired, ""
}

// neutralCap bounds the number of behaviour-preserving changes replayed for one property in one thorough run.
const neutralCap = 8

// neutralTest replays the kept behaviour-preserving changes (<verif>/neutral/<name>/patch.diff) that touch a file in which
// this property has obligations; the rules must stay silent on each. An alarm here is a weakness of the checker (printed as
// SELFTEST-FALSE-ALARM and recorded in the evidence), never a VIOLATION about the repository.
func neutralTest(p *Prog, r *Result, verifDir string) {
	files := map[string]bool{}
	for _, ob := range r.Obligs {
		f := ob.Pos
		if i := strings.Index(f, ":"); i >= 0 {
			f = f[:i]
		}
		f = strings.TrimPrefix(f, p.Repo+"/")
		if f != "" {
			files[f] = true
		}
	}
	patches, _ := filepath.Glob(filepath.Join(verifDir, "neutral", "*", "patch.diff"))
	sort.Strings(patches)
	type outcome struct {
		Name    string   `json:"neutral_change"`
		Applied bool     `json:"applied"`
		Alarms  []string `json:"alarms,omitempty"`
		Note    string   `json:"note,omitempty"`
	}
	var outs []outcome
	alarms := 0
	// the changes that touch this property's files; at most neutralCap of them are replayed per run (each replay loads and
	// type-checks a whole scratch tree), chosen round-robin over the authors' batches in name order, so that every batch
	// and area is represented; tools/neutral_all.sh runs every check on every kept change
	var relevant []string
	for _, pf := range patches {
		b, err := os.ReadFile(pf)
		if err != nil {
			continue
		}
		touches := false
		for _, l := range strings.Split(string(b), "\n") {
			if strings.HasPrefix(l, "+++ b/") && files[strings.TrimSpace(strings.TrimPrefix(l, "+++ b/"))] {
				touches = true
			}
		}
		if touches {
			relevant = append(relevant, pf)
		}
	}
	nRelevant := len(relevant)
	if len(relevant) > neutralCap {
		byBatch := map[string][]string{}
		var batches []string
		for _, pf := range relevant {
			b := filepath.Base(filepath.Dir(pf))
			if i := strings.Index(b, "-"); i > 0 {
				b = b[:i]
			}
			if _, ok := byBatch[b]; !ok {
				batches = append(batches, b)
			}
			byBatch[b] = append(byBatch[b], pf)
		}
		sort.Strings(batches)
		var pick []string
		for i := 0; len(pick) < neutralCap; i++ {
			progressed := false
			for _, b := range batches {
				if i < len(byBatch[b]) && len(pick) < neutralCap {
					pick = append(pick, byBatch[b][i])
					progressed = true
				}
			}
			if !progressed {
				break
			}
		}
		sort.Strings(pick)
		relevant = pick
	}
	r.Analysed["selftest_neutral_relevant"] = nRelevant
	for _, pf := range relevant {
		o := outcome{Name: filepath.Base(filepath.Dir(pf))}
		o.Applied, o.Alarms, o.Note = replayPatch(p, r, pf)
		if o.Applied && (len(o.Alarms) > 0 || o.Note != "") {
			alarms++
			fmt.Printf("SELFTEST-FALSE-ALARM property=%s neutral=%s: %s %s (checker weakness: the change preserves behaviour)\n", r.ID, o.Name, strings.Join(o.Alarms, "; "), o.Note)
		}
		outs = append(outs, o)
	}
	r.Tables["selftest_neutral_changes"] = outs
	r.Analysed["selftest_neutral_tried"] = len(outs)
	r.Analysed["selftest_neutral_alarms"] = alarms
	r.observe("thorough tier: %d kept behaviour-preserving change(s) touching this property's files re-applied to a scratch copy and analysed with the same rules; %d raised an alarm", len(outs), alarms)
}
