package main

// C01 / C02 — placement strategies: structural clauses decided by path enumeration with a linear symbolic state
// (stratshape.go). Each strategy's main loop is checked against the inductive invariants that make its plan respect
// count, capacity and limit (C01), and each refusal is checked to happen under exactly the conditions the strategy's rule
// names, with arithmetic that stays exact when a capacity is unlimited (C02). The numeric relation between a plan and
// every candidate set is NOT computed; what is decided is that every path through the planning loops preserves the
// invariants from which that relation follows.

import (
	"fmt"
	"go/ast"
	"go/token"
	"go/types"
	"sort"
	"strings"
)

func init() {
	register("C01", checkC01)
	register("C02", checkC02)
}

var stratFuncs = map[string]string{"AUTO": "strategy.CommunismPlan", "GLOBAL": "strategy.GlobalPlan", "DRAINED": "strategy.DrainedPlan", "EACH": "strategy.AveragePlan", "FILL": "strategy.FillPlan"}

type stratRoles struct {
	name                      string
	F                         *FuncNode
	infos, need, total, limit types.Object
	plan                      types.Object
	loop                      ast.Stmt
	body                      []ast.Stmt
	pre, post                 []ast.Stmt // top-level statements before / after the main loop
	elem                      types.Object
	x                         *shapeExec
	loopPaths                 []spath
	problems                  []string
}

func isPlanMap(t types.Type) bool {
	m, ok := t.Underlying().(*types.Map)
	if !ok {
		return false
	}
	k, ok1 := m.Key().Underlying().(*types.Basic)
	v, ok2 := m.Elem().Underlying().(*types.Basic)
	return ok1 && ok2 && k.Kind() == types.String && v.Info()&types.IsInteger != 0
}

func resolveStrat(p *Prog, name string) *stratRoles {
	F := p.Fn(stratFuncs[name])
	if F == nil {
		return nil
	}
	r := &stratRoles{name: name, F: F}
	r.infos, r.need, r.total, r.limit = F.paramObj(1), F.paramObj(2), F.paramObj(3), F.paramObj(4)
	// the plan: the map returned together with a nil (or variable) error
	F.inspectBody(func(n ast.Node) bool {
		rt, ok := n.(*ast.ReturnStmt)
		if !ok || len(rt.Results) != 2 {
			return true
		}
		if id, ok := unparen(rt.Results[0]).(*ast.Ident); ok && id.Name != "nil" {
			if o := F.objOf(id); o != nil && isPlanMap(o.Type()) {
				r.plan = o
			}
		}
		return true
	})
	if r.plan == nil {
		r.problems = append(r.problems, "no returned map[string]int found")
		return r
	}
	planWrite := func(n ast.Node) ast.Expr {
		var l ast.Expr
		switch y := n.(type) {
		case *ast.AssignStmt:
			if len(y.Lhs) == 1 {
				l = y.Lhs[0]
			}
		case *ast.IncDecStmt:
			l = y.X
		}
		if ix, ok := unparen(l).(*ast.IndexExpr); ok && F.objOf(ix.X) == r.plan {
			return ix.Index
		}
		return nil
	}
	for i, s := range F.Body.List {
		switch s.(type) {
		case *ast.ForStmt, *ast.RangeStmt:
		default:
			continue
		}
		found := false
		ast.Inspect(s, func(n ast.Node) bool {
			if idx := planWrite(n); idx != nil {
				found = true
				if sel, ok := unparen(idx).(*ast.SelectorExpr); ok && sel.Sel.Name == "Nodename" {
					if id, ok := unparen(sel.X).(*ast.Ident); ok {
						r.elem = F.objOf(id)
					}
				}
			}
			return true
		})
		if found {
			r.loop, r.pre, r.post = s, F.Body.List[:i], F.Body.List[i+1:]
			break
		}
	}
	if r.loop == nil {
		r.problems = append(r.problems, "no top-level loop writes the plan")
		return r
	}
	switch l := r.loop.(type) {
	case *ast.ForStmt:
		r.body = l.Body.List
	case *ast.RangeStmt:
		r.body = l.Body.List
	}
	if r.elem == nil {
		r.problems = append(r.problems, "the plan is not indexed by <element>.Nodename")
		return r
	}
	r.x = &shapeExec{fn: F, term: r.term}
	r.loopPaths = r.x.run(r.body, newSpath())
	return r
}

func (r *stratRoles) term(e ast.Expr) (string, bool) {
	F := r.F
	e = unparen(e)
	switch y := e.(type) {
	case *ast.Ident:
		o := F.objOf(y)
		switch {
		case o == nil:
			return "", false
		case o == r.need:
			return "need", true
		case o == r.limit:
			return "limit", true
		case o == r.total:
			return "total", true
		}
		if isIntLike(o.Type()) {
			if _, isConst := o.(*types.Const); isConst {
				return "", false
			}
			return y.Name, true
		}
	case *ast.SelectorExpr:
		if id, ok := unparen(y.X).(*ast.Ident); ok && F.objOf(id) == r.elem && isIntLike(F.typeOf(y)) {
			return "E." + y.Sel.Name, true
		}
	case *ast.IndexExpr:
		if F.objOf(y.X) == r.plan {
			if sel, ok := unparen(y.Index).(*ast.SelectorExpr); ok && sel.Sel.Name == "Nodename" {
				if id, ok := unparen(sel.X).(*ast.Ident); ok && F.objOf(id) == r.elem {
					return "plan[E]", true
				}
			}
			return "plan[" + exprStr(y.Index) + "]", true
		}
	}
	return "", false
}

// errorReturn: the return statement carries an error expression that cannot be nil (a call or a sentinel), and whether the
// plan result is nil
func errorReturn(fn *FuncNode, rt *ast.ReturnStmt) (isErr, planNil, varErr bool) {
	if rt == nil || len(rt.Results) != 2 {
		return false, false, false
	}
	planNil = isNilIdent(rt.Results[0])
	e := unparen(rt.Results[1])
	if isNilIdent(e) {
		return false, planNil, false
	}
	if id, ok := e.(*ast.Ident); ok {
		if _, isVar := fn.objOf(id).(*types.Var); isVar {
			return false, planNil, true
		}
	}
	return true, planNil, false
}

// succeeds: the path ends by returning the plan (nil or variable error), or by going round the loop again
func (r *stratRoles) planReturn(p spath) bool {
	if p.end != "return" || p.ret == nil || len(p.ret.Results) != 2 {
		return false
	}
	id, ok := unparen(p.ret.Results[0]).(*ast.Ident)
	return ok && r.F.objOf(id) == r.plan
}

func pathLabel(p spath) string {
	c := condTexts(p.conds)
	if c == "" {
		c = "(no condition)"
	}
	return c + " → " + p.end
}

// pushEvents: calls that (re)insert the element into a heap: heap.Push(h, E) or h.Push(E)
func (r *stratRoles) pushEvents(p spath) []eventRec {
	var out []eventRec
	for _, e := range p.events {
		if e.call == nil || !(e.name == "container/heap.Push" || strings.HasSuffix(e.name, ".Push")) {
			continue
		}
		a := e.call.Args[len(e.call.Args)-1]
		if id, ok := unparen(a).(*ast.Ident); ok && r.F.objOf(id) == r.elem {
			out = append(out, e)
		}
	}
	return out
}

func checkC01(p *Prog, res *Result, tier string) {
	res.Technique = "inductive-invariant check of each placement strategy by path enumeration over its planning loop with a linear symbolic state (every integer lvalue as a linear form over its value at loop entry; conditions passed are kept in the same vocabulary), plus provenance of the plan's keys and of the strategy inputs, and guard rules for heap insertion"
	res.Explanation = "For each of AUTO, GLOBAL, DRAINED, EACH, FILL: KEY the plan is only ever indexed by the node name of an element that comes from the candidate list (the list itself, a copy, a sub-slice, or a heap filled from it); " +
		"CNT on every path through the planning loop the instances placed and the remaining demand move together (AUTO/DRAINED: Δplan[n] + Δneed = 0 and the plan is returned only past `need == 0`; GLOBAL: exactly one placement per completed iteration of `for i := 0; i < need; i++`, need untouched; EACH: each selected node gets exactly `need`, the selection is infos[:limit]; FILL: each selected node gets max(need − Count, 0) and the selection ends past `limit == 0` with one decrement per selected node); " +
		"CAP placements never exceed the remaining capacity: AUTO/GLOBAL every placement is matched by Capacity-- before the element is re-inserted and an element whose capacity is 0 is never (re)inserted (the insertion is guarded at the call or inside Push, and the initial fill is guarded the same way); DRAINED the value written is need under `need < Capacity`, else Capacity; EACH the selected prefix lies before the first node with Capacity < need (descending sort on Capacity, sort.Search with that predicate, `p < limit` refused); FILL the value is written under `Capacity >= need − Count`; " +
		"LIM (AUTO) Count++ accompanies every placement before re-insertion and every insertion point filters `limit > 0 && Count >= limit`; " +
		"ASM the strategy input of a node is assembled from that node's own capacity record and its own deploy-status count."
	res.NotCovered = "the numeric relation itself (the invariants are shown to be preserved by every path; that they imply the statement is the usual induction, done by hand in DESIGN.md §4 C01); non-negativity of the inputs (capacities and counts are assumed ≥ 0, need ≥ 1 is enforced by strategy.Deploy and checked under ENT); distinctness of node names (C21); heap and sort library correctness"
	res.Assumptions = []string{"capacities and counts handed to a strategy are ≥ 0; names are distinct (C21)", "container/heap and sort behave as documented"}
	res.min("KEY", 5)
	res.min("CNT", 5)
	res.min("CAP", 7)
	res.min("LIM", 3)
	res.min("ASM", 3)
	res.min("ENT", 2)

	names := []string{"AUTO", "GLOBAL", "DRAINED", "EACH", "FILL"}
	for _, n := range names {
		r := resolveStrat(p, n)
		if r == nil {
			res.undecided("anchor", stratFuncs[n], "", "not found")
			continue
		}
		if len(r.problems) > 0 {
			res.undecided("anchor", stratFuncs[n], p.pos(r.F.Decl), strings.Join(r.problems, "; "))
			continue
		}
		res.Analysed["loop_paths_"+n] = len(r.loopPaths)
		checkKEY(p, res, r)
		switch n {
		case "AUTO":
			c01Auto(p, res, r)
		case "GLOBAL":
			c01Global(p, res, r)
		case "DRAINED":
			c01Drained(p, res, r)
		case "EACH":
			c01Each(p, res, r)
		case "FILL":
			c01Fill(p, res, r)
		}
	}
	checkASM(p, res)
	checkENT(p, res)
}

// ---- KEY: provenance of the element whose name indexes the plan
func checkKEY(p *Prog, res *Result, r *stratRoles) {
	F := r.F
	key := r.F.Name + " / the plan is indexed only by names of candidate nodes"
	prov := map[types.Object]bool{r.infos: true}
	heaps := map[types.Object]bool{}
	fromProv := func(e ast.Expr) bool {
		e = unparen(e)
		if s, ok := e.(*ast.SliceExpr); ok {
			e = unparen(s.X)
		}
		id, ok := e.(*ast.Ident)
		return ok && prov[F.objOf(id)]
	}
	rangeVal := map[types.Object]bool{} // range values over prov
	for iter := 0; iter < 4; iter++ {
		F.inspectBody(func(n ast.Node) bool {
			switch y := n.(type) {
			case *ast.CallExpr:
				// copy(dst, infos)
				if id, ok := unparen(y.Fun).(*ast.Ident); ok && id.Name == "copy" && len(y.Args) == 2 && fromProv(y.Args[1]) {
					if d, ok := unparen(y.Args[0]).(*ast.Ident); ok {
						prov[F.objOf(d)] = true
					}
				}
				// h.Push(v) / heap.Push(h, v) with v a range value over prov (or the element itself)
				if f := F.Callee(y); f != nil && f.Name() == "Push" && len(y.Args) >= 1 {
					v, ok := unparen(y.Args[len(y.Args)-1]).(*ast.Ident)
					if ok && (rangeVal[F.objOf(v)] || F.objOf(v) == r.elem) {
						var h ast.Expr
						if len(y.Args) == 2 {
							h = y.Args[0]
						} else if sel, ok := unparen(y.Fun).(*ast.SelectorExpr); ok {
							h = sel.X
						}
						if hid, ok := unparen(h).(*ast.Ident); ok {
							heaps[F.objOf(hid)] = true
						}
					}
				}
			case *ast.AssignStmt:
				if len(y.Lhs) == 1 && len(y.Rhs) == 1 {
					l, ok := y.Lhs[0].(*ast.Ident)
					if !ok {
						return true
					}
					// h := newHeap(infos, …): a same-package constructor handed the candidates
					if c, ok := unparen(y.Rhs[0]).(*ast.CallExpr); ok {
						if f := F.Callee(c); f != nil && f.Pkg() == F.Pkg.Types {
							for _, a := range c.Args {
								if fromProv(a) {
									heaps[F.objOf(l)] = true
								}
							}
						}
					}
					if fromProv(y.Rhs[0]) && !isIntLike(F.typeOf(y.Rhs[0])) {
						prov[F.objOf(l)] = true
					}
				}
			case *ast.RangeStmt:
				if fromProv(y.X) && y.Value != nil {
					if v, ok := y.Value.(*ast.Ident); ok {
						rangeVal[F.objOf(v)] = true
					}
				}
			}
			return true
		})
	}
	// how is the element defined?
	why := "the element whose name indexes the plan is not derived from the candidate list"
	okProv := false
	if rangeVal[r.elem] {
		okProv = true
		why = "range value over the candidates"
	}
	F.inspectBody(func(n ast.Node) bool {
		as, ok := n.(*ast.AssignStmt)
		if !ok || len(as.Lhs) != 1 || len(as.Rhs) != 1 || F.objOf(as.Lhs[0]) != r.elem {
			return true
		}
		rhs := unparen(as.Rhs[0])
		if u, ok := rhs.(*ast.UnaryExpr); ok && u.Op == token.AND {
			if ix, ok := unparen(u.X).(*ast.IndexExpr); ok && fromProv(ix.X) {
				okProv, why = true, "address of an element of (a copy of) the candidates"
			}
		}
		if ta, ok := rhs.(*ast.TypeAssertExpr); ok {
			if c, ok := unparen(ta.X).(*ast.CallExpr); ok && F.Callee(c) != nil && F.Callee(c).Name() == "Pop" && len(c.Args) >= 1 {
				if h, ok := unparen(c.Args[0]).(*ast.Ident); ok && heaps[F.objOf(h)] {
					okProv, why = true, "popped from a heap filled from the candidates"
				}
			}
		}
		if ix, ok := rhs.(*ast.IndexExpr); ok && fromProv(ix.X) {
			okProv, why = true, "element of (a copy of) the candidates"
		}
		return true
	})
	// every write to the plan uses that element's Nodename
	other := ""
	F.inspectBody(func(n ast.Node) bool {
		var l ast.Expr
		switch y := n.(type) {
		case *ast.AssignStmt:
			for _, x := range y.Lhs {
				if ix, ok := unparen(x).(*ast.IndexExpr); ok && F.objOf(ix.X) == r.plan {
					l = ix
				}
			}
		case *ast.IncDecStmt:
			if ix, ok := unparen(y.X).(*ast.IndexExpr); ok && F.objOf(ix.X) == r.plan {
				l = ix
			}
		}
		if l != nil {
			if t, _ := r.term(l); t != "plan[E]" {
				other = exprStr(l)
			}
		}
		return true
	})
	if other != "" {
		res.bad("KEY", key, p.pos(r.F.Decl), "the plan is also written at `"+other+"`, whose key is not the name of the element being placed")
		return
	}
	res.check(okProv, "KEY", key, p.pos(r.F.Decl), why, why+": the plan could name a node that is not a candidate")
}

// invariant helper: on every path in ps satisfying sel, form(path) must be the zero form
func (r *stratRoles) invariant(p *Prog, res *Result, rule, key string, sel func(spath) bool, form func(spath) (lin, string), okDetail, badWhy string) {
	n := 0
	for _, pa := range r.loopPaths {
		if pa.end == "overflow" {
			res.undecided(rule, key, p.pos(r.loop), "path enumeration exceeded its bound")
			return
		}
		if !sel(pa) {
			continue
		}
		n++
		f, desc := form(pa)
		if f.hasOpaque() {
			res.undecided(rule, key, p.pos(r.loop), "on the path ["+pathLabel(pa)+"] "+desc+" = "+f.String()+" is not linear")
			return
		}
		if !f.isZero() {
			res.bad(rule, key, p.pos(r.loop), fmt.Sprintf("on the path [%s] %s = %s, not 0: %s", pathLabel(pa), desc, f.String(), badWhy))
			return
		}
	}
	if n == 0 {
		res.undecided(rule, key, p.pos(r.loop), "no path of the planning loop matches the rule's selector")
		return
	}
	res.ok(rule, key, p.pos(r.loop), fmt.Sprintf("%s on all %d path(s)", okDetail, n))
}

func (r *stratRoles) continuing(pa spath) bool {
	return pa.end == "fall" || pa.end == "next" || r.planReturn(pa)
}

// finalZeroTest: the path passed a test `t == 0` on the value t has at the end of the path
func finalZeroTest(pa spath, t string) bool {
	cur, ok := pa.state[t]
	if !ok {
		cur = linSym(t)
	}
	for _, c := range pa.conds {
		if c.op == "==" && (c.diff.eq(cur) || c.diff.eq(linConst(0).sub(cur))) {
			return true
		}
		if c.op == "<=" && c.diff.eq(cur) { // t <= 0 with t >= 0
			return true
		}
	}
	return false
}

// ---- AUTO
func c01Auto(p *Prog, res *Result, r *stratRoles) {
	placed := func(pa spath) bool { return r.continuing(pa) && !deltaOf(pa.state, "plan[E]").isZero() }
	r.invariant(p, res, "CNT", r.F.Name+" / every placement lowers the remaining demand by as much", r.continuing,
		func(pa spath) (lin, string) {
			return deltaOf(pa.state, "plan[E]").add(deltaOf(pa.state, "need")), "Δplan[n] + Δneed"
		}, "Δplan[n] + Δneed = 0", "instances are placed without being counted against the demand (or the reverse): the plan's total differs from the requested count")
	// the plan is returned only past need == 0
	key := r.F.Name + " / the plan is returned only when the remaining demand is zero"
	n, bad := 0, ""
	for _, pa := range r.loopPaths {
		if r.planReturn(pa) {
			n++
			if !finalZeroTest(pa, "need") {
				bad = pathLabel(pa)
			}
		}
	}
	switch {
	case n == 0:
		res.undecided("CNT", key, p.pos(r.loop), "no path returns the plan from inside the loop")
	case bad != "":
		res.bad("CNT", key, p.pos(r.loop), "the plan is returned on the path ["+bad+"], which has not tested the remaining demand (after its last change) against zero")
	default:
		res.ok("CNT", key, p.pos(r.loop), fmt.Sprintf("%d returning path(s), each past need == 0", n))
	}
	_ = placed
	r.stepBound(p, res, true)
	r.pushInvariants(p, res, true)
	r.insertionGuards(p, res, true)
}

// pushInvariants: at every re-insertion of the element, the placements made since it was taken out are matched by
// Capacity (and, for AUTO, Count)
func (r *stratRoles) pushInvariants(p *Prog, res *Result, withCount bool) {
	keyC := r.F.Name + " / a re-inserted node has lost as much capacity as it got instances"
	keyL := r.F.Name + " / a re-inserted node's instance count has grown by what it got"
	nPush := 0
	var badC, badL string
	for _, pa := range r.loopPaths {
		for _, e := range r.pushEvents(pa) {
			nPush++
			dc := deltaOf(e.state, "plan[E]").add(deltaOf(e.state, "E.Capacity"))
			if !dc.isZero() {
				badC = fmt.Sprintf("on the path [%s] Δplan[n] + ΔCapacity = %s at the re-insertion", pathLabel(pa), dc.String())
			}
			dl := deltaOf(e.state, "plan[E]").sub(deltaOf(e.state, "E.Count"))
			if !dl.isZero() {
				badL = fmt.Sprintf("on the path [%s] Δplan[n] − ΔCount = %s at the re-insertion", pathLabel(pa), dl.String())
			}
		}
	}
	if nPush == 0 {
		res.undecided("CAP", keyC, p.pos(r.loop), "the element is never re-inserted")
		return
	}
	res.check(badC == "", "CAP", keyC, p.pos(r.loop), fmt.Sprintf("Δplan[n] + ΔCapacity = 0 at all %d re-insertion(s)", nPush), badC+": the node goes back with more capacity than it has left and ends up with more instances than it can hold")
	if withCount {
		res.check(badL == "", "LIM", keyL, p.pos(r.loop), fmt.Sprintf("Δplan[n] − ΔCount = 0 at all %d re-insertion(s)", nPush), badL+": the per-node limit is tested against a stale count and more than `limit` instances land on one node")
	}
}

// disjuncts / conjuncts of a condition
func splitOp(e ast.Expr, op token.Token) []ast.Expr {
	e = unparen(e)
	if b, ok := e.(*ast.BinaryExpr); ok && b.Op == op {
		return append(splitOp(b.X, op), splitOp(b.Y, op)...)
	}
	return []ast.Expr{e}
}

// capAtom: the expression says "<v>.Capacity is zero" (neg=false) or "<v>.Capacity is positive" (neg=true)
func capAtom(fn *FuncNode, e ast.Expr, v types.Object, positive bool) bool {
	b, ok := unparen(e).(*ast.BinaryExpr)
	if !ok {
		return false
	}
	sel, ok := unparen(b.X).(*ast.SelectorExpr)
	if !ok || sel.Sel.Name != "Capacity" {
		return false
	}
	if id, ok := unparen(sel.X).(*ast.Ident); !ok || (v != nil && fn.objOf(id) != v) {
		return false
	}
	k, isC := fn.constInt(b.Y)
	if !isC {
		return false
	}
	if positive {
		return (b.Op == token.GTR && k == 0) || (b.Op == token.NEQ && k == 0) || (b.Op == token.GEQ && k == 1)
	}
	return (b.Op == token.EQL && k == 0) || (b.Op == token.LEQ && k == 0) || (b.Op == token.LSS && k == 1)
}

// limitAtoms: the conjunction says "limit > 0 && <v>.Count >= limit"
func limitConj(fn *FuncNode, e ast.Expr, v types.Object) bool {
	cs := splitOp(e, token.LAND)
	if len(cs) != 2 {
		return false
	}
	isLimit := func(x ast.Expr) bool {
		s := exprStr(unparen(x))
		return s == "limit" || strings.HasSuffix(s, ".limit")
	}
	pos, cnt := false, false
	for _, c := range cs {
		b, ok := unparen(c).(*ast.BinaryExpr)
		if !ok {
			return false
		}
		if isLimit(b.X) {
			if k, isC := fn.constInt(b.Y); isC && ((b.Op == token.GTR && k == 0) || (b.Op == token.NEQ && k == 0) || (b.Op == token.GEQ && k == 1)) {
				pos = true
			}
		}
		if sel, ok := unparen(b.X).(*ast.SelectorExpr); ok && sel.Sel.Name == "Count" && b.Op == token.GEQ && isLimit(b.Y) {
			if id, ok := unparen(sel.X).(*ast.Ident); ok && (v == nil || fn.objOf(id) == v) {
				cnt = true
			}
		}
	}
	return pos && cnt
}

// skipGuard: target is reachable only past `if cond { …; return|continue }` with pred(cond)
func skipGuard(fn *FuncNode, target ast.Node, pred func(ast.Expr) bool) *ast.IfStmt {
	var found *ast.IfStmt
	fn.inspectBody(func(n ast.Node) bool {
		is, ok := n.(*ast.IfStmt)
		if !ok || found != nil || len(is.Body.List) == 0 {
			return true
		}
		switch last := is.Body.List[len(is.Body.List)-1].(type) {
		case *ast.ReturnStmt:
		case *ast.BranchStmt:
			if last.Tok != token.CONTINUE {
				return true
			}
		default:
			return true
		}
		if is.Body.Pos() <= target.Pos() && target.End() <= is.Body.End() {
			return true
		}
		if pred(is.Cond) && fn.dominates(fn.find(is.Cond), fn.find(target)) {
			found = is
		}
		return true
	})
	return found
}

// enterGuard: target lies inside `if cond { … }` (then-branch) with pred(cond)
func enterGuard(fn *FuncNode, target ast.Node, pred func(ast.Expr) bool) *ast.IfStmt {
	var found *ast.IfStmt
	fn.inspectBody(func(n ast.Node) bool {
		is, ok := n.(*ast.IfStmt)
		if !ok {
			return true
		}
		if is.Body.Pos() <= target.Pos() && target.End() <= is.Body.End() && pred(is.Cond) {
			found = is
		}
		return true
	})
	return found
}

// insertionGuards: an element whose capacity is exhausted (and, for AUTO, whose count has reached the limit) is never put
// into the heap — neither when the heap is first filled nor when an element is put back
func (r *stratRoles) insertionGuards(p *Prog, res *Result, withLimit bool) {
	F := r.F
	// heap types of package strategy that F (or a same-package callee of F) mentions
	var heapTypes []*types.Named
	seen := map[*types.Named]bool{}
	scan := func(fn *FuncNode) {
		ast.Inspect(fn.Body, func(n ast.Node) bool {
			id, ok := n.(*ast.Ident)
			if !ok {
				return true
			}
			if tn, ok := fn.Pkg.TypesInfo.Uses[id].(*types.TypeName); ok && tn.Pkg() == F.Pkg.Types {
				if nt, ok := tn.Type().(*types.Named); ok && !seen[nt] {
					for i := 0; i < nt.NumMethods(); i++ {
						if nt.Method(i).Name() == "Push" {
							seen[nt] = true
							heapTypes = append(heapTypes, nt)
						}
					}
				}
			}
			return true
		})
	}
	scan(F)
	for _, c := range F.callsDeep(func(f *types.Func) bool { return f.Pkg() == F.Pkg.Types }) {
		if t := p.ByObj[F.Callee(c)]; t != nil && t.Body != nil {
			scan(t)
		}
	}
	if len(heapTypes) == 0 {
		res.undecided("CAP", r.F.Name+" / exhausted nodes are never inserted", p.pos(F.Decl), "no heap type found")
		return
	}
	for _, ht := range heapTypes {
		tname := ht.Obj().Name()
		// all appends to a slice of Info inside methods/constructors of the package that mention this type
		var methodGuarded, methodSites int
		var unguardedWhere, limitMissing string
		for _, fn := range p.sortedFuncs("strategy") {
			if fn.Body == nil || fn.Lit != nil {
				continue
			}
			mentions := false
			if fn.Obj != nil {
				if sig, ok := fn.Obj.Type().(*types.Signature); ok && sig.Recv() != nil {
					rt := sig.Recv().Type()
					if pt, ok := rt.(*types.Pointer); ok {
						rt = pt.Elem()
					}
					if rt == types.Type(ht) {
						mentions = true
					}
				}
			}
			ast.Inspect(fn.Body, func(n ast.Node) bool {
				if id, ok := n.(*ast.Ident); ok {
					if tn, ok := fn.Pkg.TypesInfo.Uses[id].(*types.TypeName); ok && tn.Type() == types.Type(ht) {
						mentions = true
					}
				}
				return true
			})
			if !mentions || fn == F {
				continue
			}
			fn.inspectBody(func(n ast.Node) bool {
				c, ok := n.(*ast.CallExpr)
				if !ok || !isBuiltinCall(fn, c, "append") || len(c.Args) != 2 {
					return true
				}
				methodSites++
				// the value appended: an identifier, or x.(Info) of one — find the Info-typed variable tested
				// a condition that is a named predicate (`if exhausted(info, limit)`) is read in the predicate's body
				capOK := skipGuard(fn, c, func(cond ast.Expr) bool {
					cf, cond := p.expandPredicate(fn, cond)
					for _, d := range splitOp(cond, token.LOR) {
						if capAtom(cf, d, nil, false) {
							return true
						}
					}
					return false
				}) != nil
				limOK := skipGuard(fn, c, func(cond ast.Expr) bool {
					cf, cond := p.expandPredicate(fn, cond)
					for _, d := range splitOp(cond, token.LOR) {
						if limitConj(cf, d, nil) {
							return true
						}
					}
					return false
				}) != nil
				if capOK {
					methodGuarded++
				} else {
					unguardedWhere = p.pos(c)
				}
				if !limOK {
					limitMissing = p.pos(c)
				}
				return true
			})
		}
		key := fmt.Sprintf("%s / heap %s: a node without capacity left is never inserted", r.F.Name, tname)
		allMethodGuarded := methodSites > 0 && methodGuarded == methodSites
		if allMethodGuarded {
			res.ok("CAP", key, p.pos(F.Decl), fmt.Sprintf("all %d append site(s) of the heap skip Capacity == 0", methodSites))
		} else {
			// every insertion in F must then be guarded at the call
			n, bad := 0, ""
			F.inspectBody(func(x ast.Node) bool {
				c, ok := x.(*ast.CallExpr)
				if !ok || F.Callee(c) == nil || F.Callee(c).Name() != "Push" {
					return true
				}
				n++
				v, _ := unparen(c.Args[len(c.Args)-1]).(*ast.Ident)
				var vo types.Object
				if v != nil {
					vo = F.objOf(v)
				}
				vtxt := exprStr(unparen(c.Args[len(c.Args)-1]))
				if enterGuard(F, c, func(cond ast.Expr) bool {
					for _, d := range splitOp(cond, token.LAND) {
						if vo != nil && capAtom(F, d, vo, true) {
							return true
						}
						// the pushed value written as an element expression (`infos[i]`): the test reads the same expression
						if b, ok := unparen(d).(*ast.BinaryExpr); ok && vo == nil {
							if sel, ok := unparen(b.X).(*ast.SelectorExpr); ok && sel.Sel.Name == "Capacity" && exprStr(unparen(sel.X)) == vtxt {
								if k, isC := F.constInt(b.Y); isC && ((b.Op == token.GTR && k == 0) || (b.Op == token.NEQ && k == 0) || (b.Op == token.GEQ && k == 1)) {
									return true
								}
							}
						}
					}
					return false
				}) == nil {
					bad = p.pos(c)
				}
				return true
			})
			switch {
			case n == 0:
				res.undecided("CAP", key, p.pos(F.Decl), "no insertion found")
			case bad != "":
				res.bad("CAP", key, bad, "this insertion is not guarded by `Capacity > 0` and the heap's Push does not filter either (unguarded append at "+unguardedWhere+"): a node without capacity left is handed out again and gets more instances than it can hold")
			default:
				res.ok("CAP", key, p.pos(F.Decl), fmt.Sprintf("all %d insertion(s) in the plan function are inside `if Capacity > 0`", n))
			}
		}
		if withLimit {
			keyL := fmt.Sprintf("%s / heap %s: a node that has reached the per-node limit is never inserted", r.F.Name, tname)
			res.check(methodSites > 0 && limitMissing == "", "LIM", keyL, p.pos(F.Decl), fmt.Sprintf("all %d append site(s) skip `limit > 0 && Count >= limit`", methodSites),
				"the append at "+limitMissing+" is not guarded by `limit > 0 && Count >= limit`: with a per-node limit a node can be handed out again after it has reached the limit")
		}
	}
}

// ---- GLOBAL
func c01Global(p *Prog, res *Result, r *stratRoles) {
	key := r.F.Name + " / exactly one placement per completed iteration of a loop that runs `need` times"
	fs, ok := r.loop.(*ast.ForStmt)
	why := ""
	if !ok {
		why = "the planning loop is not a counting for-loop"
	} else {
		// for i := 0; i < need; i++
		var iv types.Object
		if as, ok := fs.Init.(*ast.AssignStmt); ok && len(as.Lhs) == 1 && len(as.Rhs) == 1 {
			if k, isC := r.F.constInt(as.Rhs[0]); isC && k == 0 {
				iv = r.F.objOf(as.Lhs[0])
			}
		}
		be, _ := unparen(fs.Cond).(*ast.BinaryExpr)
		inc, _ := fs.Post.(*ast.IncDecStmt)
		switch {
		case iv == nil:
			why = "the loop variable does not start at 0"
		case be == nil || be.Op != token.LSS || r.F.objOf(be.X) != iv || r.F.objOf(be.Y) != r.need:
			why = "the loop condition is not `i < need`"
		case inc == nil || inc.Tok != token.INC || r.F.objOf(inc.X) != iv:
			why = "the loop does not advance by i++"
		}
		if why == "" {
			for _, pa := range r.loopPaths {
				if !(pa.end == "fall" || pa.end == "next") {
					if pa.end == "return" {
						if isErr, _, _ := errorReturn(r.F, pa.ret); isErr {
							continue
						}
					}
					why = "the loop is left on the path [" + pathLabel(pa) + "] other than by a refusal"
					continue
				}
				d := deltaOf(pa.state, "plan[E]").sub(linConst(1))
				if !d.isZero() {
					why = fmt.Sprintf("on the path [%s] Δplan[n] = %s, not 1", pathLabel(pa), deltaOf(pa.state, "plan[E]").String())
				}
				if !deltaOf(pa.state, "need").isZero() || len(pa.writes[iv.Name()]) > 0 {
					why = "the loop body changes need or the loop variable"
				}
			}
		}
	}
	res.check2(why, "CNT", key, p.pos(r.loop), "for i := 0; i < need; i++ with Δplan[n] = 1 on every completed iteration; need and i untouched in the body")
	r.stepBound(p, res, false)
	r.pushInvariants(p, res, false)
	r.insertionGuards(p, res, false)
}

// ---- DRAINED
func c01Drained(p *Prog, res *Result, r *stratRoles) {
	r.invariant(p, res, "CNT", r.F.Name+" / what a node is given is taken off the remaining demand", r.continuing,
		func(pa spath) (lin, string) {
			// plan[E] = v : Δ relative to an entry value of 0 (names are distinct)
			v := pa.state["plan[E]"]
			if _, ok := pa.state["plan[E]"]; !ok {
				v = linConst(0)
			}
			return v.add(deltaOf(pa.state, "need")), "plan[n] + Δneed"
		}, "plan[n] + Δneed = 0", "the amount written into the plan and the amount taken off the demand differ: the plan's total is not the requested count")
	key := r.F.Name + " / the plan is returned only when the remaining demand is zero"
	n, bad := 0, ""
	for _, pa := range r.loopPaths {
		if r.planReturn(pa) {
			n++
			if !finalZeroTest(pa, "need") {
				bad = pathLabel(pa)
			}
		}
	}
	switch {
	case n == 0:
		res.undecided("CNT", key, p.pos(r.loop), "no path returns the plan from inside the loop")
	case bad != "":
		res.bad("CNT", key, p.pos(r.loop), "the plan is returned on the path ["+bad+"] without the remaining demand having been tested against zero")
	default:
		res.ok("CNT", key, p.pos(r.loop), fmt.Sprintf("%d returning path(s), each past need == 0", n))
	}
	// CAP: the value written is need under need < Capacity (or <=), else Capacity
	keyC := r.F.Name + " / a node is given min(remaining demand, its capacity)"
	why, nw := "", 0
	for _, pa := range r.loopPaths {
		v, ok := pa.state["plan[E]"]
		if !ok || !r.continuing(pa) {
			continue
		}
		nw++
		switch {
		case v.eq(linSym("E.Capacity")):
		case v.eq(linSym("need")):
			okGuard := false
			for _, c := range pa.conds {
				d := linSym("need").sub(linSym("E.Capacity"))
				if (c.op == "<" || c.op == "<=") && c.diff.eq(d) {
					okGuard = true
				}
				if (c.op == ">" || c.op == ">=") && c.diff.eq(linConst(0).sub(d)) {
					okGuard = true
				}
			}
			if !okGuard {
				why = "on the path [" + pathLabel(pa) + "] the node is given the whole remaining demand without `need < Capacity` (or <=) having been tested"
			}
		default:
			why = "on the path [" + pathLabel(pa) + "] the node is given " + v.String() + ", which is neither the remaining demand nor its capacity"
		}
	}
	if nw == 0 {
		why = "no path writes the plan"
	}
	res.check2(why, "CAP", keyC, p.pos(r.loop), fmt.Sprintf("%d writing path(s): need under need < Capacity, Capacity otherwise", nw))
}

// ---- EACH
func c01Each(p *Prog, res *Result, r *stratRoles) {
	F := r.F
	// CNT: each node of infos[:limit] gets exactly need
	key := F.Name + " / each selected node gets exactly the requested number, and `limit` nodes are selected"
	why := ""
	rs, ok := r.loop.(*ast.RangeStmt)
	var bound ast.Expr
	if !ok {
		why = "the planning loop is not a range over the selected nodes"
	} else if se, ok := unparen(rs.X).(*ast.SliceExpr); !ok || se.Low != nil || se.High == nil || F.objOf(se.X) != r.infos {
		why = "the planning loop does not range over infos[:limit]"
	} else {
		bound = se.High
		if F.objOf(bound) != r.limit {
			why = "the number of selected nodes is `" + exprStr(bound) + "`, not the limit"
		}
	}
	if why == "" {
		for _, pa := range r.loopPaths {
			if !deltaOf(pa.state, "plan[E]").eq(linSym("need")) {
				why = fmt.Sprintf("on the path [%s] Δplan[n] = %s, not need", pathLabel(pa), deltaOf(pa.state, "plan[E]").String())
			}
			if pa.end != "fall" && pa.end != "next" {
				why = "the loop is left early on the path [" + pathLabel(pa) + "]"
			}
		}
	}
	res.check2(why, "CNT", key, p.pos(r.loop), "for _, n := range infos[:limit] { plan[n] += need }")
	keyC := F.Name + " / the selected prefix holds only nodes whose capacity is at least the requested number"
	whyC := eachSelectionShape(p, r)
	res.check2(whyC, "CAP", keyC, p.pos(r.loop), "descending sort on Capacity; p = first index with Capacity < need; p < limit refused; selection is infos[:limit]")
}

// ---- FILL
func c01Fill(p *Prog, res *Result, r *stratRoles) {
	F := r.F
	key := F.Name + " / each selected node is topped up to the requested level and `limit` nodes are selected"
	why := ""
	nSel := 0
	want := "‹max(" + linSym("need").sub(linSym("E.Count")).String() + ", " + linConst(0).String() + ")›"
	for _, pa := range r.loopPaths {
		d := deltaOf(pa.state, "plan[E]")
		if d.isZero() && deltaOf(pa.state, "limit").isZero() {
			continue
		}
		nSel++
		if !d.eq(linSym(want)) {
			why = fmt.Sprintf("on the path [%s] Δplan[n] = %s, not max(need − Count, 0)", pathLabel(pa), d.String())
		}
		if !deltaOf(pa.state, "limit").eq(linConst(-1)) {
			why = fmt.Sprintf("on the path [%s] a node is selected but the number of nodes still to select changes by %s, not −1", pathLabel(pa), deltaOf(pa.state, "limit").String())
		}
		if r.planReturn(pa) && !finalZeroTest(pa, "limit") {
			why = "the plan is returned on the path [" + pathLabel(pa) + "] without `limit == 0` having been tested after the decrement"
		}
	}
	if nSel == 0 {
		why = "no path selects a node"
	}
	res.check2(why, "CNT", key, p.pos(r.loop), fmt.Sprintf("%d selecting path(s): plan[n] += max(need − Count, 0); limit--; returned past limit == 0", nSel))
	keyC := F.Name + " / a node is selected only if its capacity covers the top-up"
	whyC := ""
	for _, pa := range r.loopPaths {
		if deltaOf(pa.state, "plan[E]").isZero() {
			continue
		}
		okGuard := false
		d := linSym("E.Capacity").sub(linSym("need")).add(linSym("E.Count"))
		for _, c := range pa.conds {
			if c.op == ">=" && c.diff.eq(d) {
				okGuard = true
			}
			if c.op == "<=" && c.diff.eq(linConst(0).sub(d)) {
				okGuard = true
			}
		}
		if !okGuard {
			whyC = "on the path [" + pathLabel(pa) + "] a node is topped up without `Capacity >= need − Count` having been tested"
		}
	}
	res.check2(whyC, "CAP", keyC, p.pos(r.loop), "every selecting path is past Capacity − need + Count >= 0")
}

// ---- ASM: strategy.Info of a node is built from that node's own records
func checkASM(p *Prog, res *Result) {
	D := p.Fn("cluster/calcium.(*Calcium).doGetDeployStrategy")
	if D == nil {
		res.undecided("ASM", "cluster/calcium.(*Calcium).doGetDeployStrategy", "", "not found")
		return
	}
	var lit *ast.CompositeLit
	var rng *ast.RangeStmt
	D.inspectBody(func(n ast.Node) bool {
		if rs, ok := n.(*ast.RangeStmt); ok {
			ast.Inspect(rs.Body, func(x ast.Node) bool {
				if cl, ok := x.(*ast.CompositeLit); ok {
					if t := D.typeOf(cl); t != nil && strings.HasSuffix(t.String(), "strategy.Info") {
						lit, rng = cl, rs
					}
				}
				return true
			})
		}
		return true
	})
	if lit == nil {
		res.undecided("ASM", D.Name+" / strategy.Info literal", p.pos(D.Decl), "not found inside a range loop")
		return
	}
	kObj, vObj := D.objOf(rng.Key), types.Object(nil)
	if rng.Value != nil {
		vObj = D.objOf(rng.Value)
	}
	fields := map[string]ast.Expr{}
	for _, el := range lit.Elts {
		if kv, ok := el.(*ast.KeyValueExpr); ok {
			fields[exprStr(kv.Key)] = kv.Value
		}
	}
	// the ranged map comes from GetNodesDeployCapacity; the status map from GetDeployStatus
	srcOf := func(o types.Object) string {
		out := ""
		D.inspectBody(func(n ast.Node) bool {
			as, ok := n.(*ast.AssignStmt)
			if !ok || len(as.Rhs) != 1 {
				return true
			}
			c, ok := unparen(as.Rhs[0]).(*ast.CallExpr)
			if !ok || D.Callee(c) == nil {
				return true
			}
			if len(as.Lhs) > 0 && D.objOf(as.Lhs[0]) == o {
				out = D.Callee(c).Name()
			}
			return true
		})
		return out
	}
	res.check(fields["Nodename"] != nil && D.objOf(fields["Nodename"]) == kObj && srcOf(D.objOf(rng.X)) == "GetNodesDeployCapacity", "ASM", D.Name+" / Info.Nodename is the key of the capacity map being ranged", p.pos(lit), "Nodename: <range key> over GetNodesDeployCapacity's result", "the node name of a strategy input is not the key of the capacity record it is built from")
	capOK := false
	if sel, ok := unparen(fields["Capacity"]).(*ast.SelectorExpr); ok && sel.Sel.Name == "Capacity" && vObj != nil && D.objOf(sel.X) == vObj {
		capOK = true
	}
	res.check(capOK, "ASM", D.Name+" / Info.Capacity is that node's deploy capacity", p.pos(lit), "Capacity: <range value>.Capacity", "the capacity of a strategy input is `"+exprStr(fields["Capacity"])+"`, not the Capacity of the node's own capacity record")
	cntOK := false
	if ix, ok := unparen(fields["Count"]).(*ast.IndexExpr); ok && D.objOf(ix.Index) == kObj && srcOf(D.objOf(ix.X)) == "GetDeployStatus" {
		cntOK = true
	}
	res.check(cntOK, "ASM", D.Name+" / Info.Count is that node's deploy-status count", p.pos(lit), "Count: <GetDeployStatus result>[<range key>]", "the instance count of a strategy input is `"+exprStr(fields["Count"])+"`, not the deploy-status count of the same node: the per-node limit and FILL work from a wrong count")
	// the limit and the count handed to Deploy are the request's
	ok2 := false
	for _, c := range D.calls(func(f *types.Func) bool { return objName(f) == "strategy.Deploy" }) {
		if len(c.Args) == 6 && strings.HasSuffix(exprStr(c.Args[2]), ".Count") && strings.HasSuffix(exprStr(c.Args[3]), ".NodesLimit") {
			ok2 = true
		}
	}
	res.check(ok2, "ASM", D.Name+" / the requested count and node limit are handed to the strategy in that order", p.pos(D.Decl), "strategy.Deploy(ctx, strategy, opts.Count, opts.NodesLimit, infos, total)", "the count and the node limit handed to strategy.Deploy are not the request's Count and NodesLimit, in that order")
}

// ---- ENT: strategy.Deploy refuses count <= 0 and unknown strategies before it dispatches
func checkENT(p *Prog, res *Result) {
	D := p.Fn("strategy.Deploy")
	if D == nil {
		res.undecided("ENT", "strategy.Deploy", "", "not found")
		return
	}
	var dispatch *ast.CallExpr
	D.inspectBody(func(n ast.Node) bool {
		if c, ok := n.(*ast.CallExpr); ok && D.Callee(c) == nil {
			if t := D.typeOf(c.Fun); t == nil {
			} else if _, isSig := t.Underlying().(*types.Signature); isSig {
				if id, ok := unparen(c.Fun).(*ast.Ident); ok && id.Name != "len" {
					dispatch = c
				}
			}
		}
		return true
	})
	if dispatch == nil {
		res.undecided("ENT", "strategy.Deploy / dispatch", p.pos(D.Decl), "no call through the strategy table found")
		return
	}
	cnt := D.paramObj(2)
	g, _ := guardedBy(D, dispatch, func(fn *FuncNode, is *ast.IfStmt) bool {
		b, ok := unparen(is.Cond).(*ast.BinaryExpr)
		if !ok || fn.objOf(b.X) != cnt {
			return false
		}
		k, isC := fn.constInt(b.Y)
		return isC && ((b.Op == token.LEQ && k == 0) || (b.Op == token.LSS && k == 1))
	})
	res.check(g != nil, "ENT", "strategy.Deploy / a count below 1 is refused before any strategy runs", p.pos(dispatch), "`count <= 0 → error` dominates the dispatch", "no `count <= 0` refusal dominates the dispatch: with a count of 0 AUTO decrements the demand below zero and never returns a plan of the requested size")
	g2, _ := guardedBy(D, dispatch, func(fn *FuncNode, is *ast.IfStmt) bool {
		u, ok := unparen(is.Cond).(*ast.UnaryExpr)
		return ok && u.Op == token.NOT
	})
	res.check(g2 != nil, "ENT", "strategy.Deploy / an unknown strategy name is refused", p.pos(dispatch), "`!ok → error` dominates the dispatch", "a strategy name that is not in the table is not refused before the (nil) function is called")
}

// ===================================================================================================== C02

// refusal classes a guard can fall into
func classifyRefusal(r *stratRoles, c condRec) string {
	tn := linSym("total").sub(linSym("need"))
	switch {
	case c.op == "<" && c.diff.eq(tn), c.op == ">" && c.diff.eq(linConst(0).sub(tn)):
		return "total<need"
	case (c.op == "<=" && c.diff.eq(tn)) || (c.op == ">=" && c.diff.eq(linConst(0).sub(tn))):
		return "total<=need (an exact fit is refused)"
	}
	if c.op != "" {
		// one symbol forms
		syms := []string{}
		for s := range c.diff.c {
			syms = append(syms, s)
		}
		sort.Strings(syms)
		joined := strings.Join(syms, " ")
		switch {
		case len(syms) == 1 && strings.Contains(joined, ".Len()") && c.diff.k == 0 && (c.op == "==" || c.op == "<="):
			return "heap-empty"
		case len(syms) == 1 && strings.Contains(joined, "sort.Search") && c.diff.k == 0 && (c.op == "==" || c.op == "<="):
			return "no-node-fits"
		case len(syms) == 2 && strings.Contains(joined, "sort.Search") && c.diff.c["limit"] == -1 && c.op == "<":
			return "fitting-nodes<limit"
		case len(syms) == 2 && c.diff.c["limit"] == -1 && strings.Contains(joined, "len(") && c.op == "<":
			return "nodes<limit"
		case len(syms) == 0:
			return "vacuous"
		case len(syms) == 1 && strings.Contains(joined, "sort.Search") && c.op == "<":
			// p < len(infos) after limit := len(infos): same guard on the limit==0 path
			return "fitting-nodes<limit"
		case len(syms) == 2 && strings.Contains(joined, "sort.Search") && strings.Contains(joined, "len(") && c.op == "<":
			return "fitting-nodes<limit"
		}
	}
	return "other: " + c.text
}

var c02Allowed = map[string]map[string]bool{
	"AUTO":    {"total<need": true, "heap-empty": true},
	"GLOBAL":  {"total<need": true, "heap-empty": true},
	"DRAINED": {"total<need": true, "after-loop": true},
	"EACH":    {"nodes<limit": true, "no-node-fits": true, "fitting-nodes<limit": true},
	"FILL":    {"nodes<limit": true, "after-loop": true},
}

func checkC02(p *Prog, res *Result, tier string) {
	res.Technique = "enumeration of every refusing return of each placement strategy with the condition that guards it (path enumeration with a linear symbolic state), compared with the refusal conditions of the strategy's rule; overflow rule for arithmetic on quantities that can be unlimited (math.MaxInt); nil-plan rule for refusals"
	res.Explanation = "RF every return that refuses (non-nil error expression) is guarded by one of the conditions the strategy's rule names — AUTO/GLOBAL: total < need (strictly: an exact fit is feasible), heap exhausted; DRAINED: total < need, fall-through after the loop; EACH: fewer nodes than the limit, no node with enough capacity, fewer such nodes than the limit; FILL: fewer nodes than the limit, fall-through after the loop — so a feasible request is not refused by an extra or a shifted test; " +
		"SRT (EACH) the count of fitting nodes that the refusals compare is the result of a binary search over a list sorted in descending capacity with the predicate Capacity < need — on any other order the count is arbitrary and both wrong refusals and wrong plans follow; NIL a refusal returns no plan; UNL a quantity that can be math.MaxInt (a node's capacity when the request asks for no memory and no CPU binding, and the saturating total) is never an operand of + or * in the strategies and in the assembly of their inputs — an addition would wrap and turn an unlimited node into one that cannot take anything; " +
		"TOT the total handed to the strategies is the manager's (saturating) total, untouched."
	res.NotCovered = "that the refusal conditions are also sufficient for infeasibility in every input (e.g. AUTO with a per-node limit refuses through heap exhaustion: that this happens exactly when the limit makes the request infeasible follows from the C01 invariants, by hand); the numeric feasibility computation itself"
	res.Assumptions = []string{"the table of refusal conditions per strategy (printed under tables) is the reading of the property's statement"}
	res.Tables["allowed_refusals"] = c02Allowed
	res.min("RF", 10)
	res.min("NIL", 5)
	res.min("UNL", 5)
	res.min("TOT", 1)
	res.min("SRT", 1)
	for _, n := range []string{"AUTO", "GLOBAL", "DRAINED", "EACH", "FILL"} {
		r := resolveStrat(p, n)
		if r == nil || len(r.problems) > 0 {
			res.undecided("anchor", stratFuncs[n], "", "strategy function or its planning loop not found")
			continue
		}
		F := r.F
		// function-level paths with the main loop as a marker
		x := &shapeExec{fn: F, term: r.term}
		pre := x.run(r.pre, newSpath())
		type refusal struct {
			rt    *ast.ReturnStmt
			class map[string]bool
			where string
		}
		refs := map[*ast.ReturnStmt]*refusal{}
		var order []*ast.ReturnStmt
		note := func(pa spath, where string) {
			isErr, _, _ := errorReturn(F, pa.ret)
			if pa.end != "return" || !isErr {
				return
			}
			rf := refs[pa.ret]
			if rf == nil {
				rf = &refusal{rt: pa.ret, class: map[string]bool{}, where: where}
				refs[pa.ret] = rf
				order = append(order, pa.ret)
			}
			if len(pa.conds) == 0 {
				rf.class["unconditional"] = true
				return
			}
			rf.class[classifyRefusal(r, pa.conds[len(pa.conds)-1])] = true
		}
		var fallStates []spath
		for _, pa := range pre {
			note(pa, "before the loop")
			if pa.end == "fall" {
				fallStates = append(fallStates, pa)
			}
		}
		for _, pa := range r.loopPaths {
			note(pa, "inside the loop")
		}
		// after the loop: conditions start afresh (the loop's effect on the state is unknown)
		for _, pa := range x.run(r.post, newSpath()) {
			isErr, _, _ := errorReturn(F, pa.ret)
			if pa.end == "return" && isErr {
				rf := &refusal{rt: pa.ret, class: map[string]bool{}, where: "after the loop"}
				if len(pa.conds) == 0 {
					// `for cond { … }` left without a break: the statement after it runs exactly when cond fails
					cls := "after-loop"
					if fs, ok := r.loop.(*ast.ForStmt); ok && fs.Cond != nil && len(loopEarlyExitsOfKind(fs.Body, token.BREAK)) == 0 {
						if recs := x.cond(fs.Cond, false, newSpath().state); len(recs) == 1 {
							// a counting loop's bound says nothing about the request: only a recognised condition replaces the class
							if c := classifyRefusal(r, recs[0]); !strings.HasPrefix(c, "other:") {
								cls = c
							}
						}
					}
					rf.class[cls] = true
				} else {
					rf.class[classifyRefusal(r, pa.conds[len(pa.conds)-1])] = true
				}
				refs[pa.ret] = rf
				order = append(order, pa.ret)
			}
		}
		if len(order) == 0 {
			res.undecided("RF", F.Name+" / refusals", p.pos(F.Decl), "no refusing return found")
		}
		for i, rt := range order {
			rf := refs[rt]
			key := fmt.Sprintf("%s / refusal #%d (%s) happens under a condition of the strategy's rule", F.Name, i+1, rf.where)
			var cls []string
			bad := ""
			for c := range rf.class {
				cls = append(cls, c)
				if c != "vacuous" && !c02Allowed[n][c] {
					bad = c
				}
			}
			sort.Strings(cls)
			if bad != "" {
				res.bad("RF", key, p.pos(rt), "this refusal is guarded by `"+bad+"`, which is not one of the conditions under which "+n+" may refuse ("+strings.Join(sortedBoolKeys(c02Allowed[n]), ", ")+"): a request the rule can satisfy is turned down")
			} else {
				res.ok("RF", key, p.pos(rt), strings.Join(cls, " | "))
			}
			_, planNil, _ := errorReturn(F, rt)
			res.check(planNil, "NIL", fmt.Sprintf("%s / refusal #%d returns no plan", F.Name, i+1), p.pos(rt), "return nil, err", "a refusal returns a plan together with the error: the caller that ignores one of the two acts on a partial placement")
		}
		// each allowed pre-loop class that the rule REQUIRES must be present (the early exit protects the loop's invariants)
		if n == "AUTO" || n == "GLOBAL" || n == "DRAINED" {
			has := false
			for _, rf := range refs {
				if rf.class["total<need"] {
					has = true
				}
			}
			res.check(has, "RF", F.Name+" / an infeasible total is refused before anything is planned", p.pos(F.Decl), "total < need → refusal", "no `total < need` refusal: with less capacity than demand the loop plans what it can and then fails or, for DRAINED, falls through")
		}
		if n == "EACH" {
			res.check2(eachSelectionShape(p, r), "SRT", F.Name+" / the number of fitting nodes that the refusals test is computed on a list sorted for that search", p.pos(F.Decl), "descending sort on Capacity, then sort.Search(Capacity < need): p is the number of nodes that can take `need`")
		}
		// UNL: no + or * on a possibly-unlimited quantity
		key := F.Name + " / no addition or multiplication on a capacity or total that can be unlimited"
		var off ast.Node
		unl := func(e ast.Expr) bool {
			found := false
			ast.Inspect(e, func(z ast.Node) bool {
				switch w := z.(type) {
				case *ast.SelectorExpr:
					if w.Sel.Name == "Capacity" && isIntLike(F.typeOf(w)) {
						found = true
					}
				case *ast.Ident:
					if F.objOf(w) == r.total && r.total != nil {
						found = true
					}
				}
				return true
			})
			return found
		}
		var visit func(fn *FuncNode)
		visit = func(fn *FuncNode) {
			ast.Inspect(fn.Body, func(z ast.Node) bool {
				switch w := z.(type) {
				case *ast.BinaryExpr:
					if (w.Op == token.ADD || w.Op == token.MUL || w.Op == token.SHL) && isIntLike(fn.typeOf(w)) && (unl(w.X) || unl(w.Y)) {
						off = w
					}
				case *ast.AssignStmt:
					if (w.Tok == token.ADD_ASSIGN || w.Tok == token.MUL_ASSIGN) && len(w.Lhs) == 1 && isIntLike(fn.typeOf(w.Lhs[0])) && (unl(w.Lhs[0]) || unl(w.Rhs[0])) {
						off = w
					}
				case *ast.IncDecStmt:
					if w.Tok == token.INC && unl(w.X) {
						off = w
					}
				}
				return true
			})
		}
		visit(F)
		if off != nil {
			res.bad("UNL", key, p.pos(off), "`"+nodeStr(F, off)+"` adds to (or multiplies) a quantity that is math.MaxInt when the request asks for no memory and no CPU binding: the result wraps to a negative number and the node is treated as unable to take anything — a feasible request is refused")
		} else {
			res.ok("UNL", key, p.pos(F.Decl), "capacities and the total are only compared, decremented, subtracted from or copied")
		}
	}
	// TOT: doGetDeployStrategy hands GetNodesDeployCapacity's total to Deploy unchanged
	if D := p.Fn("cluster/calcium.(*Calcium).doGetDeployStrategy"); D == nil {
		res.undecided("TOT", "cluster/calcium.(*Calcium).doGetDeployStrategy", "", "not found")
	} else {
		var tot types.Object
		nAssign := 0
		D.inspectBody(func(n ast.Node) bool {
			if as, ok := n.(*ast.AssignStmt); ok && len(as.Rhs) == 1 {
				if c, ok := unparen(as.Rhs[0]).(*ast.CallExpr); ok && D.Callee(c) != nil && D.Callee(c).Name() == "GetNodesDeployCapacity" && len(as.Lhs) == 3 {
					tot = D.objOf(as.Lhs[1])
				}
			}
			return true
		})
		D.inspectBody(func(n ast.Node) bool {
			switch y := n.(type) {
			case *ast.AssignStmt:
				for _, l := range y.Lhs {
					if tot != nil && D.objOf(l) == tot {
						nAssign++
					}
				}
			case *ast.IncDecStmt:
				if tot != nil && D.objOf(y.X) == tot {
					nAssign += 2
				}
			}
			return true
		})
		passed := false
		for _, c := range D.calls(func(f *types.Func) bool { return objName(f) == "strategy.Deploy" }) {
			if len(c.Args) == 6 && tot != nil && D.objOf(c.Args[5]) == tot {
				passed = true
			}
		}
		res.check(tot != nil && nAssign == 1 && passed, "TOT", D.Name+" / the total handed to the strategy is the manager's total, unchanged", p.pos(D.Decl), "total from GetNodesDeployCapacity, assigned once, passed to strategy.Deploy", "the total that the strategies compare with the demand is not the resource manager's saturating total (reassigned or replaced): feasible requests are refused or infeasible ones planned")
	}
}

func sortedBoolKeys(m map[string]bool) []string {
	var out []string
	for k := range m {
		out = append(out, k)
	}
	sort.Strings(out)
	return out
}

// eachSelectionShape: descending sort on Capacity, sort.Search with predicate Capacity < need over the same list, and the
// refusal `p < limit` dominating the selection loop; returns "" when the shape is there, else what is missing
func eachSelectionShape(p *Prog, r *stratRoles) string {
	F := r.F
	rs, _ := r.loop.(*ast.RangeStmt)
	whyC := ""
	// CAP: sort desc by Capacity; p := Search(len, Capacity < need); p < limit refused before the loop
	var sortCall, searchCall *ast.CallExpr
	var pObj types.Object
	for _, s := range r.pre {
		ast.Inspect(s, func(n ast.Node) bool {
			switch y := n.(type) {
			case *ast.CallExpr:
				if f := F.Callee(y); f != nil && f.Pkg() != nil && f.Pkg().Path() == "sort" {
					switch f.Name() {
					case "Slice", "SliceStable":
						sortCall = y
					case "Search":
						searchCall = y
					}
				}
			case *ast.AssignStmt:
				if len(y.Rhs) == 1 && len(y.Lhs) == 1 {
					if c, ok := unparen(y.Rhs[0]).(*ast.CallExpr); ok && F.Callee(c) != nil && F.Callee(c).Name() == "Search" {
						pObj = F.objOf(y.Lhs[0])
					}
				}
			}
			return true
		})
	}
	litCmp := func(c *ast.CallExpr, argIdx int) *ast.BinaryExpr {
		if c == nil || len(c.Args) <= argIdx {
			return nil
		}
		lit, ok := unparen(c.Args[argIdx]).(*ast.FuncLit)
		if !ok || len(lit.Body.List) != 1 {
			return nil
		}
		rt, ok := lit.Body.List[0].(*ast.ReturnStmt)
		if !ok || len(rt.Results) != 1 {
			return nil
		}
		b, _ := unparen(rt.Results[0]).(*ast.BinaryExpr)
		return b
	}
	capOf := func(e ast.Expr) (string, bool) { // infos[i].Capacity -> "i"
		sel, ok := unparen(e).(*ast.SelectorExpr)
		if !ok || sel.Sel.Name != "Capacity" {
			return "", false
		}
		ix, ok := unparen(sel.X).(*ast.IndexExpr)
		if !ok || F.objOf(ix.X) != r.infos {
			return "", false
		}
		return exprStr(ix.Index), true
	}
	switch {
	case sortCall == nil || searchCall == nil || pObj == nil:
		whyC = "no sort of the candidates followed by a sort.Search whose result is kept"
	case F.objOf(sortCall.Args[0]) != r.infos:
		whyC = "the sort does not order the candidate list that is then searched and sliced"
	case sortCall.Pos() > searchCall.Pos():
		whyC = "the search runs before the sort"
	}
	if whyC == "" {
		b := litCmp(sortCall, 1)
		okSort := false
		if b != nil {
			l, ok1 := capOf(b.X)
			rr, ok2 := capOf(b.Y)
			// descending: less(i, j) = cap[i] > cap[j]  (or cap[j] < cap[i])
			if ok1 && ok2 && ((b.Op == token.GTR && l == "i" && rr == "j") || (b.Op == token.LSS && l == "j" && rr == "i") || (b.Op == token.GEQ && l == "i" && rr == "j")) {
				okSort = true
			}
		}
		if !okSort {
			whyC = "the sort does not put the nodes in descending order of capacity (comparator is not `infos[i].Capacity > infos[j].Capacity`)"
		}
	}
	if whyC == "" {
		b := litCmp(searchCall, 1)
		okSearch := false
		if b != nil {
			if _, ok := capOf(b.X); ok && b.Op == token.LSS && F.objOf(b.Y) == r.need {
				okSearch = true
			}
			if _, ok := capOf(b.Y); ok && b.Op == token.GTR && F.objOf(b.X) == r.need {
				okSearch = true
			}
		}
		if !okSearch {
			whyC = "the search predicate is not `infos[i].Capacity < need`: the boundary found is not the first node that cannot take `need` instances"
		}
	}
	if whyC == "" {
		// plain copies of the search result (`q := p`, neither written again) stand for it
		isP := map[types.Object]bool{pObj: true}
		writes := map[types.Object]int{}
		ast.Inspect(F.Body, func(n ast.Node) bool {
			switch y := n.(type) {
			case *ast.AssignStmt:
				for _, l := range y.Lhs {
					if o := F.objOf(l); o != nil {
						writes[o]++
					}
				}
			case *ast.IncDecStmt:
				if o := F.objOf(y.X); o != nil {
					writes[o] += 2
				}
			}
			return true
		})
		for changed := true; changed; {
			changed = false
			for _, s := range r.pre {
				if as, ok := s.(*ast.AssignStmt); ok && len(as.Lhs) == 1 && len(as.Rhs) == 1 {
					l, rv := F.objOf(as.Lhs[0]), F.objOf(as.Rhs[0])
					if l != nil && rv != nil && isP[rv] && !isP[l] && writes[l] == 1 && writes[rv] == 1 {
						isP[l] = true
						changed = true
					}
				}
			}
		}
		refusal := func(cond ast.Expr) bool {
			b, ok := unparen(cond).(*ast.BinaryExpr)
			if !ok {
				return false
			}
			return (b.Op == token.LSS && isP[F.objOf(b.X)] && F.objOf(b.Y) == r.limit) || (b.Op == token.GTR && isP[F.objOf(b.Y)] && F.objOf(b.X) == r.limit)
		}
		// `p < limit` (or limit > p) → refusal, dominating the loop
		g := skipGuard(F, r.loop, refusal)
		if g == nil {
			// go/cfg has no node for the range statement: anchor on its operand
			if rs != nil {
				g = skipGuard(F, rs.X, refusal)
			}
		}
		if g == nil {
			whyC = "no refusal `p < limit` dominates the selection: the first `limit` nodes can include nodes whose capacity is below the requested number"
		}
	}
	return whyC
}

// stepBound: what a node is given in one step is covered by its capacity (and, for AUTO, by what the limit leaves). A step
// of exactly one instance is covered by the insertion filter (a node in the heap has capacity left and is below the
// limit); any other amount needs an explicit test on the path.
func (r *stratRoles) stepBound(p *Prog, res *Result, withLimit bool) {
	key := r.F.Name + " / what a node is given in one step is covered by its capacity"
	keyL := r.F.Name + " / what a node is given in one step is covered by what the per-node limit leaves"
	why, whyL, n := "", "", 0
	for _, pa := range r.loopPaths {
		d := deltaOf(pa.state, "plan[E]")
		if d.isZero() || !r.continuing(pa) {
			continue
		}
		n++
		if d.eq(linConst(1)) {
			continue
		}
		capOK, limOK := false, false
		for _, c := range pa.conds {
			// Capacity - d >= 0
			g := linSym("E.Capacity").sub(d)
			if (c.op == ">=" && c.diff.eq(g)) || (c.op == "<=" && c.diff.eq(linConst(0).sub(g))) {
				capOK = true
			}
			gl := linSym("limit").sub(linSym("E.Count")).sub(d)
			if (c.op == ">=" && c.diff.eq(gl)) || (c.op == "<=" && c.diff.eq(linConst(0).sub(gl))) {
				limOK = true
			}
		}
		if !capOK {
			why = fmt.Sprintf("on the path [%s] a node is given %s instances in one step and no test `%s <= Capacity` lies on the path: the insertion filter only guarantees room for one", pathLabel(pa), d.String(), d.String())
		}
		if !limOK {
			whyL = fmt.Sprintf("on the path [%s] a node is given %s instances in one step and no test against `limit - Count` lies on the path: the insertion filter only guarantees room for one below the limit", pathLabel(pa), d.String())
		}
	}
	if n == 0 {
		res.undecided("CAP", key, p.pos(r.loop), "no placing path")
		return
	}
	res.check2(why, "CAP", key, p.pos(r.loop), fmt.Sprintf("%d placing path(s): one instance per step (room guaranteed by the insertion filter) or an explicit test", n))
	if withLimit {
		res.check2(whyL, "LIM", keyL, p.pos(r.loop), fmt.Sprintf("%d placing path(s): one instance per step or an explicit test against limit − Count", n))
	}
}

func nodeStr(fn *FuncNode, n ast.Node) string {
	if e, ok := n.(ast.Expr); ok {
		return exprStr(e)
	}
	switch y := n.(type) {
	case *ast.AssignStmt:
		return exprStr(y.Lhs[0]) + " " + y.Tok.String() + " " + exprStr(y.Rhs[0])
	case *ast.IncDecStmt:
		return exprStr(y.X) + y.Tok.String()
	}
	return fn.Pkg.Fset.Position(n.Pos()).String()
}
