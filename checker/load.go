package main

// Loading of the repository under analysis and the function index shared by all rules.

import (
	"fmt"
	"go/ast"
	"go/token"
	"go/types"
	"os"
	"sort"
	"strings"

	"golang.org/x/tools/go/cfg"
	"golang.org/x/tools/go/packages"
	"golang.org/x/tools/go/ssa"
	"golang.org/x/tools/go/ssa/ssautil"
	"golang.org/x/tools/go/types/typeutil"
)

const modPath = "github.com/projecteru2/core"

// Prog is the type-checked program plus indexes.
type Prog struct {
	Repo   string
	Fset   *token.FileSet
	Pkgs   []*packages.Package
	ByPath map[string]*packages.Package // keyed by path relative to module ("" = root)
	Funcs  map[string]*FuncNode         // qualified name -> node
	ByObj  map[*types.Func]*FuncNode
	ByLit  map[*ast.FuncLit]*FuncNode
	ssa    *ssa.Program
	ssaPkg map[*packages.Package]*ssa.Package
	NFiles int
}

// FuncNode is a declared function, method or function literal with a body.
type FuncNode struct {
	Name   string // e.g. cluster/calcium.(*Calcium).doLock$1
	Pkg    *packages.Package
	Decl   *ast.FuncDecl
	Lit    *ast.FuncLit
	Obj    *types.Func
	Parent *FuncNode
	Body   *ast.BlockStmt
	Type   *ast.FuncType
	Lits   []*FuncNode
	g      *cfg.CFG
	dom    map[*cfg.Block]map[*cfg.Block]bool
}

func relPath(pkgPath string) string {
	if pkgPath == modPath {
		return ""
	}
	return strings.TrimPrefix(pkgPath, modPath+"/")
}

// excluded packages: mocks and fakes implement the same interfaces and are not part of any rule scope.
func excludedPkg(rel string) bool {
	if strings.HasSuffix(rel, "/mocks") || rel == "3rdmocks" || strings.HasPrefix(rel, "3rdmocks/") ||
		rel == "engine/fake" || strings.HasPrefix(rel, "engine/mocks") {
		return true
	}
	return false
}

func loadProg(repo string, tests bool) (*Prog, error) {
	env := append(os.Environ(), "GOFLAGS=-mod=mod", "GOPROXY=off", "GOSUMDB=off", "GOWORK=off", "GOTOOLCHAIN=local")
	// -trimpath keeps the build cache keys of the packages independent of the directory they are in, so the export data
	// computed for /repo is reused for the unchanged packages of a scratch copy (thorough tier replays)
	cfgp := &packages.Config{Mode: packages.LoadSyntax | packages.NeedModule, Dir: repo, Env: env, Tests: tests, BuildFlags: []string{"-trimpath"}}
	pkgs, err := packages.Load(cfgp, "./...")
	if err != nil {
		return nil, err
	}
	if len(pkgs) == 0 {
		return nil, fmt.Errorf("no packages loaded from %s", repo)
	}
	p := &Prog{Repo: repo, Pkgs: pkgs, ByPath: map[string]*packages.Package{}, Funcs: map[string]*FuncNode{},
		ByObj: map[*types.Func]*FuncNode{}, ByLit: map[*ast.FuncLit]*FuncNode{}}
	var errs []string
	for _, pk := range pkgs {
		for _, e := range pk.Errors {
			errs = append(errs, pk.PkgPath+": "+e.Error())
		}
		if p.Fset == nil {
			p.Fset = pk.Fset
		}
		p.ByPath[relPath(pk.PkgPath)] = pk
		p.NFiles += len(pk.Syntax)
	}
	if len(errs) > 0 {
		return nil, fmt.Errorf("type errors: %s", strings.Join(errs, "; "))
	}
	sort.Slice(p.Pkgs, func(i, j int) bool { return p.Pkgs[i].PkgPath < p.Pkgs[j].PkgPath })
	for _, pk := range p.Pkgs {
		p.indexPkg(pk)
	}
	return p, nil
}

func recvString(fd *ast.FuncDecl) string {
	if fd.Recv == nil || len(fd.Recv.List) == 0 {
		return ""
	}
	t := fd.Recv.List[0].Type
	star := ""
	if s, ok := t.(*ast.StarExpr); ok {
		star = "*"
		t = s.X
	}
	// strip type params
	switch x := t.(type) {
	case *ast.IndexExpr:
		t = x.X
	case *ast.IndexListExpr:
		t = x.X
	}
	if id, ok := t.(*ast.Ident); ok {
		if star != "" {
			return "(*" + id.Name + ")."
		}
		return id.Name + "."
	}
	return "?."
}

func (p *Prog) indexPkg(pk *packages.Package) {
	rel := relPath(pk.PkgPath)
	for _, f := range pk.Syntax {
		fname := p.Fset.Position(f.Pos()).Filename
		if strings.HasSuffix(fname, "_test.go") {
			continue
		}
		for _, d := range f.Decls {
			switch fd := d.(type) {
			case *ast.FuncDecl:
				if fd.Body == nil {
					continue
				}
				name := rel + "." + recvString(fd) + fd.Name.Name
				obj, _ := pk.TypesInfo.Defs[fd.Name].(*types.Func)
				fn := &FuncNode{Name: name, Pkg: pk, Decl: fd, Obj: obj, Body: fd.Body, Type: fd.Type}
				if _, dup := p.Funcs[name]; dup { // e.g. several init
					name = fmt.Sprintf("%s#%d", name, p.Fset.Position(fd.Pos()).Line)
					fn.Name = name
				}
				p.Funcs[name] = fn
				if obj != nil {
					p.ByObj[obj] = fn
				}
				p.indexLits(fn)
			case *ast.GenDecl:
				// package-level function literals (var x = func(){...})
				for _, sp := range fd.Specs {
					vs, ok := sp.(*ast.ValueSpec)
					if !ok {
						continue
					}
					for i, v := range vs.Values {
						nm := "_"
						if i < len(vs.Names) {
							nm = vs.Names[i].Name
						}
						holder := &FuncNode{Name: rel + ".var:" + nm, Pkg: pk}
						n := 0
						ast.Inspect(v, func(x ast.Node) bool {
							if lit, ok := x.(*ast.FuncLit); ok {
								n++
								c := &FuncNode{Name: fmt.Sprintf("%s$%d", holder.Name, n), Pkg: pk, Lit: lit, Body: lit.Body, Type: lit.Type}
								p.Funcs[c.Name] = c
								p.ByLit[lit] = c
								p.indexLits(c)
								return false
							}
							return true
						})
					}
				}
			}
		}
	}
}

// indexLits numbers the function literals directly nested in fn in source order ($1, $2, ...), recursively.
func (p *Prog) indexLits(fn *FuncNode) {
	n := 0
	var visit func(x ast.Node) bool
	visit = func(x ast.Node) bool {
		if lit, ok := x.(*ast.FuncLit); ok {
			n++
			c := &FuncNode{Name: fmt.Sprintf("%s$%d", fn.Name, n), Pkg: fn.Pkg, Lit: lit, Parent: fn, Body: lit.Body, Type: lit.Type}
			fn.Lits = append(fn.Lits, c)
			p.Funcs[c.Name] = c
			p.ByLit[lit] = c
			p.indexLits(c)
			return false
		}
		return true
	}
	ast.Inspect(fn.Body, visit)
}

// Fn returns the function with the given qualified name or nil.
func (p *Prog) Fn(name string) *FuncNode { return p.Funcs[name] }

func (p *Prog) pos(n ast.Node) string {
	if n == nil {
		return ""
	}
	return p.posOf(n.Pos())
}

func (p *Prog) posOf(pos token.Pos) string {
	if !pos.IsValid() {
		return ""
	}
	ps := p.Fset.Position(pos)
	f := strings.TrimPrefix(ps.Filename, p.Repo+"/")
	return fmt.Sprintf("%s:%d", f, ps.Line)
}

// Callee resolves the called function/method object of a call expression (nil for builtins, conversions, dynamic calls).
func (fn *FuncNode) Callee(call *ast.CallExpr) *types.Func {
	if f, ok := typeutil.Callee(fn.Pkg.TypesInfo, call).(*types.Func); ok {
		return f
	}
	return nil
}

// objName renders a types.Func as relpkg.(Recv).Name for matching against tables.
func objName(f *types.Func) string {
	if f == nil {
		return ""
	}
	pk := ""
	if f.Pkg() != nil {
		pk = relPath(f.Pkg().Path())
	}
	sig, _ := f.Type().(*types.Signature)
	if sig != nil && sig.Recv() != nil {
		t := sig.Recv().Type()
		star := false
		if pt, ok := t.(*types.Pointer); ok {
			t = pt.Elem()
			star = true
		}
		if nt, ok := t.(*types.Named); ok {
			if star {
				return pk + ".(*" + nt.Obj().Name() + ")." + f.Name()
			}
			return pk + "." + nt.Obj().Name() + "." + f.Name()
		}
		return pk + ".?." + f.Name()
	}
	return pk + "." + f.Name()
}

// CFG returns (building on demand) the control-flow graph of the function body.
func (fn *FuncNode) CFG() *cfg.CFG {
	if fn.g == nil {
		fn.g = cfg.New(fn.Body, func(call *ast.CallExpr) bool {
			// calls that never return
			if id, ok := call.Fun.(*ast.Ident); ok && id.Name == "panic" {
				return false
			}
			if c := fn.Callee(call); c != nil {
				n := objName(c)
				if n == "os.Exit" || strings.HasSuffix(n, ".Fatal") || strings.HasSuffix(n, ".Fatalf") {
					return false
				}
			}
			return true
		})
	}
	return fn.g
}

// SSA builds (once) SSA for all module packages.
func (p *Prog) SSA() *ssa.Program {
	if p.ssa == nil {
		prog, spkgs := ssautil.Packages(p.Pkgs, ssa.InstantiateGenerics)
		prog.Build()
		p.ssa = prog
		p.ssaPkg = map[*packages.Package]*ssa.Package{}
		for i, pk := range p.Pkgs {
			p.ssaPkg[pk] = spkgs[i]
		}
	}
	return p.ssa
}

// SSAFunc finds the ssa.Function for a FuncNode.
func (p *Prog) SSAFunc(fn *FuncNode) *ssa.Function {
	prog := p.SSA()
	root := fn
	var chain []*FuncNode
	for root.Parent != nil {
		chain = append([]*FuncNode{root}, chain...)
		root = root.Parent
	}
	if root.Obj == nil {
		return nil
	}
	f := prog.FuncValue(root.Obj)
	for _, c := range chain {
		if f == nil {
			return nil
		}
		var next *ssa.Function
		for _, a := range f.AnonFuncs {
			if a.Syntax() == ast.Node(c.Lit) {
				next = a
			}
		}
		f = next
	}
	return f
}

// enclosing returns the innermost FuncNode whose body contains pos.
func (p *Prog) enclosing(pk *packages.Package, pos token.Pos) *FuncNode {
	var best *FuncNode
	for _, fn := range p.Funcs {
		if fn.Pkg != pk || fn.Body == nil {
			continue
		}
		if fn.Body.Pos() <= pos && pos < fn.Body.End() {
			if best == nil || (fn.Body.Pos() >= best.Body.Pos() && fn.Body.End() <= best.Body.End()) {
				best = fn
			}
		}
	}
	return best
}

// sortedFuncs returns all function nodes of module packages with the given relative-path prefixes (none = all), sorted by name.
func (p *Prog) sortedFuncs(prefixes ...string) []*FuncNode {
	var out []*FuncNode
	for _, fn := range p.Funcs {
		rel := relPath(fn.Pkg.PkgPath)
		if excludedPkg(rel) {
			continue
		}
		if len(prefixes) == 0 {
			out = append(out, fn)
			continue
		}
		for _, pre := range prefixes {
			if rel == pre || strings.HasPrefix(rel, pre+"/") {
				out = append(out, fn)
				break
			}
		}
	}
	sort.Slice(out, func(i, j int) bool { return out[i].Name < out[j].Name })
	return out
}
