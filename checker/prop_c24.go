package main

// C24: metadata queries are isolated per application, entrypoint and node.

import (
	"fmt"
	"go/ast"
	"go/token"
	"go/types"
	"strings"
)

func init() { register("C24", checkC24) }

// rejectsSubstring: fn contains `if strings.Contains(<expr whose selector ends in field>, sub) { return <non-nil> }`
// (possibly as one disjunct of the condition).
func rejectsSubstring(fn *FuncNode, field, sub string) bool {
	found := false
	fn.inspectBody(func(n ast.Node) bool {
		is, ok := n.(*ast.IfStmt)
		if !ok {
			return true
		}
		last := is.Body.List[len(is.Body.List)-1]
		rt, ok := last.(*ast.ReturnStmt)
		if !ok || len(rt.Results) == 0 || isNilIdent(rt.Results[len(rt.Results)-1]) {
			return true
		}
		var disj []ast.Expr
		var split func(e ast.Expr)
		split = func(e ast.Expr) {
			if be, ok := unparen(e).(*ast.BinaryExpr); ok && be.Op == token.LOR {
				split(be.X)
				split(be.Y)
				return
			}
			disj = append(disj, unparen(e))
		}
		split(is.Cond)
		for _, d := range disj {
			c, ok := d.(*ast.CallExpr)
			if !ok || len(c.Args) != 2 {
				continue
			}
			f := fn.Callee(c)
			if f == nil || (fullObjName(f) != "strings.Contains" && fullObjName(f) != "strings.ContainsAny" && fullObjName(f) != "strings.ContainsRune") {
				continue
			}
			tv, has := fn.Pkg.TypesInfo.Types[c.Args[1]]
			if !has || tv.Value == nil || !strings.Contains(strings.Trim(tv.Value.ExactString(), `"'`), sub) {
				continue
			}
			name := ""
			switch x := unparen(c.Args[0]).(type) {
			case *ast.SelectorExpr:
				name = x.Sel.Name
			case *ast.Ident:
				name = x.Name
			}
			if strings.EqualFold(name, field) {
				found = true
			}
		}
		return true
	})
	return found
}

func checkC24(p *Prog, r *Result, tier string) {
	r.Technique = "symbolic key-shape analysis of every prefix/pattern query of both stores (constant folding of filepath.Join / Sprintf / + over the key-layout constants), validation-guard rules for every name component that reaches key construction, make/parse inverse rule for workload names (who-calls with validated arguments, alphabet of the random ident)"
	r.Explanation = "PK every prefix (etcd, WithPrefix) or pattern (redis) query ends in the separator after the last name component ('/' resp. '/*'): the keys of an application, entrypoint or node whose name merely starts with the requested one are not matched; " +
		"NV every name that becomes a key component (application, entrypoint, node, pod) passes a validation that rejects the key separator '/' before anything is stored under it, so one name cannot be a path prefix of another's keys; " +
		"WN the workload name is application_entrypoint_ident; it is built only from a validated entrypoint (no '_', no '/') and an ident drawn from an alphabet without '_', and parsed by splitting on '_' from the right, so parsing returns the application and entrypoint it was made from; KS the status and deploy keys of a workload are built from the names parsed back from its own name and its own node and id."
	r.NotCovered = "glob metacharacters (* ? [) in names on the redis backend, which matches with patterns; names already stored before validation existed; the stores' prefix semantics"
	r.Assumptions = []string{"A4 etcd WithPrefix and redis KEYS/PSUBSCRIBE pattern semantics"}
	r.min("PK", 12)
	r.min("NV", 8)
	r.min("WN", 3)
	r.min("KS", 2)

	// ---- PK
	for _, s := range prefixQuerySites(p, "store/etcdv3", "store/redis") {
		checkPrefixSite(p, r, "PK", s)
	}

	// ---- NV
	for _, v := range []struct{ fn, field, what string }{
		{"types.(*DeployOptions).Validate", "Name", "application name"},
		{"types.(*Entrypoint).Validate", "Name", "entrypoint name"},
		{"types.(*AddNodeOptions).Validate", "Nodename", "node name"},
		{"types.(*AddNodeOptions).Validate", "Podname", "pod name of a node"},
		{"cluster/calcium.(*Calcium).AddPod", "podname", "pod name"},
	} {
		F := p.Fn(v.fn)
		key := v.fn + " / the " + v.what + " may not contain the key separator"
		if F == nil {
			r.undecided("NV", key, "", "not found")
			continue
		}
		r.check(rejectsSubstring(F, v.field, "/"), "NV", key, p.pos(F.Decl), "strings.Contains(…, \"/\") → error",
			"the "+v.what+" is accepted with a '/' in it: it becomes several components of the metadata keys, so listing or counting for one (application, entrypoint, node) also returns or counts another one's workloads (application `a/b` entrypoint `c` and application `a` entrypoint `b/c` share the prefix /deploy/a/b/c/)")
	}
	if F := p.Fn("types.(*Entrypoint).Validate"); F != nil {
		r.check(rejectsSubstring(F, "Name", "_"), "NV", "types.(*Entrypoint).Validate / the entrypoint name may not contain the workload-name separator", p.pos(F.Decl), "strings.Contains(e.Name, \"_\") → error",
			"an entrypoint name with '_' is accepted: application_entrypoint_ident then parses back to a different application and entrypoint (the split takes the last two parts), so the workload's status and deploy keys are filed under other names")
	}
	// the validations are on the path: create validates the options before anything else; add-node too
	for _, v := range []struct{ fn, what string }{{"cluster/calcium.(*Calcium).CreateWorkload", "create"}, {"cluster/calcium.(*Calcium).AddNode", "add-node"}} {
		F := p.Fn(v.fn)
		if F == nil {
			r.undecided("NV", v.fn, "", "not found")
			continue
		}
		why := "options are not validated before use"
		F.inspectBody(func(n ast.Node) bool {
			is, ok := n.(*ast.IfStmt)
			if !ok || is.Init == nil {
				return true
			}
			as, ok := is.Init.(*ast.AssignStmt)
			if !ok || len(as.Rhs) != 1 {
				return true
			}
			c, ok := unparen(as.Rhs[0]).(*ast.CallExpr)
			if !ok || F.Callee(c) == nil || F.Callee(c).Name() != "Validate" {
				return true
			}
			if rt, ok := is.Body.List[len(is.Body.List)-1].(*ast.ReturnStmt); ok && !isNilIdent(rt.Results[len(rt.Results)-1]) {
				// dominates every store / resource manager call of the function
				ref := F.find(is.Cond)
				why = ""
				for _, sc := range F.calls(func(f *types.Func) bool {
					return strings.HasPrefix(objName(f), "store.Store.") || strings.HasPrefix(objName(f), "resource.Manager.")
				}) {
					if !F.dominates(ref, F.find(sc)) {
						why = "a store or resource-manager call at " + p.pos(sc) + " is not dominated by the validation"
					}
				}
			}
			return true
		})
		r.check2(why, "NV", v.fn+" / "+v.what+" validates its options before anything is stored", p.pos(F.Decl), "if err := opts.Validate(); err != nil { return …, err } first")
	}

	// ---- WN
	MK := p.Fn("utils.MakeWorkloadName")
	PS := p.Fn("utils.ParseWorkloadName")
	if MK == nil || PS == nil {
		r.undecided("WN", "utils.MakeWorkloadName / ParseWorkloadName", "", "not found")
	} else {
		// make: strings.Join([]string{app, entry, ident}, "_")
		why := "MakeWorkloadName is not strings.Join([]string{appname, entrypoint, ident}, \"_\")"
		MK.inspectBody(func(n ast.Node) bool {
			if c, ok := n.(*ast.CallExpr); ok && MK.Callee(c) != nil && fullObjName(MK.Callee(c)) == "strings.Join" && len(c.Args) == 2 {
				if sep, ok := MK.constString(c.Args[1]); ok && sep == "_" {
					if lit, ok := unparen(c.Args[0]).(*ast.CompositeLit); ok && len(lit.Elts) == 3 &&
						MK.objOf(lit.Elts[0]) == MK.paramObj(0) && MK.objOf(lit.Elts[1]) == MK.paramObj(1) && MK.objOf(lit.Elts[2]) == MK.paramObj(2) {
						why = ""
					}
				}
			}
			return true
		})
		r.check2(why, "WN", "utils.MakeWorkloadName / application_entrypoint_ident", p.pos(MK.Decl), "strings.Join([]string{appname, entrypoint, ident}, \"_\")")
		// parse: split on "_", last = ident, last-1 = entrypoint, rest joined by "_" = application
		why = "ParseWorkloadName does not take the entrypoint and ident from the right end of the '_' split"
		var splits types.Object
		PS.inspectBody(func(n ast.Node) bool {
			if as, ok := n.(*ast.AssignStmt); ok && len(as.Rhs) == 1 {
				if c, ok := unparen(as.Rhs[0]).(*ast.CallExpr); ok && PS.Callee(c) != nil && fullObjName(PS.Callee(c)) == "strings.Split" {
					if sep, ok := PS.constString(c.Args[1]); ok && sep == "_" {
						splits = PS.objOf(as.Lhs[0])
					}
				}
			}
			return true
		})
		if splits != nil {
			PS.inspectBody(func(n ast.Node) bool {
				rt, ok := n.(*ast.ReturnStmt)
				if !ok || len(rt.Results) != 4 || !isNilIdent(rt.Results[3]) {
					return true
				}
				s := exprStr(rt.Results[0]) + " | " + exprStr(rt.Results[1]) + " | " + exprStr(rt.Results[2])
				nm := splits.Name()
				want := fmt.Sprintf("strings.Join(%s[0:length - 2], \"_\") | %s[length - 2] | %s[length - 1]", nm, nm, nm)
				if s == want {
					why = ""
				} else {
					why = "ParseWorkloadName returns (" + s + "), not (all but the last two parts joined by '_', the second-to-last, the last)"
				}
				return true
			})
		}
		r.check2(why, "WN", "utils.ParseWorkloadName / entrypoint and ident are the last two '_'-separated parts", p.pos(PS.Decl), "Join(parts[:n-2], \"_\"), parts[n-2], parts[n-1]")
		// call sites of Make: entrypoint argument is <opts>.Entrypoint.Name of validated options; ident from RandomString
		n := 0
		for _, fn := range p.sortedFuncs() {
			for _, c := range fn.calls(func(f *types.Func) bool { return f == MK.Obj }) {
				n++
				key := fmt.Sprintf("%s / workload name #%d is made from a validated entrypoint and a random ident", fn.Name, n)
				whyC := ""
				if !strings.HasSuffix(exprStr(c.Args[1]), ".Entrypoint.Name") {
					whyC = "the entrypoint component is `" + exprStr(c.Args[1]) + "`, not the validated options' Entrypoint.Name"
				}
				if whyC == "" {
					// ident: a local defined from utils.RandomString(...)
					ok := false
					if o := fn.objOf(c.Args[2]); o != nil {
						fn.inspectBody(func(x ast.Node) bool {
							if as, isA := x.(*ast.AssignStmt); isA && len(as.Rhs) == 1 {
								for _, l := range as.Lhs {
									if fn.objOf(l) == o {
										if rc, isC := unparen(as.Rhs[0]).(*ast.CallExpr); isC && fn.Callee(rc) != nil && objName(fn.Callee(rc)) == "utils.RandomString" {
											ok = true
										}
									}
								}
							}
							return true
						})
					}
					if !ok {
						whyC = "the ident component `" + exprStr(c.Args[2]) + "` is not drawn from utils.RandomString"
					}
				}
				r.check2(whyC, "WN", key, p.pos(c), "MakeWorkloadName(opts.Name, opts.Entrypoint.Name, RandomString(…))")
			}
		}
		// alphabet of RandomString has no '_' and no '/'
		if pk := p.ByPath["utils"]; pk != nil {
			if o := pk.Types.Scope().Lookup("letters"); o != nil {
				if c, ok := o.(*types.Const); ok {
					v := strings.Trim(c.Val().ExactString(), `"`)
					r.check(!strings.ContainsAny(v, "_/"), "WN", "utils.letters / the ident alphabet has no separator characters", "", "no '_' or '/' among "+fmt.Sprint(len(v))+" letters", "the random ident may contain '_' or '/': parsing the workload name back would cut it in the wrong place")
				} else {
					// a var: find its initialiser
					found := false
					for _, f := range pk.Syntax {
						ast.Inspect(f, func(n ast.Node) bool {
							if vs, ok := n.(*ast.ValueSpec); ok && len(vs.Names) == 1 && vs.Names[0].Name == "letters" && len(vs.Values) == 1 {
								if tv, has := pk.TypesInfo.Types[vs.Values[0]]; has && tv.Value != nil {
									found = true
									v := strings.Trim(tv.Value.ExactString(), `"`)
									r.check(!strings.ContainsAny(v, "_/"), "WN", "utils.letters / the ident alphabet has no separator characters", p.pos(vs), "no '_' or '/' among the letters", "the random ident may contain '_' or '/'")
								} else if c, ok := unparen(vs.Values[0]).(*ast.CallExpr); ok && len(c.Args) == 1 {
									if tv, has := pk.TypesInfo.Types[c.Args[0]]; has && tv.Value != nil {
										found = true
										v := strings.Trim(tv.Value.ExactString(), `"`)
										r.check(!strings.ContainsAny(v, "_/"), "WN", "utils.letters / the ident alphabet has no separator characters", p.pos(vs), "no '_' or '/' among the letters", "the random ident may contain '_' or '/'")
									}
								}
							}
							return true
						})
					}
					if !found {
						r.undecided("WN", "utils.letters", "", "alphabet initialiser not constant")
					}
				}
			} else {
				r.undecided("WN", "utils.letters", "", "alphabet not found")
			}
		}
	}

	// ---- KS: a workload's deploy/status keys are built from the names parsed from its own name, its node and its id
	for _, be := range []string{"store/etcdv3.(*Mercury)", "store/redis.(*Rediaron)"} {
		F := p.Fn(be + ".doOpsWorkload")
		key := be + ".doOpsWorkload / the workload's keys carry the names parsed from its own name"
		if F == nil {
			r.undecided("KS", key, "", "not found")
			continue
		}
		w := F.paramObj(1)
		var app, entry types.Object
		F.inspectBody(func(n ast.Node) bool {
			if as, ok := n.(*ast.AssignStmt); ok && len(as.Rhs) == 1 && len(as.Lhs) == 4 {
				if c, ok := unparen(as.Rhs[0]).(*ast.CallExpr); ok && F.Callee(c) != nil && objName(F.Callee(c)) == "utils.ParseWorkloadName" {
					if sel, ok := unparen(c.Args[0]).(*ast.SelectorExpr); ok && F.objOf(sel.X) == w && sel.Sel.Name == "Name" {
						app, entry = F.objOf(as.Lhs[0]), F.objOf(as.Lhs[1])
					}
				}
			}
			return true
		})
		why := ""
		if app == nil || entry == nil {
			why = "application and entrypoint are not parsed from the workload's own name"
		} else {
			n := 0
			ast.Inspect(F.Body, func(x ast.Node) bool {
				c, ok := x.(*ast.CallExpr)
				if !ok || F.Callee(c) == nil || fullObjName(F.Callee(c)) != "path/filepath.Join" || len(c.Args) != 5 {
					return true
				}
				pfx := exprStr(c.Args[0])
				if pfx != "workloadDeployPrefix" && pfx != "workloadStatusPrefix" {
					return true
				}
				n++
				nodeOK := strings.HasSuffix(exprStr(c.Args[3]), ".Nodename") && F.usesObj(c.Args[3], w)
				idOK := strings.HasSuffix(exprStr(c.Args[4]), ".ID") && F.usesObj(c.Args[4], w)
				if F.objOf(c.Args[1]) != app || F.objOf(c.Args[2]) != entry || !nodeOK || !idOK {
					why = "key " + exprStr(c) + " is not (prefix, parsed application, parsed entrypoint, workload.Nodename, workload.ID)"
				}
				return true
			})
			if n < 1 && why == "" {
				why = fmt.Sprintf("only %d deploy/status keys built for a workload", n)
			}
		}
		r.check2(why, "KS", key, p.pos(F.Decl), "Join(prefix, appname, entrypoint, workload.Nodename, workload.ID) with names from ParseWorkloadName(workload.Name)")
	}
}
