package main

// E12 txnpaths: a small abstract interpreter over go/ssa for loop-free combinators (utils.Txn, utils.PCR).
// Domain: errors and function values are nil / non-nil (errors carry the name of the step that produced them),
// booleans are concrete, contexts carry their cancellation root (caller / detached), local cells are tracked exactly,
// everything else is opaque. A branch on an opaque value makes the run undecided. Nothing is executed.

import (
	"fmt"
	"go/token"
	"go/types"

	"golang.org/x/tools/go/ssa"
)

type aval interface{}

type (
	aNil  struct{}
	aErr  struct{ from string }
	aBool struct{ b bool }
	aCtx  struct{ root string } // caller | detached
	aStep struct{ name string } // a function parameter of the entry function: calling it is an event
	aClos struct {
		fn   *ssa.Function
		bind []aval
	}
	aInvoke struct{ name string } // interface method call: an event named after the method
	aCell   struct{ v aval }
	aTuple  struct{ vs []aval }
	aOpaque struct{ why string }
)

type stepEvent struct {
	Name string
	Ctx  string // root of the context argument
	Flag string // "true"/"false"/"" (second argument when boolean)
}

type interp struct {
	p        *Prog
	outcome  map[string]aval // step name -> result of calling it (aNil or aErr)
	events   []stepEvent
	fuel     int
	problem  string
	inlineOK func(*ssa.Function) bool
	detached map[string]bool // callee full names that return a context detached from their argument (verified separately)
}

type frame struct {
	fn     *ssa.Function
	env    map[ssa.Value]aval
	defers []func()
	result []aval
}

func (it *interp) fail(f string, a ...any) {
	if it.problem == "" {
		it.problem = fmt.Sprintf(f, a...)
	}
}

func (it *interp) val(fr *frame, v ssa.Value) aval {
	switch x := v.(type) {
	case *ssa.Const:
		if x.IsNil() {
			return aNil{}
		}
		if b, ok := x.Type().Underlying().(*types.Basic); ok && b.Info()&types.IsBoolean != 0 && x.Value != nil {
			return aBool{x.Value.String() == "true"}
		}
		return aOpaque{"const"}
	case *ssa.Function:
		return aClos{fn: x}
	case *ssa.Global:
		return aOpaque{"global"}
	}
	if a, ok := fr.env[v]; ok {
		return a
	}
	return aOpaque{"undefined " + v.Name()}
}

func isNilLike(a aval) (isNil bool, known bool) {
	switch x := a.(type) {
	case aNil:
		return true, true
	case aErr, aStep, aClos, aCtx:
		return false, true
	case *aCell:
		return false, true
	case aOpaque:
		_ = x
	}
	return false, false
}

// call performs a call of abstract function value fv with arguments args.
func (it *interp) call(fv aval, args []aval, callee *ssa.Function, calleeName string) aval {
	switch f := fv.(type) {
	case aStep:
		ev := stepEvent{Name: f.name}
		if len(args) > 0 {
			if c, ok := args[0].(aCtx); ok {
				ev.Ctx = c.root
			} else {
				ev.Ctx = "unknown"
			}
		}
		if len(args) > 1 {
			if b, ok := args[1].(aBool); ok {
				ev.Flag = fmt.Sprint(b.b)
			} else {
				ev.Flag = "unknown"
			}
		}
		it.events = append(it.events, ev)
		if out, ok := it.outcome[f.name]; ok {
			return out
		}
		return aOpaque{"step without outcome"}
	case aInvoke:
		if out, ok := it.outcome[f.name]; ok {
			it.events = append(it.events, stepEvent{Name: f.name})
			return out
		}
		return aOpaque{"invoke " + f.name}
	case aClos:
		if f.fn.Blocks == nil {
			return it.extern(f.fn, args)
		}
		if it.inlineOK != nil && !it.inlineOK(f.fn) {
			return it.extern(f.fn, args)
		}
		res := it.run(f.fn, args, f.bind)
		switch len(res) {
		case 0:
			return aOpaque{"no result"}
		case 1:
			return res[0]
		}
		return aTuple{res}
	case aNil:
		it.fail("call of a nil function value")
		return aOpaque{"nil call"}
	}
	if callee != nil {
		return it.extern(callee, args)
	}
	return aOpaque{"call of opaque function"} // e.g. a cancel function
}

func fnFullName(f *ssa.Function) string {
	if f.Pkg != nil && f.Signature.Recv() == nil {
		return f.Pkg.Pkg.Path() + "." + f.Name()
	}
	return f.String()
}

// extern models the few external functions that matter; everything else returns an opaque value.
func (it *interp) extern(f *ssa.Function, args []aval) aval {
	n := fnFullName(f)
	switch n {
	case "context.WithTimeout", "context.WithCancel", "context.WithDeadline", "context.WithValue":
		var c aval = aOpaque{"ctx"}
		if len(args) > 0 {
			if x, ok := args[0].(aCtx); ok {
				c = x
			}
		}
		if n == "context.WithValue" {
			return c
		}
		return aTuple{[]aval{c, aOpaque{"cancel"}}}
	case "context.TODO", "context.Background":
		return aCtx{"detached"}
	}
	if it.detached[n] {
		return aCtx{"detached"}
	}
	// a module function that takes a context and returns one, and is not known to detach: keeps the root
	if f.Signature.Results().Len() == 1 && isContextType(f.Signature.Results().At(0).Type()) {
		for _, a := range args {
			if c, ok := a.(aCtx); ok {
				return c
			}
		}
	}
	return aOpaque{"result of " + n}
}

func (it *interp) run(fn *ssa.Function, args []aval, bind []aval) []aval {
	fr := &frame{fn: fn, env: map[ssa.Value]aval{}}
	for i, p := range fn.Params {
		if i < len(args) {
			fr.env[p] = args[i]
		} else {
			fr.env[p] = aOpaque{"missing arg"}
		}
	}
	for i, fv := range fn.FreeVars {
		if i < len(bind) {
			fr.env[fv] = bind[i]
		}
	}
	if len(fn.Blocks) == 0 {
		return nil
	}
	var prev *ssa.BasicBlock
	b := fn.Blocks[0]
	runDefers := func() {
		for len(fr.defers) > 0 {
			d := fr.defers[len(fr.defers)-1]
			fr.defers = fr.defers[:len(fr.defers)-1]
			d()
		}
	}
	for {
		var next *ssa.BasicBlock
		for _, ins := range b.Instrs {
			it.fuel--
			if it.fuel < 0 {
				it.fail("interpretation did not finish (loop?) in %s", fn.Name())
				return nil
			}
			switch x := ins.(type) {
			case *ssa.Phi:
				for i, pr := range b.Preds {
					if pr == prev {
						fr.env[x] = it.val(fr, x.Edges[i])
					}
				}
			case *ssa.Alloc:
				fr.env[x] = &aCell{v: aNil{}}
			case *ssa.Store:
				if c, ok := it.val(fr, x.Addr).(*aCell); ok {
					c.v = it.val(fr, x.Val)
				}
			case *ssa.UnOp:
				switch x.Op {
				case token.MUL:
					if c, ok := it.val(fr, x.X).(*aCell); ok {
						fr.env[x] = c.v
					} else {
						fr.env[x] = aOpaque{"load of opaque"}
					}
				case token.NOT:
					if bv, ok := it.val(fr, x.X).(aBool); ok {
						fr.env[x] = aBool{!bv.b}
					} else {
						fr.env[x] = aOpaque{"!opaque"}
					}
				default:
					fr.env[x] = aOpaque{"unop"}
				}
			case *ssa.BinOp:
				l, r := it.val(fr, x.X), it.val(fr, x.Y)
				var res aval = aOpaque{"binop"}
				if x.Op == token.EQL || x.Op == token.NEQ {
					_, lnil := l.(aNil)
					_, rnil := r.(aNil)
					var other aval
					switch {
					case lnil:
						other = r
					case rnil:
						other = l
					}
					if other != nil {
						if isN, known := isNilLike(other); known {
							res = aBool{isN == (x.Op == token.EQL)}
						}
					} else if lb, ok := l.(aBool); ok {
						if rb, ok := r.(aBool); ok {
							res = aBool{(lb.b == rb.b) == (x.Op == token.EQL)}
						}
					}
				}
				fr.env[x] = res
			case *ssa.MakeClosure:
				var bs []aval
				for _, bv := range x.Bindings {
					bs = append(bs, it.val(fr, bv))
				}
				fr.env[x] = aClos{fn: x.Fn.(*ssa.Function), bind: bs}
			case *ssa.MakeInterface:
				fr.env[x] = it.val(fr, x.X)
			case *ssa.ChangeInterface:
				fr.env[x] = it.val(fr, x.X)
			case *ssa.ChangeType:
				fr.env[x] = it.val(fr, x.X)
			case *ssa.Extract:
				if t, ok := it.val(fr, x.Tuple).(aTuple); ok && x.Index < len(t.vs) {
					fr.env[x] = t.vs[x.Index]
				} else {
					fr.env[x] = aOpaque{"extract"}
				}
			case *ssa.Call:
				fr.env[x] = it.doCall(fr, &x.Call)
			case *ssa.Defer:
				call := x.Call
				// arguments are evaluated now
				fv, args, callee, name := it.prepCall(fr, &call)
				fr.defers = append(fr.defers, func() { it.call(fv, args, callee, name) })
			case *ssa.RunDefers:
				runDefers()
			case *ssa.Return:
				var out []aval
				for _, rv := range x.Results {
					out = append(out, it.val(fr, rv))
				}
				return out
			case *ssa.If:
				c, ok := it.val(fr, x.Cond).(aBool)
				if !ok {
					it.fail("branch on a value the abstract domain does not determine (%s in %s)", x.Cond.String(), fn.Name())
					return nil
				}
				if c.b {
					next = b.Succs[0]
				} else {
					next = b.Succs[1]
				}
			case *ssa.Jump:
				next = b.Succs[0]
			case *ssa.Go:
				it.fail("goroutine started inside the combinator (%s)", fn.Name())
				return nil
			case *ssa.Panic:
				it.fail("panic inside the combinator")
				return nil
			case ssa.Value:
				fr.env[x] = aOpaque{fmt.Sprintf("%T", x)}
			}
		}
		if next == nil {
			it.fail("block without terminator in %s", fn.Name())
			return nil
		}
		prev, b = b, next
	}
}

func (it *interp) prepCall(fr *frame, c *ssa.CallCommon) (aval, []aval, *ssa.Function, string) {
	var args []aval
	for _, a := range c.Args {
		args = append(args, it.val(fr, a))
	}
	if c.IsInvoke() {
		return aInvoke{c.Method.Name()}, args, nil, c.Method.Name()
	}
	if callee := c.StaticCallee(); callee != nil {
		if _, isClosure := c.Value.(*ssa.MakeClosure); isClosure {
			return it.val(fr, c.Value), args, callee, callee.Name()
		}
		return aClos{fn: callee}, args, callee, callee.Name()
	}
	return it.val(fr, c.Value), args, nil, ""
}

func (it *interp) doCall(fr *frame, c *ssa.CallCommon) aval {
	fv, args, callee, name := it.prepCall(fr, c)
	return it.call(fv, args, callee, name)
}
