package main

import (
	"fmt"
	"os"
	"time"

	"golang.org/x/tools/go/packages"
)

func main() {
	t0 := time.Now()
	cfg := &packages.Config{Mode: packages.LoadSyntax, Dir: "/repo", Env: append(os.Environ(), "GOFLAGS=-mod=mod", "GOPROXY=off", "GOSUMDB=off", "GOWORK=off", "GOTOOLCHAIN=local")}
	pkgs, err := packages.Load(cfg, "./...")
	if err != nil {
		panic(err)
	}
	n := 0
	for _, p := range pkgs {
		if len(p.Errors) > 0 {
			fmt.Println(p.PkgPath, p.Errors)
		}
		n += len(p.Syntax)
	}
	fmt.Println(len(pkgs), n, time.Since(t0))
}
