package main

// verifcheck: repository-specific static checker for projecteru2/core.
// Usage: verifcheck -p C20 [-tier quick|thorough] [-repo /repo] [-verif /verif] [-only "<rule | construct>"]

import (
	"encoding/json"
	"flag"
	"fmt"
	"os"
	"path/filepath"
	"runtime/debug"
	"sort"
	"strconv"
	"strings"
	"time"
)

type propFunc func(p *Prog, r *Result, tier string)

var registry = map[string]propFunc{}

func register(id string, f propFunc) { registry[id] = f }

func main() {
	prop := flag.String("p", "", "property id (C03 ...), comma list, or 'all'")
	tier := flag.String("tier", os.Getenv("VERIF_TIER"), "quick|thorough")
	repo := flag.String("repo", "/repo", "repository to analyse")
	verif := flag.String("verif", "", "verification directory (default: parent of the binary's dir)")
	only := flag.String("only", "", "replay: evaluate only the obligation with this key")
	list := flag.Bool("list", false, "list registered properties")
	replayFile := flag.String("replayfile", "", "replay file written by a failing run: re-evaluates that one obligation")
	noSelf := flag.Bool("noselftest", false, "thorough tier without the mutant self-test")
	flag.Parse()
	if *tier == "" {
		*tier = "quick"
	}
	if *replayFile != "" {
		b, err := os.ReadFile(*replayFile)
		if err != nil {
			fmt.Fprintln(os.Stderr, err)
			os.Exit(2)
		}
		var rp struct {
			Property string `json:"property"`
			Key      string `json:"key"`
		}
		if err := json.Unmarshal(b, &rp); err != nil || rp.Property == "" {
			fmt.Fprintln(os.Stderr, "bad replay file")
			os.Exit(2)
		}
		*prop, *only = rp.Property, rp.Key
	}
	if *verif == "" {
		exe, _ := os.Executable()
		*verif = filepath.Dir(filepath.Dir(exe))
	}
	seed, _ := strconv.Atoi(os.Getenv("VERIF_SEED"))
	var ids []string
	for id := range registry {
		ids = append(ids, id)
	}
	sort.Strings(ids)
	if *list {
		fmt.Println(strings.Join(ids, " "))
		return
	}
	var want []string
	if *prop == "all" {
		want = ids
	} else {
		for _, id := range strings.Split(*prop, ",") {
			if _, ok := registry[id]; !ok {
				fmt.Fprintf(os.Stderr, "unknown property %q\n", id)
				os.Exit(2)
			}
			want = append(want, id)
		}
	}
	t0 := time.Now()
	known, err := loadKnown(*verif)
	if err != nil {
		fmt.Fprintln(os.Stderr, "known_findings.json:", err)
		os.Exit(2)
	}
	abs, _ := filepath.Abs(*repo)
	p, err := loadProg(abs, false)
	if err != nil {
		// a tree that does not load is undecided for every property
		for _, id := range want {
			r := newResult(id)
			r.Explanation = "repository failed to load/type-check; nothing could be analysed"
			r.undecided("load", "packages.Load", "", err.Error())
			r.finish(*verif, *tier, seed, t0, known, "")
		}
		os.Exit(1)
	}
	fmt.Printf("loaded %d packages, %d files, %d functions in %.1fs\n", len(p.Pkgs), p.NFiles, len(p.Funcs), time.Since(t0).Seconds())
	bad := 0
	for _, id := range want {
		t1 := time.Now()
		r := newResult(id)
		r.Analysed["packages"] = len(p.Pkgs)
		r.Analysed["files"] = p.NFiles
		r.Analysed["functions_and_closures"] = len(p.Funcs)
		func() {
			defer func() {
				if e := recover(); e != nil {
					r.undecided("panic", "checker", "", fmt.Sprintf("checker panicked: %v\n%s", e, debug.Stack()))
				}
			}()
			registry[id](p, r, *tier)
			if *tier == "thorough" && !*noSelf && *only == "" {
				selfTest(p, r, *verif, seed)
				neutralTest(p, r, *verif)
			}
		}()
		if len(want) == 1 {
			t1 = t0
		}
		bad += r.finish(*verif, *tier, seed, t1, known, *only)
	}
	if bad > 0 {
		os.Exit(1)
	}
}
