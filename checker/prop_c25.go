package main

// C25: status reports are bound to live entities and expire.

import (
	"fmt"
	"go/ast"
	"go/token"
	"go/types"
	"strings"
)

func init() { register("C25", checkC25) }

func checkC25(p *Prog, r *Result, tier string) {
	r.Technique = "guard, argument-flow and sibling-agreement rules over the status writers of both stores (type-resolved AST + go/cfg): entity-existence compare guarding every leased put, TTL passed through unchanged, lease-free zero-TTL path, renewal of the stored lease on an unchanged report, routing of the node and workload status setters"
	r.Explanation = "ENT every write of a status key with a positive TTL is conditional on the entity key existing in the same backend (etcd: each transaction that can put the status compares Version(entityKey) != 0 and a failed compare returns an error; redis: Exists(entityKey) is checked before Set); " +
		"ROUTE SetNodeStatus and SetWorkloadStatus of both backends reach that conditional write with the entity key and the status key of the same node name / workload id, for every positive TTL; NEG a negative TTL deletes the node status key; " +
		"TTL the reported TTL reaches the expiry primitive unchanged (etcd: Grant(ctx, ttl) and the put bound to that lease; redis: Set(…, ttl seconds)); ZERO a zero TTL takes the path whose puts carry no lease (etcd) / a zero expiration (redis), so the status never expires on its own; " +
		"REN reporting an unchanged status renews the lease that is bound to the stored status (KeepAliveOnce on the lease id read from the status key) and gives the fresh lease back, while a changed or missing status is put with the fresh lease."
	r.NotCovered = "expiry and refresh in real time; etcd lease semantics; the redis backend checking the entity also for TTL zero while etcd does not (a difference between backends, see C23)"
	r.Assumptions = []string{"A4 etcd: a key bound to a lease is removed when the lease expires; redis: SET with an expiration removes the key after it"}
	r.min("ENT", 3)
	r.min("ROUTE", 4)
	r.min("NEG", 2)
	r.min("TTL", 2)
	r.min("ZERO", 2)
	r.min("REN", 1)

	E := p.Fn("store/etcdv3/meta.(*ETCD).bindStatusWithTTL")
	EB := p.Fn("store/etcdv3/meta.(*ETCD).BindStatus")
	E0 := p.Fn("store/etcdv3/meta.(*ETCD).bindStatusWithoutTTL")
	RB := p.Fn("store/redis.(*Rediaron).BindStatus")
	for n, f := range map[string]*FuncNode{"etcd bindStatusWithTTL": E, "etcd BindStatus": EB, "etcd bindStatusWithoutTTL": E0, "redis BindStatus": RB} {
		if f == nil {
			r.undecided("anchor", n, "", "not found")
		}
	}
	if E == nil || EB == nil || E0 == nil || RB == nil {
		return
	}
	calleeName := func(fn *FuncNode, c *ast.CallExpr) string {
		if f := fn.Callee(c); f != nil {
			return f.Name()
		}
		return ""
	}
	// ---- ENT etcd: each .If(...) of a Txn chain in bindStatusWithTTL
	{
		entity := E.paramObj(1)
		n := 0
		E.inspectBody(func(x ast.Node) bool {
			c, ok := x.(*ast.CallExpr)
			if !ok || calleeName(E, c) != "If" {
				return true
			}
			// is this the If of a top-level transaction (receiver is Txn(ctx))?
			sel, ok := unparen(c.Fun).(*ast.SelectorExpr)
			if !ok {
				return true
			}
			if tc, ok := unparen(sel.X).(*ast.CallExpr); !ok || calleeName(E, tc) != "Txn" {
				return true
			}
			n++
			good := false
			if len(c.Args) == 1 {
				if cmp, ok := unparen(c.Args[0]).(*ast.CallExpr); ok && calleeName(E, cmp) == "Compare" && len(cmp.Args) == 3 {
					if vc, ok := unparen(cmp.Args[0]).(*ast.CallExpr); ok && calleeName(E, vc) == "Version" && E.objOf(vc.Args[0]) == entity {
						op, _ := E.constString(cmp.Args[1])
						if v, isC := E.constInt(cmp.Args[2]); isC && v == 0 && op == "!=" {
							good = true
						}
					}
				}
			}
			r.check(good, "ENT", fmt.Sprintf("store/etcdv3/meta bindStatusWithTTL / transaction #%d puts the status only if the entity exists", n), p.pos(c), "If(Compare(Version(entityKey), \"!=\", 0))",
				"a transaction that can put the status with a lease is not conditional on Version(entityKey) != 0: a status is accepted for a node or workload that does not exist")
			return true
		})
		// failed compare -> error
		failOK := false
		E.inspectBody(func(x ast.Node) bool {
			if is, ok := x.(*ast.IfStmt); ok {
				if u, ok := unparen(is.Cond).(*ast.UnaryExpr); ok && u.Op == token.NOT {
					if sel, ok := unparen(u.X).(*ast.SelectorExpr); ok && sel.Sel.Name == "Succeeded" {
						if rt, ok := is.Body.List[len(is.Body.List)-1].(*ast.ReturnStmt); ok && len(rt.Results) == 1 && !isNilIdent(rt.Results[0]) {
							failOK = true
						}
					}
				}
			}
			return true
		})
		r.check(failOK && n >= 2, "ENT", "store/etcdv3/meta bindStatusWithTTL / a missing entity is reported as an error", p.pos(E.Decl), "if !entityTxn.Succeeded { return error }", "a failed entity compare is not turned into an error (or a transaction disappeared)")
	}
	// ---- ENT redis
	{
		entity, statusK := RB.paramObj(1), RB.paramObj(2)
		var ex, set *ast.CallExpr
		for _, c := range RB.calls(func(f *types.Func) bool { return f.Name() == "Exists" }) {
			if len(c.Args) >= 2 && RB.objOf(c.Args[1]) == entity {
				ex = c
			}
		}
		for _, c := range RB.calls(func(f *types.Func) bool { return f.Name() == "Set" }) {
			if len(c.Args) == 4 && RB.objOf(c.Args[1]) == statusK {
				set = c
			}
		}
		why := ""
		switch {
		case ex == nil:
			why = "no Exists(entityKey) check"
		case set == nil:
			why = "no Set(statusKey, …)"
		case !RB.dominates(RB.find(ex), RB.find(set)):
			why = "the existence check does not dominate the write"
		default:
			// count != 1 -> return error, between them
			guard := false
			RB.inspectBody(func(x ast.Node) bool {
				if is, ok := x.(*ast.IfStmt); ok && is.Pos() > ex.End() && is.End() < set.Pos() {
					if be, ok := unparen(is.Cond).(*ast.BinaryExpr); ok && (be.Op == token.NEQ || be.Op == token.LSS || be.Op == token.EQL) {
						if rt, ok := is.Body.List[len(is.Body.List)-1].(*ast.ReturnStmt); ok && len(rt.Results) == 1 && !isNilIdent(rt.Results[0]) {
							if v, isC := RB.constInt(be.Y); isC && (v == 1 || v == 0) {
								guard = true
							}
						}
					}
				}
				return true
			})
			if !guard {
				why = "the result of the existence check is not turned into an error before the write"
			}
		}
		r.check2(why, "ENT", "store/redis BindStatus / the status is written only if the entity exists", p.pos(RB.Decl), "count := Exists(entityKey); if count != 1 → error; Set(statusKey, …)")
	}

	// ---- TTL
	{
		ttl := E.paramObj(4)
		var lease types.Object
		grantOK := false
		E.inspectBody(func(x ast.Node) bool {
			if as, ok := x.(*ast.AssignStmt); ok && len(as.Rhs) == 1 {
				if c, ok := unparen(as.Rhs[0]).(*ast.CallExpr); ok && calleeName(E, c) == "Grant" && len(c.Args) == 2 && E.objOf(c.Args[1]) == ttl {
					lease, grantOK = E.objOf(as.Lhs[0]), true
				}
			}
			return true
		})
		putOK := true
		nput := 0
		E.inspectBody(func(x ast.Node) bool {
			if c, ok := x.(*ast.CallExpr); ok && calleeName(E, c) == "OpPut" {
				nput++
				ok2 := false
				if len(c.Args) == 3 {
					if wl, ok := unparen(c.Args[2]).(*ast.CallExpr); ok && calleeName(E, wl) == "WithLease" {
						if sel, ok := unparen(wl.Args[0]).(*ast.SelectorExpr); ok && sel.Sel.Name == "ID" && E.objOf(sel.X) == lease {
							ok2 = true
						}
					}
				}
				if !ok2 {
					putOK = false
				}
			}
			return true
		})
		r.check(grantOK && putOK && nput > 0, "TTL", "store/etcdv3/meta bindStatusWithTTL / the reported TTL is the lease's TTL and every put is bound to that lease", p.pos(E.Decl), "lease := Grant(ctx, ttl); OpPut(statusKey, value, WithLease(lease.ID))",
			fmt.Sprintf("lease granted with the ttl parameter: %v; %d put(s), all bound to that lease: %v", grantOK, nput, putOK))
		rttl := RB.paramObj(4)
		why := "Set's expiration is not time.Duration(ttl) * time.Second"
		for _, c := range RB.calls(func(f *types.Func) bool { return f.Name() == "Set" }) {
			if len(c.Args) == 4 {
				if be, ok := unparen(c.Args[3]).(*ast.BinaryExpr); ok && be.Op == token.MUL {
					conv, ok1 := unparen(be.X).(*ast.CallExpr)
					if ok1 && len(conv.Args) == 1 && RB.objOf(conv.Args[0]) == rttl && strings.HasSuffix(exprStr(be.Y), "time.Second") {
						why = ""
					}
				}
			}
		}
		r.check2(why, "TTL", "store/redis BindStatus / the reported TTL is the key's expiration", p.pos(RB.Decl), "Set(statusKey, value, time.Duration(ttl)*time.Second)")
	}

	// ---- ZERO
	{
		why := "BindStatus does not send a zero TTL to the lease-free path"
		EB.inspectBody(func(x ast.Node) bool {
			if is, ok := x.(*ast.IfStmt); ok {
				if be, ok := unparen(is.Cond).(*ast.BinaryExpr); ok && be.Op == token.EQL && EB.objOf(be.X) == EB.paramObj(4) {
					if v, isC := EB.constInt(be.Y); isC && v == 0 {
						if rt, ok := is.Body.List[0].(*ast.ReturnStmt); ok && len(rt.Results) == 1 {
							if c, ok := unparen(rt.Results[0]).(*ast.CallExpr); ok && EB.Callee(c) == E0.Obj {
								why = ""
							}
						}
					}
				}
			}
			return true
		})
		if why == "" {
			E0.inspectBody(func(x ast.Node) bool {
				if c, ok := x.(*ast.CallExpr); ok && calleeName(E0, c) == "OpPut" && len(c.Args) != 2 {
					why = "a put of the zero-TTL path carries an option (lease): the status would expire"
				}
				if c, ok := x.(*ast.CallExpr); ok && (calleeName(E0, c) == "Grant" || calleeName(E0, c) == "WithLease") {
					why = "the zero-TTL path grants or attaches a lease"
				}
				return true
			})
		}
		r.check2(why, "ZERO", "store/etcdv3/meta BindStatus / a zero TTL is stored without a lease", p.pos(EB.Decl), "ttl == 0 → bindStatusWithoutTTL; its puts carry no lease")
		// with ttl > 0 the leased path is taken
		leased := false
		EB.inspectBody(func(x ast.Node) bool {
			if rt, ok := x.(*ast.ReturnStmt); ok && len(rt.Results) == 1 {
				if c, ok := unparen(rt.Results[0]).(*ast.CallExpr); ok && EB.Callee(c) == E.Obj && len(c.Args) == 5 && EB.objOf(c.Args[4]) == EB.paramObj(4) && EB.objOf(c.Args[1]) == EB.paramObj(1) {
					leased = true
				}
			}
			return true
		})
		r.check(leased, "ZERO", "store/etcdv3/meta BindStatus / any other TTL takes the leased, entity-checked path with that TTL", p.pos(EB.Decl), "return bindStatusWithTTL(ctx, entityKey, statusKey, value, ttl)", "a non-zero TTL does not reach bindStatusWithTTL with the entity key and the TTL")
	}

	// ---- REN
	{
		why := "an unchanged report does not renew the lease bound to the stored status"
		var orig types.Object
		E.inspectBody(func(x ast.Node) bool {
			if as, ok := x.(*ast.AssignStmt); ok && len(as.Rhs) == 1 && strings.HasSuffix(exprStr(as.Rhs[0]), ".Lease)") && strings.Contains(exprStr(as.Rhs[0]), "GetResponseRange") {
				orig = E.objOf(as.Lhs[0])
			}
			return true
		})
		if orig != nil {
			ka, rv := false, false
			E.inspectBody(func(x ast.Node) bool {
				c, ok := x.(*ast.CallExpr)
				if !ok {
					return true
				}
				if calleeName(E, c) == "KeepAliveOnce" && len(c.Args) == 2 && E.objOf(c.Args[1]) == orig {
					ka = true
				}
				return true
			})
			E.inspectBody(func(x ast.Node) bool {
				if is, ok := x.(*ast.IfStmt); ok {
					if be, ok := unparen(is.Cond).(*ast.BinaryExpr); ok && be.Op == token.NEQ && (E.objOf(be.X) == orig || E.objOf(be.Y) == orig) {
						for _, st := range is.Body.List {
							if es, ok := st.(*ast.ExprStmt); ok {
								if c, ok := es.X.(*ast.CallExpr); ok && calleeName(E, c) == "revokeLease" {
									rv = true
								}
							}
						}
					}
				}
				return true
			})
			if ka && rv {
				why = ""
			} else {
				why = fmt.Sprintf("KeepAliveOnce on the stored lease: %v; the fresh lease given back when it differs: %v", ka, rv)
			}
		}
		r.check2(why, "REN", "store/etcdv3/meta bindStatusWithTTL / an unchanged report extends the stored status' lease", p.pos(E.Decl), "origLeaseID := …Kvs[0].Lease; if origLeaseID != leaseID { revoke(leaseID) }; KeepAliveOnce(origLeaseID)")
	}

	// ---- ROUTE / NEG
	for _, be := range []struct{ pkg, recv string }{{"store/etcdv3", "(*Mercury)"}, {"store/redis", "(*Rediaron)"}} {
		for _, m := range []struct{ name, entityFmt, idField string }{{"SetNodeStatus", "nodeInfoKey", "Name"}, {"SetWorkloadStatus", "workloadInfoKey", "ID"}} {
			F := p.Fn(be.pkg + "." + be.recv + "." + m.name)
			key := be.pkg + " " + m.name + " / a positive TTL reaches the entity-checked write with this entity's key"
			if F == nil {
				r.undecided("ROUTE", key, "", "not found")
				continue
			}
			ent, ttl := F.paramObj(1), F.paramObj(2)
			why := "no call of BindStatus: the status is written without the entity check"
			for _, c := range F.calls(func(f *types.Func) bool { return f.Name() == "BindStatus" }) {
				why = ""
				if len(c.Args) != 5 || F.objOf(c.Args[4]) != ttl {
					why = "BindStatus is not given the reported TTL"
					continue
				}
				// entity key: a local defined as Sprintf(<entityFmt>, ent.<idField>) (or that expression directly)
				e := c.Args[1]
				if o := F.objOf(e); o != nil {
					if def := F.singleDef(o); def != nil {
						e = def
					}
				}
				okEnt := false
				if sc, ok := unparen(e).(*ast.CallExpr); ok && len(sc.Args) == 2 && exprStr(sc.Args[0]) == m.entityFmt {
					if sel, ok := unparen(sc.Args[1]).(*ast.SelectorExpr); ok && F.objOf(sel.X) == ent && sel.Sel.Name == m.idField {
						okEnt = true
					}
				}
				if !okEnt {
					why = "the entity key handed to BindStatus is not this " + strings.TrimPrefix(m.name, "Set") + "'s own record key"
				}
			}
			if why != "" {
				// other writes of the status key?
				if n := len(F.callsDeep(func(f *types.Func) bool { return f.Name() == "Set" || f.Name() == "Put" })); n > 0 && !strings.Contains(why, "BindStatus is") {
					why += fmt.Sprintf(" (%d direct write(s) instead)", n)
				}
			}
			r.check2(why, "ROUTE", key, p.pos(F.Decl), "BindStatus(ctx, "+m.entityFmt+"(entity."+m.idField+"), statusKey, value, ttl)")
			if m.name == "SetNodeStatus" {
				// NEG: ttl < 0 deletes the status key; ttl == 0 is rejected
				neg := false
				F.inspectBody(func(x ast.Node) bool {
					if is, ok := x.(*ast.IfStmt); ok {
						if b, ok := unparen(is.Cond).(*ast.BinaryExpr); ok && b.Op == token.LSS && F.objOf(b.X) == ttl {
							ast.Inspect(is.Body, func(y ast.Node) bool {
								if c, ok := y.(*ast.CallExpr); ok && (calleeName(F, c) == "Delete" || calleeName(F, c) == "Del") {
									neg = true
								}
								return true
							})
						}
					}
					return true
				})
				r.check(neg, "NEG", be.pkg+" SetNodeStatus / a negative TTL deletes the status", p.pos(F.Decl), "if ttl < 0 { delete(statusKey) }", "a negative TTL no longer deletes the node status")
			}
		}
	}
}
