package main

// AST / CFG utilities shared by the rules.

import (
	"go/ast"
	"go/constant"
	"go/token"
	"go/types"
	"strings"

	"golang.org/x/tools/go/cfg"
)

// inspectNoLit walks n without descending into function literals (the literal node itself is visited).
func inspectNoLit(n ast.Node, f func(ast.Node) bool) {
	if n == nil {
		return
	}
	ast.Inspect(n, func(x ast.Node) bool {
		if x == nil {
			return false
		}
		if !f(x) {
			return false
		}
		if _, ok := x.(*ast.FuncLit); ok && x != n {
			return false
		}
		return true
	})
}

// inspectBody walks the body of fn, not descending into nested literals.
func (fn *FuncNode) inspectBody(f func(ast.Node) bool) {
	for _, s := range fn.Body.List {
		inspectNoLit(s, f)
	}
}

func unparen(e ast.Expr) ast.Expr {
	for {
		p, ok := e.(*ast.ParenExpr)
		if !ok {
			return e
		}
		e = p.X
	}
}

func exprStr(e ast.Expr) string {
	if e == nil {
		return ""
	}
	return types.ExprString(e)
}

// calls returns all call expressions in the body of fn (not in nested literals) whose callee satisfies match.
func (fn *FuncNode) calls(match func(*types.Func) bool) []*ast.CallExpr {
	var out []*ast.CallExpr
	fn.inspectBody(func(n ast.Node) bool {
		if c, ok := n.(*ast.CallExpr); ok {
			if f := fn.Callee(c); f != nil && match(f) {
				out = append(out, c)
			}
		}
		return true
	})
	return out
}

// callsDeep is like calls but also descends into nested function literals.
func (fn *FuncNode) callsDeep(match func(*types.Func) bool) []*ast.CallExpr {
	var out []*ast.CallExpr
	ast.Inspect(fn.Body, func(n ast.Node) bool {
		if c, ok := n.(*ast.CallExpr); ok {
			if f := fn.Callee(c); f != nil && match(f) {
				out = append(out, c)
			}
		}
		return true
	})
	return out
}

func nameIs(names ...string) func(*types.Func) bool {
	return func(f *types.Func) bool {
		n := objName(f)
		for _, w := range names {
			if n == w {
				return true
			}
		}
		return false
	}
}

// objOf returns the object an identifier or selector denotes.
func (fn *FuncNode) objOf(e ast.Expr) types.Object {
	switch x := unparen(e).(type) {
	case *ast.Ident:
		return fn.Pkg.TypesInfo.ObjectOf(x)
	case *ast.SelectorExpr:
		return fn.Pkg.TypesInfo.ObjectOf(x.Sel)
	}
	return nil
}

func (fn *FuncNode) typeOf(e ast.Expr) types.Type { return fn.Pkg.TypesInfo.TypeOf(e) }

// constString returns the constant string value of e, if any.
func (fn *FuncNode) constString(e ast.Expr) (string, bool) {
	tv, ok := fn.Pkg.TypesInfo.Types[e]
	if ok && tv.Value != nil && tv.Value.Kind() == constant.String {
		return constant.StringVal(tv.Value), true
	}
	return "", false
}

func (fn *FuncNode) constInt(e ast.Expr) (int64, bool) {
	tv, ok := fn.Pkg.TypesInfo.Types[e]
	if ok && tv.Value != nil && tv.Value.Kind() == constant.Int {
		v, exact := constant.Int64Val(tv.Value)
		return v, exact
	}
	return 0, false
}

func isNilIdent(e ast.Expr) bool {
	id, ok := unparen(e).(*ast.Ident)
	return ok && id.Name == "nil"
}

// ---- CFG node references, dominance, path queries --------------------------------------------

type nodeRef struct {
	b *cfg.Block
	i int
}

func (r nodeRef) valid() bool { return r.b != nil }
func (r nodeRef) node() ast.Node {
	if r.b == nil || r.i >= len(r.b.Nodes) {
		return nil
	}
	return r.b.Nodes[r.i]
}

// find locates the CFG node that contains the AST node n (which must belong to fn's own body, not to a nested literal's body
// unless the literal itself is what is looked up).
func (fn *FuncNode) find(n ast.Node) nodeRef {
	g := fn.CFG()
	var best nodeRef
	var bestLen token.Pos = -1
	for _, b := range g.Blocks {
		for i, x := range b.Nodes {
			if x.Pos() <= n.Pos() && n.End() <= x.End() {
				l := x.End() - x.Pos()
				if bestLen < 0 || l < bestLen {
					best, bestLen = nodeRef{b, i}, l
				}
			}
		}
	}
	return best
}

func (fn *FuncNode) dominators() map[*cfg.Block]map[*cfg.Block]bool {
	if fn.dom != nil {
		return fn.dom
	}
	g := fn.CFG()
	preds := map[*cfg.Block][]*cfg.Block{}
	var live []*cfg.Block
	for _, b := range g.Blocks {
		if !b.Live {
			continue
		}
		live = append(live, b)
		for _, s := range b.Succs {
			preds[s] = append(preds[s], b)
		}
	}
	dom := map[*cfg.Block]map[*cfg.Block]bool{}
	entry := g.Blocks[0]
	for _, b := range live {
		dom[b] = map[*cfg.Block]bool{}
		if b == entry {
			dom[b][b] = true
			continue
		}
		for _, c := range live {
			dom[b][c] = true
		}
	}
	changed := true
	for changed {
		changed = false
		for _, b := range live {
			if b == entry {
				continue
			}
			nd := map[*cfg.Block]bool{}
			first := true
			for _, p := range preds[b] {
				if !p.Live {
					continue
				}
				if first {
					for k := range dom[p] {
						nd[k] = true
					}
					first = false
				} else {
					for k := range nd {
						if !dom[p][k] {
							delete(nd, k)
						}
					}
				}
			}
			nd[b] = true
			if len(nd) != len(dom[b]) {
				dom[b] = nd
				changed = true
			}
		}
	}
	fn.dom = dom
	return dom
}

// dominates reports whether CFG node a is executed before b on every path from the entry to b.
func (fn *FuncNode) dominates(a, b nodeRef) bool {
	if !a.valid() || !b.valid() {
		return false
	}
	if a.b == b.b {
		return a.i <= b.i
	}
	return fn.dominators()[b.b][a.b]
}

// isExit reports whether control leaves the function after node r (return statement, or last node of a block without successors).
func isExitBlock(b *cfg.Block) bool { return len(b.Succs) == 0 }

// reach explores the CFG from `from` (exclusive of the node itself when skipFirst) and reports whether a node satisfying
// target can be reached without first crossing a node satisfying barrier. exitIsTarget makes function exits targets.
// The returned nodeRef is the target reached (or the exit block with i=len(nodes)).
func (fn *FuncNode) reach(from nodeRef, skipFirst bool, target func(nodeRef) bool, barrier func(nodeRef) bool, exitIsTarget bool) (nodeRef, bool) {
	type st struct {
		b *cfg.Block
		i int
	}
	seen := map[*cfg.Block]bool{}
	var stack []st
	start := from.i
	if skipFirst {
		start++
	}
	stack = append(stack, st{from.b, start})
	firstBlock := true
	for len(stack) > 0 {
		s := stack[len(stack)-1]
		stack = stack[:len(stack)-1]
		if !firstBlock || s.i == 0 {
			if seen[s.b] {
				continue
			}
			seen[s.b] = true
		}
		firstBlock = false
		blocked := false
		for i := s.i; i < len(s.b.Nodes); i++ {
			r := nodeRef{s.b, i}
			if target != nil && target(r) {
				return r, true
			}
			if barrier != nil && barrier(r) {
				blocked = true
				break
			}
		}
		if blocked {
			continue
		}
		if isExitBlock(s.b) {
			if exitIsTarget {
				return nodeRef{s.b, len(s.b.Nodes)}, true
			}
			continue
		}
		for _, n := range s.b.Succs {
			stack = append(stack, st{n, 0})
		}
	}
	return nodeRef{}, false
}

func (fn *FuncNode) entry() nodeRef { return nodeRef{fn.CFG().Blocks[0], 0} }

// containsCall reports whether CFG node r contains (outside nested literals) a call whose callee satisfies match.
func (fn *FuncNode) nodeHasCall(r nodeRef, match func(*types.Func) bool) bool {
	n := r.node()
	if n == nil {
		return false
	}
	found := false
	inspectNoLit(n, func(x ast.Node) bool {
		if c, ok := x.(*ast.CallExpr); ok {
			if f := fn.Callee(c); f != nil && match(f) {
				found = true
			}
		}
		return !found
	})
	return found
}

// resolveFuncArg resolves an expression in function position/argument to a FuncNode:
// literal, identifier bound once to a literal, declared function or method value. ok=false if unresolvable; (nil,true) for nil.
func (p *Prog) resolveFuncArg(fn *FuncNode, e ast.Expr) (*FuncNode, bool) {
	e = unparen(e)
	if isNilIdent(e) {
		return nil, true
	}
	switch x := e.(type) {
	case *ast.FuncLit:
		return p.ByLit[x], p.ByLit[x] != nil
	case *ast.Ident, *ast.SelectorExpr:
		obj := fn.objOf(x)
		if f, ok := obj.(*types.Func); ok {
			if n := p.ByObj[f]; n != nil {
				return n, true
			}
			return nil, false
		}
		if v, ok := obj.(*types.Var); ok {
			// local variable bound exactly once to a literal
			owner := fn
			for owner != nil {
				var lit *ast.FuncLit
				nassign := 0
				ast.Inspect(owner.Body, func(n ast.Node) bool {
					switch a := n.(type) {
					case *ast.AssignStmt:
						for i, l := range a.Lhs {
							if id, ok := l.(*ast.Ident); ok && owner.Pkg.TypesInfo.ObjectOf(id) == v {
								nassign++
								if len(a.Rhs) == len(a.Lhs) {
									if fl, ok := unparen(a.Rhs[i]).(*ast.FuncLit); ok {
										lit = fl
									}
								}
							}
						}
					case *ast.ValueSpec:
						for i, id := range a.Names {
							if owner.Pkg.TypesInfo.ObjectOf(id) == v && i < len(a.Values) {
								nassign++
								if fl, ok := unparen(a.Values[i]).(*ast.FuncLit); ok {
									lit = fl
								}
							}
						}
					}
					return true
				})
				if nassign == 1 && lit != nil {
					return p.ByLit[lit], true
				}
				if nassign > 0 {
					return nil, false
				}
				owner = owner.Parent
			}
		}
	}
	return nil, false
}

// paramIndex returns the index of the parameter object v in fn's signature, or -1.
func (fn *FuncNode) paramIndex(v types.Object) int {
	i := 0
	for _, f := range fn.Type.Params.List {
		if len(f.Names) == 0 {
			i++
			continue
		}
		for _, id := range f.Names {
			if fn.Pkg.TypesInfo.ObjectOf(id) == v {
				return i
			}
			i++
		}
	}
	return -1
}

func (fn *FuncNode) paramObj(i int) types.Object {
	k := 0
	for _, f := range fn.Type.Params.List {
		if len(f.Names) == 0 {
			k++
			continue
		}
		for _, id := range f.Names {
			if k == i {
				return fn.Pkg.TypesInfo.ObjectOf(id)
			}
			k++
		}
	}
	return nil
}

func shortName(n string) string {
	if i := strings.LastIndex(n, "/"); i >= 0 {
		return n[i+1:]
	}
	return n
}

// usesObj reports whether expression/statement n mentions object o (outside or inside literals).
func (fn *FuncNode) usesObj(n ast.Node, o types.Object) bool {
	found := false
	ast.Inspect(n, func(x ast.Node) bool {
		if id, ok := x.(*ast.Ident); ok && fn.Pkg.TypesInfo.ObjectOf(id) == o {
			found = true
		}
		return !found
	})
	return found
}

// withLocalCallees returns fn followed by the functions of the same package that fn calls statically (transitively, up to
// `depth` calls away): an extracted helper is analysed together with the function it was extracted from.
func (p *Prog) withLocalCallees(fn *FuncNode, depth int) []*FuncNode {
	out := []*FuncNode{fn}
	seen := map[*FuncNode]bool{fn: true}
	frontier := []*FuncNode{fn}
	for d := 0; d < depth && len(frontier) > 0; d++ {
		var next []*FuncNode
		for _, f := range frontier {
			if f.Body == nil {
				continue
			}
			ast.Inspect(f.Body, func(n ast.Node) bool {
				c, ok := n.(*ast.CallExpr)
				if !ok {
					return true
				}
				enc := p.enclosing(f.Pkg, c.Pos())
				if enc == nil {
					return true
				}
				if callee := enc.Callee(c); callee != nil && callee.Pkg() == fn.Pkg.Types {
					if g := p.ByObj[callee]; g != nil && !seen[g] {
						seen[g] = true
						out = append(out, g)
						next = append(next, g)
					}
				}
				return true
			})
		}
		frontier = next
	}
	return out
}

// loopEarlyExits lists the statements inside a loop body that leave the loop (or skip the rest of the iteration when they
// come before `before`): return, goto, a break that targets this loop (unlabelled breaks of nested for/switch/select do
// not), labelled break/continue, and a continue located before `before`. Function literals are not entered.
func loopEarlyExits(body *ast.BlockStmt, before token.Pos) []ast.Stmt {
	var out []ast.Stmt
	var walk func(n ast.Node, breakable bool)
	walk = func(n ast.Node, breakable bool) {
		if n == nil {
			return
		}
		switch s := n.(type) {
		case *ast.FuncLit:
			return
		case *ast.ReturnStmt:
			out = append(out, s)
			return
		case *ast.BranchStmt:
			switch s.Tok {
			case token.GOTO:
				out = append(out, s)
			case token.BREAK:
				if s.Label != nil || breakable {
					out = append(out, s)
				}
			case token.CONTINUE:
				if s.Label != nil || (before.IsValid() && s.Pos() < before) {
					out = append(out, s)
				}
			}
			return
		case *ast.ForStmt:
			walkNested(s.Body, &out, before)
			return
		case *ast.RangeStmt:
			walkNested(s.Body, &out, before)
			return
		case *ast.SwitchStmt, *ast.TypeSwitchStmt, *ast.SelectStmt:
			ast.Inspect(n, func(c ast.Node) bool {
				if c == n {
					return true
				}
				switch c.(type) {
				case *ast.CaseClause, *ast.CommClause, *ast.BlockStmt:
					for _, ch := range childStmts(c) {
						walk(ch, false)
					}
					return false
				}
				return true
			})
			return
		}
		for _, ch := range childStmts(n) {
			walk(ch, breakable)
		}
	}
	for _, st := range body.List {
		walk(st, true)
	}
	return out
}

// walkNested: inside a nested loop only return/goto/labelled branches leave the outer loop
func walkNested(body *ast.BlockStmt, out *[]ast.Stmt, before token.Pos) {
	ast.Inspect(body, func(n ast.Node) bool {
		switch s := n.(type) {
		case *ast.FuncLit:
			return false
		case *ast.ReturnStmt:
			*out = append(*out, s)
		case *ast.BranchStmt:
			if s.Tok == token.GOTO || s.Label != nil {
				*out = append(*out, s)
			}
		}
		return true
	})
}

// childStmts: the statements directly nested in a statement or clause
func childStmts(n ast.Node) []ast.Node {
	var out []ast.Node
	add := func(l []ast.Stmt) {
		for _, s := range l {
			out = append(out, s)
		}
	}
	switch s := n.(type) {
	case *ast.BlockStmt:
		add(s.List)
	case *ast.IfStmt:
		out = append(out, s.Body)
		if s.Else != nil {
			out = append(out, s.Else)
		}
	case *ast.CaseClause:
		add(s.Body)
	case *ast.CommClause:
		add(s.Body)
	case *ast.LabeledStmt:
		out = append(out, s.Stmt)
	}
	return out
}

// condLit is one conjunct of a structured path condition: Expr holds (Pos) or does not hold (!Pos) on the path.
type condLit struct {
	Expr ast.Expr
	Pos  bool
	If   *ast.IfStmt
}

// blockExits: the block's last statement leaves the enclosing block unconditionally (return, continue, break, goto, panic)
func blockExits(b *ast.BlockStmt) bool {
	if b == nil || len(b.List) == 0 {
		return false
	}
	switch s := b.List[len(b.List)-1].(type) {
	case *ast.ReturnStmt, *ast.BranchStmt:
		return true
	case *ast.ExprStmt:
		if c, ok := s.X.(*ast.CallExpr); ok {
			if id, ok := c.Fun.(*ast.Ident); ok && id.Name == "panic" {
				return true
			}
		}
	case *ast.IfStmt:
		if eb, ok := s.Else.(*ast.BlockStmt); ok {
			return blockExits(s.Body) && blockExits(eb)
		}
	}
	return false
}

// pathConds gives the structured condition under which `target` (a statement nested in block through if/else only) runs,
// counted from the top of block: (cond, true) for every enclosing if-body, (cond, false) for every enclosing else and for
// every earlier `if cond { …; exit }` of a block on the way; (cond, true) for an earlier `if cond {…} else { …; exit }`.
// Loop bodies are entered with the conditions that hold before the loop. ok is false when the nesting goes through anything
// else (switches, literals).
func pathConds(block *ast.BlockStmt, target ast.Node) (conds []condLit, ok bool) {
	inside := func(n ast.Node) bool { return n != nil && n.Pos() <= target.Pos() && target.End() <= n.End() }
	if !inside(block) {
		return nil, false
	}
	for _, st := range block.List {
		if !inside(st) {
			if is, isIf := st.(*ast.IfStmt); isIf && st.End() <= target.Pos() {
				eb, hasElseBlock := is.Else.(*ast.BlockStmt)
				switch {
				case is.Else == nil && blockExits(is.Body):
					conds = append(conds, condLit{is.Cond, false, is})
				case hasElseBlock && blockExits(eb) && !blockExits(is.Body):
					conds = append(conds, condLit{is.Cond, true, is})
				case hasElseBlock && blockExits(is.Body) && !blockExits(eb):
					conds = append(conds, condLit{is.Cond, false, is})
				}
			}
			continue
		}
		if st == target {
			return conds, true
		}
		switch s := st.(type) {
		case *ast.AssignStmt, *ast.ExprStmt, *ast.ReturnStmt, *ast.IncDecStmt, *ast.DeclStmt, *ast.SendStmt, *ast.GoStmt, *ast.DeferStmt:
			// target is an expression of this simple statement
			if _, isLit := target.(*ast.FuncLit); !isLit {
				return conds, true
			}
			return nil, false
		case *ast.RangeStmt:
			// a loop body is entered under the conditions that hold before the loop
			c, ok := pathConds(s.Body, target)
			return append(conds, c...), ok
		case *ast.ForStmt:
			c, ok := pathConds(s.Body, target)
			return append(conds, c...), ok
		case *ast.BlockStmt:
			c, ok := pathConds(s, target)
			return append(conds, c...), ok
		case *ast.LabeledStmt:
			if s.Stmt == target {
				return conds, true
			}
			return nil, false
		case *ast.SwitchStmt:
			// `switch tag { case v: … }` reads as tag == v, a tagless switch as its case conditions; a case is reached
			// with every earlier (for default: every) case condition failing
			if s.Init != nil {
				return nil, false
			}
			mk := func(v ast.Expr) ast.Expr {
				if s.Tag == nil {
					return v
				}
				return &ast.BinaryExpr{X: s.Tag, Op: token.EQL, Y: v, OpPos: v.Pos()}
			}
			var target_ *ast.CaseClause
			for _, c := range s.Body.List {
				if cc, ok := c.(*ast.CaseClause); ok && inside(cc) {
					target_ = cc
				}
			}
			if target_ == nil {
				return nil, false
			}
			for _, c := range s.Body.List {
				cc, ok := c.(*ast.CaseClause)
				if !ok || cc == target_ {
					if cc == target_ && cc.List != nil {
						break
					}
					continue
				}
				if len(cc.List) != 1 {
					if cc.List == nil {
						continue // default written before other cases
					}
					return nil, false
				}
				conds = append(conds, condLit{mk(cc.List[0]), false, nil})
			}
			if target_.List != nil {
				if len(target_.List) != 1 {
					return nil, false
				}
				conds = append(conds, condLit{mk(target_.List[0]), true, nil})
			}
			for _, st2 := range target_.Body {
				if inside(st2) {
					blk := &ast.BlockStmt{List: target_.Body, Lbrace: target_.Colon, Rbrace: target_.End()}
					c, ok := pathConds(blk, target)
					return append(conds, c...), ok
				}
			}
			return nil, false
		case *ast.IfStmt:
			for cur := s; cur != nil; {
				if inside(cur.Body) {
					c, ok := pathConds(cur.Body, target)
					return append(append(conds, condLit{cur.Cond, true, cur}), c...), ok
				}
				conds = append(conds, condLit{cur.Cond, false, cur})
				switch e := cur.Else.(type) {
				case *ast.BlockStmt:
					if inside(e) {
						c, ok := pathConds(e, target)
						return append(conds, c...), ok
					}
					return nil, false
				case *ast.IfStmt:
					cur = e
				default:
					return nil, false
				}
			}
			return nil, false
		default:
			return nil, false
		}
	}
	return nil, false
}

// expandPredicate: when cond is a call of a declared function of the program whose body is a single `return <expr>` (a
// named predicate extracted from a condition), the callee and that expression — to be interpreted in the callee, whose
// parameters stand for the arguments; otherwise fn and cond unchanged. Followed at most twice.
func (p *Prog) expandPredicate(fn *FuncNode, cond ast.Expr) (*FuncNode, ast.Expr) {
	for i := 0; i < 2; i++ {
		c, ok := unparen(cond).(*ast.CallExpr)
		if !ok {
			break
		}
		callee := fn.Callee(c)
		if callee == nil {
			break
		}
		t := p.ByObj[callee]
		if t == nil || t.Body == nil || len(t.Body.List) != 1 {
			break
		}
		rt, ok := t.Body.List[0].(*ast.ReturnStmt)
		if !ok || len(rt.Results) != 1 {
			break
		}
		fn, cond = t, rt.Results[0]
	}
	return fn, cond
}

// forEachCondBranch calls f for every conditional branch under root: the then-branch of each if statement and each
// single-condition case of a tagless switch (the two ways the code base writes a chain of alternatives).
func forEachCondBranch(root ast.Node, f func(cond ast.Expr, body []ast.Stmt, at ast.Node)) {
	ast.Inspect(root, func(n ast.Node) bool {
		switch x := n.(type) {
		case *ast.IfStmt:
			f(x.Cond, x.Body.List, x)
		case *ast.SwitchStmt:
			if x.Tag == nil {
				for _, c := range x.Body.List {
					if cc, ok := c.(*ast.CaseClause); ok && len(cc.List) == 1 {
						f(cc.List[0], cc.Body, cc)
					}
				}
			}
		}
		return true
	})
}

// normCmp brings an ordering test that holds (pos) or fails (!pos) to one of two forms over its operands: "lt" (x < y) or
// "ge" (x >= y); ok is false for anything that is not <, >, <=, >=.
func normCmp(e ast.Expr, pos bool) (kind string, x, y ast.Expr, ok bool) {
	e = unparen(e)
	for {
		u, isNot := e.(*ast.UnaryExpr)
		if !isNot || u.Op != token.NOT {
			break
		}
		e, pos = unparen(u.X), !pos
	}
	b, isB := e.(*ast.BinaryExpr)
	if !isB {
		return "", nil, nil, false
	}
	switch b.Op {
	case token.LSS:
		kind, x, y = "lt", b.X, b.Y
	case token.GTR:
		kind, x, y = "lt", b.Y, b.X
	case token.GEQ:
		kind, x, y = "ge", b.X, b.Y
	case token.LEQ:
		kind, x, y = "ge", b.Y, b.X
	default:
		return "", nil, nil, false
	}
	if !pos {
		if kind == "lt" {
			kind = "ge"
		} else {
			kind = "lt"
		}
	}
	return kind, unparen(x), unparen(y), true
}

// litSite is a composite literal found in a function, or — one call away — in a same-package helper it calls (a
// constructor extracted from the function); args binds the helper's parameters to the call's argument expressions.
type litSite struct {
	owner *FuncNode
	lit   *ast.CompositeLit
	call  *ast.CallExpr
	args  map[types.Object]ast.Expr
}

// objIn: the object (of fn's scope) that identifier-like expression e of the literal's owner denotes: for a helper's
// parameter, the object of the argument it was called with.
func (s litSite) objIn(fn *FuncNode, e ast.Expr) types.Object {
	o := s.owner.objOf(e)
	if s.owner == fn || o == nil {
		return o
	}
	if a, ok := s.args[o]; ok {
		return fn.objOf(a)
	}
	return o
}

// litsVia: composite literals under scope (a node of fn) satisfying match, followed by those of same-package helpers
// called under scope.
func (p *Prog) litsVia(fn *FuncNode, scope ast.Node, match func(owner *FuncNode, cl *ast.CompositeLit) bool) []litSite {
	var out []litSite
	seen := map[*FuncNode]bool{}
	ast.Inspect(scope, func(n ast.Node) bool {
		switch x := n.(type) {
		case *ast.CompositeLit:
			if enc := p.enclosing(fn.Pkg, x.Pos()); enc != nil && match(enc, x) {
				out = append(out, litSite{owner: fn, lit: x})
			}
		case *ast.CallExpr:
			enc := p.enclosing(fn.Pkg, x.Pos())
			if enc == nil {
				return true
			}
			H := p.ByObj[enc.Callee(x)]
			if H == nil || H.Body == nil || H.Pkg != fn.Pkg || H == fn || seen[H] {
				return true
			}
			seen[H] = true
			args := map[types.Object]ast.Expr{}
			for i, a := range x.Args {
				if po := H.paramObj(i); po != nil {
					args[po] = a
				}
			}
			ast.Inspect(H.Body, func(y ast.Node) bool {
				if cl, ok := y.(*ast.CompositeLit); ok && match(H, cl) {
					out = append(out, litSite{owner: H, lit: cl, call: x, args: args})
				}
				return true
			})
		}
		return true
	})
	return out
}

// loopEarlyExitsOfKind: the statements of loopEarlyExits that are branch statements of the given token (break, …)
func loopEarlyExitsOfKind(body *ast.BlockStmt, tok token.Token) []ast.Stmt {
	var out []ast.Stmt
	for _, s := range loopEarlyExits(body, token.NoPos) {
		if b, ok := s.(*ast.BranchStmt); ok && b.Tok == tok {
			out = append(out, s)
		}
	}
	return out
}

// elemLoop describes a loop that visits the elements of a list one by one, however it is written:
// `for _, v := range L`, `for i := range L { v := L[i] … }`, `for i := 0; i < len(L); i++ { v := L[i] … }`.
type elemLoop struct {
	stmt ast.Stmt       // the for / range statement
	body *ast.BlockStmt // its body
	list ast.Expr       // L
	elem types.Object   // v (nil when the body uses L[i] without naming it)
	idx  types.Object   // i (nil for the value form)
}

// elemLoopOf recognises n as an element loop of fn.
func elemLoopOf(fn *FuncNode, n ast.Node) *elemLoop {
	named := func(body *ast.BlockStmt, list ast.Expr, idx types.Object) types.Object {
		for _, st := range body.List {
			as, ok := st.(*ast.AssignStmt)
			if !ok || as.Tok != token.DEFINE || len(as.Lhs) != 1 || len(as.Rhs) != 1 {
				continue
			}
			e := unparen(as.Rhs[0])
			if u, ok := e.(*ast.UnaryExpr); ok && u.Op == token.AND {
				e = unparen(u.X)
			}
			if ix, ok := e.(*ast.IndexExpr); ok && fn.objOf(ix.Index) == idx && exprStr(unparen(ix.X)) == exprStr(unparen(list)) {
				return fn.objOf(as.Lhs[0])
			}
		}
		return nil
	}
	switch l := n.(type) {
	case *ast.RangeStmt:
		if id, ok := l.Value.(*ast.Ident); ok && id.Name != "_" {
			return &elemLoop{stmt: l, body: l.Body, list: l.X, elem: fn.objOf(id)}
		}
		if id, ok := l.Key.(*ast.Ident); ok && l.Value == nil && id.Name != "_" {
			if _, isMap := fn.typeOf(l.X).Underlying().(*types.Map); isMap {
				return nil
			}
			idx := fn.objOf(id)
			return &elemLoop{stmt: l, body: l.Body, list: l.X, idx: idx, elem: named(l.Body, l.X, idx)}
		}
	case *ast.ForStmt:
		init, ok1 := l.Init.(*ast.AssignStmt)
		post, ok2 := l.Post.(*ast.IncDecStmt)
		if !ok1 || !ok2 || l.Cond == nil || len(init.Lhs) != 1 || len(init.Rhs) != 1 || post.Tok != token.INC {
			return nil
		}
		be, ok := unparen(l.Cond).(*ast.BinaryExpr)
		if !ok || be.Op != token.LSS {
			return nil
		}
		iv := fn.objOf(init.Lhs[0])
		k, isC := fn.constInt(init.Rhs[0])
		lc, isLen := unparen(be.Y).(*ast.CallExpr)
		if iv == nil || !isC || k != 0 || fn.objOf(post.X) != iv || fn.objOf(be.X) != iv || !isLen || !isBuiltinCall(fn, lc, "len") || len(lc.Args) != 1 {
			return nil
		}
		return &elemLoop{stmt: l, body: l.Body, list: lc.Args[0], idx: iv, elem: named(l.Body, lc.Args[0], iv)}
	}
	return nil
}
