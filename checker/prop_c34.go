package main

// C34: concurrent API use is free of data races — a lint for four race SHAPES (E4 racelint), not race freedom.

import (
	"fmt"
	"go/ast"
	"go/token"
	"go/types"
	"sort"
	"strings"
)

func init() { register("C34", checkC34) }

// packages whose closures and service types are examined (the property's anchors and what they call into)
var c34Pkgs = []string{"cluster/calcium", "rpc", "store/etcdv3", "store/etcdv3/meta", "store/redis", "resource/cobalt", "resource/plugins/cpumem", "selfmon", "discovery/helium", "wal", "lock/etcdlock", "lock/redis", "engine/docker", "utils"}

// service types whose methods run concurrently (gRPC handlers, cluster/store/resource-manager implementations)
var c34Shared = map[string]bool{
	"rpc.Vibranium": true, "cluster/calcium.Calcium": true, "store/etcdv3.Mercury": true, "store/etcdv3/meta.ETCD": true, "store/redis.Rediaron": true,
	"resource/cobalt.Manager": true, "discovery/helium.Helium": true, "selfmon.NodeStatusWatcher": true, "wal.Hydro": true,
}

// set-up functions: receiver fields written here are not yet shared (one line of reason each)
var c34Setup = map[string]string{
	"resource/cobalt.(*Manager).AddPlugins": "called from LoadPlugins while the manager is being constructed (calcium.New, metrics.InitMetrics), before it is handed to any other goroutine",
}

// lvalueRoot: the identifier at the root of an lvalue, and whether the path goes through an index of a slice/array
// (element writes with distinct indices do not conflict) or a map (they do).
func lvalueRoot(fn *FuncNode, e ast.Expr) (id *ast.Ident, sliceElem, mapElem, deref bool) {
	for {
		switch x := unparen(e).(type) {
		case *ast.Ident:
			return x, sliceElem, mapElem, deref
		case *ast.SelectorExpr:
			if t := fn.typeOf(x.X); t != nil {
				if _, isPtr := t.Underlying().(*types.Pointer); isPtr {
					deref = true
				}
			}
			e = x.X
		case *ast.IndexExpr:
			if t := fn.typeOf(x.X); t != nil {
				switch t.Underlying().(type) {
				case *types.Map:
					mapElem = true
				case *types.Slice, *types.Array, *types.Pointer:
					sliceElem = true
				}
			}
			e = x.X
		case *ast.StarExpr:
			deref = true
			e = x.X
		default:
			return nil, sliceElem, mapElem, deref
		}
	}
}

// underMutex: statement st (inside block list) lies between X.Lock()/RLock() and X.Unlock(), or after X.Lock() with a
// deferred X.Unlock() in the same function.
func underMutex(fn *FuncNode, st ast.Node) bool {
	locked := false
	var check func(list []ast.Stmt) bool
	isCallNamed := func(s ast.Stmt, names ...string) bool {
		var c *ast.CallExpr
		switch x := s.(type) {
		case *ast.ExprStmt:
			c, _ = x.X.(*ast.CallExpr)
		case *ast.DeferStmt:
			c = x.Call
		}
		if c == nil {
			return false
		}
		sel, ok := unparen(c.Fun).(*ast.SelectorExpr)
		if !ok {
			return false
		}
		for _, n := range names {
			if sel.Sel.Name == n {
				return true
			}
		}
		return false
	}
	check = func(list []ast.Stmt) bool {
		for i, s := range list {
			if !(s.Pos() <= st.Pos() && st.End() <= s.End()) {
				continue
			}
			// held at this point of the list?
			held := false
			for _, prev := range list[:i] {
				if _, isDefer := prev.(*ast.DeferStmt); isDefer {
					continue
				}
				if isCallNamed(prev, "Lock", "RLock") {
					held = true
				}
				if isCallNamed(prev, "Unlock", "RUnlock") {
					held = false
				}
			}
			if held {
				return true
			}
			// descend
			found := false
			ast.Inspect(s, func(x ast.Node) bool {
				if found {
					return false
				}
				if bl, ok := x.(*ast.BlockStmt); ok && x != ast.Node(s) {
					if bl.Pos() <= st.Pos() && st.End() <= bl.End() && check(bl.List) {
						found = true
					}
					return false
				}
				if cc, ok := x.(*ast.CaseClause); ok && cc.Pos() <= st.Pos() && st.End() <= cc.End() && check(cc.Body) {
					found = true
					return false
				}
				return true
			})
			return found
		}
		return false
	}
	for f := fn; f != nil && !locked; f = f.Parent {
		if check(f.Body.List) {
			locked = true
		}
		if f.Lit != nil && !(f.Body.Pos() <= st.Pos() && st.End() <= f.Body.End()) {
			break
		}
	}
	return locked
}

func checkC34(p *Prog, r *Result, tier string) {
	r.Technique = "race-shape lint over the synchronous call graph's spawn classification (which function literals run in their own goroutine): captured-variable write rule for closures spawned more than once (R1) and unsynchronised receiver-field write rule for service types whose methods run concurrently (R2); mutex regions recognised structurally (Lock … Unlock in the same statement list, or Lock with a deferred Unlock)"
	r.Explanation = "R1 a variable declared in an enclosing function and WRITTEN inside a closure that runs in its own goroutine (go statement, worker-pool Invoke, SentryGo; nested synchronous closures and deferred closures of it included) is reported when that closure is spawned in a loop outside of which the variable lives — several instances then write the same variable — unless the write lies in a mutex region or goes to a slice element; " +
		"R3 a variable of the spawning function that the goroutine writes is not used by the spawning function after the spawn unless a channel receive, a Wait or a lock lies in between (the goroutine and its spawner otherwise access it concurrently); " +
		"R4 a map field that an engine implementation writes into through its options parameter is assigned a fresh map (make, literal, nil) wherever calcium builds those options, never a map of the shared request; " +
		"R6 no goroutine calls, on a variable captured from outside, a pointer-receiver method that writes a plain map field (or appends to a slice field) of its receiver outside a mutex region; " +
		"R5 no goroutine started in a loop captures that loop's iteration variables (go.mod language version < 1.22); " +
		"R2 a field of the receiver of a service type whose methods run concurrently (gRPC server, cluster, store, resource manager, discovery, watcher) is written outside constructors only inside a mutex region or through atomic/sync types. " +
		"Both are necessary conditions of race freedom for the shapes they describe. This is a lint for four shapes: silence is not race freedom (no pointer analysis is available: heap objects reached through pointers, maps shared through fields and reads racing with writes are out of reach)."
	r.NotCovered = "races through the heap (shared pointers, maps and slices reached via fields), read/write races where the write is synchronised but the read is not, races inside third-party code"
	r.Assumptions = []string{"A3 pool.Invoke / SentryGo / go run the closure in another goroutine", "a write between X.Lock() and X.Unlock() (or after X.Lock() with defer X.Unlock()) is synchronised with every other write under the same mutex"}
	r.min("R1", 20)
	r.min("R2", 4)
	r.min("R3", 8)
	r.min("R4", 1)

	g := getSCG(p, r)
	if g == nil {
		return
	}
	inPkgs := func(fn *FuncNode) bool {
		rel := relPath(fn.Pkg.PkgPath)
		for _, k := range c34Pkgs {
			if rel == k {
				return true
			}
		}
		return false
	}
	// ---- R1
	nSpawn := 0
	var funcs []*FuncNode
	for _, fn := range p.sortedFuncs() {
		if inPkgs(fn) {
			funcs = append(funcs, fn)
		}
	}
	for _, K := range funcs {
		if K.Lit == nil || g.roles[K].kind != "async" {
			continue
		}
		nSpawn++
		top := topOf(K)
		// the spawn expression: K itself, or the immediately-invoked wrapper that returns K
		spawnNode := ast.Node(K.Lit)
		if K.Parent != nil && K.Parent.Lit != nil && g.roles[K.Parent].kind == "sync" && g.roles[K.Parent].via == "immediate call" {
			spawnNode = K.Parent.Lit
		}
		// loops enclosing the spawn, innermost last
		var loops []ast.Node
		var stack []ast.Node
		ast.Inspect(top.Body, func(x ast.Node) bool {
			if x == nil {
				stack = stack[:len(stack)-1]
				return false
			}
			stack = append(stack, x)
			if x == spawnNode {
				for _, a := range stack {
					switch a.(type) {
					case *ast.ForStmt, *ast.RangeStmt:
						loops = append(loops, a)
					}
				}
			}
			return true
		})
		// writes inside K and its synchronous/deferred nested closures
		type write struct {
			lhs ast.Expr
			at  ast.Node
			fn  *FuncNode
		}
		var writes []write
		var collect func(fn *FuncNode)
		collect = func(fn *FuncNode) {
			fn.inspectBody(func(x ast.Node) bool {
				switch s := x.(type) {
				case *ast.AssignStmt:
					if s.Tok == token.DEFINE {
						// `a, err := f()` may still assign an outer variable only if it is not newly declared: go/types
						// resolves that: Defs has the new ones
						for _, l := range s.Lhs {
							if id, ok := l.(*ast.Ident); ok && fn.Pkg.TypesInfo.Defs[id] == nil && id.Name != "_" {
								writes = append(writes, write{l, s, fn})
							}
						}
					} else {
						for _, l := range s.Lhs {
							writes = append(writes, write{l, s, fn})
						}
					}
				case *ast.IncDecStmt:
					writes = append(writes, write{s.X, s, fn})
				case *ast.RangeStmt:
					if s.Tok == token.ASSIGN {
						for _, l := range []ast.Expr{s.Key, s.Value} {
							if l != nil {
								writes = append(writes, write{l, s, fn})
							}
						}
					}
				}
				return true
			})
			for _, l := range fn.Lits {
				k := g.roles[l].kind
				if k == "sync" || k == "defer" || k == "lockcb" || k == "bound" {
					collect(l)
				}
			}
		}
		collect(K)
		reported := map[types.Object]bool{}
		okCount := 0
		for _, w := range writes {
			id, sliceElem, mapElem, deref := lvalueRoot(w.fn, w.lhs)
			if id == nil || id.Name == "_" {
				continue
			}
			v, ok := w.fn.objOf(id).(*types.Var)
			if !ok || v.IsField() {
				continue
			}
			// declared outside K?
			if K.Lit.Pos() <= v.Pos() && v.Pos() < K.Lit.End() {
				continue
			}
			if v.Parent() == nil || v.Pkg() == nil || v.Parent() == v.Pkg().Scope() {
				continue // package-level variables: not the closure shape
			}
			if deref && !mapElem {
				continue // write through a pointer: heap, out of reach of this lint
			}
			if sliceElem && !mapElem {
				continue // element of a slice/array: distinct indices per goroutine is the idiom
			}
			// several instances? the spawn sits in a loop that does not contain the variable's declaration
			multi := false
			for _, lp := range loops {
				if !(lp.Pos() <= v.Pos() && v.Pos() < lp.End()) {
					multi = true
				}
			}
			if !multi {
				continue
			}
			if underMutex(w.fn, w.at) {
				okCount++
				continue
			}
			if reported[v] {
				continue
			}
			reported[v] = true
			what := "variable"
			if mapElem {
				what = "map"
			}
			r.bad("R1", fmt.Sprintf("%s / goroutines spawned in a loop write the captured %s %s", K.Name, what, v.Name()), p.pos(w.at),
				fmt.Sprintf("`%s` is declared outside the loop that spawns this closure (at %s) and is written here without a mutex: two instances of the goroutine write it concurrently (a data race; with an error variable a later success or another node's result also overwrites the value the caller acts on)", exprStr(w.lhs), p.posOf(v.Pos())))
		}
		// ---- R3: the goroutine writes a variable of the function that spawned it, and that function goes on using the
		// variable without first waiting for anything (no channel receive, no Wait, no select between the spawn and the use)
		{
			P := K.Parent
			if spawnNode != ast.Node(K.Lit) && P != nil {
				P = P.Parent
			}
			if P != nil && P.Body != nil {
				from := P.find(spawnNode)
				// barrier AST nodes of P
				var barriers []ast.Node
				ast.Inspect(P.Body, func(x ast.Node) bool {
					switch y := x.(type) {
					case *ast.UnaryExpr:
						if y.Op == token.ARROW {
							barriers = append(barriers, y)
						}
					case *ast.RangeStmt:
						if t := P.typeOf(y.X); t != nil {
							if _, isChan := t.Underlying().(*types.Chan); isChan {
								barriers = append(barriers, y.X)
							}
						}
					case *ast.CallExpr:
						if sel, ok := unparen(y.Fun).(*ast.SelectorExpr); ok && (sel.Sel.Name == "Wait" || sel.Sel.Name == "Lock" || sel.Sel.Name == "RLock") {
							barriers = append(barriers, y)
						}
					}
					return true
				})
				within := func(n ast.Node, outer ast.Node) bool { return outer.Pos() <= n.Pos() && n.End() <= outer.End() }
				seen3 := map[types.Object]bool{}
				n3 := 0
				for _, w := range writes {
					id, sliceElem, mapElem, deref := lvalueRoot(w.fn, w.lhs)
					if id == nil || id.Name == "_" {
						continue
					}
					v, ok := w.fn.objOf(id).(*types.Var)
					if !ok || v.IsField() || seen3[v] {
						continue
					}
					if K.Lit.Pos() <= v.Pos() && v.Pos() < K.Lit.End() {
						continue
					}
					if v.Parent() == nil || v.Pkg() == nil || v.Parent() == v.Pkg().Scope() {
						continue
					}
					if (deref || sliceElem) && !mapElem {
						continue
					}
					// declared in P (or further out, still visible in P)
					if underMutex(w.fn, w.at) {
						continue
					}
					seen3[v] = true
					n3++
					key := fmt.Sprintf("%s / the spawning function does not touch %s, which the goroutine writes, before it has waited for something", K.Name, v.Name())
					if !from.valid() {
						r.undecided("R3", key, p.pos(K.Lit), "spawn statement not found in the control-flow graph of "+P.Name)
						continue
					}
					uses := func(ref nodeRef) ast.Node {
						n := ref.node()
						if n == nil {
							return nil
						}
						var hit ast.Node
						ast.Inspect(n, func(x ast.Node) bool {
							if hit != nil {
								return false
							}
							if lit, ok := x.(*ast.FuncLit); ok {
								if k := p.ByLit[lit]; k != nil && g.roles[k].kind == "async" {
									return false // another goroutine: judged on its own
								}
							}
							if i, ok := x.(*ast.Ident); ok && P.Pkg.TypesInfo.Uses[i] == v && !within(i, K.Lit) {
								hit = i
							}
							return true
						})
						return hit
					}
					isBarrier := func(ref nodeRef) bool {
						n := ref.node()
						if n == nil {
							return false
						}
						for _, b := range barriers {
							if within(b, n) && !within(b, K.Lit) {
								return true
							}
						}
						return false
					}
					var hit ast.Node
					_, found := P.reach(from, true, func(x nodeRef) bool {
						if isBarrier(x) {
							return false
						}
						if h := uses(x); h != nil {
							hit = h
							return true
						}
						return false
					}, isBarrier, false)
					if found && hit != nil && !underMutex(P, hit) {
						r.bad("R3", key, p.pos(hit), fmt.Sprintf("`%s` is written by the goroutine at %s and used here by the function that spawned it, with no channel receive, Wait or lock in between: the two accesses are concurrent (a data race; the spawner may also act on a value the goroutine has just replaced)", v.Name(), p.pos(w.at)))
					} else {
						r.ok("R3", key, p.pos(w.at), "every later use in "+P.Name+" lies behind a receive/Wait/lock, or there is none")
					}
				}
				_ = n3
			}
		}
		if len(reported) == 0 {
			r.ok("R1", K.Name+" / no unsynchronised write to a variable shared between instances", p.pos(K.Lit), fmt.Sprintf("spawned via %s; %d loop(s) around the spawn; %d synchronised shared write(s)", g.roles[K].via, len(loops), okCount))
		}
	}
	r.Analysed["spawned_closures"] = nSpawn

	// ---- R6: a goroutine does not call, on an object it shares with other goroutines (a variable captured from outside),
	// a method that writes a plain Go map (or appends to a slice) held in a field of its receiver without a mutex
	{
		// methods of module types that mutate a map/slice field of their pointer receiver outside a mutex region
		mutators := map[*types.Func]string{}
		for _, fn := range p.sortedFuncs() {
			if fn.Decl == nil || fn.Decl.Recv == nil || fn.Obj == nil || fn.Body == nil {
				continue
			}
			rv := recvObj(fn)
			if rv == nil {
				continue
			}
			if _, isPtr := rv.Type().(*types.Pointer); !isPtr {
				continue
			}
			fn.inspectBody(func(x ast.Node) bool {
				as, ok := x.(*ast.AssignStmt)
				if !ok {
					return true
				}
				for i, l := range as.Lhs {
					switch y := unparen(l).(type) {
					case *ast.IndexExpr:
						// recv.F[k] = v with F a plain map
						sel, ok := unparen(y.X).(*ast.SelectorExpr)
						if !ok || fn.objOf(sel.X) != rv {
							continue
						}
						if t := fn.typeOf(sel); t != nil {
							if _, isMap := t.Underlying().(*types.Map); isMap && !underMutex(fn, as) {
								mutators[fn.Obj] = "writes the map " + exprStr(sel) + " at " + p.pos(as)
							}
						}
					case *ast.SelectorExpr:
						// recv.F = append(recv.F, …)
						if fn.objOf(y.X) != rv || i >= len(as.Rhs) {
							continue
						}
						if c, ok := unparen(as.Rhs[i]).(*ast.CallExpr); ok && isBuiltinCall(fn, c, "append") && !underMutex(fn, as) {
							mutators[fn.Obj] = "appends to " + exprStr(y) + " at " + p.pos(as)
						}
					}
				}
				return true
			})
		}
		r.Analysed["unsynchronised_receiver_mutators"] = len(mutators)
		n6 := 0
		for _, K := range funcs {
			if K.Lit == nil || g.roles[K].kind != "async" {
				continue
			}
			bad := ""
			var visit func(fn *FuncNode)
			visit = func(fn *FuncNode) {
				fn.inspectBody(func(x ast.Node) bool {
					c, ok := x.(*ast.CallExpr)
					if !ok || fn.Callee(c) == nil {
						return true
					}
					why, isMut := mutators[fn.Callee(c)]
					if !isMut {
						return true
					}
					sel, ok := unparen(c.Fun).(*ast.SelectorExpr)
					if !ok {
						return true
					}
					id, ok := unparen(sel.X).(*ast.Ident)
					if !ok {
						return true
					}
					v, ok := fn.objOf(id).(*types.Var)
					if !ok || v.IsField() {
						return true
					}
					// captured from outside the goroutine?
					if K.Lit.Pos() <= v.Pos() && v.Pos() < K.Lit.End() {
						return true
					}
					if v.Parent() == nil || v.Pkg() == nil || v.Parent() == v.Pkg().Scope() {
						return true
					}
					if underMutex(fn, c) {
						return true
					}
					bad = fmt.Sprintf("`%s` at %s: %s %s", exprStr(c.Fun), p.pos(c), fullObjName(fn.Callee(c)), why)
					return true
				})
				for _, l := range fn.Lits {
					k := g.roles[l].kind
					if k == "sync" || k == "defer" || k == "lockcb" || k == "bound" {
						visit(l)
					}
				}
			}
			visit(K)
			n6++
			key := K.Name + " / no unsynchronised mutating method call on an object shared with other goroutines"
			if bad != "" {
				r.bad("R6", key, p.pos(K.Lit), bad+" — `"+"the receiver is a variable captured from outside the goroutine, so the goroutines of one operation (and the function that started them) mutate and read the same map without synchronisation (concurrent map writes are fatal)")
			} else {
				r.ok("R6", key, p.pos(K.Lit), "")
			}
		}
		r.min("R6", 20)
	}

	// ---- R5: a goroutine started inside a loop does not capture the loop's variables (language version < 1.22: the loop
	// writes the one shared variable while the goroutine reads it — a data race, and the goroutine sees a later element)
	{
		var names []string
		seenTop := map[*FuncNode]bool{}
		for _, K := range funcs {
			if K.Lit == nil || g.roles[K].kind != "async" {
				continue
			}
			if t := topOf(K); !seenTop[t] {
				seenTop[t] = true
				names = append(names, t.Name)
			}
		}
		sort.Strings(names)
		r.min("R5", 10)
		checkLoopVarCapture(p, r, "R5", names)
	}

	// ---- R4: a map field that an engine implementation writes into through its options parameter is a FRESH map wherever
	// the options are built — aliasing it to a map of the (shared) request would make every goroutine that deploys one
	// instance of that request write the same map
	{
		type sf struct {
			t *types.Named
			f string
		}
		written := map[sf]string{}
		for _, fn := range p.sortedFuncs("engine") {
			if fn.Body == nil || strings.Contains(fn.Name, "mocks") {
				continue
			}
			top := topOf(fn)
			fn.inspectBody(func(x ast.Node) bool {
				as, ok := x.(*ast.AssignStmt)
				if !ok {
					return true
				}
				for _, l := range as.Lhs {
					ix, ok := unparen(l).(*ast.IndexExpr)
					if !ok {
						continue
					}
					sel, ok := unparen(ix.X).(*ast.SelectorExpr)
					if !ok {
						continue
					}
					if t := fn.typeOf(sel); t == nil {
						continue
					} else if _, isMap := t.Underlying().(*types.Map); !isMap {
						continue
					}
					rid, ok := unparen(sel.X).(*ast.Ident)
					if !ok {
						continue
					}
					ro := fn.objOf(rid)
					if ro == nil || top.paramIndex(ro) < 0 {
						continue
					}
					pt, ok := ro.Type().(*types.Pointer)
					if !ok {
						continue
					}
					nt, ok := pt.Elem().(*types.Named)
					if !ok {
						continue
					}
					written[sf{nt, sel.Sel.Name}] = p.pos(as)
				}
				return true
			})
		}
		r.Analysed["callee_written_map_fields"] = len(written)
		fresh := func(fn *FuncNode, e ast.Expr) bool {
			switch x := unparen(e).(type) {
			case *ast.CompositeLit:
				return true
			case *ast.CallExpr:
				if id, ok := unparen(x.Fun).(*ast.Ident); ok && id.Name == "make" {
					return true
				}
				if f := fn.Callee(x); f != nil && (f.Name() == "Clone" || f.Name() == "Copy") {
					return true
				}
			case *ast.Ident:
				if x.Name == "nil" {
					return true
				}
			}
			return false
		}
		n4 := 0
		for _, fn := range funcs {
			if strings.HasPrefix(relPath(fn.Pkg.PkgPath), "engine") {
				continue
			}
			fn.inspectBody(func(x ast.Node) bool {
				check := func(target *types.Named, field string, val ast.Expr, at ast.Node) {
					where, ok := written[sf{target, field}]
					if !ok {
						return
					}
					n4++
					key := fmt.Sprintf("%s / %s.%s, which the engine writes into, is a fresh map", fn.Name, target.Obj().Name(), field)
					if fresh(fn, val) {
						r.ok("R4", key, p.pos(at), "made here; the engine writes it at "+where)
					} else {
						r.bad("R4", key, p.pos(at), fmt.Sprintf("`%s` is stored as %s.%s without a copy, and the engine implementation writes into that map (%s): the goroutines that deploy the instances of one request then write one shared map concurrently (concurrent map writes), and the caller's request is modified", exprStr(val), target.Obj().Name(), field, where))
					}
				}
				switch y := x.(type) {
				case *ast.AssignStmt:
					for i, l := range y.Lhs {
						sel, ok := unparen(l).(*ast.SelectorExpr)
						if !ok || len(y.Lhs) != len(y.Rhs) {
							continue
						}
						t := fn.typeOf(sel.X)
						if t == nil {
							continue
						}
						if pt, ok := t.(*types.Pointer); ok {
							t = pt.Elem()
						}
						if nt, ok := t.(*types.Named); ok {
							check(nt, sel.Sel.Name, y.Rhs[i], y)
						}
					}
				case *ast.CompositeLit:
					t := fn.typeOf(y)
					if t == nil {
						return true
					}
					nt, ok := t.(*types.Named)
					if !ok {
						return true
					}
					for _, el := range y.Elts {
						if kv, ok := el.(*ast.KeyValueExpr); ok {
							if id, ok := kv.Key.(*ast.Ident); ok {
								check(nt, id.Name, kv.Value, kv)
							}
						}
					}
				}
				return true
			})
		}
		if len(written) > 0 && n4 == 0 {
			r.undecided("R4", "sites that build engine options", "", "no assignment of a callee-written map field found")
		}
	}

	// ---- R2
	type fw struct {
		typ, field string
	}
	fieldWrites := map[fw][]string{}
	okWrites := map[fw]int{}
	for _, fn := range funcs {
		top := topOf(fn)
		if top.Decl == nil || top.Decl.Recv == nil {
			continue
		}
		rv := recvObj(top)
		if rv == nil {
			continue
		}
		t := rv.Type()
		if pt, ok := t.(*types.Pointer); ok {
			t = pt.Elem()
		}
		nt, ok := t.(*types.Named)
		if !ok || nt.Obj().Pkg() == nil {
			continue
		}
		tname := relPath(nt.Obj().Pkg().Path()) + "." + nt.Obj().Name()
		if !c34Shared[tname] {
			continue
		}
		if _, setup := c34Setup[top.Name]; setup {
			continue
		}
		fn.inspectBody(func(x ast.Node) bool {
			var lhs []ast.Expr
			switch s := x.(type) {
			case *ast.AssignStmt:
				if s.Tok != token.DEFINE {
					lhs = s.Lhs
				}
			case *ast.IncDecStmt:
				lhs = []ast.Expr{s.X}
			}
			for _, l := range lhs {
				// recv.F or recv.F.G…, also t.v.F where t.v is the service (one hop)
				sel, ok := unparen(l).(*ast.SelectorExpr)
				if !ok {
					continue
				}
				base := unparen(sel.X)
				if id, ok := base.(*ast.Ident); !ok || fn.objOf(id) != rv {
					continue
				}
				k := fw{tname, sel.Sel.Name}
				if underMutex(fn, x) {
					okWrites[k]++
				} else {
					fieldWrites[k] = append(fieldWrites[k], fn.Name+" at "+p.pos(x))
				}
			}
			return true
		})
	}
	// writes to a service's field through another object (t.v.TaskNum--): selector chains ending in a field of a shared type
	for _, fn := range funcs {
		fn.inspectBody(func(x ast.Node) bool {
			var lhs []ast.Expr
			switch s := x.(type) {
			case *ast.AssignStmt:
				if s.Tok != token.DEFINE {
					lhs = s.Lhs
				}
			case *ast.IncDecStmt:
				lhs = []ast.Expr{s.X}
			}
			for _, l := range lhs {
				sel, ok := unparen(l).(*ast.SelectorExpr)
				if !ok {
					continue
				}
				inner, ok := unparen(sel.X).(*ast.SelectorExpr)
				if !ok {
					continue
				}
				t := fn.typeOf(inner)
				if t == nil {
					continue
				}
				if pt, ok := t.(*types.Pointer); ok {
					t = pt.Elem()
				}
				nt, ok := t.(*types.Named)
				if !ok || nt.Obj().Pkg() == nil {
					continue
				}
				tname := relPath(nt.Obj().Pkg().Path()) + "." + nt.Obj().Name()
				if !c34Shared[tname] {
					continue
				}
				k := fw{tname, sel.Sel.Name}
				if underMutex(fn, x) {
					okWrites[k]++
				} else {
					fieldWrites[k] = append(fieldWrites[k], fn.Name+" at "+p.pos(x))
				}
			}
			return true
		})
	}
	var keys []fw
	seenK := map[fw]bool{}
	for k := range fieldWrites {
		keys, seenK[k] = append(keys, k), true
	}
	for k := range okWrites {
		if !seenK[k] {
			keys = append(keys, k)
		}
	}
	sort.Slice(keys, func(i, j int) bool { return keys[i].typ+keys[i].field < keys[j].typ+keys[j].field })
	for _, k := range keys {
		key := fmt.Sprintf("%s.%s / field of a concurrently used service is only written under a mutex", k.typ, k.field)
		if ws := fieldWrites[k]; len(ws) > 0 {
			r.bad("R2", key, strings.SplitN(ws[0], " at ", 2)[1], "written without synchronisation in "+strings.Join(ws, "; ")+": methods of this type run concurrently (one goroutine per RPC / per operation), so two calls race on the field")
		} else {
			r.ok("R2", key, "", fmt.Sprintf("%d write(s), all in mutex regions", okWrites[k]))
		}
	}
	// service types with no field writes at all outside constructors: one obligation each so that the rule is never vacuous
	r.Tables["setup_functions_exempt_from_R2"] = c34Setup
	var tn []string
	for t := range c34Shared {
		tn = append(tn, t)
	}
	sort.Strings(tn)
	for _, t := range tn {
		has := false
		for _, k := range keys {
			if k.typ == t {
				has = true
			}
		}
		if !has {
			r.ok("R2", t+" / no receiver field is written outside constructors", "", "immutable after construction")
		}
	}
}
