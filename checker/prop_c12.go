package main

// C12: deployment results complete and truthful (stream shape + per-instance transaction).

import (
	"fmt"
	"go/ast"
	"go/token"
	"go/types"
	"strings"
)

func init() { register("C12", checkC12) }

func checkC12(p *Prog, r *Result, tier string) {
	r.Technique = "channel/wait-group protocol rules on go/cfg (close-on-all-paths, join-before-close, exactly-one-send patterns) plus the Txn compensation rules at the per-instance site"
	r.Explanation = "H1 the result channel of doCreateWorkloads is closed exactly once, by a defer that is the first statement of the producing goroutine; H5 every goroutine that can send on it starts with defer wg.Done() and its wait group is waited on every path before the spawner returns; " +
		"LED on the single-failure path of the alloc step every node whose allocation succeeded is in the list the rollback walks before any other step can fail (nothing created, no usage left behind); RBSEL the rollback gives back the resources at the failed indices (not a prefix of the node's list); RBI the per-instance goroutines report failed instances to the rollback: the shared node error is only assigned under a non-nil test of the assigned value (a later success cannot erase an earlier failure) and the failed index is appended under that same test; H2 'exactly one message': the alloc step reports exactly one error message iff it fails (first-statement defer guarded by its named error result), each per-instance goroutine sends exactly once on every path (deferred send), the per-node failure branch sends `deploy` messages and returns; counts of wg.Add, spawn loop and failure loop are the same variable; " +
		"T1-T3/TC at doDeployOneWorkload: a reported failure has removed record and container under the rollback context."
	r.NotCovered = "relation of message contents to store/engine state; pool saturation (A3: a saturated non-blocking pool drops closures)"
	r.Assumptions = []string{"A3 the worker pool runs every submitted closure"}
	a := newChanAnalyzer(p, r)
	if a == nil {
		return
	}
	F := p.Fn("cluster/calcium.(*Calcium).doCreateWorkloads")
	G1 := p.Fn("cluster/calcium.(*Calcium).doDeployWorkloads")
	G2 := p.Fn("cluster/calcium.(*Calcium).doDeployWorkloadsOnNode")
	if F == nil || G1 == nil || G2 == nil {
		r.undecided("anchor", "create.go functions", "", "doCreateWorkloads/doDeployWorkloads/doDeployWorkloadsOnNode not found")
		return
	}
	r.min("H1", 1)
	r.min("H5", 2)
	r.min("H2", 4)
	r.min("RBI", 2)
	checkC12RollbackIndices(p, r, G2)
	a.checkStream(r, F, 1)
	// the message channel type
	var T types.Type
	for ch := range findMadeChans(F) {
		if _, ok := ch.Type().Underlying().(*types.Chan); ok {
			T = ch.Type()
		}
	}
	if T == nil {
		r.undecided("H2", F.Name+" / channel type", "", "no channel made")
		return
	}
	// H2a: the cond closure of the Txn in the producer
	ta := newTxnAnalyzer(p, r)
	sites := findTxnSites(p)
	var createSite, oneSite *txnSite
	for _, s := range sites {
		top := s.fn
		for top.Parent != nil {
			top = top.Parent
		}
		if top == F {
			createSite = s
		}
		if s.fn.Name == "cluster/calcium.(*Calcium).doDeployOneWorkload" {
			oneSite = s
		}
	}
	if createSite == nil || createSite.closures[0] == nil {
		r.undecided("H2", F.Name+" / alloc step", "", "Txn site of doCreateWorkloads not found")
	} else {
		r.min("LED", 1)
		ta.checkLedger(r, createSite)
		cond := createSite.closures[0]
		pat, why := a.sendPattern(cond, T)
		key := createSite.key + " / alloc step reports one error message iff it fails"
		if pat == "once-iff-error" {
			r.ok("H2", key, p.pos(cond.Lit), why)
		} else {
			r.bad("H2", key, p.pos(cond.Lit), "pattern="+pat+" ("+why+"): a failure of the alloc step (node lookup, lock, allocation, log, marker) must produce exactly one error message before the stream closes")
		}
		// then/rollback must not send on their own
		for i := 1; i < 3; i++ {
			if cl := createSite.closures[i]; cl != nil {
				pat, _ := a.sendPattern(cl, T)
				key := fmt.Sprintf("%s / %s sends nothing itself", createSite.key, slotNames["Txn"][i])
				r.check(pat == "none", "H2", key, p.pos(cl.Lit), "", "extra message sent outside the per-instance reporting: more than one message per planned instance")
			}
		}
	}
	// H2b: per-instance goroutine in G2
	var inst *FuncNode
	for _, sp := range a.asyncSpawns(G2) {
		if a.sendsOnType(sp.S, T, 0, map[*FuncNode]bool{}) {
			inst = sp.S
		}
	}
	if inst == nil {
		r.undecided("H2", G2.Name+" / per-instance goroutine", "", "no sending goroutine found")
	} else {
		pat, why := a.sendPattern(inst, T)
		key := inst.Name + " / exactly one message per planned instance"
		if pat == "always-once" {
			r.ok("H2", key, p.pos(inst.Lit), why)
		} else {
			r.bad("H2", key, p.pos(inst.Lit), "pattern="+pat+" ("+why+"): an instance can end with zero or two messages")
		}
	}
	// H2c: per-node failure branch: for i := 0; i < deploy; i++ { ch <- msg }; return
	checkFailureFanout(p, r, a, G2, T)
	// T rules at the two sites
	if ta != nil {
		if oneSite != nil {
			ta.checkTxnSite(r, oneSite, nil)
			ta.checkClosureCtx(r, oneSite)
		} else {
			r.undecided("T0", "doDeployOneWorkload Txn", "", "site not found")
		}
		if createSite != nil {
			ta.checkClosureCtx(r, createSite)
		}
	}
	// RBSEL (shared with C10): a partial failure gives back the failed instances' own resources
	checkRollbackSelection(p, r)
}

// checkFailureFanout: in G (doDeployWorkloadsOnNode) the only sends of its own body are in a counted loop over the same
// variable that bounds the spawn loop and wg.Add, and the branch returns afterwards.
func checkFailureFanout(p *Prog, r *Result, a *chanAnalyzer, G *FuncNode, T types.Type) {
	key := G.Name + " / node failure reports one message per planned instance"
	var sends []*ast.SendStmt
	G.inspectBody(func(n ast.Node) bool {
		if s, ok := n.(*ast.SendStmt); ok {
			if t := G.typeOf(s.Chan); t != nil && chanElemEq(t, T) {
				sends = append(sends, s)
			}
		}
		return true
	})
	if len(sends) != 1 {
		r.bad("H2", key, p.pos(G.Decl), fmt.Sprintf("%d send sites in the function body (want 1, in the node-failure loop)", len(sends)))
		return
	}
	loop, _ := enclosingLoop(G, sends[0].Pos()).(*ast.ForStmt)
	if loop == nil {
		r.bad("H2", key, p.pos(sends[0]), "failure message is not sent in a counted loop")
		return
	}
	bound := loopBound(G, loop)
	// wg.Add argument and the spawn loop bound
	var addObj, spawnBound types.Object
	G.inspectBody(func(n ast.Node) bool {
		if c, ok := n.(*ast.CallExpr); ok {
			if _, ok := wgCall(G, c, "Add"); ok && len(c.Args) == 1 {
				addObj = G.objOf(c.Args[0])
			}
		}
		if fs, ok := n.(*ast.ForStmt); ok && fs != loop {
			for _, sp := range a.asyncSpawns(G) {
				if fs.Body.Pos() <= sp.node.Pos() && sp.node.End() <= fs.Body.End() {
					spawnBound = loopBound(G, fs)
				}
			}
		}
		return true
	})
	// the loop must be followed by a return in the same block
	retAfter := false
	G.inspectBody(func(n ast.Node) bool {
		if b, ok := n.(*ast.BlockStmt); ok {
			for i, s := range b.List {
				if s == ast.Stmt(loop) && i+1 < len(b.List) {
					if _, ok := b.List[i+1].(*ast.ReturnStmt); ok {
						retAfter = true
					}
				}
			}
		}
		return true
	})
	single := len(loop.Body.List) >= 1
	nSendInBody := 0
	for _, s := range loop.Body.List {
		if s == ast.Stmt(sends[0]) {
			nSendInBody++
		}
	}
	if bound != nil && bound == addObj && bound == spawnBound && retAfter && single && nSendInBody == 1 {
		r.ok("H2", key, p.pos(loop), "for i := 0; i < "+bound.Name()+"; i++ { ch <- err }; return — same bound as wg.Add and the spawn loop")
	} else {
		var why []string
		if bound == nil || bound != addObj || bound != spawnBound {
			why = append(why, "failure loop, wg.Add and spawn loop are not bounded by the same variable")
		}
		if !retAfter {
			why = append(why, "the failure branch does not return after reporting (instances would be reported twice)")
		}
		if nSendInBody != 1 {
			why = append(why, "the send is conditional inside the loop")
		}
		r.bad("H2", key, p.pos(loop), strings.Join(why, "; "))
	}
}

// loopBound: for i := 0; i < N; i++ -> object of N.
func loopBound(fn *FuncNode, fs *ast.ForStmt) types.Object {
	be, ok := unparen(fs.Cond).(*ast.BinaryExpr)
	if !ok || be.Op != token.LSS {
		return nil
	}
	init, ok := fs.Init.(*ast.AssignStmt)
	if !ok || len(init.Rhs) != 1 {
		return nil
	}
	if v, ok := fn.constInt(init.Rhs[0]); !ok || v != 0 {
		return nil
	}
	return fn.objOf(be.Y)
}

// RBI: the failed instances of a node are reported to the caller's rollback. In the per-instance goroutines of
// doDeployWorkloadsOnNode (a) the shared error result is only ever assigned a value tested non-nil (a later success must not
// erase an earlier failure: the caller rolls resources back only when the error is non-nil), (b) the index of a failed
// instance is appended to the shared index list under that same test, next to such an assignment.
func checkC12RollbackIndices(p *Prog, r *Result, G2 *FuncNode) {
	var errRes, idxRes types.Object
	if G2.Type.Results != nil {
		for _, f := range G2.Type.Results.List {
			for _, id := range f.Names {
				o := G2.Pkg.TypesInfo.ObjectOf(id)
				if o.Type().String() == "error" {
					errRes = o
				} else if _, ok := o.Type().Underlying().(*types.Slice); ok {
					idxRes = o
				}
			}
		}
	}
	if errRes == nil || idxRes == nil {
		r.undecided("RBI", G2.Name+" / named results", p.pos(G2.Decl), "doDeployWorkloadsOnNode no longer has named (indices, err) results")
		return
	}
	var walk func(fn *FuncNode, f func(*FuncNode))
	walk = func(fn *FuncNode, f func(*FuncNode)) {
		for _, l := range fn.Lits {
			f(l)
			walk(l, f)
		}
	}
	// guardOf: innermost enclosing `if X != nil` (no else) of node n inside literal fn; returns object X
	guardOf := func(fn *FuncNode, n ast.Node) types.Object {
		var g types.Object
		ast.Inspect(fn.Body, func(x ast.Node) bool {
			is, ok := x.(*ast.IfStmt)
			if !ok || !(is.Body.Pos() <= n.Pos() && n.End() <= is.Body.End()) {
				return true
			}
			if be, ok := unparen(is.Cond).(*ast.BinaryExpr); ok && be.Op == token.NEQ && isNilIdent(be.Y) {
				g = fn.objOf(be.X)
			} else {
				g = nil
			}
			return true
		})
		return g
	}
	nErr, nIdx := 0, 0
	walk(G2, func(fn *FuncNode) {
		fn.inspectBody(func(x ast.Node) bool {
			as, ok := x.(*ast.AssignStmt)
			if !ok || len(as.Lhs) != 1 || len(as.Rhs) != 1 {
				return true
			}
			switch fn.objOf(as.Lhs[0]) {
			case errRes:
				nErr++
				key := fmt.Sprintf("%s / shared node error is only set to a value known to be non-nil (#%d)", fn.Name, nErr)
				g := guardOf(fn, as)
				rhs := fn.objOf(as.Rhs[0])
				if g != nil && rhs == g {
					r.ok("RBI", key, p.pos(as), "inside `if "+g.Name()+" != nil`")
				} else {
					r.bad("RBI", key, p.pos(as), "a goroutine assigns `"+exprStr(as.Rhs[0])+"` to the node's shared error without having tested it non-nil: an instance that succeeds after another failed resets the error to nil, the caller then skips the rollback of the failed instance and its resources stay allocated")
				}
			case idxRes:
				nIdx++
				key := fmt.Sprintf("%s / a failed instance's index is recorded together with a non-nil node error (#%d)", fn.Name, nIdx)
				g := guardOf(fn, as)
				// an assignment errRes = g in the same guarded block
				has := false
				if g != nil {
					fn.inspectBody(func(y ast.Node) bool {
						if a2, ok := y.(*ast.AssignStmt); ok && len(a2.Lhs) == 1 && len(a2.Rhs) == 1 && fn.objOf(a2.Lhs[0]) == errRes && fn.objOf(a2.Rhs[0]) == g && guardOf(fn, a2) == g {
							has = true
						}
						return true
					})
				}
				if has {
					r.ok("RBI", key, p.pos(as), "index appended under the failure test that also sets the node error")
				} else {
					r.bad("RBI", key, p.pos(as), "an index is appended to the rollback list on a path that does not set the node's error non-nil: the caller only rolls back when the error is non-nil")
				}
			}
			return true
		})
	})
}
