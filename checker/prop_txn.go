package main

// C10, C11 (and the Txn part of C12): compensation completeness at every Txn/PCR site, guarded-by for usage mutators.

import (
	"fmt"
	"go/ast"
	"go/types"
	"strings"
)

func init() {
	register("C10", checkC10)
	register("C11", checkC11)
}

var usageMutators = map[string]bool{
	"resource.Manager.Alloc": true, "resource.Manager.RollbackAlloc": true, "resource.Manager.Realloc": true,
	"resource.Manager.RollbackRealloc": true, "resource.Manager.SetNodeResourceUsage": true, "resource.Manager.SetNodeResourceCapacity": true,
}

// checkL4Usage: every usage mutator called from cluster/calcium runs with the Pod lock in the must-hold set.
func checkL4Usage(p *Prog, r *Result, g *SCG) {
	r.min("L4", 9)
	for _, fn := range p.sortedFuncs("cluster/calcium") {
		if fn.Body == nil {
			continue
		}
		fn.inspectBody(func(n ast.Node) bool {
			c, ok := n.(*ast.CallExpr)
			if !ok {
				return true
			}
			f := fn.Callee(c)
			if f == nil {
				return true
			}
			nm := objName(f)
			mut := usageMutators[nm]
			if nm == "resource.Manager.GetNodeResourceInfo" && len(c.Args) == 4 {
				if constBoolName(fn, c.Args[3]) != "false" {
					mut = true // fix may be true: rewrites usage
				}
			}
			if !mut {
				return true
			}
			key := fmt.Sprintf("%s calls %s", fn.Name, shortName(nm))
			must, nctx := g.mustHold(fn)
			if nctx == 0 {
				r.undecided("L4", key, p.pos(c), "function not reached by the synchronous call graph")
				return true
			}
			if must&g.bit("Pod") != 0 {
				r.ok("L4", key, p.pos(c), fmt.Sprintf("Pod lock held in all %d calling context(s)", nctx))
			} else {
				var path []string
				for h := range g.ctxs[fn] {
					if h&g.bit("Pod") == 0 {
						path = g.pathTo(fn, h)
						break
					}
				}
				r.bad("L4", key, p.pos(c), "node usage/capacity is read-modify-written by the plugin without any store transaction; this call can run without the pod lock, so a concurrent operation on the same node loses an update", path...)
			}
			return true
		})
	}
}

// both sides of "usage == sum of recorded workloads": usage mutators and workload-record writers
var workloadRecordEffects = map[string]bool{"store.Store.AddWorkload": true, "store.Store.RemoveWorkload": true, "store.Store.UpdateWorkload": true,
	"cluster/calcium.(*Calcium).doDeployOneWorkload": true, "cluster/calcium.(*Calcium).doRemoveWorkload": true}

func usageOrRecord(e *effectSpec) bool { return e.usage || workloadRecordEffects[e.name] }

func siteHasUsage(a *txnAnalyzer, s *txnSite) bool {
	for _, cl := range s.closures {
		for _, e := range a.effects(cl, 0, nil) {
			if usageOrRecord(e.spec) {
				return true
			}
		}
		// rollback closures contain the inverse mutators
		if cl != nil {
			var rc []reachedCall
			a.reachableCalls(cl, nil, false, 0, &rc)
			for _, c := range rc {
				if usageMutators[c.name] {
					return true
				}
			}
		}
	}
	return false
}

func checkC10(p *Prog, r *Result, tier string) {
	r.Technique = "compensation-completeness analysis of every utils.Txn/PCR call site (effect table + CFG reachability with branch pruning on failureByCond) and must-hold lock sets over the synchronous call graph"
	r.Explanation = "Decides two structural necessary conditions of 'node usage == sum of recorded workloads': (E1) at every Txn/PCR site whose closures change node usage or workload records, no failing path the combinator reports leaves such a change without its inverse (a self-inverse rewrite must write a value snapshot, not an alias of the mutated object) (T1 cond not atomic, T2 then can fail, T3 effect inside then, T4 PCR prepare is pure, T5 plugin fan-out recorded and reverted); (L4) every usage mutator called from cluster/calcium runs with the pod lock held on every synchronous path (the plugin's read-modify-write has no transaction of its own). TC: the closures run under the context the combinator hands them."
	r.NotCovered = "numeric equality of usage and the workload sum; faults inside compensations; worker-pool saturation; that allocation never exceeds capacity (numeric)"
	r.Assumptions = []string{"A2", "A3", "effect table (printed under tables) lists the lasting effects and their inverses"}
	a := newTxnAnalyzer(p, r)
	if a == nil {
		return
	}
	r.Tables["effect_table"] = effectTableStrings()
	sites := findTxnSites(p)
	r.Analysed["txn_pcr_sites"] = len(sites)
	n := 0
	for _, s := range sites {
		if !siteHasUsage(a, s) {
			continue
		}
		n++
		a.checkTxnSite(r, s, usageOrRecord)
		a.checkClosureCtx(r, s)
	}
	r.Analysed["sites_with_usage_mutators"] = n
	if n < 9 {
		r.undecided("count", "sites with usage mutators", "", fmt.Sprintf("found %d Txn/PCR sites with usage mutators, expected at least 9", n))
	}
	checkL4Usage(p, r, a.g)
}

func checkC11(p *Prog, r *Result, tier string) {
	r.Technique = "compensation-completeness analysis of every utils.Txn/PCR call site (effect table, CFG reachability with branch pruning on failureByCond, closure context discipline)"
	r.Explanation = "For all 17 Txn/PCR sites and all lasting effects of the effect table: T1 an effect in cond followed by a fallible step is undone when cond fails; T2 when then can fail every cond effect has its inverse reachable in the rollback on the failureByCond=false path; T3 an effect inside then followed by a fallible step has its inverse in the rollback; T4 PCR prepare has no effect; T5 PCR commit fan-outs record the plugins that answered and the rollback reverts exactly those; SN SetNode's capacity rollback restores the value returned by the forward call with delta=false; TC closures use the context handed to them. A missing inverse means some single-fault position leaves a lasting effect after a reported failure."
	r.NotCovered = "whether an inverse restores the exact prior value (except SN); faults inside compensating steps; effects outside the effect table"
	r.Assumptions = []string{"A2", "A3", "effect table (printed under tables)"}
	a := newTxnAnalyzer(p, r)
	if a == nil {
		return
	}
	r.Tables["effect_table"] = effectTableStrings()
	sites := findTxnSites(p)
	r.Analysed["txn_pcr_sites"] = len(sites)
	if len(sites) < 17 {
		r.undecided("count", "Txn/PCR sites", "", fmt.Sprintf("found %d Txn/PCR call sites, expected at least 17", len(sites)))
	}
	for _, s := range sites {
		a.checkTxnSite(r, s, nil)
		a.checkClosureCtx(r, s)
	}
	checkSetNodeRollback(p, r, sites)
}

// SN: in SetNode the rollback passes the `before` value returned by the forward SetNodeResourceCapacity with delta=false.
func checkSetNodeRollback(p *Prog, r *Result, sites []*txnSite) {
	r.min("SN", 1)
	for _, s := range sites {
		if s.closures[0] == nil || s.closures[2] == nil {
			continue
		}
		var fwd *ast.CallExpr
		var origin types.Object
		cond := s.closures[0]
		cond.inspectBody(func(n ast.Node) bool {
			if as, ok := n.(*ast.AssignStmt); ok && len(as.Rhs) == 1 {
				if c, ok := unparen(as.Rhs[0]).(*ast.CallExpr); ok {
					if f := cond.Callee(c); f != nil && objName(f) == "resource.Manager.SetNodeResourceCapacity" {
						fwd = c
						origin = cond.objOf(as.Lhs[0])
					}
				}
			}
			return true
		})
		if fwd == nil {
			continue
		}
		key := s.key + " / SN capacity rollback"
		rb := s.closures[2]
		ok, detail := false, "rollback does not call SetNodeResourceCapacity"
		rb.inspectBody(func(n ast.Node) bool {
			c, isCall := n.(*ast.CallExpr)
			if !isCall {
				return true
			}
			if f := rb.Callee(c); f != nil && objName(f) == "resource.Manager.SetNodeResourceCapacity" && len(c.Args) == 6 {
				if origin == nil || origin.Name() == "_" || rb.objOf(c.Args[3]) != origin {
					detail = "rollback does not pass the value returned by the forward call (" + exprStr(c.Args[3]) + ")"
					return true
				}
				if constBoolName(rb, c.Args[4]) != "false" {
					detail = "rollback applies the origin as a delta (delta=" + exprStr(c.Args[4]) + ") instead of setting it absolutely"
					return true
				}
				if !isNilIdent(c.Args[2]) {
					detail = "rollback passes a node resource besides the origin request"
					return true
				}
				ok, detail = true, "rollback sets capacity absolutely to the origin returned by the forward call"
			}
			return true
		})
		if ok {
			r.ok("SN", key, p.pos(fwd), detail)
		} else {
			r.bad("SN", key, p.pos(fwd), detail+": a failed set-node leaves capacity changed")
		}
	}
}

func describeSites(sites []*txnSite) []string {
	var out []string
	for _, s := range sites {
		out = append(out, s.key)
	}
	return out
}

var _ = strings.Join
