package main

// C10, C11 (and the Txn part of C12): compensation completeness at every Txn/PCR site, guarded-by for usage mutators.

import (
	"fmt"
	"go/ast"
	"go/token"
	"go/types"
	"strings"
)

func init() {
	register("C10", checkC10)
	register("C11", checkC11)
}

var usageMutators = map[string]bool{
	"resource.Manager.Alloc": true, "resource.Manager.RollbackAlloc": true, "resource.Manager.Realloc": true,
	"resource.Manager.RollbackRealloc": true, "resource.Manager.SetNodeResourceUsage": true, "resource.Manager.SetNodeResourceCapacity": true,
}

// checkL4Usage: every usage mutator called from cluster/calcium runs with the Pod lock in the must-hold set.
func checkL4Usage(p *Prog, r *Result, g *SCG) {
	r.min("L4", 9)
	for _, fn := range p.sortedFuncs("cluster/calcium") {
		if fn.Body == nil {
			continue
		}
		fn.inspectBody(func(n ast.Node) bool {
			c, ok := n.(*ast.CallExpr)
			if !ok {
				return true
			}
			f := fn.Callee(c)
			if f == nil {
				return true
			}
			nm := objName(f)
			mut := usageMutators[nm]
			if nm == "resource.Manager.GetNodeResourceInfo" && len(c.Args) == 4 {
				if constBoolName(fn, c.Args[3]) != "false" {
					mut = true // fix may be true: rewrites usage
				}
			}
			if !mut {
				return true
			}
			key := fmt.Sprintf("%s calls %s", fn.Name, shortName(nm))
			must, nctx := g.mustHold(fn)
			if nctx == 0 {
				r.undecided("L4", key, p.pos(c), "function not reached by the synchronous call graph")
				return true
			}
			if must&g.bit("Pod") != 0 {
				r.ok("L4", key, p.pos(c), fmt.Sprintf("Pod lock held in all %d calling context(s)", nctx))
			} else {
				var path []string
				for h := range g.ctxs[fn] {
					if h&g.bit("Pod") == 0 {
						path = g.pathTo(fn, h)
						break
					}
				}
				r.bad("L4", key, p.pos(c), "node usage/capacity is read-modify-written by the plugin without any store transaction; this call can run without the pod lock, so a concurrent operation on the same node loses an update", path...)
			}
			return true
		})
	}
}

// both sides of "usage == sum of recorded workloads": usage mutators and workload-record writers
var workloadRecordEffects = map[string]bool{"store.Store.AddWorkload": true, "store.Store.RemoveWorkload": true, "store.Store.UpdateWorkload": true,
	"cluster/calcium.(*Calcium).doDeployOneWorkload": true, "cluster/calcium.(*Calcium).doRemoveWorkload": true}

func usageOrRecord(e *effectSpec) bool { return e.usage || workloadRecordEffects[e.name] }

func siteHasUsage(a *txnAnalyzer, s *txnSite) bool {
	for _, cl := range s.closures {
		for _, e := range a.effects(cl, 0, nil) {
			if usageOrRecord(e.spec) {
				return true
			}
		}
		// rollback closures contain the inverse mutators
		if cl != nil {
			var rc []reachedCall
			a.reachableCalls(cl, nil, false, 0, &rc)
			for _, c := range rc {
				if usageMutators[c.name] {
					return true
				}
			}
		}
	}
	return false
}

func checkC10(p *Prog, r *Result, tier string) {
	r.Technique = "compensation-completeness analysis of every utils.Txn/PCR call site (effect table + CFG reachability with branch pruning on failureByCond) and must-hold lock sets over the synchronous call graph"
	r.Explanation = "Decides two structural necessary conditions of 'node usage == sum of recorded workloads': (E1) at every Txn/PCR site whose closures change node usage or workload records, no failing path the combinator reports leaves such a change without its inverse (a self-inverse rewrite must write a value snapshot, not an alias of the mutated object) (T1 cond not atomic, T2 then can fail, T3 effect inside then, T4 PCR prepare is pure, T5 plugin fan-out recorded and reverted, T5c the fan-out helper returns the partial answer map together with the error, LED an effect the rollback finds through a list is recorded in that list before any other step can fail); (ADM) a re-allocation is admitted by testing the full new request (delta + origin) against the pool from which the origin was subtracted, in both the CPU-bound and the memory branch; (RBSEL) a partial rollback gives back the resources at the failed indices, not a prefix of the list; (MIR, shared with C08) Add adds and Sub subtracts every usage field unconditionally; (L4) every usage mutator called from cluster/calcium runs with the pod lock held on every synchronous path (the plugin's read-modify-write has no transaction of its own). TC: the closures run under the context the combinator hands them."
	r.NotCovered = "numeric equality of usage and the workload sum; faults inside compensations; worker-pool saturation; that allocation never exceeds capacity (numeric)"
	r.Assumptions = []string{"A2", "A3", "effect table (printed under tables) lists the lasting effects and their inverses"}
	a := newTxnAnalyzer(p, r)
	if a == nil {
		return
	}
	r.Tables["effect_table"] = effectTableStrings()
	sites := findTxnSites(p)
	r.Analysed["txn_pcr_sites"] = len(sites)
	n := 0
	for _, s := range sites {
		if !siteHasUsage(a, s) {
			continue
		}
		n++
		a.checkTxnSite(r, s, usageOrRecord)
		a.checkClosureCtx(r, s)
		a.checkLedger(r, s)
		a.checkAppliedGuard(r, s)
	}
	r.min("LED", 1)
	r.min("T1g", 1)
	r.Analysed["sites_with_usage_mutators"] = n
	if n < 9 {
		r.undecided("count", "sites with usage mutators", "", fmt.Sprintf("found %d Txn/PCR sites with usage mutators, expected at least 9", n))
	}
	checkL4Usage(p, r, a.g)
	checkCallHelper(p, r)
	checkReallocAdmission(p, r)
	checkRollbackSelection(p, r)
	// MIR (shared with C08): the arithmetic that produces deltas is exact — Add adds and Sub subtracts every usage field,
	// unconditionally; a delta that lacks an entry leaves usage above the sum of the workloads for ever
	checkMirror(p, r)
}

// RBSEL: when only some instances of a node failed, the resources given back are those of the FAILED instances: the list
// handed to RollbackAlloc is built by indexing the node's resource list with each failed index (utils.Map over the index
// list, or a loop appending res[idx]) — a prefix of the list has the right length but other cores.
func checkRollbackSelection(p *Prog, r *Result) {
	r.min("RBSEL", 1)
	n := 0
	for _, fn := range p.sortedFuncs("cluster/calcium") {
		if fn.Body == nil {
			continue
		}
		fn.inspectBody(func(x ast.Node) bool {
			c, ok := x.(*ast.CallExpr)
			if !ok || fn.Callee(c) == nil || objName(fn.Callee(c)) != "resource.Manager.RollbackAlloc" || len(c.Args) != 3 {
				return true
			}
			// only the partial rollback: the enclosing function ranges over a map of index lists
			var idxList types.Object
			for f := fn; f != nil && idxList == nil; f = f.Parent {
				ast.Inspect(f.Body, func(y ast.Node) bool {
					rs, ok := y.(*ast.RangeStmt)
					if !ok || rs.Value == nil || !(rs.Body.Pos() <= c.Pos() && c.End() <= rs.Body.End()) {
						return true
					}
					if t := f.typeOf(rs.Value); t != nil {
						if sl, ok := t.Underlying().(*types.Slice); ok && isIntLike(sl.Elem()) {
							idxList = f.objOf(rs.Value)
						}
					}
					return true
				})
			}
			if idxList == nil {
				// the per-node rollback as a function of its own: the index list is a parameter that a caller fills with the
				// value of its loop over the failed index lists
				T := topOf(fn)
				for i := 0; T.Obj != nil && idxList == nil; i++ {
					po := T.paramObj(i)
					if po == nil {
						break
					}
					sl, ok := po.Type().Underlying().(*types.Slice)
					if !ok || !isIntLike(sl.Elem()) {
						continue
					}
					for _, caller := range p.sortedFuncs("cluster/calcium") {
						if caller.Body == nil || idxList != nil {
							continue
						}
						for _, cc := range caller.calls(func(f *types.Func) bool { return f == T.Obj }) {
							if i >= len(cc.Args) {
								continue
							}
							ao := caller.objOf(cc.Args[i])
							for f := caller; f != nil && ao != nil && idxList == nil; f = f.Parent {
								ast.Inspect(f.Body, func(y ast.Node) bool {
									if rs, ok := y.(*ast.RangeStmt); ok && rs.Value != nil && f.objOf(rs.Value) == ao && rs.Body.Pos() <= cc.Pos() && cc.End() <= rs.Body.End() {
										idxList = po
									}
									return true
								})
							}
						}
					}
				}
			}
			if idxList == nil {
				return true
			}
			n++
			key := fn.Name + " / the resources rolled back are those at the failed indices"
			arg := unparen(c.Args[2])
			// resolve a local
			if id, ok := arg.(*ast.Ident); ok {
				if d := fn.singleDef(fn.objOf(id)); d != nil {
					arg = unparen(d)
				}
			}
			why := "the list handed to RollbackAlloc is `" + exprStr(arg) + "`, not the node's resources at each failed index: other instances' cores are marked free and the failed instances' cores stay in use (the totals still match, the per-core map does not)"
			if mc, ok := arg.(*ast.CallExpr); ok && fn.Callee(mc) != nil && fn.Callee(mc).Name() == "Map" && len(mc.Args) == 2 && fn.objOf(mc.Args[0]) == idxList {
				if lit, ok := unparen(mc.Args[1]).(*ast.FuncLit); ok && len(lit.Body.List) == 1 && lit.Type.Params != nil && len(lit.Type.Params.List) == 1 && len(lit.Type.Params.List[0].Names) == 1 {
					pn := lit.Type.Params.List[0].Names[0].Name
					if rt, ok := lit.Body.List[0].(*ast.ReturnStmt); ok && len(rt.Results) == 1 {
						if ix, ok := unparen(rt.Results[0]).(*ast.IndexExpr); ok {
							if id, ok := unparen(ix.Index).(*ast.Ident); ok && id.Name == pn {
								why = ""
							}
						}
					}
				}
			}
			// equivalent loop form: for _, idx := range failedIndices { list = append(list, resources[node][idx]) }
			if why != "" {
				if lid, ok := unparen(c.Args[2]).(*ast.Ident); ok {
					lo := fn.objOf(lid)
					for f := fn; f != nil && why != ""; f = f.Parent {
						ast.Inspect(f.Body, func(y ast.Node) bool {
							rs, ok := y.(*ast.RangeStmt)
							if !ok || f.objOf(rs.X) != idxList || rs.Value == nil {
								return true
							}
							vo := f.objOf(rs.Value)
							ast.Inspect(rs.Body, func(z ast.Node) bool {
								as, ok := z.(*ast.AssignStmt)
								if !ok || len(as.Lhs) != 1 || len(as.Rhs) != 1 || f.objOf(as.Lhs[0]) != lo {
									return true
								}
								if ac, ok := unparen(as.Rhs[0]).(*ast.CallExpr); ok && isBuiltinCall(f, ac, "append") && len(ac.Args) == 2 {
									if ix, ok := unparen(ac.Args[1]).(*ast.IndexExpr); ok && f.objOf(ix.Index) == vo {
										why = ""
									}
								}
								return true
							})
							return true
						})
					}
				}
			}
			r.check2(why, "RBSEL", key, p.pos(c), "utils.Map(failedIndices, func(idx) { return resources[node][idx] })")
			return true
		})
	}
	if n == 0 {
		r.undecided("RBSEL", "cluster/calcium partial rollback of an allocation", "", "no RollbackAlloc inside a loop over failed index lists found")
	}
}

func checkC11(p *Prog, r *Result, tier string) {
	r.Technique = "compensation-completeness analysis of every utils.Txn/PCR call site (effect table, CFG reachability with branch pruning on failureByCond, closure context discipline)"
	r.Explanation = "For all 17 Txn/PCR sites and all lasting effects of the effect table: T1 an effect in cond followed by a fallible step is undone when cond fails; T1g when the rollback of a failed cond is made to depend on more than failureByCond, the extra test is a flag set right after the effect returned without error (no compensation of an effect that failed); T2 when then can fail every cond effect has its inverse reachable in the rollback on the failureByCond=false path; T3 an effect inside then followed by a fallible step has its inverse in the rollback; T4 PCR prepare has no effect; T5 PCR commit fan-outs record the plugins that answered and the rollback reverts exactly those; T5c the fan-out helper hands back the partial answer map together with the error; T5e the callbacks handed to it return the plugin's error unchanged (a refusal is never turned into a success); LED when the rollback walks a list filled by the condition step, each effect is appended to it before anything else can fail; SN SetNode's capacity rollback restores the value returned by the forward call with delta=false, and the manager does hand that value back when the forward call succeeded; TC closures use the context handed to them. A missing inverse means some single-fault position leaves a lasting effect after a reported failure."
	r.NotCovered = "whether an inverse restores the exact prior value (except SN); faults inside compensating steps; effects outside the effect table"
	r.Assumptions = []string{"A2", "A3", "effect table (printed under tables)"}
	a := newTxnAnalyzer(p, r)
	if a == nil {
		return
	}
	r.Tables["effect_table"] = effectTableStrings()
	sites := findTxnSites(p)
	r.Analysed["txn_pcr_sites"] = len(sites)
	if len(sites) < 17 {
		r.undecided("count", "Txn/PCR sites", "", fmt.Sprintf("found %d Txn/PCR call sites, expected at least 17", len(sites)))
	}
	for _, s := range sites {
		a.checkTxnSite(r, s, nil)
		a.checkClosureCtx(r, s)
		a.checkLedger(r, s)
		a.checkAppliedGuard(r, s)
	}
	r.min("LED", 1)
	r.min("T1g", 1)
	checkSetNodeRollback(p, r, sites)
	checkCallHelper(p, r)
	checkFanoutErrors(p, r, "T5e")
}

// SN: in SetNode the rollback passes the `before` value returned by the forward SetNodeResourceCapacity with delta=false.
func checkSetNodeRollback(p *Prog, r *Result, sites []*txnSite) {
	r.min("SN", 3)
	// SN (provider side): the manager fills the before/after maps it returns on the path where the change SUCCEEDED — the
	// assignment `before[plugin] = resp.Before` is not confined to the `err != nil` branch
	for _, nm := range []string{"SetNodeResourceCapacity", "SetNodeResourceUsage"} {
		fn := p.Fn("resource/cobalt.Manager." + nm)
		key := "resource/cobalt.Manager." + nm + " / the value before the change is handed back when the change succeeded"
		if fn == nil {
			r.undecided("SN", key, "", "not found")
			continue
		}
		// the map returned first
		var beforeObj types.Object
		fn.inspectBody(func(n ast.Node) bool {
			if rt, ok := n.(*ast.ReturnStmt); ok && len(rt.Results) == 3 {
				beforeObj = fn.objOf(rt.Results[0])
			}
			return true
		})
		why := "no assignment to the returned `before` map found"
		for _, f := range append([]*FuncNode{fn}, fn.Lits...) {
			var stack []ast.Node
			ast.Inspect(f.Body, func(n ast.Node) bool {
				if n == nil {
					stack = stack[:len(stack)-1]
					return false
				}
				stack = append(stack, n)
				as, ok := n.(*ast.AssignStmt)
				if !ok || len(as.Lhs) != 1 {
					return true
				}
				ix, ok := unparen(as.Lhs[0]).(*ast.IndexExpr)
				if !ok || beforeObj == nil || f.objOf(ix.X) != beforeObj {
					return true
				}
				why = ""
				for i := len(stack) - 1; i >= 0; i-- {
					if is, ok := stack[i].(*ast.IfStmt); ok && i+1 < len(stack) && stack[i+1] == ast.Node(is.Body) && strings.Contains(exprStr(is.Cond), "err != nil") {
						why = "the returned `before` map is only filled inside `if " + exprStr(is.Cond) + "` (" + p.pos(as) + "): after a successful change the caller gets an empty map, and a rollback that restores `before` (calcium.SetNode when the node record cannot be updated) restores nothing — the capacity change survives the failed operation"
					}
				}
				return true
			})
		}
		r.check2(why, "SN", key, p.pos(fn.Decl), "before[plugin] = resp.Before is assigned for every answer, whatever err is")
	}
	for _, s := range sites {
		if s.closures[0] == nil || s.closures[2] == nil {
			continue
		}
		var fwd *ast.CallExpr
		var origin types.Object
		cond := s.closures[0]
		cond.inspectBody(func(n ast.Node) bool {
			if as, ok := n.(*ast.AssignStmt); ok && len(as.Rhs) == 1 {
				if c, ok := unparen(as.Rhs[0]).(*ast.CallExpr); ok {
					if f := cond.Callee(c); f != nil && objName(f) == "resource.Manager.SetNodeResourceCapacity" {
						fwd = c
						origin = cond.objOf(as.Lhs[0])
					}
				}
			}
			return true
		})
		if fwd == nil {
			continue
		}
		key := s.key + " / SN capacity rollback"
		rb := s.closures[2]
		ok, detail := false, "rollback does not call SetNodeResourceCapacity"
		rb.inspectBody(func(n ast.Node) bool {
			c, isCall := n.(*ast.CallExpr)
			if !isCall {
				return true
			}
			if f := rb.Callee(c); f != nil && objName(f) == "resource.Manager.SetNodeResourceCapacity" && len(c.Args) == 6 {
				if origin == nil || origin.Name() == "_" || rb.objOf(c.Args[3]) != origin {
					detail = "rollback does not pass the value returned by the forward call (" + exprStr(c.Args[3]) + ")"
					return true
				}
				if constBoolName(rb, c.Args[4]) != "false" {
					detail = "rollback applies the origin as a delta (delta=" + exprStr(c.Args[4]) + ") instead of setting it absolutely"
					return true
				}
				if !isNilIdent(c.Args[2]) {
					detail = "rollback passes a node resource besides the origin request"
					return true
				}
				ok, detail = true, "rollback sets capacity absolutely to the origin returned by the forward call"
			}
			return true
		})
		if ok {
			r.ok("SN", key, p.pos(fwd), detail)
		} else {
			r.bad("SN", key, p.pos(fwd), detail+": a failed set-node leaves capacity changed")
		}
	}
}

func describeSites(sites []*txnSite) []string {
	var out []string
	for _, s := range sites {
		out = append(out, s.key)
	}
	return out
}

var _ = strings.Join

// ADM: CalculateRealloc gives the origin back to the pool and must then admit the FULL new request, not the delta.
func checkReallocAdmission(p *Prog, r *Result) {
	r.min("ADM", 3)
	F := p.Fn("resource/plugins/cpumem.Plugin.CalculateRealloc")
	if F == nil {
		r.undecided("ADM", "resource/plugins/cpumem.Plugin.CalculateRealloc", "", "not found")
		return
	}
	// newReq: a WorkloadResourceRequest literal whose CPURequest and MemRequest are `req.X + origin.Y`
	var newReq, info types.Object
	F.inspectBody(func(n ast.Node) bool {
		as, ok := n.(*ast.AssignStmt)
		if !ok || len(as.Lhs) != 1 || len(as.Rhs) != 1 {
			return true
		}
		e := unparen(as.Rhs[0])
		if u, ok := e.(*ast.UnaryExpr); ok {
			e = unparen(u.X)
		}
		lit, ok := e.(*ast.CompositeLit)
		if !ok || !strings.HasSuffix(F.typeOf(lit).String(), "WorkloadResourceRequest") {
			return true
		}
		sums := 0
		for _, el := range lit.Elts {
			kv, ok := el.(*ast.KeyValueExpr)
			if !ok {
				continue
			}
			name := exprStr(kv.Key)
			if name != "CPURequest" && name != "MemRequest" {
				continue
			}
			be, ok := unparen(kv.Value).(*ast.BinaryExpr)
			if !ok || be.Op != token.ADD {
				continue
			}
			l, ok1 := unparen(be.X).(*ast.SelectorExpr)
			rr, ok2 := unparen(be.Y).(*ast.SelectorExpr)
			if ok1 && ok2 && F.objOf(l.X) != nil && F.objOf(rr.X) != nil && F.objOf(l.X) != F.objOf(rr.X) {
				sums++
			}
		}
		if sums == 2 {
			newReq = F.objOf(as.Lhs[0])
		}
		return true
	})
	// info: the node resource info whose Usage has the origin subtracted
	F.inspectBody(func(n ast.Node) bool {
		c, ok := n.(*ast.CallExpr)
		if !ok {
			return true
		}
		if f := F.Callee(c); f != nil && strings.HasSuffix(objName(f), "NodeResource).Sub") {
			if sel, ok := unparen(c.Fun).(*ast.SelectorExpr); ok {
				if s2, ok := unparen(sel.X).(*ast.SelectorExpr); ok && s2.Sel.Name == "Usage" {
					info = F.objOf(s2.X)
				}
			}
		}
		return true
	})
	if newReq == nil || info == nil {
		r.undecided("ADM", F.Name+" / full request and pool", p.pos(F.Decl), "could not identify the request built as delta + origin, or the pool with the origin subtracted")
		return
	}
	checkReallocPutBack(p, r, "ADM")
	n := 0
	for _, c := range F.calls(func(f *types.Func) bool {
		nm := objName(f)
		return nm == "resource/plugins/cpumem/schedule.GetCPUPlans" || nm == "resource/plugins/cpumem.Plugin.doAllocByMemory"
	}) {
		n++
		name := shortName(objName(F.Callee(c)))
		reqArg, infoArg := c.Args[len(c.Args)-1], c.Args[0]
		why := ""
		if F.objOf(reqArg) != newReq {
			why = "admission is tested with `" + exprStr(reqArg) + "`, not with the full new request (delta + origin): the origin was already returned to the pool, so only the delta is checked against free+origin and usage can end above capacity"
		} else if F.objOf(infoArg) != info {
			why = "admission is tested against `" + exprStr(infoArg) + "`, not against the pool the origin was returned to"
		}
		key := fmt.Sprintf("%s / admission call #%d (%s) tests the full new request against the pool with the origin returned", F.Name, n, name)
		if why == "" {
			r.ok("ADM", key, p.pos(c), "request = delta + origin; pool = usage - origin")
		} else {
			r.bad("ADM", key, p.pos(c), why)
		}
	}
}

// checkReallocPutBack: before re-planning, CalculateRealloc returns the WHOLE origin to the pool: the NodeResource subtracted
// from the usage carries all four usage fields of the origin (CPU<-CPURequest, CPUMap, Memory<-MemoryRequest, NUMAMemory).
// A field left out stays counted as used: the workload competes with itself for it (its own NUMA node can look full and
// the re-plan moves it; or the admission refuses a change that fits).
func checkReallocPutBack(p *Prog, r *Result, rule string) {
	F := p.Fn("resource/plugins/cpumem.Plugin.CalculateRealloc")
	if F == nil {
		r.undecided(rule, "resource/plugins/cpumem.Plugin.CalculateRealloc / put-back", "", "not found")
		return
	}
	key := F.Name + " / the whole origin (CPU, cores, memory, NUMA memory) is put back before re-planning"
	var lit *ast.CompositeLit
	var call *ast.CallExpr
	F.inspectBody(func(n ast.Node) bool {
		c, ok := n.(*ast.CallExpr)
		if !ok || F.Callee(c) == nil || !strings.HasSuffix(objName(F.Callee(c)), "NodeResource).Sub") || len(c.Args) != 1 {
			return true
		}
		sel, ok := unparen(c.Fun).(*ast.SelectorExpr)
		if !ok || !strings.HasSuffix(exprStr(sel.X), ".Usage") {
			return true
		}
		e := unparen(c.Args[0])
		if u, ok := e.(*ast.UnaryExpr); ok {
			e = unparen(u.X)
		}
		if cl, ok := e.(*ast.CompositeLit); ok {
			lit, call = cl, c
		}
		return true
	})
	if lit == nil {
		r.undecided(rule, key, p.pos(F.Decl), "no Usage.Sub(&NodeResource{…}) found")
		return
	}
	want := map[string]string{"CPU": "CPURequest", "CPUMap": "CPUMap", "Memory": "MemoryRequest", "NUMAMemory": "NUMAMemory"}
	got := map[string]string{}
	var origin types.Object
	why := ""
	for _, el := range lit.Elts {
		kv, ok := el.(*ast.KeyValueExpr)
		if !ok {
			continue
		}
		sel, ok := unparen(kv.Value).(*ast.SelectorExpr)
		if !ok {
			why = "field " + exprStr(kv.Key) + " of the put-back is `" + exprStr(kv.Value) + "`, not a field of the origin"
			continue
		}
		if origin == nil {
			origin = F.objOf(sel.X)
		} else if F.objOf(sel.X) != origin {
			why = "the put-back mixes fields of different objects"
		}
		got[exprStr(kv.Key)] = sel.Sel.Name
	}
	for f, src := range want {
		if got[f] != src && why == "" {
			if got[f] == "" {
				why = "the put-back leaves out " + f + " (origin." + src + "): that part of the workload's own allocation stays counted as used while the new placement is computed — the workload competes with itself, its own cores or NUMA node can look full, and the re-plan moves it or is refused"
			} else {
				why = "the put-back takes " + f + " from origin." + got[f] + ", not origin." + src
			}
		}
	}
	// the put-back comes before the planner / admission calls
	if why == "" {
		F.inspectBody(func(n ast.Node) bool {
			c, ok := n.(*ast.CallExpr)
			if !ok || F.Callee(c) == nil {
				return true
			}
			nm := objName(F.Callee(c))
			if (nm == "resource/plugins/cpumem/schedule.GetCPUPlans" || nm == "resource/plugins/cpumem.Plugin.doAllocByMemory") && !F.dominates(F.find(call), F.find(c)) {
				why = "the planner/admission call at " + p.pos(c) + " is not preceded by the put-back on every path"
			}
			return true
		})
	}
	r.check2(why, rule, key, p.pos(call), "Usage.Sub(&NodeResource{CPU: origin.CPURequest, CPUMap: origin.CPUMap, Memory: origin.MemoryRequest, NUMAMemory: origin.NUMAMemory}) dominates the planner and the admission")
}
