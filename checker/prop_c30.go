package main

// C30: run-and-wait workloads are always cleaned up.

import (
	"fmt"
	"go/ast"
	"go/token"
	"go/types"
	"strings"
)

func init() { register("C30", checkC30) }

func checkC30(p *Prog, r *Result, tier string) {
	r.Technique = "defer-stack order and dominance rules on the per-workload closure of RunAndWait (go/cfg), channel/wait-group protocol rules for the output stream, write-ahead rule W2 for the lambda log entry"
	r.Explanation = "LV no goroutine started in the loop over the create messages captures the loop variable (each workload is waited for, logged and removed by its own goroutine); In the per-workload closure of RunAndWait: D1 wg.Done is the first registered defer and the final-message send the second (so the exit-code/err message is the last message of that workload and the wait group is always released); D2 the removal defer is registered after the commit defer (LIFO: removal runs before the log entry is committed) and both after the final-send defer; D3 every engine/store interaction of the closure (before or after the log entry) is dominated by the registration of the removal defer (no path can leave a started workload without the removal armed); D4 the removal runs under a context detached from the caller's cancellation; H1/H5 the output channel is closed exactly once by a first-statement defer after waiting for every per-workload goroutine; W2 the lambda log entry is committed only after removal; RS removal is synchronous (drains the remove stream); DR the RPC handler keeps receiving from the run-and-wait channel until it closes (the producers send without an escape, so an early exit of the consumer strands them before their cleanup)."
	r.NotCovered = "removal failures being ignored by doRemoveWorkloadSync (it only logs); engine behaviour; the content of the exit message"
	a := newChanAnalyzer(p, r)
	F := p.Fn("cluster/calcium.(*Calcium).RunAndWait")
	if a == nil || F == nil {
		r.undecided("anchor", "RunAndWait", "", "not found")
		return
	}
	r.min("H1", 1)
	r.min("H5", 1)
	r.min("D1", 1)
	r.min("D2", 1)
	r.min("D3", 1)
	r.min("D4", 1)
	r.min("W2", 1)
	a.checkStream(r, F, 1)
	// the per-workload closure: the literal that logs eventCreateLambda
	var L *FuncNode
	var site *walSite
	for _, s := range findWalSites(p, r) {
		if s.spec.constName == "eventCreateLambda" && topOf(s.fn) == F {
			L, site = s.fn, s
		}
	}
	if L == nil {
		r.undecided("anchor", "RunAndWait per-workload closure", p.pos(F.Decl), "no closure logging eventCreateLambda found")
		return
	}
	key := L.Name
	// classify the top-level defers of L in registration order
	type dinfo struct {
		idx  int
		kind string
		lit  *FuncNode
		node ast.Stmt
	}
	var defers []dinfo
	var T types.Type
	for ch := range findMadeChans(F) {
		T = ch.Type()
	}
	for i, st := range L.Body.List {
		ds, ok := st.(*ast.DeferStmt)
		if !ok {
			continue
		}
		d := dinfo{idx: i, kind: "other", node: st}
		if _, ok := wgCall(L, ds.Call, "Done"); ok {
			d.kind = "done"
		} else if lit, ok := unparen(ds.Call.Fun).(*ast.FuncLit); ok {
			d.lit = p.ByLit[lit]
			switch {
			case a.sendsOnType(d.lit, T, 0, map[*FuncNode]bool{}):
				d.kind = "send"
			case len(d.lit.callsDeep(func(f *types.Func) bool { return strings.HasSuffix(objName(f), ".doRemoveWorkloadSync") })) > 0:
				d.kind = "remove"
			default:
				// commit: calls the Commit variable
				if site.commit != nil {
					cs, _ := commitCalls(p, d.lit, site.commit)
					if len(cs) > 0 {
						d.kind = "commit"
					}
				}
			}
		}
		defers = append(defers, d)
	}
	pos := func(kind string) int {
		for i, d := range defers {
			if d.kind == kind {
				return i
			}
		}
		return -1
	}
	iDone, iSend, iCommit, iRemove := pos("done"), pos("send"), pos("commit"), pos("remove")
	// D1
	if iDone == 0 && len(defers) > 0 && defers[0].idx == 0 && iSend == 1 && defers[1].idx == 1 {
		pat, why := a.sendPattern(L, T)
		_ = pat
		r.ok("D1", key+" / Done first, final message second", p.pos(L.Lit), "defer wg.Done(); defer send(final message) — "+why)
	} else {
		r.bad("D1", key+" / Done first, final message second", p.pos(L.Lit), fmt.Sprintf("defer order changed (done #%d, final send #%d): an early return above them skips the final message or the wait group release, so the output stream never closes or loses the exit message", iDone, iSend))
	}
	// D2
	if iCommit >= 0 && iRemove >= 0 && iRemove > iCommit && iCommit > iSend && iSend >= 0 {
		r.ok("D2", key+" / removal runs before commit, both before the final message", p.pos(defers[iRemove].node), "registered: send < commit < remove (LIFO: remove, commit, send, done)")
	} else {
		r.bad("D2", key+" / removal runs before commit, both before the final message", p.pos(L.Lit), fmt.Sprintf("defer registration order is send #%d, commit #%d, remove #%d: the log entry would be committed before the workload is removed (a crash in between leaks the workload), or a defer is missing", iSend, iCommit, iRemove))
	}
	// D3: engine/store interactions after the Log are dominated by the removal registration
	if iRemove >= 0 {
		regRef := L.find(defers[iRemove].node)
		var bad []string
		n := 0
		L.inspectBody(func(x ast.Node) bool {
			c, ok := x.(*ast.CallExpr)
			if !ok {
				return true
			}
			f := L.Callee(c)
			if f == nil {
				return true
			}
			nm := objName(f)
			if strings.HasPrefix(nm, "engine.API.") || strings.HasSuffix(nm, ".GetWorkload") || strings.HasSuffix(nm, ".processStdStream") || strings.HasSuffix(nm, ".processVirtualizationInStream") {
				n++
				if !L.dominates(regRef, L.find(c)) {
					bad = append(bad, exprStr(c.Fun)+" at "+p.pos(c))
				}
			}
			return true
		})
		if len(bad) == 0 && n > 0 {
			r.ok("D3", key+" / interactions happen with the removal armed", p.pos(defers[iRemove].node), fmt.Sprintf("%d engine/store interactions dominated by the removal defer", n))
		} else {
			r.bad("D3", key+" / interactions happen with the removal armed", p.pos(L.Lit), "not dominated by the registration of the removal defer: "+strings.Join(bad, ", ")+": a failure there returns without removing the workload")
		}
		// D4: detached context
		rl := defers[iRemove].lit
		detached := false
		if rl != nil {
			var rmCall *ast.CallExpr
			for _, c := range rl.callsDeep(func(f *types.Func) bool { return strings.HasSuffix(objName(f), ".doRemoveWorkloadSync") }) {
				rmCall = c
			}
			if rmCall != nil {
				if s, ok := ctxOriginDetached(p, rl, rmCall.Args[0]); ok {
					detached = s
				}
			}
		}
		r.check(detached, "D4", key+" / removal context is detached from the caller", p.pos(defers[iRemove].node), "context derives from utils.NewInheritCtx", "the removal runs under the caller's (possibly cancelled) context: a cancelled run-and-wait leaves its workload behind")
	} else {
		r.bad("D3", key+" / interactions happen with the removal armed", p.pos(L.Lit), "no deferred removal found")
		r.bad("D4", key+" / removal context is detached from the caller", p.pos(L.Lit), "no deferred removal found")
	}
	// W2
	ta := newTxnAnalyzer(p, r)
	if ta != nil {
		checkW2(p, r, ta, site, fmt.Sprintf("%s logs %s", site.fn.Name, site.spec.constName), nil)
	}
	// RS: doRemoveWorkloadSync drains the remove stream
	if rs := p.Fn("cluster/calcium.(*Calcium).doRemoveWorkloadSync"); rs != nil {
		drains := false
		rs.inspectBody(func(n ast.Node) bool {
			if rg, ok := n.(*ast.RangeStmt); ok {
				if _, isChan := rs.typeOf(rg.X).Underlying().(*types.Chan); isChan {
					drains = true
				}
			}
			return true
		})
		calls := len(rs.calls(func(f *types.Func) bool { return strings.HasSuffix(objName(f), ".RemoveWorkload") }))
		r.check(drains && calls == 1, "RS", rs.Name+" removes synchronously", p.pos(rs.Decl), "calls RemoveWorkload and ranges over its result channel until it closes", "removal is no longer waited for: the log entry can be committed while the workload still exists")
	} else {
		r.undecided("RS", "doRemoveWorkloadSync", "", "not found")
	}
	checkRunAndWaitDrained(p, r)
	// LV: the per-workload goroutines of a run-and-wait each handle THEIR create message: a closure handed to the pool inside
	// the loop over the create messages must not capture the loop variable (go.mod < 1.22: one variable for all iterations)
	r.min("LV", 1)
	checkLoopVarCapture(p, r, "LV", []string{"cluster/calcium.(*Calcium).RunAndWait"})
}

// DR: the per-workload goroutines send on an unbuffered channel with no escape, so their cleanup (removal, exit code,
// log commit) is only reached if the consumer keeps receiving until the channel closes. Every loop of the RPC handler that
// ranges over the run-and-wait channel must therefore have no early exit.
func checkRunAndWaitDrained(p *Prog, r *Result) {
	r.min("DR", 2)
	H := p.Fn("rpc.(*Vibranium).RunAndWait")
	if H == nil {
		r.undecided("DR", "rpc.(*Vibranium).RunAndWait", "", "not found")
		return
	}
	isMsgChan := func(t types.Type) bool {
		ch, ok := t.Underlying().(*types.Chan)
		return ok && strings.HasSuffix(ch.Elem().String(), "types.AttachWorkloadMessage")
	}
	n := 0
	var visit func(fn *FuncNode)
	visit = func(fn *FuncNode) {
		fn.inspectBody(func(x ast.Node) bool {
			rg, ok := x.(*ast.RangeStmt)
			if !ok || fn.typeOf(rg.X) == nil || !isMsgChan(fn.typeOf(rg.X)) {
				return true
			}
			n++
			key := fmt.Sprintf("%s / loop #%d over the run-and-wait messages runs until the channel closes", fn.Name, n)
			why := ""
			var walk func(node ast.Node, inInnerLoop bool)
			walk = func(node ast.Node, inInnerLoop bool) {
				ast.Inspect(node, func(y ast.Node) bool {
					switch s := y.(type) {
					case *ast.FuncLit:
						return false
					case *ast.ReturnStmt:
						why = "return at " + p.pos(s)
					case *ast.BranchStmt:
						if s.Tok == token.GOTO || (s.Tok == token.BREAK && (!inInnerLoop || s.Label != nil)) {
							why = s.Tok.String() + " at " + p.pos(s)
						}
					case *ast.ForStmt:
						if y != node {
							walk(s.Body, true)
							return false
						}
					case *ast.RangeStmt:
						if y != node {
							walk(s.Body, true)
							return false
						}
					case *ast.SwitchStmt, *ast.SelectStmt, *ast.TypeSwitchStmt:
						if y != node {
							walk(y.(ast.Stmt), true) // a bare break leaves the switch/select, not the loop
							return false
						}
					case *ast.CallExpr:
						if id, ok := s.Fun.(*ast.Ident); ok && id.Name == "panic" {
							why = "panic at " + p.pos(s)
						}
					}
					return true
				})
			}
			walk(rg.Body, false)
			if why == "" {
				r.ok("DR", key, p.pos(rg), "no early exit")
			} else {
				r.bad("DR", key, p.pos(rg), "the consumer stops receiving ("+why+") while workloads may still be producing: their goroutines block forever on the unbuffered channel before reaching removal, exit-code report and log commit, and the stream never closes")
			}
			return true
		})
		for _, l := range fn.Lits {
			visit(l)
		}
	}
	visit(H)
}

// ctxOriginDetached: identifier e (a context) is defined from context.With*(utils.NewInheritCtx(..)) or utils.NewInheritCtx(..).
func ctxOriginDetached(p *Prog, fn *FuncNode, e ast.Expr) (bool, bool) {
	id, ok := unparen(e).(*ast.Ident)
	if !ok {
		return false, false
	}
	obj := fn.Pkg.TypesInfo.ObjectOf(id)
	var rhs ast.Expr
	n := 0
	ast.Inspect(fn.Body, func(x ast.Node) bool {
		if as, ok := x.(*ast.AssignStmt); ok && len(as.Rhs) == 1 {
			if l, ok := as.Lhs[0].(*ast.Ident); ok && fn.Pkg.TypesInfo.ObjectOf(l) == obj {
				n++
				rhs = as.Rhs[0]
			}
		}
		return true
	})
	if n != 1 {
		return false, true
	}
	found := false
	ast.Inspect(rhs, func(x ast.Node) bool {
		if c, ok := x.(*ast.CallExpr); ok {
			if f := fn.Callee(c); f != nil && objName(f) == "utils.NewInheritCtx" {
				found = true
			}
		}
		return true
	})
	return found, true
}
