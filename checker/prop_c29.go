package main

// C29: file transfers always finish and report one result per target.

import (
	"fmt"
	"go/ast"
	"go/token"
	"go/types"
	"strings"
)

func init() { register("C29", checkC29) }

func checkC29(p *Prog, r *Result, tier string) {
	r.Technique = "channel/wait-group/pipe protocol rules on go/cfg: close-on-all-paths, join-before-close, pipe reader released on every consumer exit, bounded-buffer drain after early loop exit, loop lower-bound of the chunker"
	r.Explanation = "PERF the multi-file Send RPC opens one transfer stream per file (a per-target sender serves one destination path only); DUP the dispatcher hands every chunk to each DISTINCT target once (duplicated target ids are skipped per chunk); H1/H5 both send streams (SendLargeFile, Send) are closed exactly once by a first-statement defer after every sender goroutine (defer wg.Done() first, Add before spawn) was waited for; FD the goroutines feeding the input channel close it by a first-statement defer; " +
		"H4 the per-target pipe: the consumer releases the pipe reader on every exit (deferred Close) — otherwise a consumer that never reads (missing target, lock failure) leaves the writer blocked forever; H6 the per-target goroutine drains its bounded buffer after leaving the receive loop early, so the dispatcher never blocks on a broken target; the writer end is closed on every path; " +
		"H2 each consumer reports exactly one message per file (inside the lock callback, or the lock error); CH the chunker emits at least one chunk for every file, including an empty one."
	r.NotCovered = "byte identity of the content, owner and mode (data, not shape); engine behaviour"
	a := newChanAnalyzer(p, r)
	if a == nil {
		return
	}
	r.min("H1", 2)
	r.min("H5", 2)
	r.min("H4", 1)
	r.min("H6", 1)
	r.min("H2", 1)
	r.min("CH", 1)
	r.min("FD", 2)
	r.min("RO", 1)
	checkSharedChunkReadOnly(p, r)
	for _, nm := range []string{"cluster/calcium.(*Calcium).SendLargeFile", "cluster/calcium.(*Calcium).Send"} {
		F := p.Fn(nm)
		if F == nil {
			r.undecided("anchor", nm, "", "not found")
			continue
		}
		a.checkStream(r, F, 1)
	}
	// feeders in rpc: goroutines that send on the input channel of SendLargeFile close it first-statement
	for _, nm := range []string{"rpc.(*Vibranium).Send", "rpc.(*Vibranium).SendLargeFile"} {
		F := p.Fn(nm)
		if F == nil {
			r.undecided("FD", nm, "", "not found")
			continue
		}
		for ch, at := range findMadeChans(F) {
			key := fmt.Sprintf("%s / input chan %s closed by its feeder", nm, ch.Name())
			ok := false
			for _, sp := range a.asyncSpawns(F) {
				S := sp.S
				if len(S.Body.List) == 0 {
					continue
				}
				if d, isD := S.Body.List[0].(*ast.DeferStmt); isD && isBuiltinCall(S, d.Call, "close") && S.objOf(d.Call.Args[0]) == ch {
					ok = true
				}
			}
			r.check(ok, "FD", key, p.pos(at), "defer close(input) is the first statement of the feeding goroutine", "the goroutine feeding the transfer does not close its channel on every exit: the dispatcher waits for more chunks forever")
		}
	}
	checkPipeConsumer(p, r, a)
	checkChunker(p, r)
	// DUP: a target named twice gets each chunk once: the loop that hands a chunk to the per-target senders either ranges
	// over a de-duplicated id list or skips ids it has already served for this chunk (a set declared inside the per-chunk
	// loop, tested with `continue` before the send)
	{
		r.min("DUP", 1)
		D := p.Fn("cluster/calcium.(*Calcium).SendLargeFile")
		key := "cluster/calcium.(*Calcium).SendLargeFile / every chunk goes to each distinct target once"
		if D == nil {
			r.undecided("DUP", key, "", "not found")
		} else {
			why := "no loop over the target ids that hands the chunk to a sender found"
			for _, fn := range append([]*FuncNode{D}, D.Lits...) {
				fn.inspectBody(func(n ast.Node) bool {
					outer, ok := n.(*ast.RangeStmt)
					if !ok {
						return true
					}
					// the per-chunk loop ranges over the input channel
					if t := fn.typeOf(outer.X); t == nil {
						return true
					} else if _, isChan := t.Underlying().(*types.Chan); !isChan {
						return true
					}
					for _, st := range outer.Body.List {
						inner, ok := st.(*ast.RangeStmt)
						if !ok || !strings.HasSuffix(exprStr(inner.X), ".IDs") && !strings.Contains(exprStr(inner.X), "IDs") {
							continue
						}
						var send *ast.CallExpr
						ast.Inspect(inner.Body, func(x ast.Node) bool {
							if c, ok := x.(*ast.CallExpr); ok && fn.Callee(c) != nil && fn.Callee(c).Name() == "send" {
								send = c
							}
							return true
						})
						if send == nil {
							continue
						}
						// de-duplicated operand?
						if c, ok := unparen(inner.X).(*ast.CallExpr); ok && fn.Callee(c) != nil && strings.Contains(strings.ToLower(fn.Callee(c).Name()), "uniq") {
							why = ""
							continue
						}
						// seen-set declared in the per-chunk loop body, tested before the send with a continue
						why = "the loop over the target ids sends the chunk once per LISTED id: a workload named twice receives every chunk twice and ends up with a file twice the size"
						for _, st2 := range outer.Body.List {
							as, ok := st2.(*ast.AssignStmt)
							if !ok || as.Tok != token.DEFINE || len(as.Lhs) != 1 || as.Pos() > inner.Pos() {
								continue
							}
							set := fn.objOf(as.Lhs[0])
							if t := fn.typeOf(as.Lhs[0]); t == nil {
								continue
							} else if _, isMap := t.Underlying().(*types.Map); !isMap {
								continue
							}
							tested, marked := false, false
							for _, ist := range inner.Body.List {
								if ist.Pos() > send.Pos() {
									break
								}
								switch y := ist.(type) {
								case *ast.IfStmt:
									if fn.usesObj(y, set) && len(y.Body.List) > 0 {
										if b, ok := y.Body.List[len(y.Body.List)-1].(*ast.BranchStmt); ok && b.Tok == token.CONTINUE {
											tested = true
										}
									}
								case *ast.AssignStmt:
									if len(y.Lhs) == 1 {
										if ix, ok := unparen(y.Lhs[0]).(*ast.IndexExpr); ok && fn.objOf(ix.X) == set {
											marked = true
										}
									}
								}
							}
							if tested && marked {
								why = ""
							}
						}
					}
					return true
				})
			}
			r.check2(why, "DUP", key, p.pos(D.Decl), "ids already served for the chunk are skipped (per-chunk set, test-and-continue before the send)")
		}
	}
	// PERF: the multi-file Send opens one transfer stream PER FILE: a per-target sender serves a single destination path
	// (it stops at the first chunk of another file), so several files over one stream lose all files but the first
	if S := p.Fn("rpc.(*Vibranium).Send"); S == nil {
		r.undecided("PERF", "rpc.(*Vibranium).Send", "", "not found")
	} else {
		r.min("PERF", 1)
		why := "no call of cluster.SendLargeFile found in Send"
		S.inspectBody(func(n ast.Node) bool {
			c, ok := n.(*ast.CallExpr)
			if !ok || S.Callee(c) == nil || S.Callee(c).Name() != "SendLargeFile" {
				return true
			}
			why = "the transfer stream is opened once for all files of the request (" + p.pos(c) + "): the per-target sender in calcium serves one destination and drops every chunk of a different file, so all files after the first are silently not written and get no result"
			S.inspectBody(func(y ast.Node) bool {
				if rs, ok := y.(*ast.RangeStmt); ok && strings.HasSuffix(exprStr(rs.X), ".Files") && rs.Body.Pos() <= c.Pos() && c.End() <= rs.Body.End() {
					why = ""
				}
				return true
			})
			return true
		})
		r.check2(why, "PERF", "rpc.(*Vibranium).Send / one transfer stream per file", p.pos(S.Decl), "SendLargeFile is called inside the loop over the request's files")
	}
}

// checkPipeConsumer: H4, H6, H2 and writer close in newWorkloadSender.
func checkPipeConsumer(p *Prog, r *Result, a *chanAnalyzer) {
	N := p.Fn("cluster/calcium.(*Calcium).newWorkloadSender")
	if N == nil {
		r.undecided("H4", "newWorkloadSender", "", "not found")
		return
	}
	// the pipe
	var pipeFn *FuncNode
	var rdObj, wrObj types.Object
	ast.Inspect(N.Body, func(n ast.Node) bool {
		if as, ok := n.(*ast.AssignStmt); ok && len(as.Rhs) == 1 && len(as.Lhs) == 2 {
			if c, ok := unparen(as.Rhs[0]).(*ast.CallExpr); ok {
				fn := p.enclosing(N.Pkg, c.Pos())
				if f := fn.Callee(c); f != nil && fullObjName(f) == "io.Pipe" {
					pipeFn = fn
					rdObj, wrObj = fn.objOf(as.Lhs[0]), fn.objOf(as.Lhs[1])
				}
			}
		}
		return true
	})
	if pipeFn == nil {
		r.undecided("H4", N.Name+" / pipe", p.pos(N.Decl), "io.Pipe() not found")
		return
	}
	// the consumer: the async closure that receives the reader (argument of an immediately-invoked wrapper) or captures it
	var consumer *FuncNode
	for _, sp := range a.asyncSpawns(pipeFn) {
		consumer = sp.S
	}
	key := N.Name + " / pipe reader released on every consumer exit"
	if consumer == nil {
		r.undecided("H4", key, p.pos(N.Decl), "consumer goroutine of the pipe not found")
		return
	}
	// the reader inside the consumer: the captured variable itself, or the parameter of the immediately-invoked
	// wrapper literal that receives it as an argument
	readers := map[types.Object]bool{rdObj: true}
	if w := consumer.Parent; w != nil && w.Lit != nil && w != pipeFn {
		pipeFn.inspectBody(func(n ast.Node) bool {
			c, ok := n.(*ast.CallExpr)
			if !ok || unparen(c.Fun) != ast.Expr(w.Lit) {
				return true
			}
			i := 0
			for _, fld := range w.Type.Params.List {
				for _, nm := range fld.Names {
					if i < len(c.Args) && pipeFn.objOf(c.Args[i]) == rdObj {
						readers[w.Pkg.TypesInfo.Defs[nm]] = true
					}
					i++
				}
			}
			return true
		})
	}
	// deferred Close/CloseWithError on the reader object among the top-level defers of the consumer
	released := false
	for _, st := range consumer.Body.List {
		if d, ok := st.(*ast.DeferStmt); ok {
			if sel, ok := unparen(d.Call.Fun).(*ast.SelectorExpr); ok && (sel.Sel.Name == "Close" || sel.Sel.Name == "CloseWithError") {
				if o := consumer.objOf(sel.X); o != nil && readers[o] {
					released = true
				}
			}
		}
	}
	if released {
		r.ok("H4", key, p.pos(consumer.Lit), "defer reader.Close() in the consumer")
	} else {
		r.bad("H4", key, p.pos(consumer.Lit), "the consumer can return without reading (workload lookup or lock fails) and never closes the pipe reader: the unbuffered pipe writer blocks forever and the transfer of a multi-chunk file never finishes")
	}
	// writer closed on every path of the per-target goroutine
	wkey := N.Name + " / pipe writer closed when the chunks end"
	var wvar types.Object // the variable the writer is stored in (writer = pw)
	pipeFn.inspectBody(func(n ast.Node) bool {
		if as, ok := n.(*ast.AssignStmt); ok && len(as.Lhs) == 1 && len(as.Rhs) == 1 && pipeFn.objOf(as.Rhs[0]) == wrObj {
			wvar = pipeFn.objOf(as.Lhs[0])
		}
		return true
	})
	closed := mustPassFromEntry(pipeFn, func(x nodeRef) bool {
		n := x.node()
		found := false
		if n != nil {
			inspectNoLit(n, func(y ast.Node) bool {
				if c, ok := y.(*ast.CallExpr); ok {
					if sel, ok := unparen(c.Fun).(*ast.SelectorExpr); ok && sel.Sel.Name == "Close" {
						if o := pipeFn.objOf(sel.X); o != nil && (o == wrObj || o == wvar) {
							found = true
						}
					}
				}
				return !found
			})
		}
		return found
	})
	r.check(closed, "H4", wkey, p.pos(pipeFn.Lit), "writer.Close() on every path", "the pipe writer is not closed on every path: the engine copy never sees EOF")
	// H6: receive loop over the bounded buffer with early exits must be followed by a drain loop
	dkey := N.Name + " / per-target buffer drained after an early exit"
	var loop *ast.RangeStmt
	pipeFn.inspectBody(func(n ast.Node) bool {
		if rs, ok := n.(*ast.RangeStmt); ok && loop == nil {
			if _, isChan := pipeFn.typeOf(rs.X).Underlying().(*types.Chan); isChan {
				loop = rs
			}
		}
		return true
	})
	if loop == nil {
		r.undecided("H6", dkey, p.pos(pipeFn.Lit), "receive loop not found")
	} else {
		hasBreak := false
		inspectNoLit(loop.Body, func(y ast.Node) bool {
			switch b := y.(type) {
			case *ast.BranchStmt:
				if b.Tok == token.BREAK {
					hasBreak = true
				}
			case *ast.ReturnStmt:
				hasBreak = true
			case *ast.ForStmt, *ast.RangeStmt, *ast.SwitchStmt, *ast.SelectStmt:
				if y != ast.Node(loop.Body) {
					return false
				}
			}
			return true
		})
		drained := false
		for _, st := range pipeFn.Body.List {
			if rs, ok := st.(*ast.RangeStmt); ok && rs != loop && rs.Pos() > loop.End() && exprStr(rs.X) == exprStr(loop.X) && len(rs.Body.List) == 0 {
				drained = true
			}
		}
		if !hasBreak || drained {
			r.ok("H6", dkey, p.pos(loop), "early exits of the receive loop are followed by a drain of the buffer")
		} else {
			r.bad("H6", dkey, p.pos(loop), "the per-target goroutine leaves its receive loop early (write error, mixed files) and stops reading its 10-slot buffer: the dispatcher blocks on the 11th further chunk and the whole transfer hangs")
		}
	}
	// H2: exactly one message per consumer run
	hkey := consumer.Name + " / exactly one result per target and file"
	var T types.Type
	if F := p.Fn("cluster/calcium.(*Calcium).SendLargeFile"); F != nil {
		for ch := range findMadeChans(F) {
			T = ch.Type()
		}
	}
	if T == nil {
		r.undecided("H2", hkey, "", "stream type not found")
		return
	}
	// shape: if err := helper(ctx, id, false, func(...) error { ...; resp <- msg; return nil }); err != nil { resp <- msg }
	okShape, why := false, "consumer does not have the shape `if err := withWorkloadLocked(.., func{ ..send..; return nil }); err != nil { send }`"
	consumer.inspectBody(func(n ast.Node) bool {
		is, ok := n.(*ast.IfStmt)
		if !ok || is.Init == nil || is.Else != nil {
			return true
		}
		as, ok := is.Init.(*ast.AssignStmt)
		if !ok || len(as.Rhs) != 1 {
			return true
		}
		call, ok := unparen(as.Rhs[0]).(*ast.CallExpr)
		if !ok {
			return true
		}
		if _, _, cb, _, isHelper := a.g.helperCall(consumer, call); isHelper && cb != nil {
			pat, w := a.sendPattern(cb, T)
			// callback returns nil on every path
			retNil := true
			cb.inspectBody(func(y ast.Node) bool {
				if rt, ok := y.(*ast.ReturnStmt); ok && (len(rt.Results) != 1 || !isNilIdent(rt.Results[0])) {
					retNil = false
				}
				return true
			})
			nElse := 0
			for _, st := range is.Body.List {
				if s, ok := st.(*ast.SendStmt); ok && chanElemEq(consumer.typeOf(s.Chan), T) {
					nElse++
				}
			}
			if pat == "always-once" && retNil && nElse == 1 {
				okShape, why = true, "one message inside the lock callback (which always returns nil), one in the lock-error branch"
			} else {
				why = fmt.Sprintf("callback send pattern %s (%s), callback returns nil always: %v, sends in the error branch: %d", pat, w, retNil, nElse)
			}
		}
		return true
	})
	r.check(okShape, "H2", hkey, p.pos(consumer.Lit), why, why+": a target can end with zero or two results")
}

// CH: the chunk loop runs at least once for every file.
func checkChunker(p *Prog, r *Result) {
	fn := p.Fn("rpc.toSendLargeFileChunks")
	key := "rpc.toSendLargeFileChunks / at least one chunk per file"
	if fn == nil {
		r.undecided("CH", key, "", "not found")
		return
	}
	var loop *ast.ForStmt
	fn.inspectBody(func(n ast.Node) bool {
		if fs, ok := n.(*ast.ForStmt); ok && loop == nil {
			loop = fs
		}
		return true
	})
	if loop == nil {
		r.undecided("CH", key, p.pos(fn.Decl), "chunk loop not found")
		return
	}
	// zero-trip possible iff the condition is a bare `idx < len(x)` / `len(x) > idx` (no `idx == 0 ||` disjunct; a
	// condition-less do-while loop always runs once) and no emptiness guard anywhere in the function adds a chunk
	cond := exprStr(loop.Cond)
	zeroTrip := false
	if be, ok := unparen(loop.Cond).(*ast.BinaryExpr); ok && (be.Op == token.LSS || be.Op == token.GTR || be.Op == token.NEQ || be.Op == token.LEQ || be.Op == token.GEQ) {
		for _, side := range []ast.Expr{be.X, be.Y} {
			ast.Inspect(side, func(y ast.Node) bool {
				if c, ok := y.(*ast.CallExpr); ok && isBuiltinCall(fn, c, "len") {
					zeroTrip = true
				}
				return true
			})
		}
	}
	// an emptiness guard (before or after the loop) whose body appends or returns a chunk: if len(x) == 0 { ... }
	guard := false
	fn.inspectBody(func(n ast.Node) bool {
		if is, ok := n.(*ast.IfStmt); ok {
			if be, ok := unparen(is.Cond).(*ast.BinaryExpr); ok && be.Op == token.EQL {
				isLen := func(e ast.Expr) bool {
					c, ok := unparen(e).(*ast.CallExpr)
					return ok && isBuiltinCall(fn, c, "len")
				}
				isZero := func(e ast.Expr) bool {
					l, ok := unparen(e).(*ast.BasicLit)
					return ok && l.Value == "0"
				}
				if (isLen(be.X) && isZero(be.Y)) || (isLen(be.Y) && isZero(be.X)) {
					ast.Inspect(is.Body, func(y ast.Node) bool {
						switch z := y.(type) {
						case *ast.CallExpr:
							if isBuiltinCall(fn, z, "append") {
								guard = true
							}
						case *ast.ReturnStmt:
							if len(z.Results) == 1 {
								if _, isLit := unparen(z.Results[0]).(*ast.CompositeLit); isLit {
									guard = true
								}
							}
						}
						return true
					})
				}
			}
		}
		return true
	})
	if !zeroTrip || guard {
		r.ok("CH", key, p.pos(loop), "loop condition `"+cond+"` admits a first iteration for an empty file (or an explicit empty-file chunk is appended)")
	} else {
		r.bad("CH", key, p.pos(loop), "loop condition `"+cond+"` makes zero iterations for an empty file: no chunk, no sender, no result for any target, and the file is never created")
	}
}

// RO: one chunk message (pointer) is handed to the sender of every target, so a receiver must treat it as read-only:
// no function of cluster/calcium assigns to a field or element of a *types.SendLargeFileOptions it received from a channel.
func checkSharedChunkReadOnly(p *Prog, r *Result) {
	isOpt := func(t types.Type) bool {
		return t != nil && strings.HasSuffix(t.String(), "types.SendLargeFileOptions")
	}
	n := 0
	for _, fn := range p.sortedFuncs("cluster/calcium") {
		// variables bound to a received message
		recv := map[types.Object]bool{}
		fn.inspectBody(func(x ast.Node) bool {
			switch s := x.(type) {
			case *ast.RangeStmt:
				if ch, ok := fn.typeOf(s.X).Underlying().(*types.Chan); ok && isOpt(ch.Elem()) && s.Key != nil {
					recv[fn.objOf(s.Key)] = true
				}
			case *ast.AssignStmt:
				if len(s.Rhs) == 1 {
					if u, ok := unparen(s.Rhs[0]).(*ast.UnaryExpr); ok && u.Op == token.ARROW && isOpt(fn.typeOf(s.Rhs[0])) {
						recv[fn.objOf(s.Lhs[0])] = true
					}
				}
			}
			return true
		})
		// parameters of that type count as received too (send(chunk))
		for i := 0; ; i++ {
			o := fn.paramObj(i)
			if o == nil {
				break
			}
			if isOpt(o.Type()) {
				recv[o] = true
			}
		}
		if len(recv) == 0 {
			continue
		}
		n++
		var bad []string
		baseOf := func(e ast.Expr) types.Object {
			for {
				switch x := unparen(e).(type) {
				case *ast.SelectorExpr:
					e = x.X
				case *ast.IndexExpr:
					e = x.X
				case *ast.SliceExpr:
					e = x.X
				case *ast.StarExpr:
					e = x.X
				case *ast.Ident:
					return fn.objOf(x)
				default:
					return nil
				}
			}
		}
		ast.Inspect(fn.Body, func(x ast.Node) bool {
			var lhs []ast.Expr
			switch s := x.(type) {
			case *ast.AssignStmt:
				lhs = s.Lhs
			case *ast.IncDecStmt:
				lhs = []ast.Expr{s.X}
			}
			for _, l := range lhs {
				if _, plain := unparen(l).(*ast.Ident); plain {
					continue
				}
				if o := baseOf(l); o != nil && recv[o] {
					bad = append(bad, exprStr(l)+" at "+p.pos(x))
				}
			}
			return true
		})
		key := fn.Name + " / a received file chunk is not modified (the same message goes to every target)"
		r.check(len(bad) == 0, "RO", key, p.pos(fn.Body), "no write through the received message",
			"writes "+strings.Join(bad, "; ")+": the chunk object is shared by the senders of all targets, so a target that is behind reads the modified (emptied) chunk and gets different content while still reporting success")
	}
	if n == 0 {
		r.undecided("RO", "cluster/calcium / receivers of file chunks", "", "no function receives *types.SendLargeFileOptions")
	}
}
