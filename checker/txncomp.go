package main

// E1: compensation completeness of utils.Txn / utils.PCR call sites (T1-T5), closure context discipline (TC).

import (
	"fmt"
	"go/ast"
	"go/token"
	"go/types"
	"sort"
	"strings"
)

// effectSpec: a call with a lasting effect and the calls that undo it.
type effectSpec struct {
	name     string
	inverses []string
	usage    bool // changes recorded node usage/capacity (C10)
	incrArg  int  // index of the incr/decr constant argument (or -1)
	why      string
}

var effectTable = []effectSpec{
	{"resource.Manager.Alloc", []string{"resource.Manager.RollbackAlloc"}, true, -1, "raises node usage by the allocated resources"},
	{"resource.Manager.Realloc", []string{"resource.Manager.RollbackRealloc"}, true, -1, "changes node usage by the realloc delta"},
	{"resource.Manager.SetNodeResourceUsage", []string{"resource.Manager.SetNodeResourceUsage"}, true, 6, "incr/decr node usage"},
	{"resource.Manager.SetNodeResourceCapacity", []string{"resource.Manager.SetNodeResourceCapacity"}, true, -1, "changes node capacity"},
	{"resource.Manager.AddNode", []string{"resource.Manager.RemoveNode"}, false, -1, "creates node resource records in every plugin"},
	{"resource.Manager.RemoveNode", []string{"resource.Manager.AddNode"}, false, -1, "removes node resource records"},
	{"store.Store.AddWorkload", []string{"store.Store.RemoveWorkload"}, false, -1, "records a workload"},
	{"store.Store.RemoveWorkload", []string{"store.Store.AddWorkload"}, false, -1, "removes a workload record"},
	{"store.Store.UpdateWorkload", []string{"store.Store.UpdateWorkload"}, false, -1, "rewrites a workload record"},
	{"store.Store.AddNode", []string{"store.Store.RemoveNode"}, false, -1, "records a node"},
	{"store.Store.RemoveNode", []string{"store.Store.AddNode"}, false, -1, "removes a node record"},
	{"store.Store.UpdateNodes", []string{"store.Store.UpdateNodes"}, false, -1, "rewrites node records"},
	{"store.Store.CreateProcessing", []string{"store.Store.DeleteProcessing"}, false, -1, "creates an in-progress marker"},
	{"engine.API.VirtualizationCreate", []string{"engine.API.VirtualizationRemove", "types.(*Workload).Remove"}, false, -1, "creates a container/VM"},
	{"cluster/calcium.(*Calcium).doStopWorkload", []string{"cluster/calcium.(*Calcium).doStartWorkload"}, false, -1, "stops a running workload"},
	{"cluster/calcium.(*Calcium).doDeployOneWorkload", []string{"cluster/calcium.(*Calcium).doRemoveWorkload", "store.Store.RemoveWorkload"}, false, -1, "composite: creates, records and starts one workload (itself a Txn)"},
	{"cluster/calcium.(*Calcium).doRemoveWorkload", []string{"store.Store.AddWorkload"}, false, -1, "composite: removes record and container (itself a Txn)"},
	// plugin level (resource/cobalt PCR sites)
	{"resource/cobalt.Manager.SetNodeResourceUsage", []string{"resource/cobalt.Manager.SetNodeResourceUsage"}, true, 6, "composite: PCR over all plugins"},
	{"resource/plugins.Plugin.AddNode", []string{"resource/plugins.Plugin.RemoveNode"}, false, -1, "plugin creates node resource record"},
	{"resource/plugins.Plugin.RemoveNode", []string{"resource/plugins.Plugin.SetNodeResourceInfo", "resource/plugins.Plugin.AddNode"}, false, -1, "plugin deletes node resource record"},
	{"resource/plugins.Plugin.SetNodeResourceUsage", []string{"resource/plugins.Plugin.SetNodeResourceUsage"}, true, -1, "plugin rewrites node usage"},
	{"resource/plugins.Plugin.SetNodeResourceCapacity", []string{"resource/plugins.Plugin.SetNodeResourceCapacity"}, true, -1, "plugin rewrites node capacity"},
	{"resource/plugins.Plugin.SetNodeResourceInfo", []string{"resource/plugins.Plugin.SetNodeResourceInfo"}, true, -1, "plugin rewrites node capacity and usage"},
	{"resource/plugins.Plugin.FixNodeResource", nil, true, -1, "plugin rewrites usage from workloads"},
}

func effectOf(name string) *effectSpec {
	for i := range effectTable {
		if effectTable[i].name == name {
			return &effectTable[i]
		}
	}
	return nil
}

type txnSite struct {
	fn       *FuncNode
	call     *ast.CallExpr
	kind     string // Txn | PCR
	closures [3]*FuncNode
	isNil    [3]bool
	unres    []string
	key      string
}

var slotNames = map[string][3]string{"Txn": {"cond", "then", "rollback"}, "PCR": {"prepare", "commit", "rollback"}}

func findTxnSites(p *Prog) []*txnSite {
	var out []*txnSite
	for _, fn := range p.sortedFuncs() {
		if fn.Body == nil {
			continue
		}
		n := 0
		fn.inspectBody(func(x ast.Node) bool {
			c, ok := x.(*ast.CallExpr)
			if !ok {
				return true
			}
			f := fn.Callee(c)
			if f == nil {
				return true
			}
			nm := objName(f)
			if nm != "utils.Txn" && nm != "utils.PCR" {
				return true
			}
			if relPath(fn.Pkg.PkgPath) == "utils" {
				return true // PCR's own use of Txn is part of the combinator (C17)
			}
			n++
			s := &txnSite{fn: fn, call: c, kind: strings.TrimPrefix(nm, "utils.")}
			s.key = fmt.Sprintf("%s %s#%d", fn.Name, s.kind, n)
			for i := 0; i < 3; i++ {
				a := c.Args[1+i]
				k, ok := p.resolveFuncArg(fn, a)
				if !ok {
					s.unres = append(s.unres, slotNames[s.kind][i]+"="+exprStr(a))
				}
				s.closures[i] = k
				s.isNil[i] = ok && k == nil
			}
			out = append(out, s)
			return true
		})
	}
	return out
}

type effInst struct {
	spec          *effectSpec
	call          *ast.CallExpr
	fn            *FuncNode
	fallibleAfter bool
	why           string // which fallible step follows
	via           []string
}

// errDiscarded: the call's error result cannot influence control flow (bare statement, assigned to blank, go/defer operand).
func callFallible(fn *FuncNode, call *ast.CallExpr, parents map[ast.Node]ast.Node) bool {
	t := fn.typeOf(call)
	if t == nil {
		return false
	}
	hasErr := false
	switch tt := t.(type) {
	case *types.Tuple:
		if tt.Len() > 0 && tt.At(tt.Len()-1).Type().String() == "error" {
			hasErr = true
		}
	default:
		if t.String() == "error" {
			hasErr = true
		}
	}
	if !hasErr {
		return false
	}
	var par ast.Node = parents[call]
	for {
		if pe, ok := par.(*ast.ParenExpr); ok {
			par = parents[pe]
			continue
		}
		break
	}
	switch s := par.(type) {
	case *ast.ExprStmt, *ast.GoStmt, *ast.DeferStmt:
		return false
	case *ast.AssignStmt:
		if len(s.Rhs) == 1 {
			last := s.Lhs[len(s.Lhs)-1]
			if id, ok := last.(*ast.Ident); ok && id.Name == "_" {
				return false
			}
		}
	}
	return true
}

func parentMap(root ast.Node) map[ast.Node]ast.Node {
	m := map[ast.Node]ast.Node{}
	var stack []ast.Node
	ast.Inspect(root, func(n ast.Node) bool {
		if n == nil {
			stack = stack[:len(stack)-1]
			return false
		}
		if len(stack) > 0 {
			m[n] = stack[len(stack)-1]
		}
		stack = append(stack, n)
		return true
	})
	return m
}

var loggerLike = func(name string) bool {
	return strings.HasPrefix(name, "log.") || strings.Contains(name, "litter.") || strings.HasPrefix(name, "fmt.") || strings.HasPrefix(name, "errors.") || strings.Contains(name, "cockroachdb/errors")
}

// fallibleAfterNode: some CFG node reachable strictly after r (r itself again when in a loop) contains a fallible call.
func fallibleAfterNode(fn *FuncNode, r nodeRef, parents map[ast.Node]ast.Node) (bool, string) {
	why := ""
	_, hit := fn.reach(r, true, func(x nodeRef) bool {
		n := x.node()
		if n == nil {
			return false
		}
		found := false
		inspectNoLit(n, func(y ast.Node) bool {
			if _, isDefer := y.(*ast.DeferStmt); isDefer {
				return false
			}
			if _, isGo := y.(*ast.GoStmt); isGo {
				return false
			}
			if c, ok := y.(*ast.CallExpr); ok && !found {
				if f := fn.Callee(c); f != nil && loggerLike(fullObjName(f)) {
					return true
				}
				if callFallible(fn, c, parents) {
					found = true
					why = exprStr(c.Fun) + " at " + fmt.Sprint(fn.Pkg.Fset.Position(c.Pos()).Line)
				}
			}
			return !found
		})
		return found
	}, nil, false)
	return hit, why
}

type txnAnalyzer struct {
	p   *Prog
	g   *SCG
	par map[*FuncNode]map[ast.Node]ast.Node
}

func (a *txnAnalyzer) parents(fn *FuncNode) map[ast.Node]ast.Node {
	if m, ok := a.par[fn]; ok {
		return m
	}
	m := parentMap(fn.Body)
	a.par[fn] = m
	return m
}

// effects collects the lasting effects performed synchronously by fn (own body, synchronous closures, same-module callees
// that are not themselves table entries), each with whether a fallible step can follow it before fn returns.
func (a *txnAnalyzer) effects(fn *FuncNode, depth int, via []string) []effInst {
	return a.effectsC(fn, depth, via, nil)
}

// liveUnder returns the CFG blocks of fn reachable from the entry when the given boolean objects (parameters bound to
// constant arguments at the call that led here) have the given values.
func liveUnder(fn *FuncNode, consts map[types.Object]bool) map[int32]bool {
	g := fn.CFG()
	live := map[int32]bool{}
	stack := []int32{0}
	for len(stack) > 0 {
		bi := stack[len(stack)-1]
		stack = stack[:len(stack)-1]
		if live[bi] {
			continue
		}
		live[bi] = true
		b := g.Blocks[bi]
		if len(consts) > 0 && len(b.Succs) == 2 && len(b.Nodes) > 0 {
			if cond, ok := b.Nodes[len(b.Nodes)-1].(ast.Expr); ok {
				e := unparen(cond)
				neg := false
				if u, ok := e.(*ast.UnaryExpr); ok && u.Op == token.NOT {
					neg = true
					e = unparen(u.X)
				}
				if id, ok := e.(*ast.Ident); ok {
					if v, known := consts[fn.Pkg.TypesInfo.ObjectOf(id)]; known {
						if v != neg {
							stack = append(stack, b.Succs[0].Index)
						} else {
							stack = append(stack, b.Succs[1].Index)
						}
						continue
					}
				}
			}
		}
		for _, s := range b.Succs {
			stack = append(stack, s.Index)
		}
	}
	return live
}

func (a *txnAnalyzer) effectsC(fn *FuncNode, depth int, via []string, consts map[types.Object]bool) []effInst {
	if fn == nil || fn.Body == nil || depth > 3 {
		return nil
	}
	var out []effInst
	par := a.parents(fn)
	live := liveUnder(fn, consts)
	isLive := func(n ast.Node) bool {
		r := fn.find(n)
		return !r.valid() || live[r.b.Index]
	}
	fn.inspectBody(func(x ast.Node) bool {
		switch x.(type) {
		case *ast.GoStmt:
			return false
		}
		c, ok := x.(*ast.CallExpr)
		if !ok {
			return true
		}
		f := fn.Callee(c)
		if f == nil {
			return true
		}
		nm := objName(f)
		ref := fn.find(c)
		if ref.valid() && !live[ref.b.Index] {
			return true // unreachable under the constant arguments of the call that led here
		}
		if spec := effectOf(nm); spec != nil {
			fa, why := fallibleAfterNode(fn, ref, par)
			out = append(out, effInst{spec: spec, call: c, fn: fn, fallibleAfter: fa, why: why, via: via})
			return true
		}
		// descend into same-module callees (not async combinators)
		if t := a.p.ByObj[f]; t != nil && t != fn {
			if _, isAsync := asyncCallees[fullObjName(f)]; !isAsync && a.g.helpers[t] == nil && nm != "utils.Txn" && nm != "utils.PCR" {
				sub := a.effectsC(t, depth+1, append(append([]string{}, via...), shortName(t.Name)), bindConsts(fn, c, t, consts))
				if len(sub) > 0 {
					fa, why := fallibleAfterNode(fn, ref, par)
					for _, e := range sub {
						if fa && !e.fallibleAfter {
							e.fallibleAfter, e.why = true, why
						}
						out = append(out, e)
					}
				}
			}
		}
		return true
	})
	// synchronous closures
	for _, l := range fn.Lits {
		role := a.g.roles[l]
		switch role.kind {
		case "sync", "lockcb", "bound", "defer":
			if !isLive(l.Lit) {
				continue
			}
			sub := a.effectsC(l, depth+1, append(append([]string{}, via...), shortName(l.Name)), consts)
			if len(sub) == 0 {
				continue
			}
			fa, why := false, ""
			if role.kind != "defer" && role.call != nil {
				fa, why = fallibleAfterNode(fn, fn.find(role.call), par)
			}
			for _, e := range sub {
				if fa && !e.fallibleAfter {
					e.fallibleAfter, e.why = true, why
				}
				out = append(out, e)
			}
		}
	}
	return out
}

// bindConsts: boolean parameters of callee bound to constant arguments at call (plus the inherited bindings).
func bindConsts(fn *FuncNode, call *ast.CallExpr, callee *FuncNode, inherited map[types.Object]bool) map[types.Object]bool {
	out := map[types.Object]bool{}
	for k, v := range inherited {
		out[k] = v
	}
	for i, arg := range call.Args {
		po := callee.paramObj(i)
		if po == nil {
			continue
		}
		switch constBoolName(fn, arg) {
		case "true":
			out[po] = true
		case "false":
			out[po] = false
		default:
			if id, ok := unparen(arg).(*ast.Ident); ok {
				if v, known := inherited[fn.Pkg.TypesInfo.ObjectOf(id)]; known {
					out[po] = v
				}
			}
		}
	}
	return out
}

// fallible: the closure can return a non-nil error (it contains a fallible call or returns a non-nil error value).
func (a *txnAnalyzer) fallible(fn *FuncNode) bool {
	if fn == nil {
		return false
	}
	par := a.parents(fn)
	found := false
	ast.Inspect(fn.Body, func(n ast.Node) bool {
		if c, ok := n.(*ast.CallExpr); ok && !found {
			if f := fn.Callee(c); f != nil && loggerLike(fullObjName(f)) {
				return true
			}
			if callFallible(fn, c, par) {
				found = true
			}
		}
		return !found
	})
	return found
}

// flagParam returns the object of the rollback closure's failureByCond parameter (nil if unnamed/blank).
func flagParam(rb *FuncNode) types.Object {
	if rb == nil || rb.Type.Params == nil {
		return nil
	}
	i := 0
	for _, f := range rb.Type.Params.List {
		for _, id := range f.Names {
			if i == 1 && id.Name != "_" {
				return rb.Pkg.TypesInfo.ObjectOf(id)
			}
			i++
		}
		if len(f.Names) == 0 {
			i++
		}
	}
	return nil
}

// reachableCalls lists the calls of fn reachable from entry under the assumption flag==val (flag may be nil: no assumption),
// descending into synchronous closures and same-module callees (depth<=3).
func (a *txnAnalyzer) reachableCalls(fn *FuncNode, flag types.Object, val bool, depth int, out *[]reachedCall) {
	if fn == nil || fn.Body == nil || depth > 3 {
		return
	}
	g := fn.CFG()
	seen := map[int32]bool{}
	var stack = []int32{0}
	for len(stack) > 0 {
		bi := stack[len(stack)-1]
		stack = stack[:len(stack)-1]
		if seen[bi] {
			continue
		}
		seen[bi] = true
		b := g.Blocks[bi]
		for _, n := range b.Nodes {
			inspectNoLit(n, func(y ast.Node) bool {
				if c, ok := y.(*ast.CallExpr); ok {
					if f := fn.Callee(c); f != nil {
						*out = append(*out, reachedCall{fn, c, objName(f)})
						if t := a.p.ByObj[f]; t != nil && t != fn && effectOf(objName(f)) == nil {
							if _, isAsync := asyncCallees[fullObjName(f)]; !isAsync {
								a.reachableCalls(t, nil, false, depth+1, out)
							}
						}
					}
					// closures passed as arguments or invoked
					for _, arg := range c.Args {
						if lit, ok := unparen(arg).(*ast.FuncLit); ok {
							if l := a.p.ByLit[lit]; l != nil && a.g.roles[l].kind != "async" {
								a.reachableCalls(l, nil, false, depth+1, out)
							}
						}
					}
					if lit, ok := unparen(c.Fun).(*ast.FuncLit); ok {
						if l := a.p.ByLit[lit]; l != nil && a.g.roles[l].kind != "async" {
							a.reachableCalls(l, nil, false, depth+1, out)
						}
					}
				}
				return true
			})
		}
		// branch pruning on the flag
		if flag != nil && len(b.Succs) == 2 && len(b.Nodes) > 0 {
			if cond, ok := b.Nodes[len(b.Nodes)-1].(ast.Expr); ok {
				e := unparen(cond)
				neg := false
				if u, ok := e.(*ast.UnaryExpr); ok && u.Op == token.NOT {
					neg = true
					e = unparen(u.X)
				}
				if id, ok := e.(*ast.Ident); ok && fn.Pkg.TypesInfo.ObjectOf(id) == flag {
					takeTrue := val != neg
					if takeTrue {
						stack = append(stack, b.Succs[0].Index)
					} else {
						stack = append(stack, b.Succs[1].Index)
					}
					continue
				}
			}
		}
		for _, s := range b.Succs {
			stack = append(stack, s.Index)
		}
	}
}

type reachedCall struct {
	fn   *FuncNode
	call *ast.CallExpr
	name string
}

// enclosingDeferCalls: calls inside defers of the functions enclosing the site (registered anywhere in those functions).
func (a *txnAnalyzer) enclosingDeferCalls(s *txnSite) []reachedCall {
	var out []reachedCall
	for fn := s.fn; fn != nil; fn = fn.Parent {
		for _, l := range fn.Lits {
			if a.g.roles[l].kind == "defer" {
				a.reachableCalls(l, nil, false, 1, &out)
			}
		}
		fn.inspectBody(func(n ast.Node) bool {
			if d, ok := n.(*ast.DeferStmt); ok {
				if f := fn.Callee(d.Call); f != nil {
					out = append(out, reachedCall{fn, d.Call, objName(f)})
				}
			}
			return true
		})
	}
	return out
}

func constBoolName(fn *FuncNode, e ast.Expr) string {
	if o := fn.objOf(e); o != nil {
		if _, ok := o.(*types.Const); ok {
			return o.Name()
		}
	}
	if tv, ok := fn.Pkg.TypesInfo.Types[e]; ok && tv.Value != nil {
		return tv.Value.String()
	}
	return ""
}

// compensated: one of the inverse calls of e is among calls (with the opposite incr constant where the effect has one).
func compensated(e effInst, calls []reachedCall) (bool, string) {
	aliasWhy := ""
	for _, rc := range calls {
		for _, inv := range e.spec.inverses {
			if rc.name != inv {
				continue
			}
			if rc.call == e.call {
				continue
			}
			if e.spec.incrArg >= 0 && e.spec.incrArg < len(e.call.Args) && e.spec.incrArg < len(rc.call.Args) {
				x := constBoolName(e.fn, e.call.Args[e.spec.incrArg])
				y := constBoolName(rc.fn, rc.call.Args[e.spec.incrArg])
				if x == "" || y == "" {
					return false, "incr/decr argument of " + shortName(inv) + " is not a constant: cannot establish that it is the inverse"
				}
				if x == y {
					continue // same direction: not an inverse
				}
			}
			// a self-inverse (rewrite the record) only undoes the forward write if it writes a snapshot taken before it
			if da, self := selfInverseDataArg[e.spec.name]; self && inv == e.spec.name && da < len(e.call.Args) && da < len(rc.call.Args) {
				if why := aliasesForward(e.fn, e.call.Args[da], rc.fn, rc.call.Args[da]); why != "" {
					aliasWhy = shortName(inv) + " at " + fmt.Sprint(rc.fn.Pkg.Fset.Position(rc.call.Pos()).Line) + " " + why
					continue
				}
			}
			return true, shortName(inv) + " at " + fmt.Sprint(rc.fn.Pkg.Fset.Position(rc.call.Pos()).Line)
		}
	}
	return false, aliasWhy
}

var theProg *Prog

var selfInverseDataArg = map[string]int{"store.Store.UpdateWorkload": 1, "store.Store.UpdateNodes": 1}

// aliasesForward: the rollback's data argument is the same object as the forward call's, or a pointer variable whose only
// definition copies the forward pointer (an alias, not a snapshot). Returns the reason, or "".
func aliasesForward(ffn *FuncNode, fwd ast.Expr, rfn *FuncNode, rb ast.Expr) string {
	fo := ffn.objOf(fwd)
	if fo == nil {
		return ""
	}
	rid, ok := unparen(rb).(*ast.Ident)
	if !ok {
		return "" // &snapshot or a composite: a distinct object
	}
	ro := rfn.Pkg.TypesInfo.ObjectOf(rid)
	if ro == fo {
		return "writes back the same (already mutated) object " + rid.Name + ": not a snapshot of the prior state"
	}
	if _, isPtr := ro.Type().Underlying().(*types.Pointer); !isPtr {
		return ""
	}
	// both are parameters of the same declared function: compare the arguments at its call sites
	for owner := rfn; owner != nil; owner = owner.Parent {
		ri, fi := owner.paramIndex(ro), owner.paramIndex(fo)
		if ri >= 0 && fi >= 0 && owner.Obj != nil && theProg != nil {
			for _, caller := range theProg.sortedFuncs() {
				if caller.Body == nil {
					continue
				}
				for _, c := range caller.calls(func(f *types.Func) bool { return f == owner.Obj }) {
					if ri < len(c.Args) && fi < len(c.Args) {
						if why := aliasesForward(caller, c.Args[fi], caller, c.Args[ri]); why != "" {
							return "is parameter " + rid.Name + " which at " + theProg.pos(c) + " " + why
						}
					}
				}
			}
			return ""
		}
	}
	// find the single definition of ro in the enclosing function chain
	for owner := rfn; owner != nil; owner = owner.Parent {
		var rhs ast.Expr
		n := 0
		ast.Inspect(owner.Body, func(x ast.Node) bool {
			if as, ok := x.(*ast.AssignStmt); ok && len(as.Lhs) == len(as.Rhs) {
				for i, l := range as.Lhs {
					if id, ok := l.(*ast.Ident); ok && owner.Pkg.TypesInfo.ObjectOf(id) == ro {
						n++
						rhs = as.Rhs[i]
					}
				}
			}
			return true
		})
		if n == 1 {
			if id, ok := unparen(rhs).(*ast.Ident); ok && owner.Pkg.TypesInfo.ObjectOf(id) == fo {
				return "writes back " + rid.Name + ", a pointer alias of the mutated " + id.Name + " (not a value snapshot)"
			}
			return ""
		}
		if n > 1 {
			return ""
		}
	}
	return ""
}

// checkTxnSite evaluates T1-T3 (Txn) or T4-T5 (PCR) at one site. only!=nil filters the effects considered.
func (a *txnAnalyzer) checkTxnSite(r *Result, s *txnSite, only func(*effectSpec) bool) {
	p := a.p
	pos := p.pos(s.call)
	if len(s.unres) > 0 {
		r.undecided("T0", s.key, pos, "closure argument not resolvable to a literal: "+strings.Join(s.unres, ", "))
		return
	}
	names := slotNames[s.kind]
	condEff := a.effects(s.closures[0], 0, nil)
	thenEff := a.effects(s.closures[1], 0, nil)
	filter := func(in []effInst) []effInst {
		if only == nil {
			return in
		}
		var out []effInst
		for _, e := range in {
			if only(e.spec) {
				out = append(out, e)
			}
		}
		return out
	}
	condEff, thenEff = filter(condEff), filter(thenEff)
	rb := s.closures[2]
	deferCalls := a.enclosingDeferCalls(s)
	var rbCond, rbThen []reachedCall
	if rb != nil {
		flag := flagParam(rb)
		if s.kind == "Txn" {
			a.reachableCalls(rb, flag, true, 0, &rbCond)
			a.reachableCalls(rb, flag, false, 0, &rbThen)
		} else {
			a.reachableCalls(rb, nil, false, 0, &rbThen) // PCR rolls back only when commit failed
		}
	}
	effKey := func(rule string, e effInst) string {
		return fmt.Sprintf("%s / %s / effect=%s", s.key, rule, shortName(e.spec.name))
	}
	if s.kind == "PCR" {
		// T4: prepare has no effect
		if len(condEff) == 0 {
			r.ok("T4", s.key+" / T4", pos, "prepare performs no lasting effect")
		}
		for _, e := range condEff {
			r.bad("T4", effKey("T4", e), p.pos(e.call), "prepare step performs "+e.spec.name+" ("+e.spec.why+"): PCR never rolls back a failed prepare, so a later failure in prepare leaves it behind")
		}
	} else {
		// T1
		n1 := 0
		for _, e := range condEff {
			if !e.fallibleAfter {
				continue
			}
			n1++
			// compensation inside cond after e (same function), in rollback on the failedByCond path, or in an enclosing defer
			var after []reachedCall
			a.callsAfter(e, &after)
			if ok, where := compensated(e, after); ok {
				r.ok("T1", effKey("T1", e), p.pos(e.call), "undone inside "+names[0]+" by "+where)
				continue
			}
			if ok, where := compensated(e, rbCond); ok {
				r.ok("T1", effKey("T1", e), p.pos(e.call), "undone by rollback on the failedByCond path: "+where)
				continue
			}
			if ok, where := compensated(e, deferCalls); ok {
				r.ok("T1", effKey("T1", e), p.pos(e.call), "undone by an enclosing defer: "+where)
				continue
			}
			r.bad("T1", effKey("T1", e), p.pos(e.call), fmt.Sprintf("%s performs %s and can still fail afterwards (%s); when it does, rollback runs with failureByCond=true and no inverse (%s) is reachable on that path: the effect is left behind", names[0], e.spec.name, e.why, strings.Join(e.spec.inverses, "|")))
		}
		if n1 == 0 {
			r.ok("T1", s.key+" / T1", pos, names[0]+" has no lasting effect followed by a fallible step")
		}
	}
	// T2
	thenFallible := a.fallible(s.closures[1])
	if len(condEff) == 0 || !thenFallible || s.kind == "PCR" {
		if s.kind != "PCR" {
			r.ok("T2", s.key+" / T2", pos, "no effect in "+names[0]+" needs undoing after a failure of "+names[1])
		}
	} else {
		for _, e := range condEff {
			if rb == nil {
				if ok, where := compensated(e, deferCalls); ok {
					r.ok("T2", effKey("T2", e), p.pos(e.call), "undone by an enclosing defer: "+where)
					continue
				}
				r.bad("T2", effKey("T2", e), p.pos(e.call), fmt.Sprintf("%s performs %s, %s can fail, and the rollback is nil: a failure of %s leaves the effect behind", names[0], e.spec.name, names[1], names[1]))
				continue
			}
			if ok, where := compensated(e, rbThen); ok {
				r.ok("T2", effKey("T2", e), p.pos(e.call), "undone by rollback: "+where)
				continue
			}
			if ok, where := compensated(e, deferCalls); ok {
				r.ok("T2", effKey("T2", e), p.pos(e.call), "undone by an enclosing defer: "+where)
				continue
			}
			_, why := compensated(e, rbThen)
			r.bad("T2", effKey("T2", e), p.pos(e.call), fmt.Sprintf("%s performs %s and %s can fail, but no inverse (%s) is reachable in the rollback on the failureByCond=false path %s", names[0], e.spec.name, names[1], strings.Join(e.spec.inverses, "|"), why))
		}
	}
	// T3 (Txn) / T5 (PCR fan-out)
	if s.kind == "PCR" {
		a.checkT5(r, s, pos)
		return
	}
	n3 := 0
	for _, e := range thenEff {
		if !e.fallibleAfter {
			continue
		}
		n3++
		if ok, where := compensated(e, rbThen); ok {
			r.ok("T3", effKey("T3", e), p.pos(e.call), "undone by rollback: "+where)
			continue
		}
		if ok, where := compensated(e, deferCalls); ok {
			r.ok("T3", effKey("T3", e), p.pos(e.call), "undone by an enclosing defer: "+where)
			continue
		}
		r.bad("T3", effKey("T3", e), p.pos(e.call), fmt.Sprintf("%s performs %s and can fail afterwards (%s) but the rollback does not reach an inverse (%s)", names[1], e.spec.name, e.why, strings.Join(e.spec.inverses, "|")))
	}
	if n3 == 0 {
		r.ok("T3", s.key+" / T3", pos, names[1]+" has no lasting effect followed by a fallible step")
	}
}

// callsAfter: calls reachable in e.fn after the effect call (for in-closure compensation).
func (a *txnAnalyzer) callsAfter(e effInst, out *[]reachedCall) {
	fn := e.fn
	ref := fn.find(e.call)
	fn.reach(ref, true, func(x nodeRef) bool {
		if n := x.node(); n != nil {
			inspectNoLit(n, func(y ast.Node) bool {
				if c, ok := y.(*ast.CallExpr); ok && c != e.call {
					if f := fn.Callee(c); f != nil {
						*out = append(*out, reachedCall{fn, c, objName(f)})
					}
				}
				return true
			})
		}
		return false
	}, nil, false)
}

// T5: a commit that fans an effect out over plugins with cobalt.call must, on the failure branch, record exactly the plugins
// that answered (range over the call's result map) and the rollback must fan the inverse out over that recorded set.
func (a *txnAnalyzer) checkT5(r *Result, s *txnSite, pos string) {
	p := a.p
	commit, rb := s.closures[1], s.closures[2]
	if commit == nil {
		return
	}
	// fan-out calls in commit
	var fan *ast.CallExpr
	var eff *effectSpec
	commit.inspectBody(func(n ast.Node) bool {
		c, ok := n.(*ast.CallExpr)
		if !ok {
			return true
		}
		f := commit.Callee(c)
		if f == nil || objName(f) != "resource/cobalt.call" || len(c.Args) != 3 {
			return true
		}
		if lit, ok := unparen(c.Args[2]).(*ast.FuncLit); ok {
			l := p.ByLit[lit]
			for _, cc := range l.callsDeep(func(f *types.Func) bool { return effectOf(objName(f)) != nil }) {
				fan = c
				eff = effectOf(objName(l.Callee(cc)))
			}
		}
		return true
	})
	key := s.key + " / T5"
	if fan == nil {
		// single composite effect: nothing to fan out
		r.ok("T5", key, pos, "commit performs no plugin fan-out (single composite effect or none)")
		return
	}
	// result map variable
	var resObj types.Object
	commit.inspectBody(func(n ast.Node) bool {
		if as, ok := n.(*ast.AssignStmt); ok && len(as.Rhs) == 1 && unparen(as.Rhs[0]) == ast.Expr(fan) && len(as.Lhs) == 2 {
			resObj = commit.objOf(as.Lhs[0])
		}
		return true
	})
	if resObj == nil {
		r.bad("T5", key, p.pos(fan), "the map of plugins that answered is discarded: a partial failure cannot be rolled back")
		return
	}
	// on the err != nil branch: for plugin[, _] := range resps { rb = append(rb, plugin) }
	var recObj types.Object
	commit.inspectBody(func(n ast.Node) bool {
		rs, ok := n.(*ast.RangeStmt)
		if !ok || commit.objOf(rs.X) != resObj || rs.Key == nil {
			return true
		}
		kobj := commit.objOf(rs.Key)
		for _, st := range rs.Body.List {
			inspectNoLit(st, func(y ast.Node) bool {
				if as, ok := y.(*ast.AssignStmt); ok && len(as.Rhs) == 1 {
					if c, ok := unparen(as.Rhs[0]).(*ast.CallExpr); ok {
						if id, ok := c.Fun.(*ast.Ident); ok && id.Name == "append" && len(c.Args) == 2 && commit.objOf(c.Args[1]) == kobj && commit.objOf(c.Args[0]) == commit.objOf(as.Lhs[0]) {
							recObj = commit.objOf(as.Lhs[0])
						}
					}
				}
				return true
			})
		}
		return true
	})
	if recObj == nil {
		// the recording loop as a helper: `rec = appendKeys(rec, resps)` whose body appends every key of its map parameter
		// to its slice parameter and returns that slice
		commit.inspectBody(func(n ast.Node) bool {
			as, ok := n.(*ast.AssignStmt)
			if !ok || len(as.Lhs) != 1 || len(as.Rhs) != 1 || recObj != nil {
				return true
			}
			c, ok := unparen(as.Rhs[0]).(*ast.CallExpr)
			if !ok {
				return true
			}
			H := p.ByObj[commit.Callee(c)]
			if H == nil || H.Body == nil || H.Pkg != commit.Pkg {
				return true
			}
			var hdst, hmap types.Object
			for i, a := range c.Args {
				switch commit.objOf(a) {
				case resObj:
					hmap = H.paramObj(i)
				case commit.objOf(as.Lhs[0]):
					hdst = H.paramObj(i)
				}
			}
			if hdst == nil || hmap == nil {
				return true
			}
			appends, returnsDst := false, true
			inspectNoLit(H.Body, func(y ast.Node) bool {
				switch z := y.(type) {
				case *ast.RangeStmt:
					if H.objOf(z.X) == hmap && z.Key != nil {
						kobj := H.objOf(z.Key)
						for _, st := range z.Body.List {
							if a2, ok := st.(*ast.AssignStmt); ok && len(a2.Lhs) == 1 && len(a2.Rhs) == 1 && H.objOf(a2.Lhs[0]) == hdst {
								if ac, ok := unparen(a2.Rhs[0]).(*ast.CallExpr); ok && isBuiltinCall(H, ac, "append") && len(ac.Args) == 2 && H.objOf(ac.Args[0]) == hdst && H.objOf(ac.Args[1]) == kobj {
									appends = true
								}
							}
						}
					}
				case *ast.ReturnStmt:
					if len(z.Results) != 1 || H.objOf(z.Results[0]) != hdst {
						returnsDst = false
					}
				}
				return true
			})
			if appends && returnsDst {
				recObj = commit.objOf(as.Lhs[0])
			}
			return true
		})
	}
	if recObj == nil {
		r.bad("T5", key, p.pos(fan), "commit fans "+eff.name+" out over the plugins but does not record which plugins answered when one fails")
		return
	}
	if rb == nil {
		r.bad("T5", key, p.pos(fan), "fan-out effect without rollback")
		return
	}
	okRb, detail := false, "rollback does not fan an inverse of "+eff.name+" out over the recorded plugins"
	// a rollback that hands the recorded plugins to a method of the package (`return m.restore(ctx, …, recorded, …)`) is
	// read in that method: its parameter stands for the recorded list
	rb.inspectBody(func(n ast.Node) bool {
		c, ok := n.(*ast.CallExpr)
		if !ok {
			return true
		}
		H := p.ByObj[rb.Callee(c)]
		if H == nil || H.Body == nil || H.Pkg != rb.Pkg || objName(rb.Callee(c)) == "resource/cobalt.call" {
			return true
		}
		for i, a := range c.Args {
			if rb.objOf(a) == recObj && H.paramObj(i) != nil {
				rb, recObj = H, H.paramObj(i)
				return false
			}
		}
		return true
	})
	rb.inspectBody(func(n ast.Node) bool {
		c, ok := n.(*ast.CallExpr)
		if !ok {
			return true
		}
		f := rb.Callee(c)
		if f == nil || objName(f) != "resource/cobalt.call" || len(c.Args) != 3 {
			return true
		}
		if rb.objOf(c.Args[1]) != recObj {
			detail = "rollback fans out over " + exprStr(c.Args[1]) + ", not over the plugins recorded by commit"
			return true
		}
		if lit, ok := unparen(c.Args[2]).(*ast.FuncLit); ok {
			l := p.ByLit[lit]
			for _, cc := range l.callsDeep(func(*types.Func) bool { return true }) {
				nm := objName(l.Callee(cc))
				for _, inv := range eff.inverses {
					if nm == inv {
						okRb = true
						detail = "rollback fans " + shortName(inv) + " out over the plugins recorded on commit failure"
					}
				}
			}
		}
		return true
	})
	if okRb {
		r.ok("T5", key, p.pos(fan), detail)
	} else {
		r.bad("T5", key, p.pos(fan), detail)
	}
}

// TC: closures handed to Txn/PCR pass only contexts declared inside the closure (the context the combinator supplies).
func (a *txnAnalyzer) checkClosureCtx(r *Result, s *txnSite) {
	names := slotNames[s.kind]
	for i, cl := range s.closures {
		if cl == nil || cl.Lit == nil {
			continue
		}
		var bad []string
		var visit func(fn *FuncNode)
		visit = func(fn *FuncNode) {
			fn.inspectBody(func(n ast.Node) bool {
				c, ok := n.(*ast.CallExpr)
				if !ok {
					return true
				}
				for _, arg := range c.Args {
					id, ok := unparen(arg).(*ast.Ident)
					if !ok || !isContextType(fn.typeOf(id)) {
						continue
					}
					obj := fn.Pkg.TypesInfo.ObjectOf(id)
					if obj == nil || obj.Pos() < cl.Lit.Pos() || obj.Pos() > cl.Lit.End() {
						// logging with the outer context is harmless
						if f := fn.Callee(c); f != nil && loggerLike(fullObjName(f)) {
							continue
						}
						bad = append(bad, fmt.Sprintf("%s passes captured outer context %q to %s", a.p.pos(c), id.Name, exprStr(c.Fun)))
					}
				}
				return true
			})
			for _, l := range fn.Lits {
				k := a.g.roles[l].kind
				if k == "async" || k == "escape" {
					continue
				}
				visit(l)
			}
		}
		// a closure without a named context parameter that makes no context-taking calls is fine
		visit(cl)
		key := fmt.Sprintf("%s / TC / %s", s.key, names[i])
		if len(bad) == 0 {
			r.ok("TC", key, a.p.pos(cl.Lit), "")
		} else {
			r.bad("TC", key, a.p.pos(cl.Lit), strings.Join(bad, "; ")+": the step does not run under the context the combinator supplies (timeout / non-cancellable rollback context is bypassed)")
		}
	}
}

func newTxnAnalyzer(p *Prog, r *Result) *txnAnalyzer {
	theProg = p
	g := getSCG(p, r)
	if g == nil {
		return nil
	}
	return &txnAnalyzer{p: p, g: g, par: map[*FuncNode]map[ast.Node]ast.Node{}}
}

func effectTableStrings() []string {
	var out []string
	for _, e := range effectTable {
		out = append(out, fmt.Sprintf("%s <-> %s (%s)", e.name, strings.Join(e.inverses, "|"), e.why))
	}
	sort.Strings(out)
	return out
}

// T5c: the fan-out helper hands back the answers of the plugins that succeeded together with the error; the commit
// closures build their rollback list from that map, so returning nil (or an empty map) on failure makes every partial
// failure unrecoverable.
func checkCallHelper(p *Prog, r *Result) {
	r.min("T5c", 1)
	C := p.Fn("resource/cobalt.call")
	key := "resource/cobalt.call / returns the answers of the plugins that succeeded on every path, also with an error"
	if C == nil {
		r.undecided("T5c", key, "", "resource/cobalt.call not found")
		return
	}
	// the answer map: a local made with make(map[...]) that receives ans[p] = v inside a loop over the plugin list
	var ans types.Object
	C.inspectBody(func(n ast.Node) bool {
		as, ok := n.(*ast.AssignStmt)
		if !ok || len(as.Lhs) != 1 {
			return true
		}
		if base, idx := indexBaseObj(C, as.Lhs[0]); base != nil && idx != nil {
			if _, isMap := base.Type().Underlying().(*types.Map); isMap {
				ans = base
			}
		}
		return true
	})
	why := ""
	nret := 0
	if ans == nil {
		why = "no answer map is filled per plugin"
	} else {
		C.inspectBody(func(n ast.Node) bool {
			rt, ok := n.(*ast.ReturnStmt)
			if !ok || len(rt.Results) != 2 {
				return true
			}
			nret++
			if C.objOf(rt.Results[0]) != ans {
				why = "returns `" + exprStr(rt.Results[0]) + "` instead of the answer map at " + p.pos(rt) + ": after a partial failure the callers cannot tell which plugins applied the change, so their rollback skips them"
			}
			return true
		})
		// the map is not cleared or re-made after being filled
		nmake := 0
		C.inspectBody(func(n ast.Node) bool {
			if as, ok := n.(*ast.AssignStmt); ok {
				for _, l := range as.Lhs {
					if C.objOf(l) == ans {
						nmake++
					}
				}
			}
			if c, ok := n.(*ast.CallExpr); ok {
				if id, ok := c.Fun.(*ast.Ident); ok && (id.Name == "delete" || id.Name == "clear") && len(c.Args) > 0 && C.objOf(c.Args[0]) == ans {
					why = "entries are removed from the answer map"
				}
			}
			return true
		})
		if nmake != 1 && why == "" {
			why = fmt.Sprintf("the answer map is assigned %d times", nmake)
		}
		if nret == 0 && why == "" {
			why = "no return statement found"
		}
	}
	if why == "" {
		r.ok("T5c", key, p.pos(C.Decl), fmt.Sprintf("%d return(s), each of the answer map", nret))
	} else {
		r.bad("T5c", key, p.pos(C.Decl), why)
	}
}

// LED (ledger rule): when the rollback of a Txn walks a list that the condition step fills (V = append(V, x)) to know what
// to undo, the entry recording an effect must be appended before anything else can fail: between the effect call and the
// append no call that returns an error may be reachable. Otherwise a failure in that window leaves an effect the rollback
// does not know about.
func (a *txnAnalyzer) checkLedger(r *Result, s *txnSite) int {
	p := a.p
	cond, rb := s.closures[0], s.closures[2]
	if cond == nil || rb == nil {
		return 0
	}
	var deep func(fn *FuncNode, f func(*FuncNode))
	deep = func(fn *FuncNode, f func(*FuncNode)) {
		f(fn)
		for _, l := range fn.Lits {
			deep(l, f)
		}
	}
	ranged := map[types.Object]bool{}
	deep(rb, func(fn *FuncNode) {
		fn.inspectBody(func(n ast.Node) bool {
			if rs, ok := n.(*ast.RangeStmt); ok {
				if o := fn.objOf(rs.X); o != nil {
					ranged[o] = true
				}
			}
			return true
		})
	})
	n := 0
	returnsError := func(f *types.Func) bool {
		sig, _ := f.Type().(*types.Signature)
		if sig == nil {
			return false
		}
		for i := 0; i < sig.Results().Len(); i++ {
			if sig.Results().At(i).Type().String() == "error" {
				return true
			}
		}
		return false
	}
	deep(cond, func(fn *FuncNode) {
		fn.inspectBody(func(x ast.Node) bool {
			as, ok := x.(*ast.AssignStmt)
			if !ok || len(as.Lhs) != 1 || len(as.Rhs) != 1 {
				return true
			}
			c, ok := unparen(as.Rhs[0]).(*ast.CallExpr)
			if !ok {
				return true
			}
			id, ok := c.Fun.(*ast.Ident)
			if !ok || id.Name != "append" || len(c.Args) < 2 {
				return true
			}
			v := fn.objOf(as.Lhs[0])
			if v == nil || !ranged[v] || fn.objOf(c.Args[0]) != v {
				return true
			}
			appRef := fn.find(as)
			// effect calls of the same function that dominate the append
			for _, ec := range fn.calls(func(f *types.Func) bool { return effectOf(objName(f)) != nil }) {
				eref := fn.find(ec)
				if !fn.dominates(eref, appRef) || eref == appRef {
					continue
				}
				n++
				key := fmt.Sprintf("%s / LED / %s is recorded in %s before anything else can fail", s.key, shortName(objName(fn.Callee(ec))), v.Name())
				hit, found := fn.reach(eref, true, func(nr nodeRef) bool {
					if nr == appRef {
						return false
					}
					return fn.nodeHasCall(nr, returnsError)
				}, func(nr nodeRef) bool { return nr == appRef }, false)
				if found {
					r.bad("LED", key, p.pos(as), fmt.Sprintf("between %s and the append that records it for the rollback, a step that can fail is reachable (%s): when it fails the rollback walks %s, does not find this entry and leaves the effect behind", shortName(objName(fn.Callee(ec))), p.pos(hit.node()), v.Name()))
				} else {
					r.ok("LED", key, p.pos(as), "the entry is appended right after the effect succeeded")
				}
			}
			return true
		})
	})
	return n
}

// checkAppliedGuard (rule T1g): when a rollback distinguishes "the cond failed before its effect" from "the cond failed after
// its effect" by more than the failureByCond flag, the extra test must be a RECORD that the effect was applied — a boolean
// set to true right after the effect call returned without error — and not a property of the data the effect call handed
// back (a failed call can hand back data too: compensating then un-does something that was never done).
func (a *txnAnalyzer) checkAppliedGuard(r *Result, s *txnSite) {
	rb, cond := s.closures[2], s.closures[0]
	if s.kind != "Txn" || rb == nil || cond == nil {
		return
	}
	flag := flagParam(rb)
	if flag == nil {
		return
	}
	p := a.p
	// a rollback that only forwards to a declared helper (`return c.rollbackX(ctx, …, failureByCond, applied)`) is analysed
	// in the helper: its parameters stand for the arguments handed in
	argOf := map[types.Object]types.Object{}
	if tgt, tflag, m := forwardTarget(p, rb, flag); tgt != nil {
		rb, flag, argOf = tgt, tflag, m
	}
	rb.inspectBody(func(n ast.Node) bool {
		is, ok := n.(*ast.IfStmt)
		if !ok {
			return true
		}
		// the test may be written as one condition (`flag && !applied`) or nested (`if flag { if !applied {`)
		conj := splitOp(is.Cond, token.LAND)
		usesFlag := rb.usesObj(is.Cond, flag)
		if !usesFlag {
			if outer, ok := pathConds(rb.Body, is); ok {
				for _, oc := range outer {
					if oc.Pos && rb.usesObj(oc.Expr, flag) && oc.If != nil && oc.If.Body.Pos() <= is.Pos() && is.End() <= oc.If.Body.End() {
						usesFlag = true
						conj = append(splitOp(oc.Expr, token.LAND), conj...)
					}
				}
			}
		}
		if !usesFlag || len(conj) < 2 {
			return true
		}
		key := s.key + " / T1g / the rollback tells an applied effect from a failed one by a record of the effect"
		why := ""
		for _, c := range conj {
			if rb.usesObj(c, flag) {
				continue
			}
			u, ok := unparen(c).(*ast.UnaryExpr)
			var id *ast.Ident
			if ok && u.Op == token.NOT {
				id, _ = unparen(u.X).(*ast.Ident)
			} else {
				id, _ = unparen(c).(*ast.Ident)
			}
			if id == nil {
				why = "the guard `" + exprStr(is.Cond) + "` decides by `" + exprStr(c) + "`, which is not a flag recording that the effect was applied: when the effect call itself fails (after computing its result) the rollback un-does a change that was never made"
				continue
			}
			o := rb.objOf(id)
			if m, ok := argOf[o]; ok {
				o = m
			}
			// assigned true exactly once, in cond, after an `if err != nil { return … }`
			nTrue, afterCheck := 0, false
			cond.inspectBody(func(x ast.Node) bool {
				as, ok := x.(*ast.AssignStmt)
				if !ok || len(as.Lhs) != 1 || cond.objOf(as.Lhs[0]) != o {
					return true
				}
				if constBoolName(cond, as.Rhs[0]) == "true" {
					nTrue++
					// the previous statement in the same block is the error check of a call
					for _, blk := range []*ast.BlockStmt{cond.Body} {
						for i, st := range blk.List {
							if st == ast.Stmt(as) && i > 0 {
								if prev, ok := blk.List[i-1].(*ast.IfStmt); ok && strings.Contains(exprStr(prev.Cond), "!= nil") && returnsError(prev.Body) {
									afterCheck = true
								}
							}
						}
					}
				} else {
					nTrue += 10
				}
				return true
			})
			if nTrue != 1 || !afterCheck {
				why = "the flag `" + id.Name + "` in the guard `" + exprStr(is.Cond) + "` is not set to true exactly once, right after the error check of the effect call"
			}
		}
		r.check2(why, "T1g", key, p.pos(is), "failureByCond && !applied, with applied = true right after `if err != nil { return err }` of the effect")
		return true
	})
}

// checkFanoutErrors (rule T5e): inside the callbacks the manager hands to its fan-out helper, a plugin's error is handed back
// as it is: the callback never answers "success" (nil error) on a path where the plugin call failed. Turning a refusal
// (e.g. "node exists") into a success makes the whole operation succeed with effects that were not made by it, and the
// caller's compensation then removes what belonged to someone else.
func checkFanoutErrors(p *Prog, r *Result, rule string) {
	n := 0
	for _, fn := range p.sortedFuncs("resource/cobalt") {
		if fn.Lit == nil || fn.Body == nil {
			continue
		}
		// a callback of cobalt.call: func(plugin plugins.Plugin) (T, error)
		if fn.Type.Params == nil || len(fn.Type.Params.List) != 1 || fn.Type.Results == nil || len(fn.Type.Results.List) != 2 {
			continue
		}
		if t := fn.typeOf(fn.Type.Params.List[0].Type); t == nil || !strings.HasSuffix(t.String(), "plugins.Plugin") {
			continue
		}
		plug := fn.paramObj(0)
		// the error variable assigned from a method call on the plugin
		var errObj types.Object
		var call *ast.CallExpr
		pluginAssigns := map[*ast.AssignStmt]bool{}
		fn.inspectBody(func(x ast.Node) bool {
			as, ok := x.(*ast.AssignStmt)
			if !ok || len(as.Rhs) != 1 || len(as.Lhs) != 2 {
				return true
			}
			c, ok := unparen(as.Rhs[0]).(*ast.CallExpr)
			if !ok {
				return true
			}
			if sel, ok := unparen(c.Fun).(*ast.SelectorExpr); ok && fn.objOf(sel.X) == plug {
				if errObj == nil {
					errObj, call = fn.objOf(as.Lhs[1]), c
				}
				pluginAssigns[as] = true
			}
			return true
		})
		if errObj == nil {
			continue
		}
		n++
		key := fn.Name + " / the plugin's error is handed back unchanged"
		why := ""
		fn.inspectBody(func(x ast.Node) bool {
			switch y := x.(type) {
			case *ast.ReturnStmt:
				if len(y.Results) == 2 && y.Pos() > call.Pos() {
					if id, ok := unparen(y.Results[1]).(*ast.Ident); !ok || fn.objOf(id) != errObj {
						// a literal nil is fine only if it cannot be reached with a failed plugin call: accept when the return is
						// dominated by `if err != nil { return …, err }`
						if isNilIdent(y.Results[1]) {
							g, _ := guardedBy(fn, y, func(f *FuncNode, is *ast.IfStmt) bool {
								be, ok := unparen(is.Cond).(*ast.BinaryExpr)
								return ok && be.Op == token.NEQ && f.objOf(be.X) == errObj && isNilIdent(be.Y)
							})
							if g != nil {
								return true
							}
						}
						why = "the callback returns `" + exprStr(y.Results[1]) + "` at " + p.pos(y) + " instead of the error of `" + exprStr(call.Fun) + "`: a plugin's refusal is turned into a success (or into a different failure), the operation goes on as if it had made the change, and its compensation later removes records it never created"
					}
				}
			case *ast.AssignStmt:
				for _, l := range y.Lhs {
					if fn.objOf(l) == errObj && y.Pos() > call.End() && !pluginAssigns[y] {
						why = "the plugin's error is overwritten at " + p.pos(y)
					}
				}
			}
			return true
		})
		r.check2(why, rule, key, p.pos(fn.Lit), "return resp, err with err from the plugin call")
	}
	r.min(rule, 8)
	if n == 0 {
		r.undecided(rule, "resource/cobalt fan-out callbacks", "", "none found")
	}
}

// forwardTarget: when fn does not branch on `flag` itself but hands it to exactly one declared function of the program,
// the callee, the callee's parameter that receives the flag, and for every callee parameter bound to a plain identifier
// argument the object of that argument.
func forwardTarget(p *Prog, fn *FuncNode, flag types.Object) (*FuncNode, types.Object, map[types.Object]types.Object) {
	if fn == nil || fn.Body == nil || flag == nil {
		return nil, nil, nil
	}
	branches := false
	var fwd []*ast.CallExpr
	fn.inspectBody(func(n ast.Node) bool {
		switch x := n.(type) {
		case *ast.IfStmt:
			if fn.usesObj(x.Cond, flag) {
				branches = true
			}
		case *ast.CallExpr:
			for _, a := range x.Args {
				if fn.objOf(a) == flag {
					fwd = append(fwd, x)
				}
			}
		}
		return true
	})
	if branches || len(fwd) != 1 {
		return nil, nil, nil
	}
	callee := fn.Callee(fwd[0])
	if callee == nil {
		return nil, nil, nil
	}
	tgt := p.ByObj[callee]
	if tgt == nil || tgt.Body == nil {
		return nil, nil, nil
	}
	m := map[types.Object]types.Object{}
	var tflag types.Object
	for i, a := range fwd[0].Args {
		po := tgt.paramObj(i)
		if po == nil {
			continue
		}
		if ao := fn.objOf(a); ao != nil {
			m[po] = ao
			if ao == flag {
				tflag = po
			}
		}
	}
	if tflag == nil {
		return nil, nil, nil
	}
	return tgt, tflag, m
}
