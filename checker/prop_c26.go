package main

// C26: ephemeral registrations are exclusive and owner-safe.

import (
	"fmt"
	"go/ast"
	"go/token"
	"go/types"
	"strings"
)

func init() { register("C26", checkC26) }

// trackedIdentity: in fn, does expression e denote the identity created in this call? For etcd: <lease>.ID where lease is the
// local bound to the Grant call. For redis: a local variable defined in this call (not a package-level value).
func isPkgLevel(o types.Object) bool {
	return o != nil && o.Pkg() != nil && o.Parent() == o.Pkg().Scope()
}

func checkC26(p *Prog, r *Result, tier string) {
	r.Technique = "identity-flow and guard rules over both StartEphemeral implementations (type-resolved AST + go/cfg): conditional create, per-call identity, identity carried by every refresh and delete, inspected refresh result, expiry channel closed on every exit; cancellation wiring of the two users (active watcher, service registration)"
	r.Explanation = "E1 the key is created conditionally (etcd: transaction with Version(path) == 0 and a put bound to the lease; redis: SETNX with the TTL) and a lost race is reported as key-exists; E2 the identity written is fresh per call (etcd: the lease granted in this call; redis: a value made in this call, not a package-level value shared by every registrant); " +
		"E3 every refresh and delete takes that identity (etcd: KeepAliveOnce / Revoke of the granted lease id; redis: the refresh and the delete must be conditional on the stored value being this call's — a plain EXPIRE path / DEL path acts on whoever holds the key now); (and nothing else in the etcd registrant writes or deletes the key by its path); E4 the refresh result that signals absence is inspected and ends the keeper (etcd: KeepAliveOnce's error; redis: EXPIRE's boolean); " +
		"E5 the keeper goroutine closes the expiry channel by a first-statement defer (every exit notifies the registrant) and the returned deregistration cancels and waits for it; U1 the active watcher runs its work under a context that is cancelled when the expiry channel closes, and the work handed to it uses that context rather than a captured one; U2 the service registration re-registers when the expiry channel closes and deregisters on exit."
	r.NotCovered = "at most one believer over all schedules (needs the stores' semantics); timing of the lapse notification"
	r.Assumptions = []string{"A4 etcd leases: a key bound to a lease disappears with it, KeepAliveOnce fails for a lapsed lease"}
	r.min("E1", 2)
	r.min("E2", 2)
	r.min("E3", 5)
	r.min("E4", 2)
	r.min("E5", 4)
	r.min("U1", 2)
	r.min("U2", 1)

	// ---------------- etcd
	if E := p.Fn("store/etcdv3/meta.(*ETCD).StartEphemeral"); E == nil {
		r.undecided("E1", "store/etcdv3/meta.(*ETCD).StartEphemeral", "", "not found")
	} else {
		path := E.paramObj(1)
		// lease := Grant(...)
		var lease types.Object
		E.inspectBody(func(n ast.Node) bool {
			if as, ok := n.(*ast.AssignStmt); ok && len(as.Rhs) == 1 {
				if c, ok := unparen(as.Rhs[0]).(*ast.CallExpr); ok && E.Callee(c) != nil && E.Callee(c).Name() == "Grant" {
					lease = E.objOf(as.Lhs[0])
				}
			}
			return true
		})
		isLeaseID := func(fn *FuncNode, e ast.Expr) bool {
			sel, ok := unparen(e).(*ast.SelectorExpr)
			return ok && sel.Sel.Name == "ID" && lease != nil && fn.objOf(sel.X) == lease
		}
		// E1: the chain Txn().If(Compare(Version(path), "=", 0)).Then(OpPut(path, _, WithLease(lease.ID))).Commit()
		ifOK, putOK, existsOK := false, false, false
		ast.Inspect(E.Body, func(n ast.Node) bool {
			c, ok := n.(*ast.CallExpr)
			if !ok {
				return true
			}
			f := E.Callee(c)
			if f == nil {
				return true
			}
			switch f.Name() {
			case "Compare":
				if len(c.Args) == 3 {
					if vc, ok := unparen(c.Args[0]).(*ast.CallExpr); ok && E.Callee(vc) != nil && E.Callee(vc).Name() == "Version" && E.objOf(vc.Args[0]) == path {
						op, _ := E.constString(c.Args[1])
						if v, isC := E.constInt(c.Args[2]); isC && v == 0 && op == "=" {
							ifOK = true
						}
					}
				}
			case "OpPut":
				if len(c.Args) >= 3 && E.objOf(c.Args[0]) == path {
					if wl, ok := unparen(c.Args[2]).(*ast.CallExpr); ok && E.Callee(wl) != nil && E.Callee(wl).Name() == "WithLease" && isLeaseID(E, wl.Args[0]) {
						putOK = true
					}
				}
			}
			return true
		})
		ast.Inspect(E.Body, func(n ast.Node) bool {
			// `case !tx.Succeeded:` of a tagless switch, or `if !tx.Succeeded {`
			var cond ast.Expr
			var body []ast.Stmt
			switch x := n.(type) {
			case *ast.CaseClause:
				if len(x.List) == 1 {
					cond, body = x.List[0], x.Body
				}
			case *ast.IfStmt:
				cond, body = x.Cond, x.Body.List
			}
			if cond == nil {
				return true
			}
			if u, ok := unparen(cond).(*ast.UnaryExpr); ok && u.Op == token.NOT {
				if sel, ok := unparen(u.X).(*ast.SelectorExpr); ok && sel.Sel.Name == "Succeeded" {
					for _, st := range body {
						if rt, ok := st.(*ast.ReturnStmt); ok && len(rt.Results) > 0 && strings.Contains(exprStr(rt.Results[len(rt.Results)-1]), "ErrKeyExists") {
							existsOK = true
						}
					}
				}
			}
			return true
		})
		r.check(ifOK && putOK && existsOK, "E1", "store/etcdv3/meta StartEphemeral / the key is created only if absent", p.pos(E.Decl), "If(Version(path) = 0).Then(OpPut(path, …, WithLease(lease.ID))); !Succeeded → ErrKeyExists",
			fmt.Sprintf("compare on Version(path)=0: %v; put of path bound to this call's lease: %v; a lost race reported as key-exists: %v", ifOK, putOK, existsOK))
		r.check(lease != nil && !isPkgLevel(lease), "E2", "store/etcdv3/meta StartEphemeral / the identity is the lease granted in this call", p.pos(E.Decl), "lease := Grant(ctx, ttl) (local)", "no lease granted in this call")
		// E3/E4: KeepAliveOnce and Revoke with lease.ID; KeepAliveOnce error returns
		for _, nm := range []string{"KeepAliveOnce", "Revoke"} {
			n, bad := 0, ""
			for _, c := range E.callsDeep(func(f *types.Func) bool { return f.Name() == nm }) {
				n++
				enc := p.enclosing(E.Pkg, c.Pos())
				if len(c.Args) != 2 || !isLeaseID(enc, c.Args[1]) {
					bad = exprStr(c.Args[len(c.Args)-1])
				}
			}
			r.check(n > 0 && bad == "", "E3", "store/etcdv3/meta StartEphemeral / "+nm+" acts on the lease granted in this call", p.pos(E.Decl), nm+"(ctx, lease.ID)", fmt.Sprintf("%d call(s); foreign identity: %q — a registrant would refresh or revoke a registration that is not its own", n, bad))
		}
		// E3 (who-may-write): besides the conditional create, nothing in StartEphemeral addresses the key by its path —
		// a Delete/Put of `path` acts on whoever holds the key now, not on this call's lease
		{
			pathObj := E.paramObj(1)
			var offender *ast.CallExpr
			var visit func(fn *FuncNode)
			visit = func(fn *FuncNode) {
				fn.inspectBody(func(n ast.Node) bool {
					c, ok := n.(*ast.CallExpr)
					if !ok || fn.Callee(c) == nil {
						return true
					}
					switch fn.Callee(c).Name() {
					case "Delete", "Put", "BatchDelete", "BatchPut", "Update", "BatchUpdate", "OpDelete":
						for _, a := range c.Args {
							if fn.usesObj(a, pathObj) {
								offender = c
							}
						}
					}
					return true
				})
				for _, l := range fn.Lits {
					visit(l)
				}
			}
			visit(E)
			key := "store/etcdv3/meta StartEphemeral / the key is never written or deleted by its path, only through this call's lease"
			if offender != nil {
				r.bad("E3", key, p.pos(offender), "`"+exprStr(offender.Fun)+"` addresses the key by its path: when this registrant's lease has lapsed and another registrant holds the key, this call removes or overwrites the other's registration (whose lease is alive, so it is never notified)")
			} else {
				r.ok("E3", key, p.pos(E.Decl), "only the conditional create names the path")
			}
		}
		keeper := goLiteral(p, E)
		why := "keeper goroutine not found"
		if keeper != nil {
			why = "a failed keep-alive does not end the keeper: a lapsed registrant keeps believing it holds the key"
			ast.Inspect(keeper.Body, func(n ast.Node) bool {
				is, ok := n.(*ast.IfStmt)
				if !ok || is.Init == nil {
					return true
				}
				as, ok := is.Init.(*ast.AssignStmt)
				if !ok || len(as.Rhs) != 1 {
					return true
				}
				c, ok := unparen(as.Rhs[0]).(*ast.CallExpr)
				if !ok || keeper.Callee(c) == nil || keeper.Callee(c).Name() != "KeepAliveOnce" {
					return true
				}
				if be, ok := unparen(is.Cond).(*ast.BinaryExpr); ok && be.Op == token.NEQ && isNilIdent(be.Y) {
					if _, isRet := is.Body.List[len(is.Body.List)-1].(*ast.ReturnStmt); isRet {
						why = ""
					}
				}
				return true
			})
		}
		r.check2(why, "E4", "store/etcdv3/meta StartEphemeral / a failed keep-alive ends the keeper", p.pos(E.Decl), "if _, err := KeepAliveOnce(…); err != nil { return }")
		c26Keeper(p, r, "store/etcdv3/meta", E, keeper)
	}

	// ---------------- redis
	if R := p.Fn("store/redis.(*Rediaron).StartEphemeral"); R == nil {
		r.undecided("E1", "store/redis.(*Rediaron).StartEphemeral", "", "not found")
	} else {
		path := R.paramObj(1)
		var setnx *ast.CallExpr
		for _, c := range R.calls(func(f *types.Func) bool { return f.Name() == "SetNX" }) {
			setnx = c
		}
		ok1 := setnx != nil && len(setnx.Args) == 4 && R.objOf(setnx.Args[1]) == path && R.objOf(setnx.Args[3]) == R.paramObj(2)
		existsOK := false
		R.inspectBody(func(n ast.Node) bool {
			if is, ok := n.(*ast.IfStmt); ok {
				if u, ok := unparen(is.Cond).(*ast.UnaryExpr); ok && u.Op == token.NOT {
					for _, st := range is.Body.List {
						if rt, ok := st.(*ast.ReturnStmt); ok && strings.Contains(exprStr(rt.Results[len(rt.Results)-1]), "ErrKeyExists") {
							existsOK = true
						}
					}
				}
			}
			return true
		})
		r.check(ok1 && existsOK, "E1", "store/redis StartEphemeral / the key is created only if absent", p.pos(R.Decl), "SetNX(ctx, path, value, heartbeat); !set → ErrKeyExists", fmt.Sprintf("SETNX of path with the heartbeat as TTL: %v; lost race reported: %v", ok1, existsOK))
		// E2: identity
		var ident types.Object
		if setnx != nil {
			ident = R.objOf(setnx.Args[2])
		}
		fresh := ident != nil && !isPkgLevel(ident)
		if _, isConst := ident.(*types.Const); isConst {
			fresh = false
		}
		r.check(fresh, "E2", "store/redis StartEphemeral / the value written identifies this registrant", p.pos(setnx), "a value made in this call",
			"the value stored under the key is `"+exprStr(setnx.Args[2])+"`, the same for every registrant: after a lapse and a takeover nothing distinguishes the new holder's key from the old one's")
		// E3: refresh / delete carry the identity
		for _, h := range []struct{ fn, prim, what string }{{"refreshEphemeral", "Expire", "refresh"}, {"revokeEphemeral", "Del", "delete"}} {
			H := p.Fn("store/redis.(*Rediaron)." + h.fn)
			key := "store/redis " + h.fn + " / the " + h.what + " only acts on this registrant's own key"
			if H == nil {
				r.undecided("E3", key, "", "not found")
				continue
			}
			plain := len(H.callsDeep(func(f *types.Func) bool { return f.Name() == h.prim })) > 0
			// does any call site pass the identity, and does the helper use a compare (Eval/EvalSha/script) with it?
			conditional := len(H.callsDeep(func(f *types.Func) bool { return f.Name() == "Eval" || f.Name() == "EvalSha" || f.Name() == "Run" })) > 0
			if conditional && !plain {
				r.ok("E3", key, p.pos(H.Decl), "conditional on the stored value")
			} else {
				r.bad("E3", key, p.pos(H.Decl), "the "+h.what+" is a plain "+strings.ToUpper(h.prim)+" on the path: when this registrant's key lapsed (pause longer than the TTL) and another registrant created the key, this one "+map[string]string{"refresh": "keeps extending", "delete": "deletes"}[h.what]+" the other's registration")
			}
		}
		// E4: the boolean of EXPIRE
		if H := p.Fn("store/redis.(*Rediaron).refreshEphemeral"); H != nil {
			why := "the boolean answer of the refresh (key absent) is discarded: a registrant whose key is gone is not told"
			H.inspectBody(func(n ast.Node) bool {
				as, ok := n.(*ast.AssignStmt)
				if !ok || len(as.Rhs) != 1 || len(as.Lhs) != 2 {
					return true
				}
				if id, ok := as.Lhs[0].(*ast.Ident); ok && id.Name != "_" {
					// the value is used in a condition that returns an error
					o := H.objOf(id)
					H.inspectBody(func(x ast.Node) bool {
						if is, ok := x.(*ast.IfStmt); ok && H.usesObj(is.Cond, o) {
							why = ""
						}
						return true
					})
				}
				return true
			})
			r.check2(why, "E4", "store/redis refreshEphemeral / an absent key is reported to the keeper", p.pos(H.Decl), "ok, err := Expire(…); if !ok → error")
		} else {
			r.undecided("E4", "store/redis refreshEphemeral", "", "not found")
		}
		var keeper *FuncNode
		for _, l := range R.Lits {
			if len(l.callsDeep(func(f *types.Func) bool { return f.Name() == "refreshEphemeral" })) > 0 {
				keeper = l
			}
		}
		c26Keeper(p, r, "store/redis", R, keeper)
	}

	// ---------------- users
	if W := p.Fn("selfmon.(*NodeStatusWatcher).withActiveLock"); W == nil {
		r.undecided("U1", "selfmon.(*NodeStatusWatcher).withActiveLock", "", "not found")
	} else {
		// go func(){ defer cancel(); select { case <-ctx.Done(): case <-expiry: } }() and f(ctx) with the derived ctx
		why := "losing the active key does not cancel the watcher's work"
		var expiry types.Object
		W.inspectBody(func(n ast.Node) bool {
			if vs, ok := n.(*ast.ValueSpec); ok && len(vs.Names) == 1 && vs.Names[0].Name == "expiry" {
				expiry = W.Pkg.TypesInfo.ObjectOf(vs.Names[0])
			}
			return true
		})
		if g := goLiteral(p, W); g != nil && expiry != nil {
			deferCancel := false
			if len(g.Body.List) > 0 {
				if ds, ok := g.Body.List[0].(*ast.DeferStmt); ok && exprStr(ds.Call.Fun) == "cancel" {
					deferCancel = true
				}
			}
			waits := false
			ast.Inspect(g.Body, func(n ast.Node) bool {
				if u, ok := n.(*ast.UnaryExpr); ok && u.Op == token.ARROW && g.objOf(u.X) == expiry {
					waits = true
				}
				return true
			})
			fcall := false
			W.inspectBody(func(n ast.Node) bool {
				if c, ok := n.(*ast.CallExpr); ok && W.objOf(c.Fun) == W.paramObj(1) && len(c.Args) == 1 {
					// ctx argument is the one derived by WithCancel in this function
					if def := W.objOf(c.Args[0]); def != nil && W.paramIndex(def) < 0 {
						fcall = true
					}
				}
				return true
			})
			// expiry assigned from register's first result
			assigned := false
			W.inspectBody(func(n ast.Node) bool {
				if as, ok := n.(*ast.AssignStmt); ok {
					for _, l := range as.Lhs {
						if W.objOf(l) == expiry {
							assigned = true
						}
					}
				}
				return true
			})
			// after the expiry case fired, the goroutine returns (running the deferred cancel) without blocking on anything else
			prompt := true
			ast.Inspect(g.Body, func(n ast.Node) bool {
				cc, ok := n.(*ast.CommClause)
				if !ok || cc.Comm == nil {
					return true
				}
				es, ok := cc.Comm.(*ast.ExprStmt)
				if !ok {
					return true
				}
				if u, ok := unparen(es.X).(*ast.UnaryExpr); !ok || u.Op != token.ARROW || g.objOf(u.X) != expiry {
					return true
				}
				for _, st := range cc.Body {
					ast.Inspect(st, func(x ast.Node) bool {
						switch y := x.(type) {
						case *ast.UnaryExpr:
							if y.Op == token.ARROW {
								prompt = false
							}
						case *ast.SelectStmt, *ast.ForStmt, *ast.RangeStmt:
							prompt = false
						}
						return true
					})
				}
				return true
			})
			if deferCancel && waits && fcall && assigned && prompt {
				why = ""
			} else if !prompt {
				why = "after the expiry channel closed the watcher goroutine waits for something else before it returns: the work keeps running under a live context although the active key is lost"
			} else if why != "" && prompt {
				why = fmt.Sprintf("watcher goroutine cancels on exit: %v; it waits on the expiry channel: %v; the work runs under the cancellable context: %v; expiry bound to the registration: %v", deferCancel, waits, fcall, assigned)
			}
		}
		r.check2(why, "U1", "selfmon.(*NodeStatusWatcher).withActiveLock / a lapsed active key stops the watcher's work", p.pos(W.Decl), "go { defer cancel(); select { case <-ctx.Done(): case <-expiry: } }; f(ctx)")
	}
	// U1 (callers): the work handed to withActiveLock runs under the context it is GIVEN (the one that is cancelled when
	// the active key lapses), not under a context captured from outside
	for _, fn := range p.sortedFuncs("selfmon") {
		if fn.Body == nil {
			continue
		}
		fn.inspectBody(func(n ast.Node) bool {
			c, ok := n.(*ast.CallExpr)
			if !ok || fn.Callee(c) == nil || objName(fn.Callee(c)) != "selfmon.(*NodeStatusWatcher).withActiveLock" || len(c.Args) != 2 {
				return true
			}
			key := fn.Name + " / the work handed to withActiveLock runs under the context it is given"
			cb, ok := p.resolveFuncArg(fn, c.Args[1])
			if !ok || cb == nil {
				r.undecided("U1", key, p.pos(c), "callback not resolved")
				return true
			}
			given := cb.paramObj(0)
			why := ""
			if given == nil || given.Name() == "_" || given.Name() == "" {
				why = "the callback ignores the context it is given"
			}
			isCtx := func(t types.Type) bool { return t != nil && t.String() == "context.Context" }
			cb.inspectBody(func(x ast.Node) bool {
				cc, ok := x.(*ast.CallExpr)
				if !ok || cb.Callee(cc) == nil {
					return true
				}
				if pk := cb.Callee(cc).Pkg(); pk != nil && strings.HasSuffix(pk.Path(), "/log") {
					return true // logging may use any context
				}
				for _, a := range cc.Args {
					if !isCtx(cb.typeOf(a)) {
						continue
					}
					id, ok := unparen(a).(*ast.Ident)
					if !ok {
						continue
					}
					o := cb.objOf(id)
					if o == given {
						continue
					}
					// a local of the callback derived from the given context is fine; anything declared outside is captured
					if o != nil && cb.Body.Pos() <= o.Pos() && o.Pos() <= cb.Body.End() {
						continue
					}
					why = "`" + exprStr(cc.Fun) + "` runs under `" + id.Name + "`, a context captured from outside the callback: it is not cancelled when the active key lapses, so a lapsed watcher keeps working while another one holds the key"
				}
				return true
			})
			r.check2(why, "U1", key, p.pos(c), "every context argument inside the callback is the callback's own parameter")
			return true
		})
	}
	if S := p.Fn("cluster/calcium.(*Calcium).RegisterService"); S == nil {
		r.undecided("U2", "cluster/calcium.(*Calcium).RegisterService", "", "not found")
	} else {
		why := "the registration is not renewed when the expiry channel closes"
		for _, l := range S.Lits {
			rereg, unreg := false, false
			ast.Inspect(l.Body, func(n ast.Node) bool {
				if cc, ok := n.(*ast.CommClause); ok && cc.Comm != nil {
					if es, ok := cc.Comm.(*ast.ExprStmt); ok {
						if u, ok := unparen(es.X).(*ast.UnaryExpr); ok && u.Op == token.ARROW && exprStr(u.X) == "expiry" {
							for _, st := range cc.Body {
								ast.Inspect(st, func(x ast.Node) bool {
									if c, ok := x.(*ast.CallExpr); ok && l.Callee(c) != nil && l.Callee(c).Name() == "registerService" {
										rereg = true
									}
									return true
								})
							}
						}
					}
				}
				if c, ok := n.(*ast.CallExpr); ok && exprStr(c.Fun) == "unregisterService" {
					unreg = true
				}
				return true
			})
			if rereg && unreg {
				why = ""
			}
		}
		r.check2(why, "U2", "cluster/calcium.(*Calcium).RegisterService / a lapsed registration is renewed, and removed on exit", p.pos(S.Decl), "case <-expiry: registerService(…); defer unregisterService()")
	}
}

// goLiteral: the literal of fn that is started with a go statement or the worker pool.
func goLiteral(p *Prog, fn *FuncNode) *FuncNode {
	var out *FuncNode
	// the literal itself or a local bound once to a literal (`keeper := func(){…}; pool.Invoke(keeper)`)
	resolve := func(e ast.Expr) *FuncNode {
		if t, ok := p.resolveFuncArg(fn, e); ok && t != nil && t.Lit != nil && topOf(t) == topOf(fn) {
			return t
		}
		return nil
	}
	ast.Inspect(fn.Body, func(x ast.Node) bool {
		switch s := x.(type) {
		case *ast.GoStmt:
			if t := resolve(s.Call.Fun); t != nil {
				out = t
			}
		case *ast.CallExpr:
			if sel, ok := unparen(s.Fun).(*ast.SelectorExpr); ok && sel.Sel.Name == "Invoke" && len(s.Args) == 1 {
				if t := resolve(s.Args[0]); t != nil {
					out = t
				}
			}
		}
		return true
	})
	return out
}

// E5: keeper closes expiry first-statement-deferred (after wg.Done), deregistration cancels and waits.
func c26Keeper(p *Prog, r *Result, pkg string, F, keeper *FuncNode) {
	key := pkg + " StartEphemeral / every exit of the keeper closes the expiry channel"
	if keeper == nil {
		r.undecided("E5", key, p.pos(F.Decl), "keeper goroutine not found")
		return
	}
	closes := false
	for i, st := range keeper.Body.List {
		ds, ok := st.(*ast.DeferStmt)
		if !ok {
			break
		}
		if id, ok := ds.Call.Fun.(*ast.Ident); ok && id.Name == "close" && i <= 1 {
			closes = true
		}
	}
	r.check(closes, "E5", key, p.pos(keeper.Lit), "defer close(expiry) among the first defers", "the expiry channel is not closed by a leading defer of the keeper: some exit (failed refresh, cancellation) leaves the registrant without notification")
	// returned func cancels and waits
	ok := false
	F.inspectBody(func(n ast.Node) bool {
		rt, isR := n.(*ast.ReturnStmt)
		if !isR || len(rt.Results) != 3 {
			return true
		}
		if t, isL := p.resolveFuncArg(F, rt.Results[1]); isL && t != nil && t.Lit != nil {
			lit := t.Lit
			cancel, wait := false, false
			ast.Inspect(lit.Body, func(x ast.Node) bool {
				if c, isC := x.(*ast.CallExpr); isC {
					switch exprStr(c.Fun) {
					case "cancel":
						cancel = true
					case "wg.Wait":
						wait = true
					}
				}
				return true
			})
			ok = cancel && wait
		}
		return true
	})
	r.check(ok, "E5", pkg+" StartEphemeral / deregistration stops the keeper and waits for it", p.pos(F.Decl), "func() { cancel(); wg.Wait() }", "the returned deregistration does not cancel the keeper and wait for it: the key may still be refreshed after deregistration returned")
}
