package main

// C06: CPU planning always terminates without crashing (E6/N2 sign analysis).

import (
	"fmt"
	"go/ast"
	"go/constant"
	"go/token"
	"go/types"
	"sort"
	"strings"

	"golang.org/x/tools/go/ssa"
)

func init() { register("C06", checkC06) }

var c06Pkgs = []string{"resource/plugins/cpumem/schedule", "resource/plugins/cpumem"}

// packages whose functions take part in the summaries (stores, field signs) without generating obligations
var c06Support = []string{"resource/plugins/cpumem/types"}

const c06Mod = "github.com/projecteru2/core/"

// entry assumptions, one line each, from the property's quantifier
var c06ParamAssume = map[string]sgn{
	c06Mod + "resource/plugins/cpumem/schedule.GetCPUPlans.shareBase":            sPos,         // any positive share base
	c06Mod + "resource/plugins/cpumem/schedule.GetCPUPlans.maxFragmentCores":     sNeg | sPos,  // -1 (unlimited) or a positive limit
	"(" + c06Mod + "resource/plugins/cpumem.Plugin).CalculateDeploy.deployCount": sZero | sPos, // instance counts are not negative
}

// obligations not raised, one line of reason each
var c06Exempt = map[string]string{
	"(*" + c06Mod + "resource/plugins/cpumem/schedule.cpuCoreHeap).Pop": "heap.Interface.Pop is only called by container/heap, on a non-empty heap (its contract); C03/HP checks that nothing calls it directly",
}
var c06SymAssume = map[string]sgn{
	"types.WorkloadResourceRequest.CPURequest": sZero | sPos, // Validate rejects negative CPU (VAL)
	"types.WorkloadResourceRequest.MemRequest": sZero | sPos, // Validate rejects negative memory (VAL)
	"types.SchedulerConfig.ShareBase":          sPos,         // configuration: positive share base
	"types.SchedulerConfig.MaxShare":           sNeg | sPos,  // configuration: -1 or positive
}

type c06Oblig struct {
	fn    *ssa.Function
	kind  string // slice-low | slice-high | divisor | loop-step
	v     ssa.Value
	ins   ssa.Instruction
	need  sgn // allowed signs
	text  string
	pos   token.Pos
	whatN string
}

func checkC06(p *Prog, r *Result, tier string) {
	r.Technique = "sign analysis by abstract interpretation over go/ssa (domain: subsets of {<0, =0, >0}; branch refinement per CFG edge; field-based summaries of struct fields; call-site joins for parameters of statically-called functions; stable-field symbols), obligations generated for every slice bound, integer divisor and counted loop of the planner and of the plugin functions that call it; must-pass-through rule for request validation"
	r.Explanation = "Every obligation of the following kinds in resource/plugins/cpumem/schedule and resource/plugins/cpumem is generated from the SSA form and discharged by the sign analysis under the stated entry assumptions: SB every non-constant slice bound is provably not negative (a negative bound panics); MK every non-constant length or capacity handed to make([]T, …) is provably not negative; DV every integer divisor is provably not zero (division by zero panics); LP every loop `for <len or Len()> >= n` whose bound n does not change in the loop has n provably positive (with n <= 0 the condition is always true and the loop, which appends a plan per iteration, never ends). " +
		"VAL the entry assumptions on the request come from WorkloadResourceRequest.Validate (it returns an error for negative memory or CPU and for a bound request without CPU) and every plugin entry point that plans (CalculateDeploy, CalculateRealloc, GetNodesDeployCapacity) returns Validate's error before it reaches the planner or the allocation helpers. Nothing is executed; upper bounds of slice expressions and indexes are not decided."
	r.NotCovered = "upper bounds (index < len, high <= cap); termination of loops whose variant is not a parameter; arithmetic overflow; panics inside library calls; memory exhaustion"
	r.Assumptions = []string{"share base > 0; max share = -1 or > 0 (property quantifier)", "request CPU >= 0 and memory >= 0 after Validate (VAL)", "methods named Len return a non-negative int", "A1 no reflection/unsafe"}
	r.min("SB", 5)
	r.min("DV", 8)
	r.min("LP", 2)
	r.min("VAL", 6)

	a := newSignAn(p, append(append([]string{}, c06Pkgs...), c06Support...), c06ParamAssume, c06SymAssume)
	// AST index for readable, position-independent obligation names
	type fileIdx struct {
		slices map[token.Pos]*ast.SliceExpr
		bins   map[token.Pos]*ast.BinaryExpr
	}
	idx := fileIdx{map[token.Pos]*ast.SliceExpr{}, map[token.Pos]*ast.BinaryExpr{}}
	for _, rel := range c06Pkgs {
		pk := p.ByPath[rel]
		if pk == nil {
			r.undecided("anchor", rel, "", "package not found")
			return
		}
		for _, f := range pk.Syntax {
			ast.Inspect(f, func(n ast.Node) bool {
				switch x := n.(type) {
				case *ast.SliceExpr:
					idx.slices[x.Lbrack] = x
				case *ast.BinaryExpr:
					idx.bins[x.OpPos] = x
				}
				return true
			})
		}
	}
	var obs []c06Oblig
	fns := make([]*ssa.Function, 0, len(a.scope))
	for f := range a.scope {
		if strings.HasSuffix(p.Fset.Position(f.Pos()).Filename, "_test.go") || f.Pkg == nil || relPath(f.Pkg.Pkg.Path()) == c06Support[0] {
			continue
		}
		fns = append(fns, f)
	}
	sort.Slice(fns, func(i, j int) bool { return fns[i].String() < fns[j].String() })
	isConst := func(v ssa.Value) bool { _, ok := v.(*ssa.Const); return ok }
	for _, f := range fns {
		if _, ex := c06Exempt[f.String()]; ex {
			continue
		}
		for _, b := range f.Blocks {
			for _, ins := range b.Instrs {
				switch x := ins.(type) {
				case *ssa.Slice:
					txt := "slice"
					if se := idx.slices[x.Pos()]; se != nil {
						txt = exprStr(se)
					}
					if x.Low != nil && !isConst(x.Low) {
						obs = append(obs, c06Oblig{f, "slice-low", x.Low, ins, sZero | sPos, txt, x.Pos(), "lower bound"})
					}
					if x.High != nil && !isConst(x.High) {
						if c, ok := x.High.(*ssa.Call); ok {
							if bi, ok := c.Call.Value.(*ssa.Builtin); ok && bi.Name() == "len" {
								continue
							}
						}
						obs = append(obs, c06Oblig{f, "slice-high", x.High, ins, sZero | sPos, txt, x.Pos(), "upper bound"})
					}
				case *ssa.MakeSlice:
					for _, b := range []struct {
						v    ssa.Value
						what string
					}{{x.Len, "length"}, {x.Cap, "capacity"}} {
						if b.v != nil && !isConst(b.v) {
							if c, ok := b.v.(*ssa.Call); ok {
								if bi, ok := c.Call.Value.(*ssa.Builtin); ok && (bi.Name() == "len" || bi.Name() == "cap") {
									continue
								}
							}
							obs = append(obs, c06Oblig{f, "make-" + b.what, b.v, ins, sZero | sPos, "make(" + x.Type().String() + ", …)", x.Pos(), b.what})
						}
					}
				case *ssa.BinOp:
					if (x.Op == token.QUO || x.Op == token.REM) && isIntType(x.Type()) && !isConst(x.Y) {
						txt := x.String()
						if be := idx.bins[x.Pos()]; be != nil {
							txt = exprStr(be)
						}
						obs = append(obs, c06Oblig{f, "divisor", x.Y, ins, sNeg | sPos, txt, x.Pos(), "divisor"})
					}
				case *ssa.If:
					if b.Comment != "for.loop" {
						continue
					}
					c, ok := x.Cond.(*ssa.BinOp)
					if !ok || (c.Op != token.GEQ && c.Op != token.GTR) {
						continue
					}
					call, ok := c.X.(*ssa.Call)
					if !ok {
						continue
					}
					isLen := false
					if bi, ok := call.Call.Value.(*ssa.Builtin); ok && bi.Name() == "len" {
						isLen = true
					}
					if sc := call.Call.StaticCallee(); sc != nil && sc.Name() == "Len" {
						isLen = true
					}
					if call.Call.IsInvoke() && call.Call.Method.Name() == "Len" {
						isLen = true
					}
					if !isLen || isConst(c.Y) {
						continue
					}
					// n is defined outside the loop (parameter, or defined in a block that dominates the header)
					if def, ok := c.Y.(ssa.Instruction); ok && def.Block() != nil && !def.Block().Dominates(b) {
						continue
					}
					if _, isPhi := c.Y.(*ssa.Phi); isPhi {
						continue
					}
					txt := c.String()
					if be := idx.bins[c.Pos()]; be != nil {
						txt = exprStr(be)
					}
					need := sPos
					if c.Op == token.GTR {
						need = sZero | sPos
					}
					obs = append(obs, c06Oblig{f, "loop-step", c.Y, ins, need, txt, c.Pos(), "loop bound"})
				}
			}
		}
	}
	rule := map[string]string{"slice-low": "SB", "slice-high": "SB", "divisor": "DV", "loop-step": "LP", "make-length": "MK", "make-capacity": "MK"}
	seenKey := map[string]int{}
	for _, o := range obs {
		e, pt, reached := a.envAt(o.fn, o.ins)
		fname := strings.TrimPrefix(strings.ReplaceAll(o.fn.String(), c06Mod, ""), "")
		base := fmt.Sprintf("%s / %s of `%s`", fname, o.whatN, o.text)
		seenKey[base]++
		key := base
		if seenKey[base] > 1 {
			key = fmt.Sprintf("%s #%d", base, seenKey[base])
		}
		if !reached {
			r.ok(rule[o.kind], key, p.posOf(o.pos), "unreachable under the entry assumptions")
			continue
		}
		s := a.eval(o.fn, o.v, e, 0, map[ssa.Value]bool{}, pt)
		if s&^o.need == 0 {
			r.ok(rule[o.kind], key, p.posOf(o.pos), fmt.Sprintf("%s is %s", o.whatN, s))
			continue
		}
		var why string
		switch o.kind {
		case "slice-low", "slice-high":
			why = fmt.Sprintf("the %s may be negative (sign %s): the slice expression panics (slice bounds out of range)", o.whatN, s)
		case "make-length", "make-capacity":
			why = fmt.Sprintf("the %s of the slice being made may be negative (sign %s): make panics (makeslice: len/cap out of range)", o.whatN, s)
		case "divisor":
			why = fmt.Sprintf("the divisor may be zero (sign %s): integer divide by zero panics", s)
		case "loop-step":
			why = fmt.Sprintf("the loop bound may be %s: with a bound that is not positive the condition is always true and the loop never ends (it allocates without bound)", s)
		}
		r.bad(rule[o.kind], key, p.posOf(o.pos), why)
	}
	r.Analysed["functions_in_sign_analysis"] = len(fns)
	r.Analysed["sign_obligations"] = len(obs)
	var fs []string
	for k, v := range a.fieldSign {
		fs = append(fs, k+" "+v.String())
	}
	sort.Strings(fs)
	r.Tables["field_signs"] = fs
	var ps []string
	for prm, s := range a.paramSign {
		if !a.fixedPar[prm] && isNumeric(prm.Type()) {
			ps = append(ps, strings.ReplaceAll(prm.Parent().String(), c06Mod, "")+"."+prm.Name()+" "+s.String())
		}
	}
	sort.Strings(ps)
	r.Tables["parameter_signs_from_call_sites"] = ps
	var ex []string
	for k, v := range c06Exempt {
		ex = append(ex, strings.ReplaceAll(k, c06Mod, "")+": "+v)
	}
	r.Tables["exempt_functions"] = ex
	r.Tables["entry_assumptions"] = []string{"GetCPUPlans.shareBase >0", "GetCPUPlans.maxFragmentCores ≠0", "WorkloadResourceRequest.CPURequest ≥0", "WorkloadResourceRequest.MemRequest ≥0", "SchedulerConfig.ShareBase >0", "SchedulerConfig.MaxShare ≠0"}

	checkC06Validate(p, r)
}

// VAL: Validate's guarantees and its must-pass-through position in the plugin entry points.
func checkC06Validate(p *Prog, r *Result) {
	V := p.Fn("resource/plugins/cpumem/types.(*WorkloadResourceRequest).Validate")
	if V == nil {
		r.undecided("VAL", "types.(*WorkloadResourceRequest).Validate", "", "not found")
		return
	}
	rv := recvObj(V)
	// error-returning guards: collect (field, op, const) atoms of conditions whose body returns a non-nil error
	type atom struct{ field, op string }
	rejects := map[atom]bool{}
	V.inspectBody(func(n ast.Node) bool {
		is, ok := n.(*ast.IfStmt)
		if !ok || len(is.Body.List) != 1 {
			return true
		}
		rt, ok := is.Body.List[0].(*ast.ReturnStmt)
		if !ok || len(rt.Results) != 1 || isNilIdent(rt.Results[0]) {
			return true
		}
		var conj, disj func(e ast.Expr, out *[]ast.Expr)
		disj = func(e ast.Expr, out *[]ast.Expr) {
			if be, ok := unparen(e).(*ast.BinaryExpr); ok && be.Op == token.LOR {
				disj(be.X, out)
				disj(be.Y, out)
				return
			}
			*out = append(*out, unparen(e))
		}
		conj = func(e ast.Expr, out *[]ast.Expr) {
			if be, ok := unparen(e).(*ast.BinaryExpr); ok && be.Op == token.LAND {
				conj(be.X, out)
				conj(be.Y, out)
				return
			}
			*out = append(*out, unparen(e))
		}
		var ds []ast.Expr
		disj(is.Cond, &ds)
		for _, d := range ds {
			var cs []ast.Expr
			conj(d, &cs)
			var parts []string
			for _, c := range cs {
				switch x := c.(type) {
				case *ast.BinaryExpr:
					if sel, ok := unparen(x.X).(*ast.SelectorExpr); ok && V.objOf(sel.X) == rv {
						if tv, has := V.Pkg.TypesInfo.Types[x.Y]; has && tv.Value != nil && constant.Sign(tv.Value) == 0 {
							parts = append(parts, sel.Sel.Name+x.Op.String()+"0")
						}
					}
				case *ast.SelectorExpr:
					if V.objOf(x.X) == rv {
						parts = append(parts, x.Sel.Name)
					}
				}
			}
			sort.Strings(parts)
			rejects[atom{strings.Join(parts, "&&"), ""}] = true
		}
		return true
	})
	for _, want := range []struct{ a, what string }{
		{"MemRequest<0", "negative requested memory is rejected"},
		{"CPURequest<0", "negative requested CPU is rejected"},
		{"CPUBind&&CPURequest==0", "a bound request without CPU is rejected"},
	} {
		r.check(rejects[atom{want.a, ""}], "VAL", V.Name+" / "+want.what, p.pos(V.Decl), "if "+want.a+" → error", "Validate no longer returns an error for `"+want.a+"`: the sign assumptions of the planner's inputs do not hold (negative divisor/quotients, zero-piece bound requests)")
	}
	// must pass through
	for _, name := range []string{"CalculateDeploy", "CalculateRealloc", "GetNodesDeployCapacity"} {
		F := p.Fn("resource/plugins/cpumem.Plugin." + name)
		key := "resource/plugins/cpumem.Plugin." + name + " / Validate's error is returned before any planning"
		if F == nil {
			r.undecided("VAL", key, "", "not found")
			continue
		}
		var guard *ast.IfStmt
		F.inspectBody(func(n ast.Node) bool {
			is, ok := n.(*ast.IfStmt)
			if !ok || is.Init == nil || guard != nil {
				return true
			}
			as, ok := is.Init.(*ast.AssignStmt)
			if !ok || len(as.Rhs) != 1 {
				return true
			}
			c, ok := unparen(as.Rhs[0]).(*ast.CallExpr)
			if !ok || F.Callee(c) != V.Obj {
				return true
			}
			if be, ok := unparen(is.Cond).(*ast.BinaryExpr); ok && be.Op == token.NEQ && isNilIdent(be.Y) {
				last := is.Body.List[len(is.Body.List)-1]
				if rt, ok := last.(*ast.ReturnStmt); ok && len(rt.Results) == 2 && !isNilIdent(rt.Results[1]) {
					guard = is
				}
			}
			return true
		})
		if guard == nil {
			// CalculateRealloc: `if err = newReq.Validate(); err != nil { return nil, err }`
			r.bad("VAL", key, p.pos(F.Decl), "no `if err := req.Validate(); err != nil { return …, err }`: unvalidated requests reach the planner")
			continue
		}
		gref := F.find(guard.Cond)
		why := ""
		n := 0
		for _, c := range F.calls(func(f *types.Func) bool {
			nm := objName(f)
			return nm == "resource/plugins/cpumem/schedule.GetCPUPlans" || strings.HasSuffix(nm, ".doAllocByMemory") || strings.HasSuffix(nm, ".doAllocByCPU") || strings.HasSuffix(nm, ".doGetNodeDeployCapacity")
		}) {
			n++
			if !F.dominates(gref, F.find(c)) {
				why = "the call at " + p.pos(c) + " is not dominated by the validation"
			}
		}
		if n == 0 {
			why = "no planning call found"
		}
		r.check2(why, "VAL", key, p.pos(guard), fmt.Sprintf("%d planning call(s) dominated by the validation", n))
	}
}
