package main

// C33: re-allocating a bound workload without change keeps its cores (E11 maporder + affinity data flow).

import (
	"go/token"
	"fmt"
	"go/ast"
	"go/types"
	"strings"
)

func init() { register("C33", checkC33) }

// mapOrderedAppends: slices appended to inside `for … range <map>` in fn, with the loop.
type moSite struct {
	slice string
	loop  *ast.RangeStmt
	at    ast.Node
}

func mapOrderedAppends(fn *FuncNode) []moSite {
	var out []moSite
	fn.inspectBody(func(n ast.Node) bool {
		rs, ok := n.(*ast.RangeStmt)
		if !ok {
			return true
		}
		if _, isMap := fn.typeOf(rs.X).Underlying().(*types.Map); !isMap {
			return true
		}
		inspectNoLit(rs.Body, func(x ast.Node) bool {
			as, ok := x.(*ast.AssignStmt)
			if !ok || len(as.Lhs) != 1 || len(as.Rhs) != 1 {
				return true
			}
			c, ok := unparen(as.Rhs[0]).(*ast.CallExpr)
			if !ok {
				return true
			}
			if id, ok := c.Fun.(*ast.Ident); ok && id.Name == "append" && len(c.Args) >= 2 && exprStr(c.Args[0]) == exprStr(as.Lhs[0]) {
				out = append(out, moSite{exprStr(as.Lhs[0]), rs, as})
			}
			return true
		})
		return true
	})
	return out
}

func checkC33(p *Prog, r *Result, tier string) {
	r.Technique = "map-iteration-order taint rule over resource/plugins/cpumem/schedule (a slice appended to inside a range over a map is order-tainted until a sort of that slice dominates the function's exits), data-flow rules for the affinity argument and for the element the caller takes, reachability of the affinity reorder"
	r.Explanation = "KEEP a bound re-allocation whose validated request asks for the same CPU amount as before keeps the cores and the numa node of the origin instead of re-planning; PB before re-planning the whole origin allocation (CPU, cores, memory, NUMA memory) is subtracted from the usage, so the workload does not compete with itself for the place it already has; MO in the planner package every slice that is appended to while ranging over a Go map is sorted before the function returns (sort.Slice/SliceStable/Strings on that slice dominates every later return): the position of a plan in the returned list, and the order in which cores are considered, never depend on map iteration order; " +
		"NO the per-NUMA-node planning loop of GetCPUPlans ranges over a sorted list of node ids whose comparator reads the affinity map (nodes holding the origin cores first), not over the map itself; " +
		"TOPO every core-to-numa-node lookup of the planner reads resourceInfo.Capacity.NUMA; NR the resources recorded for the re-allocated workload are built from the FULL new request (delta + origin) and the chosen plan only, never from the delta request; " +
		"AF1 CalculateRealloc passes the origin workload's CPU map as the affinity argument of GetCPUPlans and takes element 0 of the returned plans after an emptiness test; AF2 GetCPUPlans forwards that affinity map to every doGetCPUPlans call; AF3 a non-empty affinity map makes doGetCPUPlans build the origin host and reorder the new host by it, which switches the full-core planner to its affinity variant."
	r.NotCovered = "that the affinity variant actually yields the old cores for every node state (numeric / ordering inside getFullCPUPlansWithAffinity); nodes with fractional shares (excluded by the property)"
	r.Assumptions = []string{"sort.Slice* with a total order gives a deterministic result"}
	r.min("MO", 3)
	r.min("NO", 1)
	r.min("TOPO", 1)
	r.min("NR", 1)
	r.min("AF1", 2)
	r.min("AF2", 2)
	r.min("AF3", 2)

	const sp = "resource/plugins/cpumem/schedule"
	// ---- MO
	for _, fn := range p.sortedFuncs(sp) {
		for i, site := range mapOrderedAppends(fn) {
			key := fmt.Sprintf("%s / %s (filled while ranging over a map, #%d) is sorted before the function returns", fn.Name, site.slice, i+1)
			var sorts []*ast.CallExpr
			fn.inspectBody(func(n ast.Node) bool {
				if c, ok := n.(*ast.CallExpr); ok && c.Pos() > site.loop.End() {
					if f := fn.Callee(c); f != nil {
						nm := fullObjName(f)
						if (nm == "sort.Slice" || nm == "sort.SliceStable" || nm == "sort.Strings" || nm == "sort.Ints" || strings.HasPrefix(nm, "golang.org/x/exp/slices.Sort")) && len(c.Args) >= 1 && exprStr(c.Args[0]) == site.slice {
							sorts = append(sorts, c)
						}
					}
				}
				return true
			})
			why := ""
			if len(sorts) == 0 {
				why = "no sort of " + site.slice + " after the loop: its element order is the map's iteration order, so which plan comes first (and is taken by the caller) differs from call to call"
			} else {
				fn.inspectBody(func(n ast.Node) bool {
					if rt, ok := n.(*ast.ReturnStmt); ok && rt.Pos() > site.loop.End() {
						dom := false
						for _, s := range sorts {
							if fn.dominates(fn.find(s), fn.find(rt)) {
								dom = true
							}
						}
						if !dom {
							why = "return at " + p.pos(rt) + " is not dominated by the sort of " + site.slice
						}
					}
					return true
				})
			}
			r.check2(why, "MO", key, p.pos(site.at), "sorted after the loop")
		}
	}

	// ---- NO: the planning loop of GetCPUPlans
	G := p.Fn(sp + ".GetCPUPlans")
	D := p.Fn(sp + ".doGetCPUPlans")
	R := p.Fn(sp + ".reorderByAffinity")
	C := p.Fn("resource/plugins/cpumem.Plugin.CalculateRealloc")
	if G == nil || D == nil || R == nil || C == nil {
		r.undecided("anchor", "GetCPUPlans/doGetCPUPlans/reorderByAffinity/CalculateRealloc", "", "not found")
		return
	}
	aff := G.paramObj(1)
	// locals filled inside a loop that ranges over the affinity map are affinity-derived
	derived := derivedFrom(G, aff)
	// TOPO: every topology lookup (core -> numa node) in the planner uses the capacity's topology, the one the per-node
	// core maps are built from
	{
		n, bad := 0, ""
		ast.Inspect(G.Body, func(x ast.Node) bool {
			sel, ok := x.(*ast.SelectorExpr)
			if !ok || sel.Sel.Name != "NUMA" {
				return true
			}
			n++
			if inner, ok := unparen(sel.X).(*ast.SelectorExpr); !ok || inner.Sel.Name != "Capacity" || G.objOf(inner.X) != G.paramObj(0) {
				bad = exprStr(sel) + " at " + p.pos(sel)
			}
			return true
		})
		r.check(n > 0 && bad == "", "TOPO", G.Name+" / core-to-numa-node lookups use the capacity topology", p.pos(G.Decl), fmt.Sprintf("%d lookup(s), all resourceInfo.Capacity.NUMA", n),
			"topology read from `"+bad+"`: only Capacity.NUMA is kept up to date (usage carries a copy made when the node was added), so on a node whose topology was set later the origin cores' numa node is not recognised and a re-allocation without change moves the workload")
	}
	{
		why := "no loop planning each numa node"
		var at ast.Node = G.Decl
		G.inspectBody(func(n ast.Node) bool {
			rs, ok := n.(*ast.RangeStmt)
			if !ok || len(rs.Body.List) == 0 {
				return true
			}
			hasPlan := false
			inspectNoLit(rs.Body, func(x ast.Node) bool {
				if c, ok := x.(*ast.CallExpr); ok && G.Callee(c) == D.Obj {
					hasPlan = true
				}
				return true
			})
			if !hasPlan {
				return true
			}
			at = rs
			if _, isMap := G.typeOf(rs.X).Underlying().(*types.Map); isMap {
				why = "the per-numa-node plans are produced while ranging over a map: the order of the returned plans is arbitrary, and with two eligible numa nodes a re-allocation without change lands on either of them"
				return true
			}
			// slice: sorted by a comparator that (through local closures) reads the affinity parameter — in the planner
			// itself, or in a local helper that returns the ordered list and is handed the affinity map
			why = sortedByAffinity(p, G, exprStr(rs.X), rs.X, aff, derived)
			listExpr := unparen(rs.X)
			if o := G.objOf(listExpr); o != nil {
				if def := G.singleDef(o); def != nil {
					listExpr = unparen(def)
				}
			}
			if c, ok := listExpr.(*ast.CallExpr); ok && why != "" {
				if H := p.ByObj[G.Callee(c)]; H != nil && H.Body != nil && H.Pkg == G.Pkg {
					var haff types.Object
					for i, a := range c.Args {
						if G.objOf(a) == aff {
							haff = H.paramObj(i)
						}
					}
					// the single returned variable
					var ret *ast.ReturnStmt
					nret := 0
					inspectNoLit(H.Body, func(x ast.Node) bool {
						if rt, ok := x.(*ast.ReturnStmt); ok {
							nret++
							ret = rt
						}
						return true
					})
					switch {
					case haff == nil:
						why = "the helper that orders the node ids is not handed the affinity map: the numa node holding the origin cores is not guaranteed to be planned first"
					case nret != 1 || len(ret.Results) != 1 || H.objOf(ret.Results[0]) == nil:
						why = "the helper that orders the node ids does not return one list variable: the rule cannot tell how it is ordered"
					default:
						why = sortedByAffinity(p, H, exprStr(ret.Results[0]), ret, haff, derivedFrom(H, haff))
					}
				}
			}
			return true
		})
		r.check2(why, "NO", G.Name+" / numa nodes are planned in a fixed order, the origin cores' node first", p.pos(at), "range over node ids sorted by (holds origin cores, id)")
	}

	// ---- AF1
	{
		var origin types.Object
		// originResource: the WorkloadResource parsed from the `resource` parameter
		C.inspectBody(func(n ast.Node) bool {
			if c, ok := n.(*ast.CallExpr); ok {
				if sel, ok := unparen(c.Fun).(*ast.SelectorExpr); ok && sel.Sel.Name == "Parse" && len(c.Args) == 1 && C.objOf(c.Args[0]) == C.paramObj(2) {
					origin = C.objOf(sel.X)
				}
			}
			return true
		})
		var plans types.Object
		why := "CalculateRealloc does not call GetCPUPlans"
		var at ast.Node = C.Decl
		for _, c := range C.calls(func(f *types.Func) bool { return f == G.Obj }) {
			at = c
			sel, ok := unparen(c.Args[1]).(*ast.SelectorExpr)
			switch {
			case isNilIdent(c.Args[1]):
				why = "the affinity argument is nil: the planner has no reason to prefer the cores the workload already has"
			case !ok || sel.Sel.Name != "CPUMap" || origin == nil || C.objOf(sel.X) != origin:
				why = "the affinity argument is `" + exprStr(c.Args[1]) + "`, not the origin workload's CPU map"
			default:
				why = ""
			}
			C.inspectBody(func(n ast.Node) bool {
				if as, ok := n.(*ast.AssignStmt); ok && len(as.Rhs) == 1 && unparen(as.Rhs[0]) == ast.Expr(c) {
					plans = C.objOf(as.Lhs[0])
				}
				return true
			})
		}
		r.check2(why, "AF1", C.Name+" / the origin CPU map is the affinity argument of the planner", p.pos(at), "GetCPUPlans(info, originResource.CPUMap, …)")
		why = "no `cpuPlans[0]` taken from the planner's result"
		C.inspectBody(func(n ast.Node) bool {
			ix, ok := n.(*ast.IndexExpr)
			if !ok || plans == nil || C.objOf(ix.X) != plans {
				return true
			}
			if v, isC := C.constInt(ix.Index); isC && v == 0 {
				why = ""
			} else {
				why = "the plan taken is element `" + exprStr(ix.Index) + "`, not the first one (the affinity order puts the unchanged placement first)"
			}
			return true
		})
		r.check2(why, "AF1", C.Name+" / the first plan is the one applied", p.pos(C.Decl), "cpuPlans[0]")
		// NR: nothing recorded for the new workload reads the delta request
		{
			var delta types.Object
			C.inspectBody(func(n ast.Node) bool {
				if c, ok := n.(*ast.CallExpr); ok {
					if sel, ok := unparen(c.Fun).(*ast.SelectorExpr); ok && sel.Sel.Name == "Parse" && len(c.Args) == 1 && C.objOf(c.Args[0]) == C.paramObj(3) {
						delta = C.objOf(sel.X)
					}
				}
				return true
			})
			var newRes types.Object
			var lit *ast.CompositeLit
			C.inspectBody(func(n ast.Node) bool {
				if as, ok := n.(*ast.AssignStmt); ok && len(as.Lhs) == 1 && len(as.Rhs) == 1 {
					e := unparen(as.Rhs[0])
					if u, ok := e.(*ast.UnaryExpr); ok {
						e = unparen(u.X)
					}
					if cl, ok := e.(*ast.CompositeLit); ok && strings.HasSuffix(C.typeOf(cl).String(), "types.WorkloadResource") {
						newRes, lit = C.objOf(as.Lhs[0]), cl
					}
				}
				return true
			})
			whyN := ""
			if delta == nil || newRes == nil {
				whyN = "could not identify the delta request or the recorded workload resource"
			} else {
				usesDelta := func(n ast.Node) string {
					out := ""
					ast.Inspect(n, func(x ast.Node) bool {
						if sel, ok := x.(*ast.SelectorExpr); ok && C.objOf(sel.X) == delta {
							out = exprStr(sel)
						}
						return true
					})
					return out
				}
				if u := usesDelta(lit); u != "" {
					whyN = "the recorded resource is built from `" + u + "`, a field of the DELTA request"
				}
				// locals feeding the literal (numaMemory etc.) and later field assignments
				C.inspectBody(func(n ast.Node) bool {
					as, ok := n.(*ast.AssignStmt)
					if !ok || len(as.Rhs) != 1 {
						return true
					}
					feeds := false
					for _, l := range as.Lhs {
						if sel, ok := unparen(l).(*ast.SelectorExpr); ok && C.objOf(sel.X) == newRes {
							feeds = true
						}
						if o := C.objOf(l); o != nil && lit != nil && C.usesObj(lit, o) {
							feeds = true
						}
					}
					if t := C.typeOf(as.Rhs[0]); t != nil && strings.HasSuffix(t.String(), "WorkloadResourceRequest") {
						feeds = false // the full request itself is, by construction, delta + origin (checked by C10/ADM)
					}
					if feeds {
						if u := usesDelta(as.Rhs[0]); u != "" && !strings.HasSuffix(u, "CPUBind") {
							whyN = "`" + exprStr(as.Lhs[0]) + "` of the recorded resource is computed from `" + u + "`, a field of the DELTA request: the workload's record (e.g. its per-numa-node memory) then holds the delta instead of the new total, usage drifts from the sum of the workloads, and a later re-allocation no longer finds room where the workload is"
						}
					}
					return true
				})
			}
			r.check2(whyN, "NR", C.Name+" / the recorded resources come from the full new request, not from the delta", p.pos(C.Decl), "every field of the new WorkloadResource reads newReq or the chosen plan")
		}
	}
	// ---- AF2
	{
		n := 0
		for _, c := range G.callsDeep(func(f *types.Func) bool { return f == D.Obj }) {
			n++
			r.check(G.objOf(c.Args[0]) == aff, "AF2", fmt.Sprintf("%s / planner call #%d receives the affinity map", G.Name, n), p.pos(c), "doGetCPUPlans(originCPUMap, …)", "the affinity map is not forwarded (`"+exprStr(c.Args[0])+"`): this plan ignores where the workload is")
		}
	}
	// ---- AF3
	{
		dAff := D.paramObj(0)
		why := "doGetCPUPlans does not reorder the host by the affinity map when one is given"
		D.inspectBody(func(n ast.Node) bool {
			is, ok := n.(*ast.IfStmt)
			if !ok {
				return true
			}
			if !strings.Contains(exprStr(is.Cond), "len("+dAff.Name()+") > 0") {
				return true
			}
			var originHost types.Object
			for _, st := range is.Body.List {
				if as, ok := st.(*ast.AssignStmt); ok && len(as.Rhs) == 1 {
					if c, ok := unparen(as.Rhs[0]).(*ast.CallExpr); ok && D.Callee(c) != nil && D.Callee(c).Name() == "newHost" && D.objOf(c.Args[0]) == dAff {
						originHost = D.objOf(as.Lhs[0])
					}
				}
				if es, ok := st.(*ast.ExprStmt); ok {
					if c, ok := unparen(es.X).(*ast.CallExpr); ok && D.Callee(c) == R.Obj && originHost != nil && D.objOf(c.Args[0]) == originHost {
						why = ""
					}
				}
			}
			return true
		})
		r.check2(why, "AF3", D.Name+" / a non-empty affinity map reorders the host by the origin cores", p.pos(D.Decl), "if len(origin) > 0 { reorderByAffinity(newHost(origin), h) }")
		// reorderByAffinity sets affinity = true and sorts both core lists; getFullCPUPlans dispatches on it
		setsFlag := false
		R.inspectBody(func(n ast.Node) bool {
			if as, ok := n.(*ast.AssignStmt); ok && len(as.Lhs) == 1 {
				if sel, ok := unparen(as.Lhs[0]).(*ast.SelectorExpr); ok && sel.Sel.Name == "affinity" && constBoolName(R, as.Rhs[0]) == "true" {
					setsFlag = true
				}
			}
			return true
		})
		nsort := len(R.calls(func(f *types.Func) bool { return isSortSlice(f) }))
		FP := p.Fn(sp + ".(*host).getFullCPUPlans")
		disp := false
		if FP != nil {
			FP.inspectBody(func(n ast.Node) bool {
				if is, ok := n.(*ast.IfStmt); ok {
					if sel, ok := unparen(is.Cond).(*ast.SelectorExpr); ok && sel.Sel.Name == "affinity" && len(is.Body.List) == 1 {
						if rt, ok := is.Body.List[0].(*ast.ReturnStmt); ok && len(rt.Results) == 1 {
							if c, ok := unparen(rt.Results[0]).(*ast.CallExpr); ok && FP.Callee(c) != nil && FP.Callee(c).Name() == "getFullCPUPlansWithAffinity" {
								disp = true
							}
						}
					}
				}
				return true
			})
		}
		r.check(setsFlag && nsort == 2 && disp, "AF3", R.Name+" / reordering sorts both core lists by the old position and switches the planner to its affinity variant", p.pos(R.Decl), "two stable sorts, affinity = true, getFullCPUPlans dispatches on it",
			fmt.Sprintf("affinity flag set: %v; core lists sorted: %d of 2; full-core planner dispatches on the flag: %v", setsFlag, nsort, disp))
	}
	// PB: the origin is put back completely before the re-plan (shared with C10/C04 under ADM)
	r.min("PB", 1)
	checkReallocPutBack(p, r, "PB")
	// AMT: the planner is asked, per NUMA node and across nodes, for the request's CPURequest and MemRequest — asking a NUMA
	// node for another amount (the limit) makes the origin node refuse a workload that fits it, and the re-plan moves it
	if G := p.Fn("resource/plugins/cpumem/schedule.GetCPUPlans"); G == nil {
		r.undecided("AMT", "resource/plugins/cpumem/schedule.GetCPUPlans", "", "not found")
	} else {
		n, bad := 0, ""
		G.inspectBody(func(x ast.Node) bool {
			c, ok := x.(*ast.CallExpr)
			if !ok || G.Callee(c) == nil || G.Callee(c).Name() != "doGetCPUPlans" || len(c.Args) != 7 {
				return true
			}
			n++
			if !strings.HasSuffix(exprStr(c.Args[5]), ".CPURequest") || !strings.HasSuffix(exprStr(c.Args[6]), ".MemRequest") {
				bad = "the planning call at " + p.pos(c) + " is asked for (`" + exprStr(c.Args[5]) + "`, `" + exprStr(c.Args[6]) + "`), not (req.CPURequest, req.MemRequest): the origin NUMA node can refuse the workload's own, unchanged allocation and the first plan comes from another node"
			}
			return true
		})
		r.min("AMT", 1)
		if n == 0 {
			bad = "no doGetCPUPlans call found"
		}
		r.check2(bad, "AMT", G.Name+" / every planning call is asked for the request's CPURequest and MemRequest", p.pos(G.Decl), "(…, req.CPURequest, req.MemRequest)")
	}
	// KEEP: when the (validated) new request asks for the same CPU amount as the workload already has, the workload keeps its
	// cores and numa node without re-planning (re-planning can only move it: a workload that spans numa nodes is never
	// produced again by the per-node-first planner once a single node has room), provided it still fits where it is
	if C := p.Fn("resource/plugins/cpumem.Plugin.CalculateRealloc"); C == nil {
		r.undecided("KEEP", "resource/plugins/cpumem.Plugin.CalculateRealloc", "", "not found")
	} else {
		why := "no branch keeps the origin's cores when the new request asks for the same CPU amount: every bound re-allocation goes through the planner and takes its first plan, which for a workload placed across numa nodes is a single-node plan on other cores as soon as one node has room"
		forEachCondBranch(C.Body, func(cond ast.Expr, body []ast.Stmt, _ ast.Node) {
			sameAmt := false
			for _, cj := range splitOp(cond, token.LAND) {
				be, ok := unparen(cj).(*ast.BinaryExpr)
				if !ok || be.Op != token.EQL {
					continue
				}
				l, ok1 := unparen(be.X).(*ast.SelectorExpr)
				rr, ok2 := unparen(be.Y).(*ast.SelectorExpr)
				if ok1 && ok2 && l.Sel.Name == "CPURequest" && rr.Sel.Name == "CPURequest" && C.objOf(l.X) != C.objOf(rr.X) {
					sameAmt = true
				}
			}
			if !sameAmt {
				return
			}
			keepsMap, keepsNode := false, false
			for _, st := range body {
				if as, ok := st.(*ast.AssignStmt); ok && len(as.Rhs) == 1 {
					if sel, ok := unparen(as.Rhs[0]).(*ast.SelectorExpr); ok {
						switch sel.Sel.Name {
						case "CPUMap":
							keepsMap = true
						case "NUMANode":
							keepsNode = true
						}
					}
				}
			}
			if keepsMap && keepsNode {
				why = ""
			}
		})
		r.min("KEEP", 1)
		r.check2(why, "KEEP", C.Name+" / a re-allocation that asks for the same CPU amount keeps the cores and the numa node", p.pos(C.Decl), "if newReq.CPURequest == origin.CPURequest && fits { cpuMap = origin.CPUMap; numaNode = origin.NUMANode }")
	}

}

// derivedFrom: locals of fn filled inside a loop that ranges over the affinity map
func derivedFrom(G *FuncNode, aff types.Object) map[types.Object]bool {
	derived := map[types.Object]bool{}
	G.inspectBody(func(n ast.Node) bool {
		rs, ok := n.(*ast.RangeStmt)
		if !ok || G.objOf(rs.X) != aff {
			return true
		}
		inspectNoLit(rs.Body, func(x ast.Node) bool {
			if as, ok := x.(*ast.AssignStmt); ok {
				for _, l := range as.Lhs {
					if base, _ := indexBaseObj(G, l); base != nil {
						derived[base] = true
					}
					if o := G.objOf(l); o != nil {
						derived[o] = true
					}
				}
			}
			return true
		})
		return true
	})
	return derived
}

// sortedByAffinity: in G the list written `sl` is sorted (sort.Slice dominating `use`) by a comparator that, through local
// closures, reads the affinity map `aff` (or a local derived from it); "" when so, else what is missing.
func sortedByAffinity(p *Prog, G *FuncNode, sl string, use ast.Node, aff types.Object, derived map[types.Object]bool) string {
	why := "the node id list is not sorted before the loop"
	G.inspectBody(func(x ast.Node) bool {
		c, ok := x.(*ast.CallExpr)
		if !ok || c.Pos() > use.Pos() {
			return true
		}
		f := G.Callee(c)
		if f == nil || !isSortSlice(f) || exprStr(c.Args[0]) != sl || !G.dominates(G.find(c), G.find(use)) {
			return true
		}
		// does the comparator reach the affinity map?
		reads := false
		var seenLits = map[*ast.FuncLit]bool{}
		var scan func(n ast.Node)
		scan = func(n ast.Node) {
			ast.Inspect(n, func(y ast.Node) bool {
				if id, ok := y.(*ast.Ident); ok {
					o := G.objOf(id)
					if o == aff {
						reads = true
					}
					// local closure variable: follow its literal
					if v, ok := o.(*types.Var); ok && !v.IsField() {
						if def := G.singleDef(o); def != nil {
							if fl, ok := unparen(def).(*ast.FuncLit); ok && !seenLits[fl] {
								seenLits[fl] = true
								scan(fl.Body)
							}
						}
						if derived[o] {
							reads = true
						}
					}
				}
				return true
			})
		}
		scan(c.Args[1])
		if reads {
			why = ""
		} else {
			why = "the node ids are sorted, but the order ignores the affinity map: the numa node holding the origin cores is not guaranteed to be planned first"
		}
		return true
	})
	return why
}
