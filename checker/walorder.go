package main

// E3: write-ahead-log discipline of cluster/calcium (C14, parts of C13 and C30).

import (
	"fmt"
	"go/ast"
	"go/token"
	"go/types"
	"sort"
	"strings"
)

func init() { register("C14", checkC14) }

// walEventSpec: per logged event, the effect it covers and what must have happened before its commit.
type walEventSpec struct {
	constName string
	covered   string // effect call the log entry covers
	mode      string // "before": Log dominates the effect; "after": Log follows the effect immediately
	resolve   string // "txn-return": commit only after the enclosing Txn returned; otherwise a call that must run before the commit
	why       string
}

var walEvents = []walEventSpec{
	{"eventWorkloadResourceAllocated", "resource.Manager.Alloc", "before", "txn-return", "usage is raised before the workloads exist; replay recomputes usage from recorded workloads"},
	{"eventProcessingCreated", "store.Store.CreateProcessing", "before", "store.Store.DeleteProcessing", "marker must be deleted (or its log entry kept) on every outcome"},
	{"eventWorkloadCreated", "engine.API.VirtualizationCreate", "after", "txn-return", "container exists before it is recorded; replay removes it if not recorded"},
	{"eventCreateLambda", "", "", "cluster/calcium.(*Calcium).doRemoveWorkloadSync", "lambda workload must be removed before its log entry is committed"},
}

type walSite struct {
	spec   *walEventSpec
	fn     *FuncNode // function containing the Log call
	call   *ast.CallExpr
	commit types.Object // variable (or map) holding the Commit
	item   ast.Expr
}

func findWalSites(p *Prog, r *Result) []*walSite {
	var out []*walSite
	cal := p.ByPath["cluster/calcium"]
	if cal == nil {
		return nil
	}
	for _, fn := range p.sortedFuncs("cluster/calcium") {
		if fn.Body == nil {
			continue
		}
		par := parentMap(fn.Body)
		fn.inspectBody(func(n ast.Node) bool {
			c, ok := n.(*ast.CallExpr)
			if !ok {
				return true
			}
			f := fn.Callee(c)
			if f == nil || (objName(f) != "wal.Logger.Log" && objName(f) != "wal.WAL.Log" && objName(f) != "wal.(*Hydro).Log") || len(c.Args) != 2 {
				return true
			}
			s := &walSite{fn: fn, call: c, item: c.Args[1]}
			if o, ok := fn.objOf(c.Args[0]).(*types.Const); ok {
				for i := range walEvents {
					if walEvents[i].constName == o.Name() {
						s.spec = &walEvents[i]
					}
				}
				if s.spec == nil {
					r.undecided("W0", fn.Name+" logs "+o.Name(), p.pos(c), "event constant not in the checker's event table: its crash-consistency obligations are unknown")
					return true
				}
			} else {
				r.undecided("W0", fn.Name+" logs "+exprStr(c.Args[0]), p.pos(c), "event type is not a constant")
				return true
			}
			// the commit holder
			var pn ast.Node = par[c]
			if as, ok := pn.(*ast.AssignStmt); ok && len(as.Lhs) == 2 {
				switch l := unparen(as.Lhs[0]).(type) {
				case *ast.Ident:
					s.commit = fn.Pkg.TypesInfo.ObjectOf(l)
				case *ast.IndexExpr:
					s.commit = fn.objOf(l.X)
				}
			}
			out = append(out, s)
			return true
		})
	}
	return out
}

// commitCalls finds the invocations of the Commit held by obj (directly, or of a value read from the map obj) in the
// lexical tree rooted at top.
func commitCalls(p *Prog, top *FuncNode, obj types.Object) (calls []*ast.CallExpr, fns []*FuncNode) {
	var visit func(fn *FuncNode)
	visit = func(fn *FuncNode) {
		// locals derived from the map
		derived := map[types.Object]bool{obj: true}
		fn.inspectBody(func(n ast.Node) bool {
			switch x := n.(type) {
			case *ast.AssignStmt:
				if len(x.Rhs) == 1 {
					if ix, ok := unparen(x.Rhs[0]).(*ast.IndexExpr); ok && fn.objOf(ix.X) == obj {
						if o := fn.objOf(x.Lhs[0]); o != nil {
							derived[o] = true
						}
					}
				}
			case *ast.RangeStmt:
				if fn.objOf(x.X) == obj && x.Value != nil {
					if o := fn.objOf(x.Value); o != nil {
						derived[o] = true
					}
				}
			}
			return true
		})
		fn.inspectBody(func(n ast.Node) bool {
			if c, ok := n.(*ast.CallExpr); ok {
				if id, ok := unparen(c.Fun).(*ast.Ident); ok && derived[fn.Pkg.TypesInfo.ObjectOf(id)] {
					if _, isSig := fn.typeOf(id).Underlying().(*types.Signature); isSig {
						calls = append(calls, c)
						fns = append(fns, fn)
					}
				}
			}
			return true
		})
		for _, l := range fn.Lits {
			visit(l)
		}
	}
	visit(top)
	return
}

func topOf(fn *FuncNode) *FuncNode {
	for fn.Parent != nil {
		fn = fn.Parent
	}
	return fn
}

// deferRegIndex: index of the top-level statement of H that registers deferred literal d (or -1).
func deferRegIndex(H, d *FuncNode) int {
	for i, s := range H.Body.List {
		if ds, ok := s.(*ast.DeferStmt); ok && d.Lit != nil && unparen(ds.Call.Fun) == ast.Expr(d.Lit) {
			return i
		}
	}
	return -1
}

func checkC14(p *Prog, r *Result, tier string) {
	r.Technique = "write-ahead ordering rules on go/cfg dominance and defer-stack order; writer/reader agreement of event item types; handler registration completeness"
	r.Explanation = "For every wal.Log site of cluster/calcium (4 event types): W1 the covered effect is dominated by the successful Log (for create-workload: Log follows the engine create with no other effect in between); W2 the Commit runs only after the covered effect is resolved on every path — for allocate-workload/create-workload the commit sits in a defer of the function that calls the enclosing Txn (so it runs after Txn returned), for create-processing the marker deletion runs before the commit in defer (LIFO) order; W3 every logged event constant has a handler constructed with that constant and registered in enableWAL; W4 the static type of the logged item is the type the handler's Encode/Check/Handle assert; W5 the fields of a logged item are final when it is logged: a field read from a local object (item{ID: w.ID}) is not assigned later in the same function, and if that function assigns it at all an assignment dominates the Log call — a log entry written before the identifier it carries is known cannot be matched to anything on replay; LV replay handlers' asynchronous closures do not capture a shared loop variable; RC recovery is invoked at start-up. " +
		"A crash between an effect and its missing/early-committed log entry is exactly a crash point after which recovery cannot repair."
	r.NotCovered = "what handlers achieve at run time; handler errors that are swallowed (WorkloadResourceAllocatedHandler.Handle returns nil); bbolt durability"
	r.Assumptions = []string{"A4 bbolt Put/Delete are durable and atomic"}
	a := newTxnAnalyzer(p, r)
	if a == nil {
		return
	}
	sites := findWalSites(p, r)
	r.min("W1", 3)
	r.min("W2", 4)
	r.min("W3", 4)
	r.min("W4", 4)
	r.min("W5", 4)
	r.Analysed["wal_log_sites"] = len(sites)
	var tbl []string
	for _, e := range walEvents {
		tbl = append(tbl, fmt.Sprintf("%s covers %s (%s), commit after %s — %s", e.constName, e.covered, e.mode, e.resolve, e.why))
	}
	r.Tables["wal_events"] = tbl
	txnSites := findTxnSites(p)
	for _, s := range sites {
		key := fmt.Sprintf("%s logs %s", s.fn.Name, s.spec.constName)
		checkW1(p, r, a, s, key)
		checkW2(p, r, a, s, key, txnSites)
	}
	checkW3W4(p, r, sites)
	checkW5(p, r, sites)
	checkLoopVarCapture(p, r, "LV", []string{"cluster/calcium.(*WorkloadResourceAllocatedHandler).Handle", "cluster/calcium.(*CreateLambdaHandler).Handle", "cluster/calcium.(*CreateWorkloadHandler).Handle", "cluster/calcium.(*ProcessingCreatedHandler).Handle"})
	// W6: a replay handler that fans its repair out to goroutines waits for them BEFORE it cancels the context they work under:
	// with `defer wg.Wait()` the cancelling defer has to be registered first (defers run in reverse order) — otherwise every
	// repair is cut off by `context canceled`, the handler still returns nil and the entry is dropped
	checkDeferOrder(p, r, "W6", "cluster/calcium")
	// RC: recovery invoked at start-up
	r.min("RC", 2)
	if fn := p.Fn("cluster/calcium.(*Calcium).DisasterRecover"); fn != nil {
		n := len(fn.calls(func(f *types.Func) bool {
			return strings.HasSuffix(objName(f), ".Recover") && strings.HasPrefix(objName(f), "wal.")
		}))
		r.check(n == 1, "RC", fn.Name+" replays the log", p.pos(fn.Decl), "calls wal.Recover", "DisasterRecover does not call wal.Recover")
	} else {
		r.undecided("RC", "DisasterRecover", "", "not found")
	}
	if fn := p.Fn(".serve"); fn != nil {
		n := len(fn.calls(func(f *types.Func) bool { return f.Name() == "DisasterRecover" }))
		r.check(n >= 1, "RC", "core.serve runs recovery at start-up", p.pos(fn.Decl), "", "start-up no longer runs DisasterRecover")
	} else {
		r.undecided("RC", "core.serve", "", "not found")
	}
}

func checkW1(p *Prog, r *Result, a *txnAnalyzer, s *walSite, key string) {
	if s.spec.covered == "" {
		return
	}
	fn := s.fn
	logRef := fn.find(s.call)
	var effs []*ast.CallExpr
	fn.inspectBody(func(n ast.Node) bool {
		if c, ok := n.(*ast.CallExpr); ok {
			if f := fn.Callee(c); f != nil && objName(f) == s.spec.covered {
				effs = append(effs, c)
			}
		}
		return true
	})
	k := key + " / W1"
	if len(effs) == 0 {
		r.bad("W1", k, p.pos(s.call), "the effect this entry covers ("+s.spec.covered+") is not in the same function as the Log call: the ordering cannot be established")
		return
	}
	if s.spec.mode == "before" {
		// Log's error must be checked with a return, and Log must dominate every effect call
		if !errCheckedWithReturn(fn, s.call) {
			r.bad("W1", k, p.pos(s.call), "the error of Log is not checked with an immediate return: the effect can happen without a log entry")
			return
		}
		for _, e := range effs {
			if !fn.dominates(logRef, fn.find(e)) {
				r.bad("W1", k, p.pos(e), s.spec.covered+" is not dominated by the Log call: a crash right after it leaves an effect recovery knows nothing about")
				return
			}
		}
		r.ok("W1", k, p.pos(s.call), "Log (error checked) dominates every "+shortName(s.spec.covered))
		return
	}
	// mode "after": the effect dominates Log, and no other effect-table call lies between them
	e := effs[0]
	eRef := fn.find(e)
	if !fn.dominates(eRef, logRef) {
		r.bad("W1", k, p.pos(s.call), "Log is not preceded by "+s.spec.covered+" on every path")
		return
	}
	between := ""
	fn.reach(eRef, true, func(x nodeRef) bool { return x == logRef }, func(x nodeRef) bool {
		n := x.node()
		if n == nil || x == logRef {
			return false
		}
		inspectNoLit(n, func(y ast.Node) bool {
			if c, ok := y.(*ast.CallExpr); ok {
				if f := fn.Callee(c); f != nil && effectOf(objName(f)) != nil {
					between = objName(f)
				}
			}
			return true
		})
		return false
	}, false)
	if between != "" {
		r.bad("W1", k, p.pos(s.call), "another lasting effect ("+between+") happens between the engine create and its log entry: the unlogged window now covers more than the create")
		return
	}
	r.ok("W1", k, p.pos(s.call), "logged immediately after "+shortName(s.spec.covered)+" with no other effect in between (documented gap)")
}

// errCheckedWithReturn: call is the init of `if ...; err != nil { return ... }`.
func errCheckedWithReturn(fn *FuncNode, call *ast.CallExpr) bool {
	ok := false
	fn.inspectBody(func(n ast.Node) bool {
		is, isIf := n.(*ast.IfStmt)
		if !isIf || is.Init == nil {
			return true
		}
		as, isAs := is.Init.(*ast.AssignStmt)
		if !isAs || len(as.Rhs) != 1 || unparen(as.Rhs[0]) != ast.Expr(call) {
			return true
		}
		be, isBin := unparen(is.Cond).(*ast.BinaryExpr)
		if !isBin || be.Op != token.NEQ || !isNilIdent(be.Y) || fn.objOf(be.X) != fn.objOf(as.Lhs[len(as.Lhs)-1]) {
			return true
		}
		for _, st := range is.Body.List {
			if _, isRet := st.(*ast.ReturnStmt); isRet {
				ok = true
			}
		}
		return true
	})
	if ok {
		return true
	}
	// x, err := Log(); if err != nil { return }
	var errObj types.Object
	var asg *ast.AssignStmt
	fn.inspectBody(func(n ast.Node) bool {
		if as, isAs := n.(*ast.AssignStmt); isAs && len(as.Rhs) == 1 && unparen(as.Rhs[0]) == ast.Expr(call) {
			errObj = fn.objOf(as.Lhs[len(as.Lhs)-1])
			asg = as
		}
		return true
	})
	if asg == nil {
		return false
	}
	// the statement following the assignment (same block) is if err != nil { ... return }
	fn.inspectBody(func(n ast.Node) bool {
		if b, isB := n.(*ast.BlockStmt); isB {
			for i, st := range b.List {
				if st == ast.Stmt(asg) && i+1 < len(b.List) {
					if is, isIf := b.List[i+1].(*ast.IfStmt); isIf {
						if be, isBin := unparen(is.Cond).(*ast.BinaryExpr); isBin && be.Op == token.NEQ && fn.objOf(be.X) == errObj && isNilIdent(be.Y) {
							for _, s2 := range is.Body.List {
								if _, isRet := s2.(*ast.ReturnStmt); isRet {
									ok = true
								}
							}
						}
					}
				}
				// return x, err right after
				if st == ast.Stmt(asg) && i+1 < len(b.List) {
					if rt, isRet := b.List[i+1].(*ast.ReturnStmt); isRet && len(rt.Results) > 0 && fn.objOf(rt.Results[len(rt.Results)-1]) == errObj {
						ok = true
					}
				}
			}
		}
		return true
	})
	return ok
}

func checkW2(p *Prog, r *Result, a *txnAnalyzer, s *walSite, key string, txnSites []*txnSite) {
	k := key + " / W2"
	if s.commit == nil {
		r.bad("W2", k, p.pos(s.call), "the Commit returned by Log is discarded: the entry is never committed (replayed at every start) or committed nowhere deliberately")
		return
	}
	top := topOf(s.fn)
	calls, fns := commitCalls(p, top, s.commit)
	if len(calls) == 0 {
		r.bad("W2", k, p.pos(s.call), "the Commit returned by Log is never invoked")
		return
	}
	for i, c := range calls {
		cf := fns[i]
		// the deferred literal the commit call belongs to, and the function that registers it
		d := cf
		for d != nil && a.g.roles[d].kind != "defer" {
			d = d.Parent
		}
		if d == nil {
			r.bad("W2", k, p.pos(c), "the commit is not deferred: on an early return or panic the entry is never committed, and otherwise it may run before the covered effect is resolved")
			return
		}
		H := d.Parent
		reg := deferRegIndex(H, d)
		if reg < 0 {
			r.bad("W2", k, p.pos(c), "commit defer is not registered at the top level of its function")
			return
		}
		if s.spec.resolve == "txn-return" {
			// H must lexically contain the Txn call whose closures contain the Log site, registered before that call
			var site *txnSite
			for _, ts := range txnSites {
				for _, cl := range ts.closures {
					if cl != nil && cl.Lit != nil && cl.Lit.Pos() <= s.call.Pos() && s.call.End() <= cl.Lit.End() {
						if site == nil || ts.call.Pos() > site.call.Pos() {
							site = ts
						}
					}
				}
			}
			if site == nil {
				r.undecided("W2", k, p.pos(s.call), "Log site is not inside a Txn closure: resolution point unknown")
				return
			}
			if site.fn != H {
				r.bad("W2", k, p.pos(c), fmt.Sprintf("the commit runs when %s returns, not when the transaction %s has returned: a crash after the commit and before the transaction finishes is invisible to recovery", shortName(H.Name), site.key))
				return
			}
			// registration precedes the Txn call statement
			regPos := H.Body.List[reg].Pos()
			if regPos > site.call.Pos() {
				r.bad("W2", k, p.pos(c), "the commit defer is registered after the transaction call")
				return
			}
			continue
		}
		// resolve-before-commit: a deferred literal of H containing the resolving call must run before this commit:
		// registered later than the commit's defer (LIFO), or in the same literal before the commit on every path
		resolved := false
		detail := ""
		for _, other := range H.Lits {
			if a.g.roles[other].kind != "defer" {
				continue
			}
			has := len(other.callsDeep(func(f *types.Func) bool { return objName(f) == s.spec.resolve })) > 0
			if !has {
				// the deferred literal hands the work to a function of the package (`defer func() { c.doCleanup(…) }()`)
				for _, hc := range other.callsDeep(func(f *types.Func) bool { return f.Pkg() == other.Pkg.Types }) {
					enc := a.p.enclosing(other.Pkg, hc.Pos())
					if enc == nil {
						continue
					}
					if Hh := a.p.ByObj[enc.Callee(hc)]; Hh != nil && Hh.Body != nil && len(Hh.callsDeep(func(f *types.Func) bool { return objName(f) == s.spec.resolve })) > 0 {
						has = true
					}
				}
			}
			if !has {
				continue
			}
			oreg := deferRegIndex(H, other)
			if other == d {
				// same literal: resolving call dominates the commit call
				if rcs := other.callsDeep(func(f *types.Func) bool { return objName(f) == s.spec.resolve }); len(rcs) > 0 && rcs[0].Pos() < c.Pos() {
					resolved = true
				}
				continue
			}
			if oreg > reg {
				resolved = true
			} else {
				detail = fmt.Sprintf("the defer that calls %s is registered before the commit defer, so (LIFO) the commit runs first: a crash between them leaves the effect with no log entry", shortName(s.spec.resolve))
			}
		}
		if !resolved {
			if detail == "" {
				detail = "no deferred " + shortName(s.spec.resolve) + " runs before the commit"
			}
			r.bad("W2", k, p.pos(c), detail)
			return
		}
	}
	r.ok("W2", k, p.pos(calls[0]), "commit deferred; runs only after "+s.spec.resolve)
}

// W3/W4: handler registration and item type agreement.
func checkW3W4(p *Prog, r *Result, sites []*walSite) {
	en := p.Fn("cluster/calcium.enableWAL")
	if en == nil {
		r.undecided("W3", "enableWAL", "", "function not found")
		return
	}
	// constructors registered in enableWAL -> event constant and handler type
	type hinfo struct {
		typ   *types.Named
		cname string
	}
	reg := map[string]hinfo{}
	for _, c := range en.calls(func(f *types.Func) bool { return f.Name() == "Register" }) {
		if len(c.Args) != 1 {
			continue
		}
		cc, ok := unparen(c.Args[0]).(*ast.CallExpr)
		if !ok {
			continue
		}
		ctor := p.ByObj[en.Callee(cc)]
		if ctor == nil {
			continue
		}
		// typ: <const> in the composite literal returned
		ast.Inspect(ctor.Body, func(n ast.Node) bool {
			if kv, ok := n.(*ast.KeyValueExpr); ok {
				if id, ok := kv.Key.(*ast.Ident); ok && id.Name == "typ" {
					if o, ok := ctor.objOf(kv.Value).(*types.Const); ok {
						if sig, ok := ctor.Obj.Type().(*types.Signature); ok && sig.Results().Len() == 1 {
							if pt, ok := sig.Results().At(0).Type().(*types.Pointer); ok {
								if nt, ok := pt.Elem().(*types.Named); ok {
									reg[o.Name()] = hinfo{nt, o.Name()}
								}
							}
						}
					}
				}
			}
			return true
		})
	}
	var regNames []string
	for k := range reg {
		regNames = append(regNames, k)
	}
	sort.Strings(regNames)
	r.Tables["registered_handlers"] = regNames
	for _, s := range sites {
		key := fmt.Sprintf("%s logs %s", s.fn.Name, s.spec.constName)
		h, ok := reg[s.spec.constName]
		if !ok {
			r.bad("W3", key+" / W3", p.pos(s.call), "no handler constructed with this event constant is registered in enableWAL: Log fails (or replay skips the event)")
			continue
		}
		r.ok("W3", key+" / W3", p.pos(s.call), "handler "+h.typ.Obj().Name()+" registered")
		// W4: asserted types in Encode/Check/Handle
		st := s.fn.typeOf(s.item)
		okAll, detail := true, ""
		nAssert := 0
		for _, m := range []string{"Encode", "Check", "Handle"} {
			mn := methodNode(p, h.typ, m)
			if mn == nil {
				okAll, detail = false, "handler method "+m+" not found"
				continue
			}
			ast.Inspect(mn.Body, func(n ast.Node) bool {
				if ta, ok := n.(*ast.TypeAssertExpr); ok && ta.Type != nil {
					nAssert++
					at := mn.typeOf(ta.Type)
					if !types.Identical(at, st) {
						okAll = false
						detail = fmt.Sprintf("%s.%s asserts %s but the logged item has static type %s", h.typ.Obj().Name(), m, at, st)
					}
				}
				return true
			})
		}
		if nAssert == 0 {
			okAll, detail = false, "handler asserts no type"
		}
		if okAll {
			r.ok("W4", key+" / W4", p.pos(s.call), fmt.Sprintf("item type %s = type asserted by %s (%d assertions)", st, h.typ.Obj().Name(), nAssert))
		} else {
			r.bad("W4", key+" / W4", p.pos(s.call), detail+": Encode rejects the item (nothing is logged) or the handler ignores it on replay")
		}
	}
}

// goLangVersionLess122 reports whether the module's go directive is below 1.22 (per-loop variable semantics).
func goVersionBelow122(p *Prog) bool {
	for _, pk := range p.Pkgs {
		if pk.Module != nil && pk.Module.GoVersion != "" {
			v := pk.Module.GoVersion
			parts := strings.Split(v, ".")
			if len(parts) >= 2 {
				var maj, min int
				fmt.Sscanf(parts[0], "%d", &maj)
				fmt.Sscanf(parts[1], "%d", &min)
				return maj == 1 && min < 22
			}
		}
	}
	return true
}

// checkLoopVarCapture: asynchronous closures created in a loop must not capture the loop's iteration variables
// (go < 1.22: one variable shared by all iterations). names: functions to check (all their closures).
func checkLoopVarCapture(p *Prog, r *Result, rule string, names []string) {
	g := getSCG(p, r)
	if g == nil {
		return
	}
	shared := goVersionBelow122(p)
	for _, nm := range names {
		fn := p.Fn(nm)
		if fn == nil {
			r.undecided(rule, nm, "", "function not found")
			continue
		}
		var bad []string
		var visit func(f *FuncNode)
		visit = func(f *FuncNode) {
			f.inspectBody(func(n ast.Node) bool {
				var vars []types.Object
				var body *ast.BlockStmt
				switch l := n.(type) {
				case *ast.RangeStmt:
					if l.Tok == token.DEFINE {
						for _, e := range []ast.Expr{l.Key, l.Value} {
							if e != nil {
								if o := f.objOf(e); o != nil && o.Name() != "_" {
									vars = append(vars, o)
								}
							}
						}
					}
					body = l.Body
				case *ast.ForStmt:
					if as, ok := l.Init.(*ast.AssignStmt); ok && as.Tok == token.DEFINE {
						for _, e := range as.Lhs {
							if o := f.objOf(e); o != nil {
								vars = append(vars, o)
							}
						}
					}
					body = l.Body
				}
				if body == nil || len(vars) == 0 {
					return true
				}
				for _, l := range f.Lits {
					if l.Lit.Pos() < body.Pos() || l.Lit.End() > body.End() {
						continue
					}
					if k := g.roles[l].kind; k != "async" {
						continue
					}
					// the iteration waits for something after it has started the goroutine (drains a channel, receives,
					// Wait): the loop variable does not change while the goroutine runs — the usual
					// "start producer, consume until closed" shape
					joined := false
					for _, st := range body.List {
						if st.Pos() < l.Lit.End() {
							continue
						}
						ast.Inspect(st, func(y ast.Node) bool {
							switch z := y.(type) {
							case *ast.FuncLit:
								return false
							case *ast.RangeStmt:
								if t := f.typeOf(z.X); t != nil {
									if _, isChan := t.Underlying().(*types.Chan); isChan {
										joined = true
									}
								}
							case *ast.UnaryExpr:
								if z.Op == token.ARROW {
									joined = true
								}
							case *ast.CallExpr:
								if sel, ok := unparen(z.Fun).(*ast.SelectorExpr); ok && sel.Sel.Name == "Wait" {
									joined = true
								}
							}
							return true
						})
					}
					if joined {
						continue
					}
					for _, v := range vars {
						if l.usesObj(l.Lit.Body, v) {
							bad = append(bad, fmt.Sprintf("%s: goroutine captures loop variable %q", p.pos(l.Lit), v.Name()))
						}
					}
				}
				return true
			})
			for _, l := range f.Lits {
				visit(l)
			}
		}
		visit(fn)
		key := nm + " / goroutines do not capture loop variables"
		if len(bad) == 0 || !shared {
			r.ok(rule, key, p.pos(fn.Decl), "")
		} else {
			r.bad(rule, key, p.pos(fn.Decl), strings.Join(bad, "; ")+" (go.mod language version < 1.22: the variable is shared by all iterations, so goroutines see a later element)")
		}
	}
}

// W5: the logged item carries values that are final at the time of the Log call.
func checkW5(p *Prog, r *Result, sites []*walSite) {
	for _, s := range sites {
		fn := s.fn
		key := fmt.Sprintf("%s logs %s / W5 logged fields are final when logged", fn.Name, s.spec.constName)
		if len(s.call.Args) < 2 {
			r.undecided("W5", key, p.pos(s.call), "Log call without item")
			continue
		}
		item := unparen(s.call.Args[1])
		if u, ok := item.(*ast.UnaryExpr); ok {
			item = unparen(u.X)
		}
		lit, ok := item.(*ast.CompositeLit)
		if !ok {
			r.ok("W5", key, p.pos(s.call), "item is a value built earlier ("+exprStr(s.call.Args[1])+"), no field is read at the call")
			continue
		}
		logRef := fn.find(s.call)
		why := ""
		nf := 0
		for _, el := range lit.Elts {
			kv, ok := el.(*ast.KeyValueExpr)
			if !ok {
				continue
			}
			sel, ok := unparen(kv.Value).(*ast.SelectorExpr)
			if !ok {
				continue
			}
			base := fn.objOf(sel.X)
			if base == nil {
				continue
			}
			nf++
			// assignments to base.Field in this function
			var assigns []*ast.AssignStmt
			fn.inspectBody(func(n ast.Node) bool {
				if as, ok := n.(*ast.AssignStmt); ok {
					for _, l := range as.Lhs {
						if ls, ok := unparen(l).(*ast.SelectorExpr); ok && fn.objOf(ls.X) == base && ls.Sel.Name == sel.Sel.Name {
							assigns = append(assigns, as)
						}
					}
				}
				return true
			})
			if len(assigns) == 0 {
				continue
			}
			dom := false
			for _, as := range assigns {
				ar := fn.find(as)
				if fn.dominates(ar, logRef) && ar != logRef {
					dom = true
				}
				if _, reachable := fn.reach(logRef, true, func(nr nodeRef) bool { return nr == ar }, nil, false); reachable {
					why = fmt.Sprintf("%s.%s is assigned at %s after the entry carrying it was logged: the logged %s is the stale (empty) value, so replay cannot find the %s it should act on", exprStr(sel.X), sel.Sel.Name, p.pos(as), exprStr(kv.Key), exprStr(kv.Key))
				}
			}
			if !dom && why == "" {
				why = fmt.Sprintf("%s.%s is assigned in this function but no assignment dominates the Log call", exprStr(sel.X), sel.Sel.Name)
			}
		}
		if why == "" {
			r.ok("W5", key, p.pos(s.call), fmt.Sprintf("%d field(s) read from locals, none assigned after the call", nf))
		} else {
			r.bad("W5", key, p.pos(s.call), why)
		}
	}
}

// checkDeferOrder: in every function of the package that (1) derives a cancellable context, (2) starts goroutines that use it
// and (3) joins them with a deferred Wait, the deferred cancel is registered before the deferred Wait.
func checkDeferOrder(p *Prog, r *Result, rule, pkg string) {
	g := getSCG(p, r)
	if g == nil {
		return
	}
	n := 0
	for _, fn := range p.sortedFuncs(pkg) {
		if fn.Body == nil || relPath(fn.Pkg.PkgPath) != pkg {
			continue
		}
		// deferred Wait and deferred cancel at the top level of the body
		var waitAt, cancelAt token.Pos
		var cancelObj, ctxObj types.Object
		for _, st := range fn.Body.List {
			switch y := st.(type) {
			case *ast.AssignStmt:
				if len(y.Lhs) == 2 && len(y.Rhs) == 1 {
					if t := fn.typeOf(y.Lhs[1]); t != nil && strings.HasSuffix(t.String(), "context.CancelFunc") {
						ctxObj, cancelObj = fn.objOf(y.Lhs[0]), fn.objOf(y.Lhs[1])
					}
				}
			case *ast.DeferStmt:
				if sel, ok := unparen(y.Call.Fun).(*ast.SelectorExpr); ok && sel.Sel.Name == "Wait" {
					waitAt = y.Pos()
				}
				if id, ok := unparen(y.Call.Fun).(*ast.Ident); ok && cancelObj != nil && fn.objOf(id) == cancelObj {
					cancelAt = y.Pos()
				}
			}
		}
		if waitAt == token.NoPos || cancelAt == token.NoPos || ctxObj == nil {
			continue
		}
		// some goroutine of the function uses the context
		used := false
		for _, l := range fn.Lits {
			if g.roles[l].kind == "async" && l.usesObj(l.Lit.Body, ctxObj) {
				used = true
			}
		}
		if !used {
			continue
		}
		n++
		key := fn.Name + " / the goroutines are waited for before their context is cancelled"
		r.check(cancelAt < waitAt, rule, key, p.posOf(cancelAt), "defer cancel() is registered before defer wg.Wait(): Wait runs first", "defer cancel() is registered AFTER defer Wait(): on return the context is cancelled first and the goroutines still running under it (lock, store and plugin calls of the repair) fail with `context canceled` — the error is only logged, the handler reports success and the log entry is deleted without the repair having happened")
	}
	r.min(rule, 1)
	if n == 0 {
		r.undecided(rule, pkg+" / functions joining goroutines with a deferred Wait under a cancellable context", "", "none found")
	}
}
