package main

import (
	"go/ast"
	"go/parser"
)

// comparatorSrcOK parses a comparator literal from source text and runs the L2 comparator recogniser on it (control harness).
func comparatorSrcOK(src, sliceName, key string) bool {
	e, err := parser.ParseExpr(src)
	if err != nil {
		return false
	}
	lit, ok := e.(*ast.FuncLit)
	if !ok {
		return false
	}
	return comparatorIsLessOnKey(&FuncNode{Name: "control", Lit: lit, Body: lit.Body, Type: lit.Type}, sliceName, key)
}
