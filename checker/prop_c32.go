package main

// C32: unbound workloads are remapped onto free shared cores only.

import (
	"fmt"
	"go/ast"
	"go/token"
	"go/types"
	"sort"
	"strings"
)

func init() { register("C32", checkC32) }

func checkC32(p *Prog, r *Result, tier string) {
	r.Technique = "guard/dominance and literal-source rules in CalculateRemap (type-resolved AST), pairing rules along the push path (manager, calcium, engine), call-graph reachability from every function that changes node usage to the remap trigger"
	r.Explanation = "SH the share map is built from the node's AVAILABLE per-core pieces, taking exactly the cores with at least one share base free, each at the share base; when that set is empty every core of the node's capacity is taken; " +
		"ALL the only successful return before the loop that fills the parameter map is the empty-list case, so every unbound workload handed in gets a parameter set; UB an engine parameter set is produced only for workloads whose recorded CPU map is empty (insertion inside `len(workload.CPUMap) == 0` on the entry keyed by the same id), so bound workloads are left untouched; LIT that set carries the share map, Remap=true, the workload's CPU limit, memory limit and NUMA node; " +
		"PUSH the manager hands each plugin that plugin's share of every workload keyed by workload id, and calcium lists the node's workloads, asks the manager and pushes each returned parameter set to the engine under the id it was returned for; " +
		"TRG every function of cluster/calcium that changes node usage (alloc, realloc, usage increments/decrements, and their rollbacks) can reach RemapResourceAndLog, which takes the node-operation lock and calls the push."
	r.NotCovered = "that the remap is the last step of an operation (a rollback after the per-node remap leaves the share pool stale until the next operation on the node); engine behaviour; concurrent remaps of one node"
	r.Assumptions = []string{"A3"}
	r.min("SH", 2)
	r.min("UB", 1)
	r.min("LIT", 1)
	r.min("PUSH", 5)
	r.min("TRG", 4)

	F := p.Fn("resource/plugins/cpumem.Plugin.CalculateRemap")
	MR := p.Fn("resource/cobalt.Manager.Remap")
	DR := p.Fn("cluster/calcium.(*Calcium).doRemapResource")
	RL := p.Fn("cluster/calcium.(*Calcium).RemapResourceAndLog")
	for n, f := range map[string]*FuncNode{"CalculateRemap": F, "cobalt Remap": MR, "doRemapResource": DR, "RemapResourceAndLog": RL} {
		if f == nil {
			r.undecided("anchor", n, "", "not found")
		}
	}
	if F == nil || MR == nil || DR == nil || RL == nil {
		return
	}

	// ---- SH
	var share, info types.Object
	F.inspectBody(func(n ast.Node) bool {
		if as, ok := n.(*ast.AssignStmt); ok && len(as.Rhs) == 1 && len(as.Lhs) >= 1 {
			if c, ok := unparen(as.Rhs[0]).(*ast.CallExpr); ok {
				if f := F.Callee(c); f != nil && f.Name() == "doGetNodeResourceInfo" {
					info = F.objOf(as.Lhs[0])
				}
			}
		}
		return true
	})
	{
		sh, why1, why2, at := c32Share(p, F, info)
		share = sh
		if sh == nil && strings.HasPrefix(why1, "no loop") {
			// the pool is built by a helper that is handed the node's resource info: `pool := p.helper(info)`
			F.inspectBody(func(n ast.Node) bool {
				as, ok := n.(*ast.AssignStmt)
				if !ok || len(as.Lhs) != 1 || len(as.Rhs) != 1 || share != nil {
					return true
				}
				c, ok := unparen(as.Rhs[0]).(*ast.CallExpr)
				if !ok {
					return true
				}
				H := p.ByObj[F.Callee(c)]
				if H == nil || H.Body == nil || H.Pkg != F.Pkg || H == F {
					return true
				}
				var hinfo types.Object
				for i, a := range c.Args {
					if F.objOf(a) == info && info != nil {
						hinfo = H.paramObj(i)
					}
				}
				if hinfo == nil {
					return true
				}
				hs, w1, w2, hat := c32Share(p, H, hinfo)
				if hs == nil && strings.HasPrefix(w1, "no loop") {
					return true
				}
				// the helper returns the pool it built
				returnsPool := hs != nil
				inspectNoLit(H.Body, func(x ast.Node) bool {
					if rt, ok := x.(*ast.ReturnStmt); ok && (len(rt.Results) != 1 || H.objOf(rt.Results[0]) != hs) {
						returnsPool = false
					}
					return true
				})
				why1, why2, at = w1, w2, hat
				if returnsPool {
					share = F.objOf(as.Lhs[0])
				} else if w1 == "" {
					why1 = "the helper that builds the share pool does not return it on every path"
				}
				return true
			})
		}
		r.check2(why1, "SH", F.Name+" / shared cores are exactly the cores with a full share base still available", p.pos(at), "for cpu, pieces := range available.CPUMap { if pieces >= ShareBase { share[cpu] = ShareBase } }")
		r.check2(why2, "SH", F.Name+" / with no free core the share pool is every core of the node", p.pos(F.Decl), "if len(share) == 0 { for cpu := range info.Capacity.CPUMap { share[cpu] = ShareBase } }")
	}

	// ---- UB / LIT
	{
		why := "no insertion into the engine parameter map"
		lit := (*ast.CompositeLit)(nil)
		var wr types.Object
		var at ast.Node = F.Decl
		F.inspectBody(func(n ast.Node) bool {
			rs, ok := n.(*ast.RangeStmt)
			if !ok || rs.Key == nil || rs.Value == nil {
				return true
			}
			id, w := F.objOf(rs.Key), F.objOf(rs.Value)
			inspectNoLit(rs.Body, func(x ast.Node) bool {
				as, ok := x.(*ast.AssignStmt)
				if !ok || len(as.Lhs) != 1 {
					return true
				}
				base, idx := indexBaseObj(F, as.Lhs[0])
				if base == nil || !strings.Contains(base.Type().String(), "EngineParams") || F.objOf(idx) != id {
					return true
				}
				at = as
				// reached only when len(w.CPUMap) == 0 (an enclosing if, or a `continue` for the bound ones before it)
				guarded := false
				if conds, ok := pathConds(rs.Body, as); ok {
					for _, c := range conds {
						e, pos := unparen(c.Expr), c.Pos
						for {
							u, isNot := e.(*ast.UnaryExpr)
							if !isNot || u.Op != token.NOT {
								break
							}
							e, pos = unparen(u.X), !pos
						}
						be, ok := e.(*ast.BinaryExpr)
						if !ok {
							continue
						}
						lc, ok := unparen(be.X).(*ast.CallExpr)
						if !ok || len(lc.Args) != 1 || !isBuiltinCall(F, lc, "len") {
							continue
						}
						sel, ok := unparen(lc.Args[0]).(*ast.SelectorExpr)
						if !ok || sel.Sel.Name != "CPUMap" || F.objOf(sel.X) != w {
							continue
						}
						v, isC := F.constInt(be.Y)
						if !isC {
							continue
						}
						isZero := (be.Op == token.EQL && v == 0) || (be.Op == token.LEQ && v == 0) || (be.Op == token.LSS && v == 1)
						nonZero := (be.Op == token.NEQ && v == 0) || (be.Op == token.GTR && v == 0) || (be.Op == token.GEQ && v == 1)
						if (isZero && pos) || (nonZero && !pos) {
							guarded = true
						}
					}
				}
				if guarded {
					why = ""
				} else {
					why = "an engine parameter set is produced without (or outside) the test `len(workload.CPUMap) == 0` on the same workload: workloads with a CPU binding are re-pinned onto the share pool"
				}
				e := unparen(as.Rhs[0])
				if u, ok := e.(*ast.UnaryExpr); ok {
					e = unparen(u.X)
				}
				lit, _ = e.(*ast.CompositeLit)
				wr = w
				return true
			})
			return true
		})
		r.check2(why, "UB", F.Name+" / only workloads without a CPU binding are remapped", p.pos(at), "engineParamsMap[ID] = … inside `if len(workloadResource.CPUMap) == 0`")
		// ALL: every unbound workload gets its entry: the only successful return before the loop that fills the map is the
		// one for an empty workload list — a short cut for "nothing bound on this node" leaves workloads pinned to the pool
		// an earlier remap gave them
		{
			var fill *ast.RangeStmt
			F.inspectBody(func(n ast.Node) bool {
				rs, ok := n.(*ast.RangeStmt)
				if !ok {
					return true
				}
				ast.Inspect(rs.Body, func(x ast.Node) bool {
					if as, ok := x.(*ast.AssignStmt); ok && len(as.Lhs) == 1 {
						if ix, ok := unparen(as.Lhs[0]).(*ast.IndexExpr); ok && strings.Contains(exprStr(ix.X), "ngineParams") {
							fill = rs
						}
					}
					return true
				})
				return true
			})
			whyA := ""
			if fill == nil {
				whyA = "no loop fills the engine-parameter map"
			} else {
				wl := F.paramObj(2)
				F.inspectBody(func(n ast.Node) bool {
					rt, ok := n.(*ast.ReturnStmt)
					if !ok || len(rt.Results) != 2 || isNilIdent(rt.Results[0]) || rt.Pos() > fill.End() {
						return true
					}
					// allowed: inside `if len(<workloads parameter>) == 0`
					okEarly := false
					F.inspectBody(func(y ast.Node) bool {
						is, ok := y.(*ast.IfStmt)
						if !ok || !(is.Body.Pos() <= rt.Pos() && rt.End() <= is.Body.End()) {
							return true
						}
						if be, ok := unparen(is.Cond).(*ast.BinaryExpr); ok && be.Op == token.EQL {
							if c, ok := unparen(be.X).(*ast.CallExpr); ok && len(c.Args) == 1 && exprStr(c.Fun) == "len" && F.objOf(c.Args[0]) == wl {
								if k, isC := F.constInt(be.Y); isC && k == 0 {
									okEarly = true
								}
							}
						}
						return true
					})
					if !okEarly {
						whyA = "the successful return at " + p.pos(rt) + " comes before the loop that gives every unbound workload its share pool and is not the empty-list case: the unbound workloads get no parameters and stay on whatever cores an earlier remap pinned them to"
					}
					return true
				})
			}
			r.min("ALL", 1)
			r.check2(whyA, "ALL", F.Name+" / every unbound workload handed in gets a parameter set", p.pos(F.Decl), "the only successful return before the filling loop is `if len(workloads) == 0`")
		}
		why = "engine parameter literal not found"
		if lit != nil {
			why = ""
			want := map[string]string{"CPU": "CPULimit", "Memory": "MemoryLimit", "NUMANode": "NUMANode"}
			got := map[string]ast.Expr{}
			for _, el := range lit.Elts {
				if kv, ok := el.(*ast.KeyValueExpr); ok {
					got[exprStr(kv.Key)] = kv.Value
				}
			}
			var ks []string
			for k := range want {
				ks = append(ks, k)
			}
			sort.Strings(ks)
			for _, k := range ks {
				sel, ok := unparen(got[k]).(*ast.SelectorExpr)
				if got[k] == nil || !ok || F.objOf(sel.X) != wr || sel.Sel.Name != want[k] {
					why = fmt.Sprintf("%s is `%s`, not the workload's %s", k, exprStr(got[k]), want[k])
				}
			}
			if got["CPUMap"] == nil || F.objOf(got["CPUMap"]) != share || share == nil {
				why = "CPUMap is `" + exprStr(got["CPUMap"]) + "`, not the share pool"
			}
			if got["Remap"] == nil || constBoolName(F, got["Remap"]) != "true" {
				why = "Remap is not set: the engine treats a non-empty CPU map as a binding and lifts the quota"
			}
		}
		r.check2(why, "LIT", F.Name+" / a remapped workload gets the share pool, its own limits, and the remap flag", p.pos(F.Decl), "EngineParams{CPU: CPULimit, CPUMap: share, NUMANode, Memory: MemoryLimit, Remap: true}")
	}

	// ---- PUSH
	{
		// manager: workloadsResourceMap[workload.ID] = workload.Resources[plugin.Name()]
		why := "the manager does not hand each plugin its share of every workload keyed by id"
		// in Remap itself, or in a helper of the package that is handed the workload list
		type pushSite struct {
			fn *FuncNode
			wl types.Object
		}
		sites := []pushSite{{MR, MR.paramObj(2)}}
		for _, c := range MR.callsDeep(func(f *types.Func) bool { return f.Pkg() == MR.Pkg.Types }) {
			enc := p.enclosing(MR.Pkg, c.Pos())
			H := p.ByObj[enc.Callee(c)]
			if H == nil || H.Body == nil || H == MR {
				continue
			}
			for i, a := range c.Args {
				if enc.objOf(a) == MR.paramObj(2) && H.paramObj(i) != nil {
					sites = append(sites, pushSite{H, H.paramObj(i)})
				}
			}
		}
		for _, ps := range sites {
			ps := ps
			ast.Inspect(ps.fn.Body, func(n ast.Node) bool {
				rs, ok := n.(*ast.RangeStmt)
				if !ok || rs.Value == nil || len(rs.Body.List) != 1 {
					return true
				}
				enc := p.enclosing(MR.Pkg, rs.Body.Pos())
				if enc.objOf(rs.X) != ps.wl {
					return true
				}
				w := enc.objOf(rs.Value)
				if as, ok := rs.Body.List[0].(*ast.AssignStmt); ok && len(as.Lhs) == 1 {
					_, idx := indexBaseObj(enc, as.Lhs[0])
					ksel, ok1 := unparen(idx).(*ast.SelectorExpr)
					vix, ok2 := unparen(as.Rhs[0]).(*ast.IndexExpr)
					if ok1 && ok2 && enc.objOf(ksel.X) == w && ksel.Sel.Name == "ID" {
						if vs, ok := unparen(vix.X).(*ast.SelectorExpr); ok && enc.objOf(vs.X) == w && vs.Sel.Name == "Resources" {
							why = ""
						}
					}
				}
				return true
			})
		}
		r.check2(why, "PUSH", MR.Name+" / each plugin sees every workload's own resources under the workload's id", p.pos(MR.Decl), "m[workload.ID] = workload.Resources[plugin.Name()]")
		checkRemapMerge(p, r, MR, "PUSH")
		// calcium: ListNodeWorkloads(node.Name) -> rmgr.Remap(node.Name, workloads)
		node := DR.paramObj(1)
		var wl types.Object
		lwOK, rmOK := false, false
		var ep types.Object
		DR.inspectBody(func(n ast.Node) bool {
			as, ok := n.(*ast.AssignStmt)
			if !ok || len(as.Rhs) != 1 {
				return true
			}
			c, ok := unparen(as.Rhs[0]).(*ast.CallExpr)
			if !ok || DR.Callee(c) == nil {
				return true
			}
			isNodeName := func(e ast.Expr) bool {
				sel, ok := unparen(e).(*ast.SelectorExpr)
				return ok && DR.objOf(sel.X) == node && sel.Sel.Name == "Name"
			}
			switch objName(DR.Callee(c)) {
			case "store.Store.ListNodeWorkloads":
				if isNodeName(c.Args[1]) {
					lwOK, wl = true, DR.objOf(as.Lhs[0])
				}
			case "resource.Manager.Remap":
				if isNodeName(c.Args[1]) && wl != nil && DR.objOf(c.Args[2]) == wl {
					rmOK, ep = true, DR.objOf(as.Lhs[0])
				}
			}
			return true
		})
		r.check(lwOK && rmOK, "PUSH", DR.Name+" / the node's recorded workloads are what the manager remaps", p.pos(DR.Decl), "ListNodeWorkloads(node.Name) → rmgr.Remap(node.Name, workloads)", "the remap is not computed from the workloads recorded on this node")
		why = "the returned parameter sets are not pushed to the engine under their own ids"
		var pushLoop *ast.RangeStmt
		var pushCall *ast.CallExpr
		ast.Inspect(DR.Body, func(n ast.Node) bool {
			rs, ok := n.(*ast.RangeStmt)
			if !ok || rs.Key == nil || rs.Value == nil {
				return true
			}
			enc := p.enclosing(DR.Pkg, rs.Body.Pos())
			if enc.objOf(rs.X) != ep || ep == nil {
				return true
			}
			var push *ast.CallExpr
			ast.Inspect(rs.Body, func(x ast.Node) bool {
				if c, ok := x.(*ast.CallExpr); ok && enc.Callee(c) != nil && enc.Callee(c).Name() == "VirtualizationUpdateResource" && len(c.Args) == 3 {
					if enc.objOf(c.Args[1]) == enc.objOf(rs.Key) && enc.objOf(c.Args[2]) == enc.objOf(rs.Value) {
						why = ""
						push = c
					} else {
						why = "VirtualizationUpdateResource is called with (" + exprStr(c.Args[1]) + ", " + exprStr(c.Args[2]) + "), not with the id and the parameters of the same map entry"
					}
				}
				return true
			})
			if push != nil {
				pushLoop, pushCall = rs, push
			}
			return true
		})
		r.check2(why, "PUSH", DR.Name+" / each parameter set is applied to the workload it was computed for", p.pos(DR.Decl), "for id, params := range result { engine.VirtualizationUpdateResource(ctx, id, params) }")
		// every entry is applied: the loop over the answer has no exit and no skip before the engine call — one workload the
		// engine refuses must not leave the workloads after it (map order) on cores that were just given away
		if pushLoop != nil {
			whyE := ""
			if ex := loopEarlyExits(pushLoop.Body, pushCall.Pos()); len(ex) > 0 {
				whyE = fmt.Sprintf("the loop that applies the remapped parameter sets can stop or skip an entry at %s: the workloads after a failing one keep a core set that overlaps cores just bound to another workload", p.pos(ex[0]))
			}
			r.check2(whyE, "PUSH", DR.Name+" / every parameter set of the answer is applied, whatever the engine said about the others", p.pos(pushLoop), "no return/break/goto in the applying loop and no continue before the engine call")
		}
	}

	// ---- TRG: reachability
	{
		mutators := map[string]bool{"resource.Manager.Alloc": true, "resource.Manager.Realloc": true, "resource.Manager.SetNodeResourceUsage": true, "resource.Manager.RollbackAlloc": true, "resource.Manager.RollbackRealloc": true}
		// deep callees of a declared function (through its literals)
		callees := func(fn *FuncNode) (out []*FuncNode, muts []string) {
			ast.Inspect(fn.Body, func(n ast.Node) bool {
				c, ok := n.(*ast.CallExpr)
				if !ok {
					return true
				}
				enc := p.enclosing(fn.Pkg, c.Pos())
				if enc == nil {
					return true
				}
				f := enc.Callee(c)
				if f == nil {
					return true
				}
				if mutators[objName(f)] {
					muts = append(muts, shortName(objName(f)))
				}
				if t := p.ByObj[f]; t != nil {
					out = append(out, t)
				}
				return true
			})
			return
		}
		reach := func(from *FuncNode) bool {
			seen := map[*FuncNode]bool{}
			stack := []*FuncNode{from}
			for len(stack) > 0 {
				f := stack[len(stack)-1]
				stack = stack[:len(stack)-1]
				if seen[f] {
					continue
				}
				seen[f] = true
				if f == RL {
					return true
				}
				cs, _ := callees(f)
				stack = append(stack, cs...)
			}
			return false
		}
		// a helper that changes usage on behalf of its callers is covered when every caller reaches the trigger
		callers := map[*FuncNode][]*FuncNode{}
		for _, fn := range p.sortedFuncs("cluster/calcium") {
			if fn.Decl == nil || fn.Parent != nil {
				continue
			}
			cs, _ := callees(fn)
			for _, c := range cs {
				if c != fn {
					callers[c] = append(callers[c], fn)
				}
			}
		}
		var covered func(fn *FuncNode, depth int) bool
		covered = func(fn *FuncNode, depth int) bool {
			if reach(fn) {
				return true
			}
			if depth > 3 || len(callers[fn]) == 0 || (fn.Obj != nil && fn.Obj.Exported()) {
				return false
			}
			for _, c := range callers[fn] {
				if !covered(c, depth+1) {
					return false
				}
			}
			return true
		}
		for _, fn := range p.sortedFuncs("cluster/calcium") {
			if fn.Decl == nil || fn.Parent != nil {
				continue
			}
			_, muts := callees(fn)
			if len(muts) == 0 {
				continue
			}
			sort.Strings(muts)
			key := fmt.Sprintf("%s / changes node usage (%s) and can reach the remap trigger", fn.Name, strings.Join(uniqStrings(muts), ", "))
			r.check(covered(fn, 0), "TRG", key, p.pos(fn.Decl), "RemapResourceAndLog is reachable (from it, or from every function it is a helper of)", "this operation changes which cores have a free share base but never triggers a remap: unbound workloads keep running on cores that are now taken (or miss cores that became free) until some other operation touches the node")
		}
		// RemapResourceAndLog -> doRemapResource under the node-operation lock
		why := "RemapResourceAndLog does not run doRemapResource inside withNodeOperationLocked of the node"
		for _, c := range RL.calls(func(f *types.Func) bool { return f.Name() == "withNodeOperationLocked" }) {
			if lit, ok := unparen(c.Args[len(c.Args)-1]).(*ast.FuncLit); ok {
				cb := p.ByLit[lit]
				if len(cb.callsDeep(func(f *types.Func) bool { return f == DR.Obj })) == 1 {
					why = ""
				}
			}
		}
		r.check2(why, "TRG", RL.Name+" / the trigger runs the push under the node-operation lock", p.pos(RL.Decl), "withNodeOperationLocked(node.Name){ doRemapResource }")
	}
}

func uniqStrings(in []string) []string {
	var out []string
	for i, s := range in {
		if i == 0 || s != in[i-1] {
			out = append(out, s)
		}
	}
	return out
}

// checkRemapMerge: in the manager's Remap a workload's entry is created only when absent and each plugin's parameters are
// stored under that plugin's own key (used by C32 and C09)
func checkRemapMerge(p *Prog, r *Result, MR *FuncNode, rule string) {

	whyM := "no merge of the plugins' answers found"
	ast.Inspect(MR.Body, func(n ast.Node) bool {
		rs, ok := n.(*ast.RangeStmt)
		if !ok || rs.Key == nil || rs.Value == nil {
			return true
		}
		enc := p.enclosing(MR.Pkg, rs.Body.Pos())
		sel, ok := unparen(rs.X).(*ast.SelectorExpr)
		if !ok || sel.Sel.Name != "EngineParamsMap" {
			return true
		}
		id := enc.objOf(rs.Key)
		whyM = ""
		perPlugin := false
		inspectNoLit(rs.Body, func(x ast.Node) bool {
			as, ok := x.(*ast.AssignStmt)
			if !ok || len(as.Lhs) != 1 {
				return true
			}
			ix, ok := unparen(as.Lhs[0]).(*ast.IndexExpr)
			if !ok {
				return true
			}
			if inner, ok := unparen(ix.X).(*ast.IndexExpr); ok && enc.objOf(inner.Index) == id {
				// m[id][plugin.Name()] = v
				if c, ok := unparen(ix.Index).(*ast.CallExpr); ok {
					if s2, ok := unparen(c.Fun).(*ast.SelectorExpr); ok && s2.Sel.Name == "Name" {
						perPlugin = true
					}
				}
				return true
			}
			if enc.objOf(ix.Index) == id {
				// whole-entry write m[id] = …: only under `if _, ok := m[id]; !ok`
				guarded := false
				inspectNoLit(rs.Body, func(y ast.Node) bool {
					is, ok := y.(*ast.IfStmt)
					if !ok || !(is.Body.Pos() <= as.Pos() && as.End() <= is.Body.End()) || is.Init == nil {
						return true
					}
					if ia, ok := is.Init.(*ast.AssignStmt); ok && len(ia.Lhs) == 2 && len(ia.Rhs) == 1 {
						if u, ok := unparen(is.Cond).(*ast.UnaryExpr); ok && u.Op == token.NOT && enc.objOf(u.X) == enc.objOf(ia.Lhs[1]) {
							if gx, ok := unparen(ia.Rhs[0]).(*ast.IndexExpr); ok && enc.objOf(gx.Index) == id && exprStr(gx.X) == exprStr(ix.X) {
								guarded = true
							}
						}
					}
					return true
				})
				if !guarded {
					whyM = "a workload's whole entry is overwritten (`" + exprStr(as.Lhs[0]) + " = …`) each time a plugin answers for it: with two plugins the parameters of the other one (e.g. the cpu map of the share pool) are lost, depending on map iteration order"
				}
			}
			return true
		})
		if whyM == "" && !perPlugin {
			whyM = "the merged parameters are not stored under the answering plugin's own key"
		}
		return true
	})
	r.check2(whyM, rule, MR.Name+" / the plugins' parameter sets of one workload are kept side by side", p.pos(MR.Decl), "entry created only when absent; result stored under [id][plugin.Name()]")
}

// c32Share: in S (the remap calculation or the helper it delegates the pool to) the share pool is built from the available
// resource: `for cpu, pieces := range available.CPUMap { if pieces >= ShareBase { pool[cpu] = ShareBase } }`, with the
// fallback `if len(pool) == 0 { for cpu := range info.Capacity.CPUMap {…} }`; returns the pool variable and what is
// missing for each of the two obligations.
func c32Share(p *Prog, F *FuncNode, info types.Object) (share types.Object, why, why2 string, at ast.Node) {
	var avail types.Object
	F.inspectBody(func(n ast.Node) bool {
		if as, ok := n.(*ast.AssignStmt); ok && len(as.Rhs) == 1 && len(as.Lhs) >= 1 {
			if c, ok := unparen(as.Rhs[0]).(*ast.CallExpr); ok {
				if f := F.Callee(c); f != nil && f.Name() == "GetAvailableResource" {
					avail = F.objOf(as.Lhs[0])
				}
			}
		}
		return true
	})
	why = "no loop selecting the free cores from the available resource"
	at = F.Decl
	F.inspectBody(func(n ast.Node) bool {
		rs, ok := n.(*ast.RangeStmt)
		if !ok || rs.Key == nil || rs.Value == nil {
			return true
		}
		sel, ok := unparen(rs.X).(*ast.SelectorExpr)
		if !ok || sel.Sel.Name != "CPUMap" {
			return true
		}
		if F.objOf(sel.X) != avail || avail == nil {
			if F.objOf(sel.X) != nil && len(rs.Body.List) == 1 {
				if _, isIf := rs.Body.List[0].(*ast.IfStmt); isIf {
					why = "the shared cores are selected from `" + exprStr(rs.X) + "`, not from the node's available resource: cores whose pieces are taken by bound workloads stay in the share pool"
					at = rs
				}
			}
			return true
		}
		at = rs
		cpu, pieces := F.objOf(rs.Key), F.objOf(rs.Value)
		why = "the selection is not `if pieces >= ShareBase { share[cpu] = ShareBase }`"
		// the single store into the pool, reached exactly when pieces >= ShareBase
		var stores []*ast.AssignStmt
		inspectNoLit(rs.Body, func(x ast.Node) bool {
			if as, ok := x.(*ast.AssignStmt); ok && len(as.Lhs) == 1 {
				if _, isIx := unparen(as.Lhs[0]).(*ast.IndexExpr); isIx {
					stores = append(stores, as)
				}
			}
			return true
		})
		if len(stores) != 1 {
			return true
		}
		as := stores[0]
		base, idx := indexBaseObj(F, as.Lhs[0])
		if base == nil || F.objOf(idx) != cpu || !strings.HasSuffix(exprStr(as.Rhs[0]), "ShareBase") {
			return true
		}
		conds, ok := pathConds(rs.Body, as)
		if !ok || len(conds) != 1 {
			return true
		}
		if kind, x, y, ok := normCmp(conds[0].Expr, conds[0].Pos); ok && kind == "ge" && F.objOf(x) == pieces && strings.HasSuffix(exprStr(y), "ShareBase") {
			share, why = base, ""
		} else {
			pre := ""
			if !conds[0].Pos {
				pre = "not "
			}
			why = "a core is taken into the share pool under " + pre + "`" + exprStr(conds[0].Expr) + "`, not under `pieces >= ShareBase` (a full share base still free)"
		}
		return true
	})
	// fallback
	why2 = "no fallback to all cores when no core is free"
	if share != nil {
		F.inspectBody(func(n ast.Node) bool {
			is, ok := n.(*ast.IfStmt)
			if !ok {
				return true
			}
			be, ok := unparen(is.Cond).(*ast.BinaryExpr)
			if !ok || be.Op != token.EQL {
				return true
			}
			c, ok := unparen(be.X).(*ast.CallExpr)
			if !ok || len(c.Args) != 1 || F.objOf(c.Args[0]) != share {
				return true
			}
			if v, isC := F.constInt(be.Y); !isC || v != 0 {
				return true
			}
			for _, st := range is.Body.List {
				if rs, ok := st.(*ast.RangeStmt); ok {
					if sel, ok := unparen(rs.X).(*ast.SelectorExpr); ok && sel.Sel.Name == "CPUMap" {
						if s2, ok := unparen(sel.X).(*ast.SelectorExpr); ok && s2.Sel.Name == "Capacity" && F.objOf(s2.X) == info {
							why2 = ""
						}
					}
				}
			}
			return true
		})
	}
	return share, why, why2, at
}
