package main

// C36: client watch streams retry transparently.

import (
	"fmt"
	"go/ast"
	"go/token"
	"go/types"
	"sort"
	"strings"
)

func init() { register("C36", checkC36) }

// streamDescs reads name -> (server, client streaming) from the generated service descriptor literal.
func streamDescs(p *Prog) (service string, streams map[string][2]bool, unary map[string]bool, ok bool) {
	pk := p.ByPath["rpc/gen"]
	if pk == nil {
		return
	}
	streams, unary = map[string][2]bool{}, map[string]bool{}
	for _, f := range pk.Syntax {
		ast.Inspect(f, func(n ast.Node) bool {
			vs, isV := n.(*ast.ValueSpec)
			if !isV || len(vs.Names) != 1 || vs.Names[0].Name != "CoreRPC_ServiceDesc" || len(vs.Values) != 1 {
				return true
			}
			lit, isL := vs.Values[0].(*ast.CompositeLit)
			if !isL {
				return true
			}
			cs := func(e ast.Expr) string {
				if tv, has := pk.TypesInfo.Types[e]; has && tv.Value != nil {
					return strings.Trim(tv.Value.ExactString(), `"`)
				}
				return ""
			}
			for _, el := range lit.Elts {
				kv, isKV := el.(*ast.KeyValueExpr)
				if !isKV {
					continue
				}
				switch exprStr(kv.Key) {
				case "ServiceName":
					service = cs(kv.Value)
				case "Methods", "Streams":
					list, isList := kv.Value.(*ast.CompositeLit)
					if !isList {
						continue
					}
					for _, m := range list.Elts {
						ml, isML := m.(*ast.CompositeLit)
						if !isML {
							continue
						}
						name := ""
						var flags [2]bool
						for _, fe := range ml.Elts {
							fkv, isF := fe.(*ast.KeyValueExpr)
							if !isF {
								continue
							}
							switch exprStr(fkv.Key) {
							case "MethodName", "StreamName":
								name = cs(fkv.Value)
							case "ServerStreams":
								flags[0] = cs(fkv.Value) == "true"
							case "ClientStreams":
								flags[1] = cs(fkv.Value) == "true"
							}
						}
						if exprStr(kv.Key) == "Methods" {
							unary[name] = true
						} else {
							streams[name] = flags
						}
					}
				}
			}
			ok = true
			return false
		})
	}
	return
}

func checkC36(p *Prog, r *Result, tier string) {
	r.Technique = "table agreement between the retry allow-list and the generated gRPC service descriptor (constant evaluation of composite literals), go/cfg dominance and ordering rules inside the stream interceptor and the retry closure, constant-argument rule at the installation sites"
	r.Explanation = "AL every entry of the retry allow-list is `/<service>/<method>` of a server-streaming, not client-streaming method of the generated service descriptor (a typo silently disables retry; a client-streaming or unary method cannot be resumed by re-sending one saved request); " +
		"GATE the retrying stream wrapper is constructed only past the allow-list test on the called method (all other calls get the plain stream back) and nowhere else in the module; " +
		"SAVE SendMsg stores the request before forwarding it; FIRST RecvMsg returns the first result as it is when it succeeded or reports context.Canceled, and only otherwise enters the retry loop; " +
		"ORD inside the retry closure: open a new stream, install it, re-send the saved request, receive into the caller's message — in this order, each error returned; subsequent receives read the installed stream; " +
		"BUD both retry loops are backoff.WithMaxRetries(backoff.WithContext(…, the call's context), Max): bounded by the budget and stopped by the caller's context; UN the unary interceptor is installed only with the constant budget 0, i.e. unary calls are attempted once."
	r.NotCovered = "how grpc-go reports a cancelled stream (status code Canceled vs context.Canceled): with Max budget the closure still runs once on a cancelled context and fails at once; the behaviour of backoff; message delivery order across the break"
	r.Assumptions = []string{"A4 cenkalti/backoff v4 semantics: WithMaxRetries(b, 0) stops after the first attempt; WithContext stops when the context is done"}
	r.min("AL", 2)
	r.min("GATE", 2)
	r.min("SAVE", 1)
	r.min("FIRST", 1)
	r.min("ORD", 1)
	r.min("BUD", 2)
	r.min("UN", 1)

	const ipkg = "client/interceptor"
	service, streams, unary, ok := streamDescs(p)
	if !ok {
		r.undecided("AL", "rpc/gen.CoreRPC_ServiceDesc", "", "service descriptor literal not found")
	}
	var names []string
	for n := range streams {
		names = append(names, n)
	}
	sort.Strings(names)
	r.Tables["streaming_methods"] = names

	// ---- AL
	pk := p.ByPath[ipkg]
	var allow types.Object
	if pk == nil {
		r.undecided("AL", ipkg, "", "package not found")
		return
	}
	for _, f := range pk.Syntax {
		ast.Inspect(f, func(n ast.Node) bool {
			vs, isV := n.(*ast.ValueSpec)
			if !isV || len(vs.Names) != 1 || vs.Names[0].Name != "RPCNeedRetry" || len(vs.Values) != 1 {
				return true
			}
			allow = pk.TypesInfo.ObjectOf(vs.Names[0])
			lit, isL := vs.Values[0].(*ast.CompositeLit)
			if !isL {
				r.undecided("AL", ipkg+".RPCNeedRetry", p.pos(vs), "allow-list is not a literal")
				return false
			}
			for _, el := range lit.Elts {
				kv, isKV := el.(*ast.KeyValueExpr)
				if !isKV {
					continue
				}
				tv := pk.TypesInfo.Types[kv.Key]
				if tv.Value == nil {
					r.undecided("AL", ipkg+".RPCNeedRetry / non-constant entry", p.pos(kv), exprStr(kv.Key))
					continue
				}
				name := strings.Trim(tv.Value.ExactString(), `"`)
				key := ipkg + ".RPCNeedRetry / entry " + name
				parts := strings.Split(name, "/")
				why := ""
				switch {
				case len(parts) != 3 || parts[0] != "" || parts[1] != service:
					why = "not of the form /" + service + "/<Method>: the interceptor compares it with the full method name, so this entry never matches and that stream is never retried"
				case unary[parts[2]]:
					why = parts[2] + " is a unary method: a call that is not a watch stream would be wrapped"
				default:
					fl, has := streams[parts[2]]
					if !has {
						why = parts[2] + " is not a method of the service descriptor (typo?): the watch stream it was meant for is never retried"
					} else if !fl[0] || fl[1] {
						why = parts[2] + " is not a server-streaming/unary-request method: re-sending one saved request does not resume it"
					}
				}
				r.check2(why, "AL", key, p.pos(kv), "server-streaming method of "+service)
			}
			return false
		})
	}
	if allow == nil {
		r.undecided("AL", ipkg+".RPCNeedRetry", "", "allow-list variable not found")
		return
	}
	// the allow-list is not modified anywhere
	for _, fn := range p.sortedFuncs() {
		fn.inspectBody(func(n ast.Node) bool {
			switch x := n.(type) {
			case *ast.AssignStmt:
				for _, l := range x.Lhs {
					if base, _ := indexBaseObj(fn, l); base == allow || fn.objOf(l) == allow {
						r.bad("AL", ipkg+".RPCNeedRetry / written at run time in "+fn.Name, p.pos(x), "the allow-list is modified outside its declaration")
					}
				}
			case *ast.CallExpr:
				if id, ok := x.Fun.(*ast.Ident); ok && id.Name == "delete" && len(x.Args) > 0 && fn.objOf(x.Args[0]) == allow {
					r.bad("AL", ipkg+".RPCNeedRetry / delete in "+fn.Name, p.pos(x), "an entry is deleted from the allow-list")
				}
			}
			return true
		})
	}

	// ---- GATE
	S := p.Fn(ipkg + ".NewStreamRetry")
	var inter *FuncNode
	if S != nil && len(S.Lits) > 0 {
		inter = S.Lits[0]
	}
	nlit := 0
	for _, fn := range p.sortedFuncs() {
		fn.inspectBody(func(n ast.Node) bool {
			lit, ok := n.(*ast.CompositeLit)
			if !ok {
				return true
			}
			t := fn.typeOf(lit)
			if t == nil || !strings.HasSuffix(t.String(), ipkg+".retryStream") {
				return true
			}
			nlit++
			key := fmt.Sprintf("%s / retryStream literal #%d is built only for allow-listed methods", fn.Name, nlit)
			if fn != inter {
				r.bad("GATE", key, p.pos(lit), "a retrying stream is constructed outside the stream interceptor: the allow-list does not gate it")
				return true
			}
			// dominated by `if _, ok := allow[method]; !ok { return stream, err }`
			method := fn.paramObj(3)
			gated := false
			fn.inspectBody(func(x ast.Node) bool {
				is, ok := x.(*ast.IfStmt)
				if !ok || is.Init == nil || is.Else != nil {
					return true
				}
				as, ok := is.Init.(*ast.AssignStmt)
				if !ok || len(as.Lhs) != 2 || len(as.Rhs) != 1 {
					return true
				}
				base, idx := indexBaseObj(fn, as.Rhs[0])
				if base != allow || fn.objOf(idx) != method {
					return true
				}
				u, ok := unparen(is.Cond).(*ast.UnaryExpr)
				if !ok || u.Op != token.NOT || fn.objOf(u.X) != fn.objOf(as.Lhs[1]) {
					return true
				}
				if len(is.Body.List) == 1 {
					if _, isRet := is.Body.List[0].(*ast.ReturnStmt); isRet && fn.dominates(fn.find(is.Cond), fn.find(lit)) && !(is.Body.Pos() <= lit.Pos() && lit.End() <= is.Body.End()) {
						gated = true
					}
				}
				return true
			})
			r.check(gated, "GATE", key, p.pos(lit), "dominated by `if _, ok := RPCNeedRetry[method]; !ok { return stream, err }`", "the retrying wrapper is built without (or before) the allow-list test on the called method: calls that are not watch streams would be retried")
			return true
		})
	}
	// interceptor installation: NewStreamRetry is what the client installs
	nInst := 0
	for _, fn := range p.sortedFuncs("client") {
		for _, c := range fn.calls(func(f *types.Func) bool { return S != nil && f == S.Obj }) {
			nInst++
			r.ok("GATE", fmt.Sprintf("%s / stream interceptor installed #%d", fn.Name, nInst), p.pos(c), "NewStreamRetry")
		}
	}

	// ---- SAVE / FIRST / ORD / BUD on retryStream methods
	SM := p.Fn(ipkg + ".(*retryStream).SendMsg")
	RM := p.Fn(ipkg + ".(*retryStream).RecvMsg")
	if SM == nil || RM == nil {
		r.undecided("SAVE", ipkg+".(*retryStream).SendMsg/RecvMsg", "", "not found")
		return
	}
	isMethod := func(fn *FuncNode, c *ast.CallExpr, name string) bool {
		f := fn.Callee(c)
		return f != nil && f.Name() == name
	}
	{
		rv := recvObj(SM)
		var save, send nodeRef
		SM.inspectBody(func(n ast.Node) bool {
			switch x := n.(type) {
			case *ast.AssignStmt:
				if sel, ok := unparen(x.Lhs[0]).(*ast.SelectorExpr); ok && SM.objOf(sel.X) == rv && sel.Sel.Name == "sent" && SM.objOf(x.Rhs[0]) == SM.paramObj(0) {
					save = SM.find(x)
				}
			case *ast.CallExpr:
				if isMethod(SM, x, "SendMsg") {
					send = SM.find(x)
				}
			}
			return true
		})
		// every return that can report success has the save behind it (a return inside `if err != nil` reports failure)
		okSave := save.valid() && send.valid()
		SM.inspectBody(func(n ast.Node) bool {
			rt, ok := n.(*ast.ReturnStmt)
			if !ok || !okSave {
				return true
			}
			if SM.dominates(save, SM.find(rt)) {
				return true
			}
			failing := false
			SM.inspectBody(func(x ast.Node) bool {
				if is, ok := x.(*ast.IfStmt); ok && is.Body.Pos() <= rt.Pos() && rt.End() <= is.Body.End() {
					if be, ok := unparen(is.Cond).(*ast.BinaryExpr); ok && be.Op == token.NEQ && isNilIdent(be.Y) && len(rt.Results) == 1 && SM.objOf(rt.Results[0]) == SM.objOf(be.X) {
						failing = true
					}
				}
				return true
			})
			if !failing {
				okSave = false
			}
			return true
		})
		r.check(okSave, "SAVE", SM.Name+" / a request that was sent is saved for re-sending", p.pos(SM.Decl), "s.sent = m on every path that can report success", "the request is not stored on a path that reports success: a reopened stream has nothing (or a stale request) to re-send")
	}
	// FIRST: the retry call is dominated by `if err = s.ClientStream.RecvMsg(m); err == nil || errors.Is(err, context.Canceled) { return }`
	var retryCall *ast.CallExpr
	for _, c := range RM.calls(nameIsFull("github.com/cenkalti/backoff/v4.Retry")) {
		retryCall = c
	}
	if retryCall == nil {
		r.undecided("FIRST", RM.Name, p.pos(RM.Decl), "no backoff.Retry call")
		return
	}
	{
		why := "no first receive whose success or cancellation returns before the retry loop"
		RM.inspectBody(func(n ast.Node) bool {
			is, ok := n.(*ast.IfStmt)
			if !ok || is.Init == nil {
				return true
			}
			as, ok := is.Init.(*ast.AssignStmt)
			if !ok || len(as.Rhs) != 1 {
				return true
			}
			c, ok := unparen(as.Rhs[0]).(*ast.CallExpr)
			if !ok || !isMethod(RM, c, "RecvMsg") {
				return true
			}
			errObj := RM.objOf(as.Lhs[0])
			be, ok := unparen(is.Cond).(*ast.BinaryExpr)
			if !ok || be.Op != token.LOR {
				why = "the first receive is not followed by `err == nil || errors.Is(err, context.Canceled)`"
				return true
			}
			isNilTest := func(e ast.Expr) bool {
				b, ok := unparen(e).(*ast.BinaryExpr)
				return ok && b.Op == token.EQL && RM.objOf(b.X) == errObj && isNilIdent(b.Y)
			}
			isCancelTest := func(e ast.Expr) bool {
				cc, ok := unparen(e).(*ast.CallExpr)
				if !ok || len(cc.Args) != 2 || RM.objOf(cc.Args[0]) != errObj {
					return false
				}
				f := RM.Callee(cc)
				if f == nil || f.Name() != "Is" {
					return false
				}
				o := RM.objOf(cc.Args[1])
				return o != nil && o.Pkg() != nil && o.Pkg().Path() == "context" && o.Name() == "Canceled"
			}
			if !((isNilTest(be.X) && isCancelTest(be.Y)) || (isNilTest(be.Y) && isCancelTest(be.X))) {
				why = "the test after the first receive is `" + exprStr(is.Cond) + "`, not `err == nil || errors.Is(err, context.Canceled)`: a successful receive would be retried, or a cancelled stream reopened"
				return true
			}
			if len(is.Body.List) == 1 {
				if _, isRet := is.Body.List[0].(*ast.ReturnStmt); isRet && RM.dominates(RM.find(is.Cond), RM.find(retryCall)) {
					why = ""
				}
			}
			return true
		})
		r.check2(why, "FIRST", RM.Name+" / success and caller cancellation return at once, everything else retries", p.pos(RM.Decl), "if err = RecvMsg(m); err == nil || errors.Is(err, context.Canceled) { return } dominates the retry loop")
	}
	// ORD
	{
		why := "retry operation is not a literal"
		if lit, ok := unparen(retryCall.Args[0]).(*ast.FuncLit); ok {
			op := p.ByLit[lit]
			rv := recvObj(RM)
			msgObj := RM.paramObj(0)
			// a retry operation that only forwards to a method of the stream (`return s.recvOnNewStream(logger, m)`) is read
			// in that method: its receiver is the stream, its parameter bound to m is the message
			if len(op.Body.List) == 1 {
				if rt, ok := op.Body.List[0].(*ast.ReturnStmt); ok && len(rt.Results) == 1 {
					if c, ok := unparen(rt.Results[0]).(*ast.CallExpr); ok {
						if sel, ok := unparen(c.Fun).(*ast.SelectorExpr); ok && op.objOf(sel.X) == rv {
							if H := p.ByObj[op.Callee(c)]; H != nil && H.Body != nil && H.Pkg == RM.Pkg && recvObj(H) != nil {
								var hm types.Object
								for i, a := range c.Args {
									if op.objOf(a) == msgObj {
										hm = H.paramObj(i)
									}
								}
								if hm != nil {
									op, rv, msgObj = H, recvObj(H), hm
								}
							}
						}
					}
				}
			}
			var open, install, resend, recv nodeRef
			var streamObj types.Object
			op.inspectBody(func(n ast.Node) bool {
				switch x := n.(type) {
				case *ast.AssignStmt:
					if len(x.Rhs) == 1 {
						if c, ok := unparen(x.Rhs[0]).(*ast.CallExpr); ok {
							if sel, ok := unparen(c.Fun).(*ast.SelectorExpr); ok && op.objOf(sel.X) == rv && sel.Sel.Name == "newStream" {
								open = op.find(x)
								streamObj = op.objOf(x.Lhs[0])
							}
							if isMethod(op, c, "SendMsg") && len(c.Args) == 1 {
								if a, ok := unparen(c.Args[0]).(*ast.SelectorExpr); ok && op.objOf(a.X) == rv && a.Sel.Name == "sent" {
									resend = op.find(x)
								}
							}
						}
					}
				case *ast.CallExpr:
					if isMethod(op, x, "setStream") && len(x.Args) == 1 && streamObj != nil && op.objOf(x.Args[0]) == streamObj {
						install = op.find(x)
					}
				case *ast.ReturnStmt:
					if len(x.Results) == 1 {
						if c, ok := unparen(x.Results[0]).(*ast.CallExpr); ok && isMethod(op, c, "RecvMsg") && len(c.Args) == 1 && op.objOf(c.Args[0]) == msgObj {
							recv = op.find(x)
						}
					}
				}
				return true
			})
			switch {
			case !open.valid():
				why = "the retry does not open a new stream with the saved factory"
			case !install.valid():
				why = "the new stream is not installed (setStream): later receives keep reading the broken stream"
			case !resend.valid():
				why = "the saved request is not re-sent on the new stream: the server never starts streaming"
			case !recv.valid():
				why = "the retry does not receive into the caller's message from the new stream"
			case !(op.dominates(open, install) && op.dominates(install, resend) && op.dominates(resend, recv)):
				why = "order is not open → install → re-send → receive"
			default:
				why = ""
			}
			// each error is returned: after open and resend an `if err != nil { return err }` — checked via returns count
			if why == "" {
				nret := 0
				op.inspectBody(func(n ast.Node) bool {
					if _, ok := n.(*ast.ReturnStmt); ok {
						nret++
					}
					return true
				})
				if nret < 3 {
					why = "an error of opening or re-sending is not returned to the retry loop"
				}
			}
			// getStream/first receive read the installed field
			G := p.Fn(ipkg + ".(*retryStream).getStream")
			ST := p.Fn(ipkg + ".(*retryStream).setStream")
			if why == "" && (G == nil || ST == nil) {
				why = "getStream/setStream not found"
			}
		}
		r.check2(why, "ORD", RM.Name+" / retry: open, install, re-send the saved request, receive", p.pos(retryCall), "newStream → setStream → SendMsg(s.sent) → RecvMsg(m)")
	}
	// BUD: both Retry calls use WithMaxRetries(WithContext(_, ctx), uint64(X.Max))
	nb := 0
	for _, fn := range p.sortedFuncs(ipkg) {
		for _, c := range fn.calls(nameIsFull("github.com/cenkalti/backoff/v4.Retry")) {
			nb++
			key := fmt.Sprintf("%s / retry loop #%d is bounded by the budget and the call's context", fn.Name, nb)
			why := "second argument is not backoff.WithMaxRetries(backoff.WithContext(…, ctx), uint64(….Max))"
			if mr, ok := unparen(c.Args[1]).(*ast.CallExpr); ok && fn.Callee(mr) != nil && fn.Callee(mr).Name() == "WithMaxRetries" && len(mr.Args) == 2 {
				if wc, ok := unparen(mr.Args[0]).(*ast.CallExpr); ok && fn.Callee(wc) != nil && fn.Callee(wc).Name() == "WithContext" && len(wc.Args) == 2 && isContextType(fn.typeOf(wc.Args[1])) {
					if conv, ok := unparen(mr.Args[1]).(*ast.CallExpr); ok && len(conv.Args) == 1 {
						if sel, ok := unparen(conv.Args[0]).(*ast.SelectorExpr); ok && sel.Sel.Name == "Max" {
							why = ""
						}
					}
				}
			}
			r.check2(why, "BUD", key, p.pos(c), "WithMaxRetries(WithContext(ExponentialBackOff, ctx), Max)")
		}
	}
	// UN: NewUnaryRetry call sites pass RetryOptions{Max: 0}
	U := p.Fn(ipkg + ".NewUnaryRetry")
	nu := 0
	for _, fn := range p.sortedFuncs() {
		for _, c := range fn.calls(func(f *types.Func) bool { return U != nil && f == U.Obj }) {
			nu++
			key := fmt.Sprintf("%s / unary interceptor installed #%d with budget 0", fn.Name, nu)
			why := "the retry options are not the literal RetryOptions{Max: 0}"
			if lit, ok := unparen(c.Args[0]).(*ast.CompositeLit); ok {
				zero := true
				for _, el := range lit.Elts {
					if kv, ok := el.(*ast.KeyValueExpr); ok && exprStr(kv.Key) == "Max" {
						if v, isC := fn.constInt(kv.Value); !isC || v != 0 {
							zero = false
						}
					}
				}
				if zero {
					why = ""
				} else {
					why = "unary calls get a non-zero retry budget: calls that are not watch streams (including non-idempotent ones) are retried"
				}
			}
			r.check2(why, "UN", key, p.pos(c), "RetryOptions{Max: 0}")
		}
	}
}

func nameIsFull(names ...string) func(*types.Func) bool {
	return func(f *types.Func) bool {
		n := fullObjName(f)
		for _, w := range names {
			if n == w {
				return true
			}
		}
		return false
	}
}
