package main

// C13: deploy status counts and processing markers.

import (
	"fmt"
	"go/ast"
	"go/token"
	"go/types"
	"strings"
)

func init() { register("C13", checkC13) }

func checkC13(p *Prog, r *Result, tier string) {
	r.Technique = "pairing/dominance rules on the AST+CFG of doCreateWorkloads, atomic-group shape of BatchCreateAndDecr in both stores, sum-of-two-sources shape of GetDeployStatus, symbolic key evaluation of the prefix queries"
	r.Explanation = "P1 the in-progress marker is created for the keys of the same map variable, with the same key->marker derivation, as the deferred deletion iterates, and the deletion is a defer of the producer registered before the transaction; P2 on the create path AddWorkload receives the marker (constant true from the deploy loop; nil only under !decrProcessing); " +
		"P3 in each backend AddWorkload with a marker reaches BatchCreateAndDecr, which issues the record creates and the decrement inside one transaction primitive (etcd: one ETCDTxn whose Then holds puts and the decrement, compared on the marker value; redis: one TxPipelined closure holding Decr and the SetNX's, or one server-side script holding DECR and the SETs); P4 GetDeployStatus is deployed-count plus marker-count in both backends, and reads the deployed records before the markers (the other order counts an instance twice when it is recorded between the reads); PK both counts are read with prefix keys ending in the separator. P5 the deferred deletion runs under a context detached from the caller (utils.NewInheritCtx), so a cancelled request still cleans its markers up; W2 (from C14): markers are deleted before their log entries are committed."
	r.NotCovered = "the counts at intermediate steps of a run"
	r.Assumptions = []string{"A4 an etcd Txn, a redis TxPipelined (MULTI/EXEC) and a redis server-side script apply their operations atomically", "A2 interface dispatch bounded by module types (mocks/fakes excluded)", "go/cfg dominance stands for execution order inside doCreateWorkloads"}
	F := p.Fn("cluster/calcium.(*Calcium).doCreateWorkloads")
	one := p.Fn("cluster/calcium.(*Calcium).doDeployOneWorkload")
	onNode := p.Fn("cluster/calcium.(*Calcium).doDeployWorkloadsOnNode")
	if F == nil || one == nil || onNode == nil {
		r.undecided("anchor", "create.go", "", "functions not found")
		return
	}
	r.min("P1", 1)
	r.min("P2", 2)
	r.min("P3", 4)
	r.min("P4", 4)
	r.min("P4", 2)
	r.min("PK", 4)
	r.min("P5", 1)
	checkP1(p, r, F)
	// P2
	{
		key := onNode.Name + " passes decrProcessing=true on the create path"
		n := 0
		ok := true
		ast.Inspect(onNode.Body, func(x ast.Node) bool {
			if c, isC := x.(*ast.CallExpr); isC {
				fn := p.enclosing(onNode.Pkg, c.Pos())
				if f := fn.Callee(c); f != nil && p.ByObj[f] == one {
					n++
					if constBoolName(fn, c.Args[len(c.Args)-1]) != "true" {
						ok = false
					}
				}
			}
			return true
		})
		r.check(n >= 1 && ok, "P2", key, p.pos(onNode.Decl), "doDeployOneWorkload(..., true)", "the deploy loop does not pass the constant true: the marker is not decremented when a workload is recorded")
		// inside doDeployOneWorkload: AddWorkload(ctx, workload, processing) with processing := opts.GetProcessing(...); nil only if !decrProcessing
		key2 := one.Name + " hands the marker to AddWorkload"
		ok2, why := false, "AddWorkload call not found"
		ast.Inspect(one.Body, func(x ast.Node) bool {
			c, isC := x.(*ast.CallExpr)
			if !isC {
				return true
			}
			fn := p.enclosing(one.Pkg, c.Pos())
			f := fn.Callee(c)
			if f == nil || objName(f) != "store.Store.AddWorkload" || len(c.Args) != 3 {
				return true
			}
			obj := fn.objOf(c.Args[2])
			if obj == nil {
				why = "third argument of AddWorkload is not the marker variable"
				return true
			}
			// assignments to obj in fn
			fromGet, nilUnderFlag, other := false, false, 0
			fn.inspectBody(func(y ast.Node) bool {
				as, isAs := y.(*ast.AssignStmt)
				if !isAs || len(as.Lhs) != 1 || fn.objOf(as.Lhs[0]) != obj {
					return true
				}
				if cc, isCall := unparen(as.Rhs[0]).(*ast.CallExpr); isCall {
					if ff := fn.Callee(cc); ff != nil && strings.HasSuffix(objName(ff), ".GetProcessing") {
						fromGet = true
						return true
					}
				}
				if isNilIdent(as.Rhs[0]) {
					// must be inside `if !decrProcessing`
					guard := false
					fn.inspectBody(func(z ast.Node) bool {
						if is, isIf := z.(*ast.IfStmt); isIf && is.Body.Pos() <= as.Pos() && as.End() <= is.Body.End() {
							if u, isU := unparen(is.Cond).(*ast.UnaryExpr); isU && u.Op == token.NOT {
								if po := one.paramObj(len(one.Type.Params.List) - 1); po != nil && fn.objOf(u.X) != nil && fn.objOf(u.X).Name() == "decrProcessing" {
									guard = true
								}
							}
						}
						return true
					})
					if guard {
						nilUnderFlag = true
					} else {
						other++
					}
					return true
				}
				other++
				return true
			})
			if fromGet && other == 0 {
				ok2, why = true, fmt.Sprintf("marker from opts.GetProcessing; nil only under !decrProcessing (%v)", nilUnderFlag)
			} else {
				why = "the marker passed to AddWorkload is not opts.GetProcessing(node) on the create path (or is cleared unconditionally)"
			}
			return true
		})
		r.check(ok2, "P2", key2, p.pos(one.Decl), why, why)
	}
	checkP3(p, r)
	checkP4(p, r)
	for _, s := range prefixQuerySites(p, "store/etcdv3", "store/redis") {
		top := topOf(s.fn).Name
		if strings.HasSuffix(top, ".GetDeployStatus") || strings.HasSuffix(top, ".doLoadProcessing") {
			checkPrefixSite(p, r, "PK", s)
		}
	}
	// W2 of the processing event (shared with C14)
	a := newTxnAnalyzer(p, r)
	if a != nil {
		txnSites := findTxnSites(p)
		for _, s := range findWalSites(p, r) {
			if s.spec.constName == "eventProcessingCreated" {
				checkW2(p, r, a, s, fmt.Sprintf("%s logs %s", s.fn.Name, s.spec.constName), txnSites)
			}
		}
	}
}

// P1: CreateProcessing and DeleteProcessing range over the same map with the same derivation.
func checkP1(p *Prog, r *Result, F *FuncNode) {
	type site struct {
		fn    *FuncNode
		call  *ast.CallExpr
		rng   *ast.RangeStmt
		deriv string
	}
	// mapObj: the object of F's scope that the ranged expression of a site denotes (for a site inside a helper that F
	// calls, the argument bound to the helper's parameter); viaFn: the function of F's literal tree the site belongs to
	mapObj := map[*ast.RangeStmt]types.Object{}
	viaFn := map[*ast.CallExpr]*FuncNode{}
	find := func(name string) []site {
		var out []site
		var scan func(body ast.Node, args map[types.Object]ast.Expr, via *FuncNode, depth int)
		scan = func(body ast.Node, args map[types.Object]ast.Expr, via *FuncNode, depth int) {
			ast.Inspect(body, func(x ast.Node) bool {
				c, ok := x.(*ast.CallExpr)
				if !ok {
					return true
				}
				fn := p.enclosing(F.Pkg, c.Pos())
				if fn == nil {
					return true
				}
				if f := fn.Callee(c); f != nil && objName(f) != name && depth == 0 {
					// a helper of the package called from F (e.g. from its deferred literal)
					if H := p.ByObj[f]; H != nil && H.Body != nil && H.Pkg == F.Pkg && topOf(H) != topOf(F) {
						hargs := map[types.Object]ast.Expr{}
						for i, a := range c.Args {
							if po := H.paramObj(i); po != nil {
								hargs[po] = a
							}
						}
						nb := len(out)
						scan(H.Body, hargs, fn, depth+1)
						for _, s2 := range out[nb:] {
							viaFn[s2.call] = fn
						}
					}
				}
				if f := fn.Callee(c); f == nil || objName(f) != name {
					return true
				}
				s := site{fn: fn, call: c}
				if l, ok := enclosingLoop(fn, c.Pos()).(*ast.RangeStmt); ok {
					s.rng = l
					// derivation of the processing argument from the range key
					arg := c.Args[1]
					if id, ok := unparen(arg).(*ast.Ident); ok {
						obj := fn.Pkg.TypesInfo.ObjectOf(id)
						ast.Inspect(l.Body, func(y ast.Node) bool {
							if as, ok := y.(*ast.AssignStmt); ok && len(as.Lhs) == 1 && fn.objOf(as.Lhs[0]) == obj {
								arg = as.Rhs[0]
							}
							return true
						})
					}
					if k := fn.objOf(l.Key); k != nil {
						s.deriv = replaceIdent(fn, arg, k, "$key")
					}
					mo := fn.objOf(l.X)
					if a, ok := args[mo]; ok && via != nil {
						mo = via.objOf(a)
					}
					mapObj[l] = mo
				}
				out = append(out, s)
				return true
			})
		}
		scan(F.Body, nil, nil, 0)
		return out
	}
	cs, ds := find("store.Store.CreateProcessing"), find("store.Store.DeleteProcessing")
	key := F.Name + " / every created marker is deleted when the deployment ends"
	if len(cs) != 1 || len(ds) < 1 {
		r.bad("P1", key, p.pos(F.Decl), fmt.Sprintf("%d CreateProcessing and %d DeleteProcessing sites (want 1 and >=1)", len(cs), len(ds)))
		return
	}
	c := cs[0]
	if c.rng == nil {
		r.undecided("P1", key, p.pos(c.call), "CreateProcessing is not in a range loop")
		return
	}
	g := getSCG(p, r)
	for _, d := range ds {
		if d.rng == nil {
			continue
		}
		if mapObj[c.rng] != mapObj[d.rng] || mapObj[c.rng] == nil {
			r.bad("P1", key, p.pos(d.call), fmt.Sprintf("markers are created for the keys of %s but deleted for the keys of %s: when the two differ (creation fails part-way, or the deleted map is assigned later) markers are left behind", exprStr(c.rng.X), exprStr(d.rng.X)))
			return
		}
		if c.deriv != d.deriv {
			r.bad("P1", key, p.pos(d.call), "marker derivation differs: created with "+c.deriv+", deleted with "+d.deriv)
			return
		}
		// the deletion sits in a deferred literal registered at top level of the producer goroutine, before the Txn
		dl := d.fn
		if v := viaFn[d.call]; v != nil {
			dl = v
		}
		for dl != nil && g != nil && g.roles[dl].kind != "defer" {
			dl = dl.Parent
		}
		if dl == nil || dl.Parent == nil || deferRegIndex(dl.Parent, dl) < 0 {
			r.bad("P1", key, p.pos(d.call), "the deletion is not in a defer of the producing goroutine: an early return or panic skips it")
			return
		}
		// the map variable is not reassigned after the creation loop (in the creating function)
		mobj := c.fn.objOf(c.rng.X)
		reassigned := false
		ast.Inspect(F.Body, func(y ast.Node) bool {
			if as, ok := y.(*ast.AssignStmt); ok && as.Pos() > c.rng.End() {
				for _, l := range as.Lhs {
					if id, ok := unparen(l).(*ast.Ident); ok {
						if fn := p.enclosing(F.Pkg, id.Pos()); fn.Pkg.TypesInfo.ObjectOf(id) == mobj {
							reassigned = true
						}
					}
				}
			}
			return true
		})
		if reassigned {
			r.bad("P1", key, p.pos(c.call), "the map of planned nodes is reassigned after the markers were created")
			return
		}
		r.ok("P1", key, p.pos(c.call), fmt.Sprintf("created and deleted over %s with %s; deletion deferred in the producer", exprStr(c.rng.X), c.deriv))
		// P5: the deferred deletion must not depend on the caller's context still being alive
		det, known := ctxOriginDetached(p, d.fn, d.call.Args[0])
		k5 := F.Name + " / the deferred marker deletion runs under a context detached from the caller's cancellation"
		switch {
		case !known:
			r.undecided("P5", k5, p.pos(d.call), "the context passed to DeleteProcessing is not a single-definition local")
		case det:
			r.ok("P5", k5, p.pos(d.call), "context derives from utils.NewInheritCtx")
		default:
			r.bad("P5", k5, p.pos(d.call), "DeleteProcessing runs under the request's context: when the caller has gone away (cancel, deadline) by the time the deployment ends, every deletion fails, the error is only logged, and the markers stay although the deployment has returned")
		}
		return
	}
	r.bad("P1", key, p.pos(c.call), "no DeleteProcessing ranges over the planned nodes")
}

// P3: atomic group in both backends.
func checkP3(p *Prog, r *Result) {
	for _, be := range []struct{ pkg, recv, ops, bcd string }{
		{"store/etcdv3", "(*Mercury)", "doOpsWorkload", "store/etcdv3/meta.(*ETCD).BatchCreateAndDecr"},
		{"store/redis", "(*Rediaron)", "doOpsWorkload", "store/redis.(*Rediaron).BatchCreateAndDecr"},
	} {
		ops := p.Fn(be.pkg + "." + be.recv + "." + be.ops)
		key := be.pkg + " AddWorkload with a marker reaches BatchCreateAndDecr"
		if ops == nil {
			r.undecided("P3", key, "", "doOpsWorkload not found")
			continue
		}
		// BatchCreateAndDecr is what runs when a marker is present (`processing != nil` holds on its path — as an if, a
		// case of a switch, or after an early exit), and the plain BatchCreate only when it is absent
		markerAt := func(n ast.Node) (present, known bool) {
			conds, ok := pathConds(ops.Body, n)
			if !ok {
				return false, false
			}
			for _, c := range conds {
				e, pos := unparen(c.Expr), c.Pos
				for {
					u, isNot := e.(*ast.UnaryExpr)
					if !isNot || u.Op != token.NOT {
						break
					}
					e, pos = unparen(u.X), !pos
				}
				be2, ok := e.(*ast.BinaryExpr)
				if !ok || (be2.Op != token.NEQ && be2.Op != token.EQL) || !isNilIdent(be2.Y) {
					continue
				}
				if o := ops.objOf(be2.X); o == nil || o.Name() != "processing" {
					continue
				}
				return (be2.Op == token.NEQ) == pos, true
			}
			return false, false
		}
		found, plainWrong := false, false
		inspectNoLit(ops.Body, func(y ast.Node) bool {
			if c, ok := y.(*ast.CallExpr); ok {
				if f := ops.Callee(c); f != nil {
					switch f.Name() {
					case "BatchCreateAndDecr":
						if v, known := markerAt(c); known && v {
							found = true
						}
					case "BatchCreate":
						if v, known := markerAt(c); known && v {
							plainWrong = true
						}
					}
				}
			}
			return true
		})
		found = found && !plainWrong
		r.check(found, "P3", key, p.pos(ops.Decl), "", "with a marker present the records are not created through BatchCreateAndDecr: create and decrement are no longer one atomic step")
		bcd := p.Fn(be.bcd)
		key2 := be.bcd + " creates and decrements in one transaction"
		if bcd == nil {
			r.undecided("P3", key2, "", "not found")
			continue
		}
		if strings.Contains(be.bcd, "etcdv3") {
			checkEtcdBCD(p, r, bcd, key2)
		} else {
			checkRedisBCD(p, r, bcd, key2)
		}
	}
}

func checkEtcdBCD(p *Prog, r *Result, fn *FuncNode, key string) {
	// exactly one doBatchOp call, argument []ETCDTxn{txn} with one element; txn.Then = append(putOps, OpPut(decrKey, ...)); If compares Value(decrKey)
	calls := fn.calls(func(f *types.Func) bool { return f.Name() == "doBatchOp" })
	if len(calls) != 1 {
		r.bad("P3", key, p.pos(fn.Decl), fmt.Sprintf("%d doBatchOp calls (want exactly 1): puts and decrement are split over several transactions", len(calls)))
		return
	}
	cl, ok := unparen(calls[0].Args[1]).(*ast.CompositeLit)
	if !ok || len(cl.Elts) != 1 {
		r.bad("P3", key, p.pos(calls[0]), "doBatchOp is not called with exactly one ETCDTxn")
		return
	}
	// find the ETCDTxn literal
	var thenE, ifE ast.Expr
	fn.inspectBody(func(n ast.Node) bool {
		if c, ok := n.(*ast.CompositeLit); ok {
			if t := fn.typeOf(c); t != nil && strings.HasSuffix(t.String(), "meta.ETCDTxn") {
				for _, e := range c.Elts {
					if kv, ok := e.(*ast.KeyValueExpr); ok {
						switch exprStr(kv.Key) {
						case "Then":
							thenE = kv.Value
						case "If":
							ifE = kv.Value
						}
					}
				}
			}
		}
		return true
	})
	if thenE == nil || ifE == nil {
		r.bad("P3", key, p.pos(fn.Decl), "ETCDTxn literal with If and Then not found")
		return
	}
	// parameters: data (map) and decrKey (string)
	dataObj, keyObj := fn.paramObj(1), fn.paramObj(2)
	usesCallOn := func(root ast.Node, callee string, argObj types.Object) bool {
		found := false
		ast.Inspect(root, func(n ast.Node) bool {
			if c, ok := n.(*ast.CallExpr); ok {
				if f := fn.Callee(c); f != nil && fullObjName(f) == callee && len(c.Args) >= 1 && fn.objOf(c.Args[0]) == argObj {
					found = true
				}
			}
			return !found
		})
		return found
	}
	// Then = append(<puts>, OpPut(decrKey, ...)) where <puts> collects an OpPut for every entry of data
	okThen, okPuts := false, false
	if ac, ok := unparen(thenE).(*ast.CallExpr); ok && isBuiltinCall(fn, ac, "append") && len(ac.Args) >= 2 {
		putsObj := fn.objOf(ac.Args[0])
		for _, extra := range ac.Args[1:] {
			if usesCallOn(extra, "go.etcd.io/etcd/client/v3.OpPut", keyObj) {
				okThen = true
			}
		}
		fn.inspectBody(func(n ast.Node) bool {
			if rs, ok := n.(*ast.RangeStmt); ok && fn.objOf(rs.X) == dataObj && rs.Key != nil {
				kobj := fn.objOf(rs.Key)
				ast.Inspect(rs.Body, func(y ast.Node) bool {
					if as, ok := y.(*ast.AssignStmt); ok && len(as.Lhs) == 1 && putsObj != nil && fn.objOf(as.Lhs[0]) == putsObj {
						if usesCallOn(as.Rhs[0], "go.etcd.io/etcd/client/v3.OpPut", kobj) {
							okPuts = true
						}
					}
					return true
				})
			}
			return true
		})
	}
	okIf := usesCallOn(ifE, "go.etcd.io/etcd/client/v3.Value", keyObj)
	if okThen && okIf && okPuts {
		r.ok("P3", key, p.pos(calls[0]), "one ETCDTxn: If Value(decrKey)==read value, Then = all puts + decrement")
	} else {
		r.bad("P3", key, p.pos(calls[0]), fmt.Sprintf("transaction shape changed (then has puts+decrement: %v, compares marker value: %v, puts cover data: %v)", okThen, okIf, okPuts))
	}
}

func exprStrStmt(n ast.Node) string {
	var b strings.Builder
	ast.Inspect(n, func(x ast.Node) bool {
		if as, ok := x.(*ast.AssignStmt); ok && len(as.Lhs) == 1 && len(as.Rhs) == 1 {
			b.WriteString(exprStr(as.Lhs[0]) + " = " + exprStr(as.Rhs[0]) + ";")
		}
		return true
	})
	return b.String()
}

func checkRedisBCD(p *Prog, r *Result, fn *FuncNode, key string) {
	calls := fn.calls(func(f *types.Func) bool {
		return fullObjName(f) == "github.com/go-redis/redis/v8.(*Client).TxPipelined"
	})
	if len(calls) == 0 {
		// second accepted form: one server-side script (atomic in redis) that decrements the marker and writes the records
		var scripts []*ast.CallExpr
		other := 0
		fn.inspectBody(func(n ast.Node) bool {
			if c, ok := n.(*ast.CallExpr); ok {
				if f := fn.Callee(c); f != nil && strings.Contains(fullObjName(f), "go-redis") {
					switch f.Name() {
					case "Run", "Eval", "EvalSha":
						scripts = append(scripts, c)
					case "Int", "Result", "Err", "Bool", "Int64", "Text":
						// reading the script's reply
					default:
						other++
					}
				}
			}
			return true
		})
		if len(scripts) == 1 && other == 0 {
			txt := strings.ToUpper(c23ScriptText(p, fn, scripts[0]))
			dataObj, keyObj := fn.paramObj(1), fn.paramObj(2)
			rangesData := false
			fn.inspectBody(func(n ast.Node) bool {
				if rs, ok := n.(*ast.RangeStmt); ok && fn.objOf(rs.X) == dataObj {
					rangesData = true
				}
				return true
			})
			passesKey := false
			for _, a := range scripts[0].Args {
				if fn.usesObj(a, keyObj) {
					passesKey = true
				}
				if id, ok := unparen(a).(*ast.Ident); ok {
					// keys slice built from decrKey
					o := fn.objOf(id)
					fn.inspectBody(func(n ast.Node) bool {
						if as, ok := n.(*ast.AssignStmt); ok {
							for i, l := range as.Lhs {
								if fn.objOf(l) == o && i < len(as.Rhs) && fn.usesObj(as.Rhs[i], keyObj) {
									passesKey = true
								}
							}
						}
						return true
					})
				}
			}
			if strings.Contains(txt, "\"DECR\"") && strings.Contains(txt, "\"SET") && rangesData && passesKey {
				r.ok("P3", key, p.pos(scripts[0]), "one server-side script: DECR of the marker key + SET of every entry of data")
			} else {
				r.bad("P3", key, p.pos(scripts[0]), fmt.Sprintf("script shape changed (DECR in script: %v, SET in script: %v, all entries of data passed: %v, marker key passed: %v)", strings.Contains(txt, "\"DECR\""), strings.Contains(txt, "\"SET"), rangesData, passesKey))
			}
			return
		}
	}
	if len(calls) != 1 {
		r.bad("P3", key, p.pos(fn.Decl), fmt.Sprintf("%d TxPipelined calls and no single server-side script: the records and the decrement are not one atomic step", len(calls)))
		return
	}
	lit, ok := p.resolveFuncArg(fn, calls[0].Args[1])
	if !ok || lit == nil {
		r.undecided("P3", key, p.pos(calls[0]), "pipeline closure not resolved")
		return
	}
	hasDecr, hasSetNX := false, false
	dataObj, keyObj := fn.paramObj(1), fn.paramObj(2)
	lit.inspectBody(func(n ast.Node) bool {
		if c, ok := n.(*ast.CallExpr); ok {
			if f := lit.Callee(c); f != nil {
				switch f.Name() {
				case "Decr":
					if len(c.Args) == 2 && lit.objOf(c.Args[1]) == keyObj {
						hasDecr = true
					}
				case "SetNX":
					if l, ok := enclosingLoop(lit, c.Pos()).(*ast.RangeStmt); ok && lit.objOf(l.X) == dataObj {
						hasSetNX = true
					}
				}
			}
		}
		return true
	})
	// no write outside the pipeline
	outside := 0
	fn.inspectBody(func(n ast.Node) bool {
		if c, ok := n.(*ast.CallExpr); ok && c != calls[0] {
			if f := fn.Callee(c); f != nil && strings.Contains(fullObjName(f), "go-redis") {
				outside++
			}
		}
		return true
	})
	if hasDecr && hasSetNX && outside == 0 {
		r.ok("P3", key, p.pos(calls[0]), "one TxPipelined closure: Decr(decrKey) + SetNX for every entry of data")
	} else {
		r.bad("P3", key, p.pos(calls[0]), fmt.Sprintf("pipeline shape changed (decr in pipeline: %v, creates in pipeline: %v, redis commands outside: %d)", hasDecr, hasSetNX, outside))
	}
}

// P4: nodeCount = deployed + processing.
func checkP4(p *Prog, r *Result) {
	for _, nm := range []string{"store/etcdv3.(*Mercury).GetDeployStatus", "store/redis.(*Rediaron).GetDeployStatus"} {
		fn := p.Fn(nm)
		key := nm + " = deployed + in-progress"
		if fn == nil {
			r.undecided("P4", key, "", "not found")
			continue
		}
		var srcs []string
		nAssign, nAdd := 0, 0
		// the result map: the variable returned on the success path
		var resObj types.Object
		fn.inspectBody(func(n ast.Node) bool {
			if rt, ok := n.(*ast.ReturnStmt); ok && len(rt.Results) == 2 && isNilIdent(rt.Results[1]) {
				resObj = fn.objOf(rt.Results[0])
			}
			return true
		})
		fn.inspectBody(func(n ast.Node) bool {
			rs, ok := n.(*ast.RangeStmt)
			if !ok {
				return true
			}
			for _, st := range rs.Body.List {
				if as, ok := st.(*ast.AssignStmt); ok && len(as.Lhs) == 1 {
					if ix, ok := as.Lhs[0].(*ast.IndexExpr); ok && resObj != nil && fn.objOf(ix.X) == resObj && fn.objOf(ix.Index) == fn.objOf(rs.Key) && fn.objOf(as.Rhs[0]) == fn.objOf(rs.Value) {
						srcs = append(srcs, exprStr(rs.X))
						if as.Tok == token.ASSIGN {
							nAssign++
						} else if as.Tok == token.ADD_ASSIGN {
							nAdd++
						}
					}
				}
			}
			return true
		})
		// sources: doGetDeployStatus(...) and doLoadProcessing(...)
		def := map[string]string{}
		fn.inspectBody(func(n ast.Node) bool {
			if as, ok := n.(*ast.AssignStmt); ok && len(as.Rhs) == 1 {
				if c, ok := unparen(as.Rhs[0]).(*ast.CallExpr); ok {
					if f := fn.Callee(c); f != nil {
						def[exprStr(as.Lhs[0])] = f.Name()
					}
				}
			}
			return true
		})
		okSrc := len(srcs) == 2 && ((def[srcs[0]] == "doGetDeployStatus" && def[srcs[1]] == "doLoadProcessing") || (def[srcs[1]] == "doGetDeployStatus" && def[srcs[0]] == "doLoadProcessing"))
		if okSrc && nAssign+nAdd == 2 && nAdd >= 1 {
			r.ok("P4", key, p.pos(fn.Decl), "nodeCount[node] = deployed; nodeCount[node] += in-progress")
		} else {
			r.bad("P4", key, p.pos(fn.Decl), fmt.Sprintf("count is not the sum of exactly the deployed and the in-progress counts (sources %v from %v)", srcs, def))
		}
		// read order: the deployed records are read BEFORE the in-progress markers. An instance moves from marker to
		// record in one atomic step; reading the records first can miss it for a moment (never more than prior + planned),
		// reading the markers first counts it twice.
		key2 := nm + " / the deployed records are read before the in-progress markers"
		var firstDeployRead, markerRead ast.Node
		fn.inspectBody(func(n ast.Node) bool {
			c, ok := n.(*ast.CallExpr)
			if !ok || fn.Callee(c) == nil {
				return true
			}
			switch fn.Callee(c).Name() {
			case "Get", "getByKeyPattern", "GetMulti":
				if firstDeployRead == nil {
					firstDeployRead = c
				}
			case "doLoadProcessing":
				markerRead = c
			}
			return true
		})
		switch {
		case firstDeployRead == nil || markerRead == nil:
			r.undecided("P4", key2, p.pos(fn.Decl), "the two reads were not found")
		case fn.dominates(fn.find(firstDeployRead), fn.find(markerRead)) && firstDeployRead.Pos() < markerRead.Pos():
			r.ok("P4", key2, p.pos(markerRead), "the read of the deploy keys dominates doLoadProcessing")
		default:
			r.bad("P4", key2, p.pos(markerRead), "the in-progress markers are read before the deployed records: an instance that is recorded between the two reads (marker decremented and record created in one step) is counted as in progress AND as deployed — the status exceeds prior + planned")
		}
	}
}
